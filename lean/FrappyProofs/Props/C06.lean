import FrappyProofs.Lemmas.Describe
import FrappyProofs.Lemmas.ModuleProps
import FrappyProofs.Props.C04
import FrappyProofs.Props.C03
import FrappyModel.Node.DescribeDT
import FrappyModel.Node.Retype
import FrappyModel.Node.CreateModules
import FrappyModel.Generated.C06
/-
C06 — property theorems (nothing but property theorems and their non-vacuity examples).
-/
namespace Frappy.Props.C06
open Frappy.Node Frappy.Spec.C04 Frappy.Spec.C06 Frappy.Lemmas.Dispatch Frappy.Lemmas.Describe Frappy.Props.C04
open Frappy.Lemmas.ModuleProps

variable {J V : Type}

/-- the names of a module's report are the wire names of its accessibles -/
theorem described_names (pre : Predef) (m : Module J V) (l : List (Acc J V)) :
    (l.filterMap (describeAcc pre m)).map (·.name) = l.filterMap (wireName pre m) := by
  induction l with
  | nil => rfl
  | cons x xs ih =>
    cases hw : wireName pre m x with
    | none => rw [List.filterMap_cons, describeAcc_none pre m x hw, List.filterMap_cons, hw]; exact ih
    | some w =>
      obtain ⟨ad, had, hn⟩ := describeAcc_some pre m x w hw
      rw [List.filterMap_cons, had, List.filterMap_cons, hw, List.map_cons, hn, ih]

/-- **describe_lists_exported.**  The `(module, wire name)` pairs of the report are exactly the exported
accessibles of the exported modules, none of them twice; the modules listed are exactly the exported ones. -/
theorem describe_lists_exported (pre : Predef) (n : Node J V) (hwf : Node.WF pre n) :
    ListsExactly pre n (describe pre n) := by
  refine ⟨?_, ?_, ?_⟩
  · intro m a
    unfold pairsOf describe Exported
    simp only [List.mem_flatMap, List.mem_map, List.mem_filter, Prod.mk.injEq]
    constructor
    · rintro ⟨md, ⟨mod, ⟨hmod, hexp⟩, rfl⟩, ad, had, hname, hadn⟩
      simp only [describeModule, List.mem_filterMap] at had
      obtain ⟨acc, hacc, hd⟩ := had
      have hw := describeAcc_name pre mod acc ad hd
      refine ⟨mod, acc, hmod, hname, hexp, hacc, ?_⟩
      unfold wireName at hw; rw [if_pos hexp] at hw; rw [hw, hadn]
    · rintro ⟨mod, acc, hmod, hname, hexp, hacc, hw⟩
      have hw' : wireName pre mod acc = some a := by unfold wireName; rw [if_pos hexp]; exact hw
      obtain ⟨ad, had, hn⟩ := describeAcc_some pre mod acc a hw'
      refine ⟨describeModule pre mod, ⟨mod, ⟨hmod, hexp⟩, rfl⟩, ad, ?_, hname, hn⟩
      simp only [describeModule, List.mem_filterMap]
      exact ⟨acc, hacc, had⟩
  · unfold pairsOf describe
    show List.Pairwise (· ≠ ·) _
    rw [List.pairwise_flatMap]
    constructor
    · intro md hmd
      obtain ⟨mod, hmod, rfl⟩ := List.mem_map.1 hmd
      have hmem := (List.mem_filter.1 hmod).1
      have hnd := hwf.wires mod hmem
      unfold Module.wiresNodup at hnd
      rw [← described_names pre mod mod.accs] at hnd
      show List.Pairwise (· ≠ ·) ((describeModule pre mod).accs.map _)
      rw [List.pairwise_map]
      have hnd' : List.Pairwise (· ≠ ·) ((mod.accs.filterMap (describeAcc pre mod)).map (·.name)) := hnd
      rw [List.pairwise_map] at hnd'
      exact hnd'.imp (fun hne heq => hne (by injection heq))
    · rw [List.pairwise_map]
      have hn : List.Pairwise (· ≠ ·) (n.map (·.name)) := hwf.names
      rw [List.pairwise_map] at hn
      refine (hn.filter _).imp ?_
      intro x y hxy p hp q hq heq
      simp only [describeModule, List.mem_map] at hp hq
      obtain ⟨_, _, rfl⟩ := hp
      obtain ⟨_, _, rfl⟩ := hq
      injection heq with h1 _
      exact hxy h1
  · intro m
    unfold describe
    simp only [List.map_map, List.mem_map, List.mem_filter, Function.comp]
    constructor
    · rintro ⟨mod, ⟨hmod, hexp⟩, rfl⟩; exact ⟨mod, hmod, rfl, hexp⟩
    · rintro ⟨mod, hmod, rfl, hexp⟩; exact ⟨mod, ⟨hmod, hexp⟩, rfl⟩

/-- **described_is_dispatched.**  What the report says about the parameter `(m, a)` — datainfo, readonly flag,
constant — is read off the very `Param` the dispatcher resolves for `m:a`: one object serves both paths. -/
theorem described_is_dispatched (pre : Predef) (n : Node J V) (hwf : Node.WF pre n) (m a : String) (ad : AccDesc J)
    (h : findDesc (describe pre n) m a = some ad) (hk : ad.kind = .parameter) :
    ∃ mod p, lookupParam pre n m a = .ok (mod, p) ∧ ad.name = a ∧ ad.datainfo = p.dt.datainfo ∧
      ad.readonly = some p.readonly ∧ ad.constant = p.constant.map p.dt.exportV := by
  rw [findDesc_eq pre n hwf.names m a] at h
  cases hf : findModule n m with
  | none => rw [hf] at h; cases h
  | some mod =>
    rw [hf] at h; simp only at h
    cases he : mod.exported with
    | false => rw [he] at h; cases h
    | true =>
      rw [he] at h; simp only [if_true] at h
      cases hw : findWire pre mod a with
      | none => rw [hw] at h; cases h
      | some acc =>
        rw [hw] at h; simp only [Option.bind_some] at h
        have hwn : wireName pre mod acc = some a := by
          unfold findWire at hw; simpa using List.find?_some hw
        cases acc with
        | command c =>
          rw [describeAcc_command pre mod c a hwn] at h; injection h with h; subst h; cases hk
        | param p =>
          rw [describeAcc_param pre mod p a hwn] at h; injection h with h; subst h
          refine ⟨mod, p, ?_, rfl, rfl, rfl, rfl⟩
          unfold lookupParam; rw [hf]; simp only; unfold findParam; rw [hw]

/-- a parameter the report calls read-only refuses every change with ReadOnly and without any effect -/
theorem flags_predict_readonly (pre : Predef) (env : Env V) (n : Node J V) (hwf : Node.WF pre n) (m a : String)
    (ad : AccDesc J) (h : findDesc (describe pre n) m a = some ad) (hro : ad.readonly = some true) (j : J) :
    handleChange pre env n (.full m a) j = ⟨.error .readOnly, [], [], n⟩ := by
  have hk : ad.kind = .parameter := by
    rw [findDesc_eq pre n hwf.names m a] at h
    cases hf : findModule n m with
    | none => rw [hf] at h; cases h
    | some mod =>
      rw [hf] at h; simp only at h
      split at h
      · cases hw : findWire pre mod a with
        | none => rw [hw] at h; cases h
        | some acc =>
          rw [hw] at h; simp only [Option.bind_some] at h
          have hwn := describeAcc_name pre mod acc ad h
          cases acc with
          | param p => rw [describeAcc_param pre mod p _ hwn] at h; injection h with h; rw [← h]
          | command c =>
            rw [describeAcc_command pre mod c _ hwn] at h; injection h with h; rw [← h] at hro; cases hro
      · cases h
  obtain ⟨mod, p, hl, _, _, hr, _⟩ := described_is_dispatched pre n hwf m a ad h hk
  rw [hro] at hr; injection hr with hr
  exact fitting_readOnly pre env n hwf (.full m a) j m a rfl mod p (exported_of_lookupParam pre n m a mod p hl)
    (Or.inl hr.symm)

/-- a parameter the report calls writable: a change nothing objects to is carried out (it reaches the write wrapper) -/
theorem flags_predict_writable (pre : Predef) (env : Env V) (n : Node J V) (hwf : Node.WF pre n) (m a : String)
    (ad : AccDesc J) (h : findDesc (describe pre n) m a = some ad) (hro : ad.readonly = some false) (j : J) :
    ∃ mod p, lookupParam pre n m a = .ok (mod, p) ∧ p.readonly = false ∧ p.constant = none ∧
      ∀ v w, p.dt.accept j (some p.entry.value) = .ok v → (p.isLimitsPair = true → pairInverted env v = false) →
        p.dt.revalidate v = .ok w → ChecksOK env mod p.attr v p.checks →
        handleChange pre env n (.full m a) j = finishWrite pre env n mod p v w := by
  have hk : ad.kind = .parameter := by
    rw [findDesc_eq pre n hwf.names m a] at h
    cases hf : findModule n m with
    | none => rw [hf] at h; cases h
    | some mod =>
      rw [hf] at h; simp only at h
      split at h
      · cases hw : findWire pre mod a with
        | none => rw [hw] at h; cases h
        | some acc =>
          rw [hw] at h; simp only [Option.bind_some] at h
          have hwn := describeAcc_name pre mod acc ad h
          cases acc with
          | param p => rw [describeAcc_param pre mod p _ hwn] at h; injection h with h; rw [← h]
          | command c =>
            rw [describeAcc_command pre mod c _ hwn] at h; injection h with h; rw [← h] at hro; cases hro
      · cases h
  obtain ⟨mod, p, hl, _, _, hr, _⟩ := described_is_dispatched pre n hwf m a ad h hk
  rw [hro] at hr; injection hr with hr
  have hc : p.constant = none := by
    cases hc : p.constant with
    | none => rfl
    | some c =>
      have hex := exported_of_lookupParam pre n m a mod p hl
      have := hwf.constRO mod hex.1 (.param p) hex.2.2.2.1 p rfl (by rw [hc]; rfl)
      rw [this] at hr; cases hr
  refine ⟨mod, p, hl, hr.symm, hc, ?_⟩
  intro v w hacc hord hrev hchk
  have hadm := (Frappy.Props.C04.admitChange_ok_iff env mod p j v w).2 ⟨hr.symm, hc, hacc, hord, hrev, hchk⟩
  unfold handleChange
  simp only [target]; rw [hl]; simp only; rw [hadm]

/-- **flags_predict.**  For a described parameter that has at least one acceptable payload: the report says
`readonly` if and only if every change is refused with ReadOnly (and has no effect). -/
theorem flags_predict (pre : Predef) (n : Node J V) (hwf : Node.WF pre n) (m a : String)
    (ad : AccDesc J) (h : findDesc (describe pre n) m a = some ad) (hk : ad.kind = .parameter)
    (hsome : ∀ mod p, lookupParam pre n m a = .ok (mod, p) →
      ∃ (env : Env V) (j : J) (v w : V), p.dt.accept j (some p.entry.value) = .ok v ∧
        (p.isLimitsPair = true → pairInverted env v = false) ∧ p.dt.revalidate v = .ok w ∧
        ChecksOK env mod p.attr v p.checks) :
    ad.readonly = some true ↔
      ∀ (env : Env V) (j : J), handleChange pre env n (.full m a) j = ⟨.error .readOnly, [], [], n⟩ := by
  constructor
  · intro hro env j; exact flags_predict_readonly pre env n hwf m a ad h hro j
  · intro hall
    obtain ⟨mod, p, hl, _, _, hr, _⟩ := described_is_dispatched pre n hwf m a ad h hk
    cases hb : p.readonly with
    | true => rw [hr, hb]
    | false =>
      exfalso
      obtain ⟨env, j, v, w, hacc, hord, hrev, hchk⟩ := hsome mod p hl
      obtain ⟨mod', p', hl', _, _, hfin⟩ := flags_predict_writable pre env n hwf m a ad h (by rw [hr, hb]) j
      rw [hl] at hl'; injection hl' with hl'; injection hl' with h1 h2; subst h1; subst h2
      have heq := hfin v w hacc hord hrev hchk
      rw [hall env j] at heq
      have hcalls := congrArg Outcome.calls heq
      have hreply := congrArg Outcome.reply heq
      rw [finishWrite_calls] at hcalls
      cases hw : p.hasWrite with
      | true => rw [hw] at hcalls; simp at hcalls
      | false =>
        unfold finishWrite at hreply
        rw [hw] at hreply
        simp [store] at hreply


/-- **constant_reads.**  A parameter described with a constant reads as exactly that constant, whatever the
driver would do (it is not asked), and nothing changes. -/
theorem constant_reads (pre : Predef) (env : Env V) (n : Node J V) (hwf : Node.WF pre n) (m a : String)
    (ad : AccDesc J) (h : findDesc (describe pre n) m a = some ad) (c : J) (hc : ad.constant = some c) :
    handleRead pre env n (.full m a) false = ⟨.read c, [], [], n⟩ := by
  have hk : ad.kind = .parameter := by
    rw [findDesc_eq pre n hwf.names m a] at h
    cases hf : findModule n m with
    | none => rw [hf] at h; cases h
    | some mod =>
      rw [hf] at h; simp only at h
      split at h
      · cases hw : findWire pre mod a with
        | none => rw [hw] at h; cases h
        | some acc =>
          rw [hw] at h; simp only [Option.bind_some] at h
          have hwn := describeAcc_name pre mod acc ad h
          cases acc with
          | param p => rw [describeAcc_param pre mod p _ hwn] at h; injection h with h; rw [← h]
          | command c' =>
            rw [describeAcc_command pre mod c' _ hwn] at h; injection h with h; rw [← h] at hc; cases hc
      · cases h
  obtain ⟨mod, p, hl, _, _, _, hcon⟩ := described_is_dispatched pre n hwf m a ad h hk
  rw [hc] at hcon
  unfold handleRead
  simp only [Bool.false_eq_true, if_false, target]
  rw [hl]; simp only
  unfold readParam
  cases hpc : p.constant with
  | none => rw [hpc] at hcon; cases hcon
  | some c0 => rw [hpc] at hcon; simp only [Option.map_some] at hcon; injection hcon with hcon; rw [hcon]

/-- an accessible that is not in the report has no wire name the dispatcher could find -/
theorem findWire_none_of_undescribed (pre : Predef) (n : Node J V) (hwf : Node.WF pre n) (m a : String)
    (h : findDesc (describe pre n) m a = none) (mod : Module J V) (hf : findModule n m = some mod) :
    findWire pre mod a = none := by
  rw [findDesc_eq pre n hwf.names m a, hf] at h
  simp only at h
  cases he : mod.exported with
  | false =>
    unfold findWire; rw [List.find?_eq_none]; intro x _
    simp [wireName, he]
  | true =>
    rw [he] at h; simp only [if_true] at h
    cases hw : findWire pre mod a with
    | none => rfl
    | some acc =>
      rw [hw] at h; simp only [Option.bind_some] at h
      have hwn : wireName pre mod acc = some a := by
        unfold findWire at hw; simpa using List.find?_some hw
      obtain ⟨ad, had, _⟩ := describeAcc_some pre mod acc a hwn
      rw [had] at h; cases h

/-- **undescribed_unreachable.**  Whatever is not in the report can neither be read, changed, executed nor
subscribed: the answer is a `NoSuch…` error, no driver is called, the node is unchanged, nothing is subscribed. -/
theorem undescribed_unreachable (pre : Predef) (env : Env V) (n : Node J V) (hwf : Node.WF pre n) (m a : String)
    (h : findDesc (describe pre n) m a = none) (j : J) (data : Option J) :
    (∃ cls, handleChange pre env n (.full m a) j = ⟨.error cls, [], [], n⟩ ∧ (cls = .noSuchModule ∨ cls = .noSuchParameter)) ∧
    (∃ cls, handleRead pre env n (.full m a) false = ⟨.error cls, [], [], n⟩ ∧ (cls = .noSuchModule ∨ cls = .noSuchParameter)) ∧
    (∃ cls, handleDo pre env n (.full m a) data = ⟨.error cls, [], [], n⟩ ∧ (cls = .noSuchModule ∨ cls = .noSuchCommand)) ∧
    (∃ cls, activateRefusal pre n (.full m a) = some cls ∧ (cls = .noSuchModule ∨ cls = .noSuchParameter)) := by
  cases hf : findModule n m with
  | none =>
    refine ⟨⟨.noSuchModule, ?_, Or.inl rfl⟩, ⟨.noSuchModule, ?_, Or.inl rfl⟩, ⟨.noSuchModule, ?_, Or.inl rfl⟩,
      ⟨.noSuchModule, ?_, Or.inl rfl⟩⟩
    · simp [handleChange, target, lookupParam, hf, refuse, mkErr]
    · simp [handleRead, target, lookupParam, hf, refuse, mkErr]
    · simp [handleDo, targetDo, lookupCommand, hf, refuse, mkErr]
    · simp [activateRefusal, hf]
  | some mod =>
    have hw := findWire_none_of_undescribed pre n hwf m a h mod hf
    refine ⟨⟨.noSuchParameter, ?_, Or.inr rfl⟩, ⟨.noSuchParameter, ?_, Or.inr rfl⟩, ⟨.noSuchCommand, ?_, Or.inr rfl⟩, ?_⟩
    · simp [handleChange, target, lookupParam, hf, findParam, hw, refuse, mkErr]
    · simp [handleRead, target, lookupParam, hf, findParam, hw, refuse, mkErr]
    · simp [handleDo, targetDo, lookupCommand, hf, findCommand, hw, refuse, mkErr]
    · cases he : mod.exported with
      | true => exact ⟨.noSuchParameter, by simp [activateRefusal, hf, he, findParam, hw], Or.inr rfl⟩
      | false => exact ⟨.noSuchModule, by simp [activateRefusal, hf, he], Or.inl rfl⟩

/-- a module that is not in the report cannot be addressed at all -/
theorem undescribed_module_unreachable (pre : Predef) (env : Env V) (n : Node J V) (hwf : Node.WF pre n) (m : String)
    (h : m ∉ (describe pre n).map (·.name)) (a : String) :
    findDesc (describe pre n) m a = none ∧ activateRefusal pre n (.bare m) = some .noSuchModule := by
  have hnot : ¬ ∃ mod ∈ n, mod.name = m ∧ mod.exported = true := fun hx =>
    h (((describe_lists_exported pre n hwf).2.2 m).2 hx)
  constructor
  · rw [findDesc_eq pre n hwf.names m a]
    cases hf : findModule n m with
    | none => rfl
    | some mod =>
      simp only
      cases he : mod.exported with
      | false => rfl
      | true =>
        exfalso; apply hnot
        unfold findModule at hf
        exact ⟨mod, List.mem_of_find?_eq_some hf, by simpa using List.find?_some hf, he⟩
  · simp only [activateRefusal]
    cases hf : findModule n m with
    | none => rfl
    | some mod =>
      simp only
      cases he : mod.exported with
      | false => simp
      | true =>
        exfalso; apply hnot
        unfold findModule at hf
        exact ⟨mod, List.mem_of_find?_eq_some hf, by simpa using List.find?_some hf, he⟩

/-! ### stability -/

theorem describeAcc_setEntry (pre : Predef) (m : Module J V) (attr : String) (e : Entry V) (a : Acc J V) :
    describeAcc pre (m.setEntry attr e) (Acc.setEntry attr e a) = describeAcc pre m a := by
  unfold describeAcc
  rw [wireName_setEntry]
  cases wireName pre m a with
  | none => rfl
  | some w =>
    cases a with
    | command c => rfl
    | param p =>
      simp only [Acc.setEntry]
      by_cases hb : (p.attr == attr) = true
      · rw [if_pos hb]
      · rw [if_neg hb]

theorem describeModule_updMod (pre : Predef) (mod attr : String) (e : Entry V) (m : Module J V) :
    describeModule pre (updMod mod attr e m) = describeModule pre m := by
  unfold updMod
  split
  · unfold describeModule
    show ModDesc.mk m.name ((m.accs.map (Acc.setEntry attr e)).filterMap (describeAcc pre (m.setEntry attr e))) m.props = _
    rw [List.filterMap_map]
    congr 1
    congr 1
    funext a
    exact describeAcc_setEntry pre m attr e a
  · rfl

theorem describe_setEntry (pre : Predef) (n : Node J V) (mod attr : String) (e : Entry V) :
    describe pre (setEntry n mod attr e) = describe pre n := by
  rw [setEntry_eq_map]
  unfold describe
  rw [List.filter_map, List.map_map]
  have h1 : ((fun m : Module J V => m.exported) ∘ updMod mod attr e) = (fun m : Module J V => m.exported) := by
    funext m; simp
  have h2 : (describeModule (J := J) (V := V) pre ∘ updMod mod attr e) = describeModule (J := J) (V := V) pre := by
    funext m; exact describeModule_updMod pre mod attr e m
  rw [h1, h2]

/-- **describe_stable.**  No request (change, do, read — anything that is not a configuration change) alters
the report; hence it is the same after any history. -/
theorem describe_stable (pre : Predef) (n : Node J V) (h : List (Env V × Request J V)) :
    describe pre (finalNode pre n h) = describe pre n := by
  induction h generalizing n with
  | nil => rfl
  | cons er rest ih =>
    obtain ⟨env, r⟩ := er
    show describe pre (finalNode pre (step pre env n r).node rest) = _
    rw [ih]
    rcases step_node pre env n r with h | ⟨mod, attr, e, h⟩
    · rw [h]
    · rw [h]; exact describe_setEntry pre n mod attr e

/-! ### emitted values, relative to the datatype oracle -/

/-- `v` came out of the parameter's own datatype (validate / convert) -/
def Validated (dt : DtOps J V) (v : V) : Prop :=
  (∃ j prev, dt.accept j prev = .ok v) ∨ (∃ x, dt.revalidate x = .ok v) ∨ (∃ r, dt.convert r = .ok v)

theorem announce_mem (pre : Predef) (mod : Module J V) (p : Param J V) (v : V) (msg : Msg J)
    (h : msg ∈ announce pre mod p v) :
    ∃ w, wireName pre mod (.param p) = some w ∧ msg = .update mod.name w (p.dt.exportV v) := by
  unfold announce at h
  split at h
  · rename_i w hw; simp only [List.mem_singleton] at h; exact ⟨w, hw, h⟩
  · cases h

/-- the datatype-oracle law C01–C03 establish for the real datatypes, stated for the parameters OF THIS NODE: a client
datatype rebuilt from the datainfo of a parameter imports the export of every value that parameter's datatype produced.
(Stated for all conceivable `DtOps` it could only be satisfied by a client that imports everything.) -/
def ImportLaw (clientImports : J → J → Bool) (n : Node J V) : Prop :=
  ∀ mod ∈ n, ∀ p, Acc.param p ∈ mod.accs → ∀ v, Validated p.dt v → clientImports p.dt.datainfo (p.dt.exportV v) = true

/-- … and the law for acceptance: the client datatype accepts exactly the payloads the parameter's own datatype accepts -/
def AcceptLaw (clientAccepts : J → J → Bool) (n : Node J V) : Prop :=
  ∀ mod ∈ n, ∀ p, Acc.param p ∈ mod.accs → ∀ j prev, clientAccepts p.dt.datainfo j = true ↔ ∃ v, p.dt.accept j prev = .ok v

/-- storing a cache entry does not touch any datatype: the law carries over -/
theorem importLaw_setEntry (clientImports : J → J → Bool) (n : Node J V) (mod attr : String) (e : Entry V)
    (h : ImportLaw clientImports n) : ImportLaw clientImports (setEntry n mod attr e) := by
  intro m' hm' p' hp' v hv
  rw [setEntry_eq_map] at hm'
  obtain ⟨m0, hm0, rfl⟩ := List.mem_map.1 hm'
  obtain ⟨a, ha, hx | hx⟩ := updMod_acc mod attr e m0 (.param p') hp'
  · exact h m0 hm0 p' (hx ▸ ha) v hv
  · cases a with
    | command c => simp [Acc.setEntry] at hx
    | param p0 =>
      simp only [Acc.setEntry] at hx
      by_cases hb : (p0.attr == attr) = true
      · rw [if_pos hb] at hx; injection hx with hx; subst hx
        exact h m0 hm0 p0 ha v hv
      · rw [if_neg hb] at hx; injection hx with hx; subst hx
        exact h m0 hm0 p' ha v hv

theorem importLaw_step (pre : Predef) (env : Env V) (clientImports : J → J → Bool) (n : Node J V) (r : Request J V)
    (h : ImportLaw clientImports n) : ImportLaw clientImports (step pre env n r).node := by
  rcases step_node pre env n r with hn | ⟨mod, attr, e, hn⟩
  · rw [hn]; exact h
  · rw [hn]; exact importLaw_setEntry clientImports n mod attr e h

/-- every value update a `change` emits is the export of a value validated by the datatype of the described
parameter it is emitted for -/
theorem change_emits_validated (pre : Predef) (env : Env V) (n : Node J V) (hwf : Node.WF pre n) (spec : Spec) (j : J)
    (msg : Msg J) (h : msg ∈ (handleChange pre env n spec j).emits) :
    ∃ mod p w v, mod ∈ n ∧ Acc.param p ∈ mod.accs ∧ wireName pre mod (.param p) = some w ∧
      msg = .update mod.name w (p.dt.exportV v) ∧ Validated p.dt v := by
  have hv := handleChange_verdict pre env n hwf spec j
  cases hvd : changeVerdict pre env n spec j with
  | refuse cls => rw [hvd] at hv; simp only at hv; rw [hv] at h; cases h
  | allowDo _ _ _ => rw [hvd] at hv; exact hv.elim
  | allow m0 a0 hw v w0 =>
    rw [hvd] at hv
    obtain ⟨mod, p, hmem, _, _, _, ⟨m', a', _, hlook⟩, hadm, heq⟩ := hv
    have hex := exported_of_lookupParam pre n m' a' mod p hlook
    obtain ⟨_, _, hacc, _, hrev, _⟩ := (admitChange_ok_iff env mod p j v w0).1 hadm
    rw [heq] at h
    unfold finishWrite at h
    split at h
    · simp only at h
      split at h
      · cases h
      · cases h
      · obtain ⟨w, hw, hm⟩ := announce_mem pre mod p v msg h
        exact ⟨mod, p, w, v, hmem, hex.2.2.2.1, hw, hm, Or.inl ⟨_, _, hacc⟩⟩
      · split at h
        · cases h
        · rename_i x _ y hy
          obtain ⟨w, hw, hm⟩ := announce_mem pre mod p y msg h
          exact ⟨mod, p, w, y, hmem, hex.2.2.2.1, hw, hm, Or.inr (Or.inl ⟨_, hy⟩)⟩
    · obtain ⟨w, hw, hm⟩ := announce_mem pre mod p w0 msg h
      exact ⟨mod, p, w, w0, hmem, hex.2.2.2.1, hw, hm, Or.inr (Or.inl ⟨_, hrev⟩)⟩

/-- **emits_importable** (relative to the datatype oracle).  Assume the law C01–C03 establish for the real
datatypes: a client datatype rebuilt from the described datainfo imports the export of every validated value.
Then every value update a `change` emits can be imported with the datainfo the report gives for that name. -/
theorem emits_importable (pre : Predef) (env : Env V) (n : Node J V) (hwf : Node.WF pre n)
    (clientImports : J → J → Bool) (law : ImportLaw clientImports n)
    (spec : Spec) (j : J) (m w : String) (jv : J)
    (h : Msg.update m w jv ∈ (handleChange pre env n spec j).emits) :
    ∃ ad, findDesc (describe pre n) m w = some ad ∧ clientImports ad.datainfo jv = true := by
  obtain ⟨mod, p, w', v, hmem, hacc, hw, hm, hval⟩ := change_emits_validated pre env n hwf spec j _ h
  injection hm with h1 h2 h3
  subst h1; subst h2; subst h3
  refine ⟨⟨w, .parameter, p.dt.datainfo, some p.readonly, p.constant.map p.dt.exportV, p.props, none⟩, ?_, law mod hmem p hacc v hval⟩
  rw [findDesc_eq pre n hwf.names mod.name w, findModule_of_mem pre n hwf mod hmem]
  simp only
  have hexp : mod.exported = true := by
    unfold wireName at hw; split at hw
    · assumption
    · cases hw
  rw [hexp]; simp only [if_true]
  have := find?_of_nodup_filterMap (wireName pre mod) mod.accs (hwf.wires mod hmem) (.param p) hacc w hw
  unfold findWire; rw [this]; simp only [Option.bind_some]
  exact describeAcc_param pre mod p w hw

/-- the same for `read`: an update emitted by a read is either an error report or the export of a value the
datatype of the described parameter produced (`datatype(raw)`) -/
theorem read_emits_validated (pre : Predef) (env : Env V) (n : Node J V) (spec : Spec) (hd : Bool)
    (msg : Msg J) (h : msg ∈ (handleRead pre env n spec hd).emits) :
    (∃ m w c, msg = .errorUpdate m w c) ∨
    ∃ mod p w v, mod ∈ n ∧ Acc.param p ∈ mod.accs ∧ wireName pre mod (.param p) = some w ∧
      msg = .update mod.name w (p.dt.exportV v) ∧ Validated p.dt v := by
  have hfail : ∀ (mod : Module J V) (p : Param J V) (e : Node.Err) (calls : List (DriverCall V)),
      msg ∈ (readFailed pre n mod p e calls).emits → ∃ m w c, msg = .errorUpdate m w c := by
    intro mod p e calls hm
    unfold readFailed at hm
    split at hm
    · cases hm
    · simp only at hm
      split at hm
      · simp only [List.mem_singleton] at hm; exact ⟨_, _, _, hm⟩
      · cases hm
  unfold handleRead at h
  split at h
  · cases h
  · split at h
    · cases h
    · split at h
      · cases h
      · rename_i m a mod p hl
        have hex := exported_of_lookupParam pre n _ _ mod p hl
        unfold readParam at h
        split at h
        · cases h
        · split at h
          · simp only at h
            split at h
            · cases h
            · exact Or.inl (hfail _ _ _ _ h)
            · split at h
              · exact Or.inl (hfail _ _ _ _ h)
              · rename_i v hv
                obtain ⟨w, hw, hm⟩ := announce_mem pre mod p v msg h
                exact Or.inr ⟨mod, p, w, v, hex.1, hex.2.2.2.1, hw, hm, Or.inr (Or.inr ⟨_, hv⟩)⟩
          · cases h

/-- every value update any request emits is the export of a validated value of the described parameter it names -/
theorem step_emits_validated (pre : Predef) (env : Env V) (n : Node J V) (hwf : Node.WF pre n) (r : Request J V)
    (m w : String) (jv : J) (h : Msg.update m w jv ∈ (step pre env n r).emits) :
    ∃ mod p v, mod ∈ n ∧ mod.name = m ∧ Acc.param p ∈ mod.accs ∧ wireName pre mod (.param p) = some w ∧
      jv = p.dt.exportV v ∧ Validated p.dt v := by
  cases r with
  | change spec j =>
    obtain ⟨mod, p, w', v, hmem, hacc, hw, hm, hval⟩ := change_emits_validated pre env n hwf spec j _ h
    injection hm with h1 h2 h3
    exact ⟨mod, p, v, hmem, h1.symm, hacc, h2 ▸ hw, h3, hval⟩
  | do_ spec data =>
    have : (step pre env n (.do_ spec data)).emits = [] := by
      simp only [step]; unfold handleDo
      split
      · rfl
      · split
        · rfl
        · split
          · rfl
          · exact (finishDo_calls ..).2.2
    rw [this] at h; cases h
  | read spec hd =>
    rcases read_emits_validated pre env n spec hd _ h with ⟨_, _, _, he⟩ | ⟨mod, p, w', v, hmem, hacc, hw, hm, hval⟩
    · cases he
    · injection hm with h1 h2 h3
      exact ⟨mod, p, v, hmem, h1.symm, hacc, h2 ▸ hw, h3, hval⟩
  | assign m' attr raw =>
    simp only [step] at h
    unfold handleAssign at h
    split at h
    · cases h
    · rename_i mod hf
      split at h
      · rename_i p hp
        have hmem : mod ∈ n := by unfold findModule at hf; exact List.mem_of_find?_eq_some hf
        have hacc : Acc.param p ∈ mod.accs := List.mem_of_find?_eq_some hp
        split at h
        · rename_i e _
          exfalso
          simp only at h
          unfold readFailed at h
          split at h
          · cases h
          · simp only at h
            split at h
            · simp only [List.mem_singleton] at h; cases h
            · cases h
        · rename_i v hv
          obtain ⟨w', hw, hm⟩ := announce_mem pre mod p v _ h
          injection hm with h1 h2 h3
          exact ⟨mod, p, v, hmem, h1.symm, hacc, h2 ▸ hw, h3, Or.inr (Or.inr ⟨_, hv⟩)⟩
      · cases h

theorem describe_step (pre : Predef) (env : Env V) (n : Node J V) (r : Request J V) :
    describe pre (step pre env n r).node = describe pre n := by
  rcases step_node pre env n r with h | ⟨mod, attr, e, h⟩
  · rw [h]
  · rw [h]; exact describe_setEntry pre n mod attr e

/-- **emits_importable, all requests, all histories** (relative to the datatype oracle law).  Every value update
emitted at any point of any history — by a `change` or by a `read` — can be imported with the datainfo that the
report (taken at any time: it is stable) gives for the name the update carries. -/
theorem emits_importable_history (pre : Predef) (clientImports : J → J → Bool)
    (n : Node J V) (hwf : Node.WF pre n) (law : ImportLaw clientImports n) (h : List (Env V × Request J V))
    (o : Outcome J V) (ho : o ∈ run pre n h) (m w : String) (jv : J) (hm : Msg.update m w jv ∈ o.emits) :
    ∃ ad, findDesc (describe pre n) m w = some ad ∧ clientImports ad.datainfo jv = true := by
  induction h generalizing n with
  | nil => cases ho
  | cons er rest ih =>
    obtain ⟨env, r⟩ := er
    simp only [run, List.mem_cons] at ho
    rcases ho with rfl | ho
    · obtain ⟨mod, p, v, hmem, hname, hacc, hw, hjv, hval⟩ := step_emits_validated pre env n hwf r m w jv hm
      subst hname; subst hjv
      refine ⟨⟨w, .parameter, p.dt.datainfo, some p.readonly, p.constant.map p.dt.exportV, p.props, none⟩, ?_, law mod hmem p hacc v hval⟩
      rw [findDesc_eq pre n hwf.names mod.name w, findModule_of_mem pre n hwf mod hmem]
      simp only
      have hexp : mod.exported = true := by
        unfold wireName at hw; split at hw
        · assumption
        · cases hw
      rw [hexp]; simp only [if_true]
      have := find?_of_nodup_filterMap (wireName pre mod) mod.accs (hwf.wires mod hmem) (.param p) hacc w hw
      unfold findWire; rw [this]; simp only [Option.bind_some]
      exact describeAcc_param pre mod p w hw
    · have := ih (step pre env n r).node (wf_step pre env n hwf r) (importLaw_step pre env clientImports n r law) ho
      rw [describe_step] at this
      exact this

/-! ### the cache holds validated values only — read replies and snapshots -/

/-- every cached value and every constant came out of the parameter's own datatype -/
def CacheValid (n : Node J V) : Prop :=
  ∀ mod ∈ n, ∀ p, Acc.param p ∈ mod.accs →
    Validated p.dt p.entry.value ∧ ∀ c, p.constant = some c → Validated p.dt c

/-- a request leaves the node alone, or stores for ONE parameter a value its datatype produced (or its old value) -/
def StoresValid (n n' : Node J V) : Prop :=
  n' = n ∨ ∃ mod p e, mod ∈ n ∧ Acc.param p ∈ mod.accs ∧ n' = setEntry n mod.name p.attr e ∧
    (Validated p.dt e.value ∨ e.value = p.entry.value)

theorem unique_of_nodup_map {α β : Type} (f : α → β) (l : List α) (h : (l.map f).Nodup) (x y : α) (hx : x ∈ l) (hy : y ∈ l)
    (hxy : f x = f y) : x = y := by
  induction l with
  | nil => cases hx
  | cons a as ih =>
    rw [List.map_cons, List.nodup_cons] at h
    rcases List.mem_cons.1 hx with rfl | hx' <;> rcases List.mem_cons.1 hy with rfl | hy'
    · rfl
    · exact absurd (hxy ▸ List.mem_map_of_mem hy') h.1
    · exact absurd (hxy ▸ List.mem_map_of_mem hx') h.1
    · exact ih h.2 hx' hy'

theorem cacheValid_of_storesValid (pre : Predef) (n n' : Node J V) (hwf : Node.WF pre n) (hc : CacheValid n)
    (h : StoresValid n n') : CacheValid n' := by
  rcases h with rfl | ⟨mod, p, e, hmod, hp, rfl, hval⟩
  · exact hc
  · intro m' hm' p' hp'
    rw [setEntry_eq_map] at hm'
    obtain ⟨m0, hm0, rfl⟩ := List.mem_map.1 hm'
    unfold updMod at hp'
    by_cases hname : (m0.name == mod.name) = true
    · rw [if_pos hname] at hp'
      have hm : m0 = mod := unique_of_nodup_map (fun m : Module J V => m.name) n hwf.names m0 mod hm0 hmod (by simpa using hname)
      subst hm
      simp only [Module.setEntry, List.mem_map] at hp'
      obtain ⟨a0, ha0, ha0'⟩ := hp'
      cases a0 with
      | command c => simp [Acc.setEntry] at ha0'
      | param p0 =>
        simp only [Acc.setEntry] at ha0'
        by_cases hattr : (p0.attr == p.attr) = true
        · rw [if_pos hattr] at ha0'
          injection ha0' with ha0'; subst ha0'
          have hpp : Acc.param p0 = Acc.param p :=
            unique_of_nodup_map Acc.attr m0.accs (hwf.attrs m0 hm0) _ _ ha0 hp (by simpa [Acc.attr] using hattr)
          injection hpp with hpp; subst hpp
          refine ⟨?_, (hc m0 hm0 p0 hp).2⟩
          rcases hval with hv | hv
          · exact hv
          · simp only; rw [hv]; exact (hc m0 hm0 p0 hp).1
        · rw [if_neg hattr] at ha0'
          injection ha0' with ha0'; subst ha0'
          exact hc m0 hm0 p0 ha0
    · rw [if_neg hname] at hp'
      exact hc m0 hm0 p' hp'

theorem storesValid_store (pre : Predef) (n : Node J V) (mod : Module J V) (p : Param J V) (v : V)
    (calls : List (DriverCall V)) (mk : J → Reply J) (hmod : mod ∈ n) (hp : Acc.param p ∈ mod.accs) (hv : Validated p.dt v) :
    StoresValid n (store pre n mod p v calls mk).node :=
  Or.inr ⟨mod, p, ⟨v, none⟩, hmod, hp, rfl, Or.inl hv⟩

theorem storesValid_readFailed (pre : Predef) (n : Node J V) (mod : Module J V) (p : Param J V) (e : Node.Err)
    (calls : List (DriverCall V)) (hmod : mod ∈ n) (hp : Acc.param p ∈ mod.accs) :
    StoresValid n (readFailed pre n mod p e calls).node := by
  unfold readFailed; split
  · exact Or.inl rfl
  · exact Or.inr ⟨mod, p, ⟨p.entry.value, some e⟩, hmod, hp, rfl, Or.inr rfl⟩

theorem storesValid_step (pre : Predef) (env : Env V) (n : Node J V) (hwf : Node.WF pre n) (r : Request J V) :
    StoresValid n (step pre env n r).node := by
  cases r with
  | do_ spec data => exact Or.inl (handleDo_node ..)
  | change spec j =>
    simp only [step]
    have hv := handleChange_verdict pre env n hwf spec j
    cases hvd : changeVerdict pre env n spec j with
    | refuse cls => rw [hvd] at hv; simp only at hv; rw [hv]; exact Or.inl rfl
    | allowDo _ _ _ => rw [hvd] at hv; exact hv.elim
    | allow m0 a0 hw v w0 =>
      rw [hvd] at hv
      obtain ⟨mod, p, hmem, _, _, _, ⟨m', a', _, hlook⟩, hadm, heq⟩ := hv
      have hex := exported_of_lookupParam pre n m' a' mod p hlook
      obtain ⟨_, _, hacc, _, hrev, _⟩ := (admitChange_ok_iff env mod p j v w0).1 hadm
      rw [heq]
      unfold finishWrite
      split
      · simp only
        split
        · exact Or.inl rfl
        · exact Or.inl rfl
        · exact storesValid_store pre n mod p v _ _ hmem hex.2.2.2.1 (Or.inl ⟨_, _, hacc⟩)
        · split
          · exact Or.inl rfl
          · rename_i y hy
            exact storesValid_store pre n mod p y _ _ hmem hex.2.2.2.1 (Or.inr (Or.inl ⟨_, hy⟩))
      · exact storesValid_store pre n mod p w0 _ _ hmem hex.2.2.2.1 (Or.inr (Or.inl ⟨_, hrev⟩))
  | read spec hd =>
    simp only [step]
    unfold handleRead
    split
    · exact Or.inl rfl
    · split
      · exact Or.inl rfl
      · split
        · exact Or.inl rfl
        · rename_i m a mod p hl
          have hex := exported_of_lookupParam pre n _ _ mod p hl
          unfold readParam
          split
          · exact Or.inl rfl
          · split
            · simp only
              split
              · exact Or.inl rfl
              · exact storesValid_readFailed pre n mod p _ _ hex.1 hex.2.2.2.1
              · split
                · exact storesValid_readFailed pre n mod p _ _ hex.1 hex.2.2.2.1
                · rename_i v hv
                  exact storesValid_store pre n mod p v _ _ hex.1 hex.2.2.2.1 (Or.inr (Or.inr ⟨_, hv⟩))
            · exact Or.inl rfl
  | assign m attr raw =>
    simp only [step]
    unfold handleAssign
    split
    · exact Or.inl rfl
    · rename_i mod hf
      split
      · rename_i p hp
        have hmem : mod ∈ n := by unfold findModule at hf; exact List.mem_of_find?_eq_some hf
        have hacc : Acc.param p ∈ mod.accs := List.mem_of_find?_eq_some hp
        split
        · exact storesValid_readFailed pre n mod p _ _ hmem hacc
        · rename_i v hv
          exact storesValid_store pre n mod p v _ _ hmem hacc (Or.inr (Or.inr ⟨_, hv⟩))
      · exact Or.inl rfl

/-- **cache_valid.**  Whatever requests are served and whatever the module code assigns — including values its own
datatype refuses — the cache never holds a value the datatype of the parameter did not produce. -/
theorem cache_valid (pre : Predef) (n : Node J V) (hwf : Node.WF pre n) (hc : CacheValid n) (h : List (Env V × Request J V)) :
    CacheValid (finalNode pre n h) := by
  induction h generalizing n with
  | nil => exact hc
  | cons er rest ih =>
    obtain ⟨env, r⟩ := er
    exact ih _ (wf_step pre env n hwf r) (cacheValid_of_storesValid pre n _ hwf hc (storesValid_step pre env n hwf r))

/-- **read_reply_importable** (relative to the datatype oracle law).  With a cache of validated values — which every
history preserves (`cache_valid`) — the value of every read reply (constant, cached value of a parameter without
`read_` method, freshly read value) is importable with the datainfo the report gives for that name.  The snapshot a
new subscriber gets consists of the same exported cache values. -/
theorem read_reply_importable (pre : Predef) (env : Env V) (n : Node J V) (hwf : Node.WF pre n) (hc : CacheValid n)
    (clientImports : J → J → Bool) (law : ImportLaw clientImports n)
    (m a : String) (jv : J) (h : (handleRead pre env n (.full m a) false).reply = .read jv) :
    ∃ ad, findDesc (describe pre n) m a = some ad ∧ clientImports ad.datainfo jv = true := by
  unfold handleRead at h
  simp only [Bool.false_eq_true, if_false, target] at h
  cases hl : lookupParam pre n m a with
  | error e => rw [hl] at h; simp [refuse] at h
  | ok mp =>
    obtain ⟨mod, p⟩ := mp
    rw [hl] at h; simp only at h
    have hex := exported_of_lookupParam pre n m a mod p hl
    have hcv := hc mod hex.1 p hex.2.2.2.1
    have hw : wireName pre mod (.param p) = some a := by simp [wireName, hex.2.2.1, hex.2.2.2.2]
    have hdesc : findDesc (describe pre n) m a =
        some ⟨a, .parameter, p.dt.datainfo, some p.readonly, p.constant.map p.dt.exportV, p.props, none⟩ := by
      rw [findDesc_eq pre n hwf.names m a, ← hex.2.1, findModule_of_mem pre n hwf mod hex.1]
      simp only [hex.2.2.1, if_true]
      have := find?_of_nodup_filterMap (wireName pre mod) mod.accs (hwf.wires mod hex.1) (.param p) hex.2.2.2.1 a hw
      unfold findWire; rw [this]; simp only [Option.bind_some]
      exact describeAcc_param pre mod p a hw
    refine ⟨_, hdesc, ?_⟩
    have key : ∃ v, jv = p.dt.exportV v ∧ Validated p.dt v := by
      unfold readParam at h
      split at h
      · rename_i c hcst; injection h with h; exact ⟨c, h.symm, hcv.2 c hcst⟩
      · split at h
        · simp only at h
          split at h
          · injection h with h; exact ⟨_, h.symm, hcv.1⟩
          · unfold readFailed at h; split at h <;> cases h
          · split at h
            · unfold readFailed at h; split at h <;> cases h
            · rename_i v hv
              simp only [store] at h; injection h with h
              exact ⟨v, h.symm, Or.inr (Or.inr ⟨_, hv⟩)⟩
        · injection h with h; exact ⟨_, h.symm, hcv.1⟩
    obtain ⟨v, rfl, hv⟩ := key
    exact law mod hex.1 p hex.2.2.2.1 v hv

/-- **described_datainfo_equiv** (relative to the datatype oracle).  Assume the C03 law: the client datatype
rebuilt from a datainfo accepts exactly the payloads the original datatype accepts.  Then the described datainfo of
`(m, a)` accepts exactly the payloads the node's own parameter `m:a` accepts — because report and dispatcher use
the same `Param`. -/
theorem described_datainfo_equiv (pre : Predef) (n : Node J V) (hwf : Node.WF pre n)
    (clientAccepts : J → J → Bool) (law : AcceptLaw clientAccepts n)
    (m a : String) (ad : AccDesc J) (h : findDesc (describe pre n) m a = some ad) (hk : ad.kind = .parameter) (j : J) :
    ∃ mod p, lookupParam pre n m a = .ok (mod, p) ∧
      (clientAccepts ad.datainfo j = true ↔ ∃ v, p.dt.accept j (some p.entry.value) = .ok v) := by
  obtain ⟨mod, p, hl, _, hdi, _, _⟩ := described_is_dispatched pre n hwf m a ad h hk
  have hex := exported_of_lookupParam pre n m a mod p hl
  exact ⟨mod, p, hl, by rw [hdi]; exact law mod hex.1 p hex.2.2.2.1 j _⟩

/-- table fact: `datainfo`, `readonly` and `description` are exported for every parameter whatever their value
(`export='always'`), so every parameter entry of a report carries a readonly flag and a datainfo, as `describeAcc` says -/
theorem always_exported : "datainfo" ∈ Frappy.Generated.C06.paramAlways ∧ "readonly" ∈ Frappy.Generated.C06.paramAlways ∧
    "datainfo" ∈ Frappy.Generated.C06.commandAlways := by decide +kernel

/-! ### interface class and features -/

theorem first_base (base : List String) (l : List String) :
    match (l.filter (fun c => base.contains c)).take 1 with
    | [] => ∀ y ∈ l, y ∉ base
    | [x] => x ∈ base ∧ ∃ before after, l = before ++ x :: after ∧ ∀ y ∈ before, y ∉ base
    | _ => False := by
  induction l with
  | nil => simp
  | cons a as ih =>
    by_cases ha : base.contains a = true
    · have : ((a :: as).filter (fun c => base.contains c)).take 1 = [a] := by
        rw [List.filter_cons, if_pos ha]; rfl
      rw [this]
      exact ⟨by simpa using ha, [], as, rfl, by simp⟩
    · have hf : ((a :: as).filter (fun c => base.contains c)).take 1 = (as.filter (fun c => base.contains c)).take 1 := by
        rw [List.filter_cons, if_neg ha]
      rw [hf]
      have han : a ∉ base := by simpa using ha
      generalize (as.filter (fun c => base.contains c)).take 1 = res at ih ⊢
      match res, ih with
      | [], ih => intro y hy; rcases List.mem_cons.1 hy with rfl | h; exact han; exact ih y h
      | [x], ⟨hx, before, after, heq, hb⟩ =>
        refine ⟨hx, a :: before, after, by rw [heq]; rfl, ?_⟩
        intro y hy; rcases List.mem_cons.1 hy with rfl | h; exact han; exact hb y h
      | _ :: _ :: _, ih => exact ih

/-- **class_props_derived.**  What the model derives from the class chain — the interface class and the features —
satisfies the clause "the interface class and features match the implementing class": the interface class is the
highest SECoP base class of the chain (or none), the features are exactly the direct `Feature` mixins. -/
theorem class_props_derived (base : List String) (mro : List ClassInfo) :
    ClassPropsOK base mro (interfaceClassesOf base mro) (featuresOf mro) := by
  refine ⟨?_, rfl⟩
  have h := first_base base (mro.map (·.name))
  unfold interfaceClassesOf
  generalize ((mro.map (·.name)).filter (fun c => base.contains c)).take 1 = res at h ⊢
  match res, h with
  | [], h => intro c hc; exact h c.name (List.mem_map_of_mem hc)
  | [x], h => exact h
  | _ :: _ :: _, h => exact h

/-- the monitor accepts a report only if the clause holds -/
theorem classPropsB_sound (base : List String) (mro : List ClassInfo) (ic feats : List String)
    (h : classPropsB base mro ic feats = true) : ClassPropsOK base mro ic feats := by
  unfold classPropsB at h
  simp only [Bool.and_eq_true, decide_eq_true_eq] at h
  rw [h.1, h.2]; exact class_props_derived base mro

/-- at most one interface class is reported; a feature is reported iff a class of the chain with that name mixes in `Feature` directly -/
theorem interface_le_one (base : List String) (mro : List ClassInfo) : (interfaceClassesOf base mro).length ≤ 1 := by
  unfold interfaceClassesOf; simp [List.length_take]; omega

theorem features_iff (mro : List ClassInfo) (f : String) :
    f ∈ featuresOf mro ↔ ∃ c ∈ mro, c.isFeature = true ∧ c.name = f := by
  unfold featuresOf; simp [List.mem_map, List.mem_filter, and_assoc]

/-- table fact: the generated list of SECoP base classes has no duplicates (re-checked when modulebase.py changes) -/
theorem base_classes_nodup : Frappy.Generated.C06.secopBaseClasses.Nodup := by decide +kernel

/-- non-vacuity: a Drivable with a feature mixin and a non-direct feature subclass -/
example : interfaceClassesOf Frappy.Generated.C06.secopBaseClasses
      [⟨"GenB", false⟩, ⟨"FeatSub", false⟩, ⟨"FeatA", true⟩, ⟨"Drivable", false⟩, ⟨"Writable", false⟩, ⟨"Readable", false⟩,
       ⟨"Module", false⟩, ⟨"object", false⟩] = ["Drivable"] ∧
    featuresOf [⟨"GenB", false⟩, ⟨"FeatSub", false⟩, ⟨"FeatA", true⟩, ⟨"Drivable", false⟩] = ["FeatA"] := by
  decide +kernel

/-! ### commands: the described kind and the described command datainfo are honoured -/

/-- **described_command_is_dispatched.**  What the report says about the command `(m, a)` — its datainfo and whether that
datainfo has an `argument` — is read off the very `Command` the dispatcher resolves for `m:a`. -/
theorem described_command_is_dispatched (pre : Predef) (n : Node J V) (hwf : Node.WF pre n) (m a : String) (ad : AccDesc J)
    (h : findDesc (describe pre n) m a = some ad) (hk : ad.kind = .command) :
    ∃ mod c, lookupCommand pre n m a = .ok (mod, c) ∧ findParam pre mod a = none ∧ findModule n m = some mod ∧
      mod.exported = true ∧ ad.datainfo = c.datainfo ∧ ad.argument = some c.arg.isSome := by
  obtain ⟨mod, acc, hf, he, hw, hwn, hd⟩ := described_resolves pre n hwf.names m a ad h
  cases acc with
  | param p => rw [describeAcc_param pre mod p a hwn] at hd; injection hd with hd; subst hd; cases hk
  | command c =>
    rw [describeAcc_command pre mod c a hwn] at hd; injection hd with hd; subst hd
    refine ⟨mod, c, ?_, ?_, hf, he, rfl, rfl⟩
    · unfold lookupCommand; rw [hf]; simp only; unfold findCommand; rw [hw]
    · unfold findParam; rw [hw]

/-- **kind_honoured.**  The described kind is honoured: a described command can neither be changed, read nor subscribed
(`NoSuchParameter`, no call, node unchanged, refused before subscribing), a described parameter can not be executed. -/
theorem kind_honoured (pre : Predef) (env : Env V) (n : Node J V) (hwf : Node.WF pre n) (m a : String) (ad : AccDesc J)
    (h : findDesc (describe pre n) m a = some ad) (data : Option J) :
    (ad.kind = .command →
      (∀ j, handleChange pre env n (.full m a) j = ⟨.error .noSuchParameter, [], [], n⟩) ∧
      handleRead pre env n (.full m a) false = ⟨.error .noSuchParameter, [], [], n⟩ ∧
      activateRefusal pre n (.full m a) = some .noSuchParameter) ∧
    (ad.kind = .parameter → handleDo pre env n (.full m a) data = ⟨.error .noSuchCommand, [], [], n⟩) := by
  constructor
  · intro hk
    obtain ⟨mod, c, _, hp, hf, he, _, _⟩ := described_command_is_dispatched pre n hwf m a ad h hk
    refine ⟨?_, ?_, ?_⟩
    · intro j; simp [handleChange, target, lookupParam, hf, hp, refuse, mkErr]
    · simp [handleRead, target, lookupParam, hf, hp, refuse, mkErr]
    · simp [activateRefusal, hf, he, hp]
  · intro hk
    obtain ⟨mod, acc, hf, he, hw, hwn, hd⟩ := described_resolves pre n hwf.names m a ad h
    cases acc with
    | command c => rw [describeAcc_command pre mod c a hwn] at hd; injection hd with hd; subst hd; cases hk
    | param p => simp [handleDo, targetDo, lookupCommand, hf, findCommand, hw, refuse, mkErr]

/-- the payloads the NODE accepts for a `do` of the command `c`: none for a command without argument, exactly those its
argument datatype accepts otherwise -/
def NodeAccepts (c : Command J V) (data : Option J) : Prop :=
  match c.arg, data with
  | none, none => True
  | none, some _ => False
  | some _, none => False
  | some ops, some j => ∃ v, ops.accept j = .ok v

/-- a `do` aimed at a described command is decided by `Command.do`'s test of the payload alone: a payload the node accepts
reaches the command function (exactly one call), any other is refused without a call and leaves the node unchanged -/
theorem do_described_command (pre : Predef) (env : Env V) (n : Node J V) (mod : Module J V) (c : Command J V) (m a : String)
    (hl : lookupCommand pre n m a = .ok (mod, c)) (data : Option J) :
    (NodeAccepts c data → ∃ arg, handleDo pre env n (.full m a) data = finishDo env n mod c arg ∧
        (handleDo pre env n (.full m a) data).calls = [DriverCall.cmd mod.name c.attr arg]) ∧
    (¬ NodeAccepts c data → ∃ cls, handleDo pre env n (.full m a) data = ⟨.error cls, [], [], n⟩) := by
  have hdo : handleDo pre env n (.full m a) data =
      match admitDo c data with
      | .error e => refuse n e
      | .ok arg => finishDo env n mod c arg := by
    unfold handleDo; simp only [targetDo]; rw [hl]; rfl
  unfold NodeAccepts
  cases harg : c.arg with
  | none =>
    cases data with
    | none =>
      have : admitDo c none = .ok none := by unfold admitDo; rw [harg]
      rw [hdo, this]
      exact ⟨fun _ => ⟨none, rfl, (finishDo_calls env n mod c none).1⟩, fun h => absurd trivial h⟩
    | some j =>
      have : admitDo c (some j) = .error (mkErr .wrongType) := by unfold admitDo; rw [harg]
      rw [hdo, this]
      exact ⟨fun h => h.elim, fun _ => ⟨_, rfl⟩⟩
  | some ops =>
    cases data with
    | none =>
      have : admitDo c none = .error (mkErr .wrongType) := by unfold admitDo; rw [harg]
      rw [hdo, this]
      exact ⟨fun h => h.elim, fun _ => ⟨_, rfl⟩⟩
    | some j =>
      cases hacc : ops.accept j with
      | error e =>
        have : admitDo c (some j) = .error e := by unfold admitDo; rw [harg]; simp only; rw [hacc]
        rw [hdo, this]
        exact ⟨fun ⟨v, hv⟩ => (by rw [hacc] at hv; cases hv), fun _ => ⟨_, rfl⟩⟩
      | ok v =>
        have : admitDo c (some j) = .ok (some v) := by unfold admitDo; rw [harg]; simp only; rw [hacc]
        rw [hdo, this]
        exact ⟨fun _ => ⟨some v, rfl, (finishDo_calls env n mod c (some v)).1⟩, fun h => absurd (by first | exact ⟨v, hacc⟩ | exact ⟨v, rfl⟩) h⟩

/-- **command_datainfo_equiv** (the clause "each described datainfo accepts and rejects the same payloads as the node itself
does", for commands; relative to the datatype oracle).  Assume the C03 law for the argument datatypes of this node: the argument
datatype a client rebuilds from the datainfo of one of its commands accepts exactly the payloads the command's own argument datatype accepts.  Then the
payloads the DESCRIBED datainfo of `(m, a)` accepts — none if it has no `argument`, those its argument datatype accepts
otherwise — are exactly the payloads for which the node executes the command; every other payload is refused, the command
function is not called and the node is unchanged. -/
theorem command_datainfo_equiv (pre : Predef) (env : Env V) (n : Node J V) (hwf : Node.WF pre n)
    (clientAccepts : J → J → Bool)
    (law : ∀ mod ∈ n, ∀ (c : Command J V), Acc.command c ∈ mod.accs → ∀ ops, c.arg = some ops →
      ∀ j, clientAccepts c.datainfo j = true ↔ ∃ v, ops.accept j = .ok v)
    (m a : String) (ad : AccDesc J) (h : findDesc (describe pre n) m a = some ad) (hk : ad.kind = .command)
    (data : Option J) :
    (describedAccepts clientAccepts ad data = true →
      (handleDo pre env n (.full m a) data).calls ≠ [] ∧ (handleDo pre env n (.full m a) data).node = n) ∧
    (describedAccepts clientAccepts ad data = false →
      ∃ cls, handleDo pre env n (.full m a) data = ⟨.error cls, [], [], n⟩) := by
  obtain ⟨mod, c, hl, _, _, _, hdi, harg⟩ := described_command_is_dispatched pre n hwf m a ad h hk
  have hiff : describedAccepts clientAccepts ad data = true ↔ NodeAccepts c data := by
    unfold describedAccepts
    rw [harg, hdi]
    unfold payloadAcceptable NodeAccepts
    cases hca : c.arg with
    | none => cases data <;> simp
    | some ops =>
      cases data with
      | none => simp
      | some j =>
        have hex := exported_of_lookupCommand pre n m a mod c hl
        simpa using law mod hex.1 c hex.2.2.2.1 ops hca j
  obtain ⟨hyes, hno⟩ := do_described_command pre env n mod c m a hl data
  constructor
  · intro hok
    obtain ⟨arg, heq, hcalls⟩ := hyes (hiff.1 hok)
    exact ⟨by rw [hcalls]; simp, by rw [heq]; exact (finishDo_calls env n mod c arg).2.1⟩
  · intro hok
    exact hno (fun hacc => by rw [hiff.2 hacc] at hok; cases hok)

/-- **model_do_probe_ok** (the monitor clause for `do` is sound on the model).  Under the same oracle law, the exchange the
model produces for ANY `do m:a` — described command, described parameter or undescribed name — satisfies `ProbeOK` against the
model's own report, when `client` is the client-side verdict on the payload. -/
theorem model_do_probe_ok [DecidableEq J] (pre : Predef) (env : Env V) (n : Node J V) (hwf : Node.WF pre n)
    (clientAccepts : J → J → Bool)
    (law : ∀ mod ∈ n, ∀ (c : Command J V), Acc.command c ∈ mod.accs → ∀ ops, c.arg = some ops →
      ∀ j, clientAccepts c.datainfo j = true ↔ ∃ v, ops.accept j = .ok v)
    (m a : String) (data : Option J) (client : Bool)
    (hclient : ∀ ad j, findDesc (describe pre n) m a = some ad → data = some j → client = clientAccepts ad.datainfo j) :
    ProbeOK (describe pre n)
      ⟨.do_, m, a, (handleDo pre env n (.full m a) data).reply, (handleDo pre env n (.full m a) data).calls, false, false,
       data.isSome, client⟩ := by
  unfold ProbeOK
  simp only
  cases hd : findDesc (describe pre n) m a with
  | none =>
    simp only
    have hdo : ∃ cls, handleDo pre env n (.full m a) data = ⟨.error cls, [], [], n⟩ ∧
        (cls = .noSuchModule ∨ cls = .noSuchCommand) := by
      cases hf : findModule n m with
      | none => exact ⟨.noSuchModule, by simp [handleDo, targetDo, lookupCommand, hf, refuse, mkErr], Or.inl rfl⟩
      | some mod =>
        have hw := findWire_none_of_undescribed pre n hwf m a hd mod hf
        exact ⟨.noSuchCommand, by simp [handleDo, targetDo, lookupCommand, hf, findCommand, hw, refuse, mkErr], Or.inr rfl⟩
    obtain ⟨cls, hdo, hcls⟩ := hdo
    rw [hdo]
    rcases hcls with rfl | rfl <;> simp [isNoSuch]
  | some ad =>
    simp only
    constructor
    · intro hk
      rw [(kind_honoured pre env n hwf m a ad hd data).2 hk]
      simp [isNoSuch]
    · intro hk
      have hpa : payloadAcceptable ad.argument data.isSome client = describedAccepts clientAccepts ad data := by
        unfold describedAccepts
        cases data with
        | none =>
          unfold payloadAcceptable
          cases ad.argument with
          | none => rfl
          | some b => cases b <;> simp
        | some j => rw [hclient ad j hd rfl]
      rw [hpa]
      obtain ⟨hyes, hno⟩ := command_datainfo_equiv pre env n hwf clientAccepts law m a ad hd hk data
      constructor
      · intro hf
        obtain ⟨cls, hdo⟩ := hno hf
        rw [hdo]; simp [Reply.isError]
      · intro ht
        exact (hyes ht).1

/-! ### `constant ⇒ readonly` is established by `Parameter.finish`, whatever class and configuration say -/

/-- **finish_constRO.**  A parameter whose flags come out of `Parameter.finish` (class-level values, overridden by the
configuration, then "a constant parameter is read-only") satisfies the well-formedness clause `constRO` — for EVERY
combination of class-level and configured `readonly` / `constant`, in particular for a configuration that says
`readonly = False` and gives a constant. -/
theorem finish_constRO (p : Param J V) (i : ParamInit V) (h : (p.withInit i).constant.isSome = true) :
    (p.withInit i).readonly = true := by
  unfold Param.withInit finishFlags at *
  simp only at h ⊢
  rw [h]; simp

/-- a module all of whose parameters went through `finish` satisfies `Module.constRO` (one assumption of `Node.WF` less
for nodes built this way, as the driver builds them from the real objects) -/
theorem constRO_of_finish (m : Module J V)
    (h : ∀ a ∈ m.accs, ∀ p, a = .param p → ∃ p0 i, p = Param.withInit p0 i) : m.constRO := by
  intro a ha p hp hc
  obtain ⟨p0, i, rfl⟩ := h a ha p hp
  exact finish_constRO p0 i hc

/-- the configuration decides `readonly` where no constant is involved (the model of the override is not vacuous) -/
theorem cfg_readonly_applied (p : Param J V) (clsR r : Bool) :
    (p.withInit ⟨clsR, none, some r, none⟩).readonly = r ∧ (p.withInit ⟨clsR, none, none, none⟩).readonly = clsR := by
  unfold Param.withInit finishFlags; simp

open Frappy.Props.C04.Example in
/-- non-vacuity: the writable `target` with a configuration `readonly = False, constant = 5` comes out read-only with
constant 5, and the module built from it satisfies `constRO` -/
example : ((target.withInit ⟨false, none, some false, some 5⟩).readonly, (target.withInit ⟨false, none, some false, some 5⟩).constant)
      = (true, some 5) ∧
    Module.constRO (J := Nat) (V := Nat) { m with accs := [.param (target.withInit ⟨false, none, some false, some 5⟩)] } := by
  refine ⟨by decide +kernel, constRO_of_finish _ ?_⟩
  intro a ha p hp
  simp only [List.mem_singleton] at ha
  subst ha; injection hp with hp
  exact ⟨_, _, hp.symm⟩

/-! ### the "lists exactly" monitor -/

theorem mem_exportedPairs (pre : Predef) (n : Node J V) (m a : String) :
    (m, a) ∈ exportedPairs pre n ↔ Exported pre n m a := by
  unfold exportedPairs Exported
  simp only [List.mem_flatMap]
  constructor
  · rintro ⟨mod, hmod, h⟩
    by_cases he : mod.exported = true
    · rw [if_pos he] at h
      obtain ⟨acc, hacc, hw⟩ := List.mem_filterMap.1 h
      cases hx : exportName pre acc with
      | none => rw [hx] at hw; cases hw
      | some w =>
        rw [hx] at hw; simp only [Option.map_some, Option.some.injEq, Prod.mk.injEq] at hw
        exact ⟨mod, acc, hmod, hw.1, he, hacc, by rw [hx, hw.2]⟩
    · rw [if_neg he] at h; cases h
  · rintro ⟨mod, acc, hmod, hname, he, hacc, hw⟩
    refine ⟨mod, hmod, ?_⟩
    rw [if_pos he]
    exact List.mem_filterMap.2 ⟨acc, hacc, by rw [hw, hname]; rfl⟩

/-- **listsExactlyB_sound.**  The monitor accepts a report (of the implementation) only if the clause "lists exactly
the exported modules and accessibles under their wire names" holds of it. -/
theorem listsExactlyB_sound (pre : Predef) (n : Node J V) (d : List (ModDesc J)) (h : listsExactlyB pre n d = true) :
    ListsExactly pre n d := by
  unfold listsExactlyB at h
  simp only [Bool.and_eq_true, decide_eq_true_eq, List.all_eq_true, List.contains_iff_mem] at h
  obtain ⟨⟨⟨⟨⟨h1, h2⟩, h3⟩, _⟩, h5⟩, h6⟩ := h
  refine ⟨?_, h1, ?_⟩
  · intro m a
    rw [← mem_exportedPairs]
    exact ⟨fun hx => h2 _ hx, fun hx => h3 _ hx⟩
  · intro m
    have hm : m ∈ exportedModules n ↔ ∃ mod ∈ n, mod.name = m ∧ mod.exported = true := by
      unfold exportedModules
      simp only [List.mem_map, List.mem_filter]
      constructor
      · rintro ⟨mod, ⟨hmod, he⟩, rfl⟩; exact ⟨mod, hmod, rfl, he⟩
      · rintro ⟨mod, hmod, rfl, he⟩; exact ⟨mod, ⟨hmod, he⟩, rfl⟩
    rw [← hm]
    exact ⟨fun hx => h5 _ hx, fun hx => h6 _ hx⟩

open Frappy.Props.C04.Example in
/-- non-vacuity: the monitor accepts the model's own report of the example node -/
example : listsExactlyB pre node (describe pre node) = true := by decide +kernel

/-! ### the probe specification holds of the model (soundness of the monitor clauses for change and read) -/

/-- the error class ReadOnly is the dispatcher's own: neither the datatypes of the node, nor the hooks, nor the drivers
use it for their refusals (they raise WrongType / RangeError / hardware errors …) -/
structure NoForeignReadOnly (env : Env V) (n : Node J V) : Prop where
  accept : ∀ mod ∈ n, ∀ p, Acc.param p ∈ mod.accs → ∀ j prev e, p.dt.accept j prev = .error e → e.cls ≠ .readOnly
  reval : ∀ mod ∈ n, ∀ p, Acc.param p ∈ mod.accs → ∀ v e, p.dt.revalidate v = .error e → e.cls ≠ .readOnly
  chk : ∀ m a i v e, env.chk m a i v = .raise e → e.cls ≠ .readOnly
  drv : ∀ call e, env.drv call = .raise e → e.cls ≠ .readOnly

theorem runChecks_ne_readOnly (env : Env V) (mod : Module J V) (attr : String) (v : V) (cs : List Check) (e : Node.Err)
    (hchk : ∀ m a i v e, env.chk m a i v = .raise e → e.cls ≠ .readOnly)
    (h : runChecks (checkOne env mod attr v) cs = some e) : e.cls ≠ .readOnly := by
  induction cs with
  | nil => cases h
  | cons c cs ih =>
    unfold runChecks at h
    cases c with
    | limits =>
      by_cases hl : LimitsOK env mod attr v
      · simp only [checkOne, checkLimits_of_ok env mod attr v hl] at h; exact ih h
      · simp only [checkOne, checkLimits_of_not_ok env mod attr v hl] at h
        injection h with h; rw [← h]; simp [mkErr]
    | hook i =>
      simp only [checkOne] at h
      cases hc : env.chk mod.name attr i v with
      | pass => rw [hc] at h; exact ih h
      | stop => rw [hc] at h; cases h
      | raise e' => rw [hc] at h; injection h with h; rw [← h]; exact hchk _ _ _ _ _ hc

/-- a change of a parameter that is neither read-only nor constant is never answered ReadOnly -/
theorem writable_reply_ne_readOnly (pre : Predef) (env : Env V) (n : Node J V) (hno : NoForeignReadOnly env n)
    (m a : String) (mod : Module J V) (p : Param J V) (hl : lookupParam pre n m a = .ok (mod, p))
    (hr : p.readonly = false) (hc : p.constant = none) (j : J) :
    (handleChange pre env n (.full m a) j).reply ≠ .error .readOnly := by
  have hex := exported_of_lookupParam pre n m a mod p hl
  have hacc := hno.accept mod hex.1 p hex.2.2.2.1
  have hrev := hno.reval mod hex.1 p hex.2.2.2.1
  have hfin : ∀ v w, (finishWrite pre env n mod p v w).reply ≠ .error .readOnly := by
    intro v w
    unfold finishWrite
    split
    · simp only
      split
      · rename_i e hd; intro hx; injection hx with hx; exact hno.drv _ e hd hx
      · intro hx; cases hx
      · intro hx; simp [store] at hx
      · split
        · rename_i e he; intro hx; injection hx with hx; exact hrev _ e he hx
        · intro hx; simp [store] at hx
    · intro hx; simp [store] at hx
  have hadm : ∀ e, admitChange env mod p j = .error e → e.cls ≠ .readOnly := by
    intro e h
    unfold admitChange at h
    simp only [hc, hr, Option.isSome_none, Bool.false_eq_true, if_false] at h
    cases ha : p.dt.accept j (some p.entry.value) with
    | error e' => rw [ha] at h; injection h with h; rw [← h]; exact hacc _ _ e' ha
    | ok v =>
      rw [ha] at h; simp only at h
      by_cases hinv : (p.isLimitsPair && pairInverted env v) = true
      · rw [if_pos hinv] at h; injection h with h; rw [← h]; simp [mkErr]
      · rw [if_neg hinv] at h
        cases hrv : p.dt.revalidate v with
        | error e' => rw [hrv] at h; injection h with h; rw [← h]; exact hrev _ e' hrv
        | ok w =>
          rw [hrv] at h; simp only at h
          cases hrun : runChecks (checkOne env mod p.attr v) p.checks with
          | some e' =>
            rw [hrun] at h; injection h with h; rw [← h]
            exact runChecks_ne_readOnly env mod p.attr v p.checks e' hno.chk hrun
          | none => rw [hrun] at h; cases h
  unfold handleChange
  simp only [target]; rw [hl]; simp only
  cases hres : admitChange env mod p j with
  | error e => intro hx; simp only [refuse] at hx; injection hx with hx; exact hadm e hres hx
  | ok vw => exact hfin vw.1 vw.2

/-- a payload the parameter's own datatype refuses: the change is refused, nothing is written -/
theorem change_refused_of_datatype (pre : Predef) (env : Env V) (n : Node J V) (m a : String) (mod : Module J V)
    (p : Param J V) (hl : lookupParam pre n m a = .ok (mod, p)) (j : J)
    (hrej : ¬ ∃ v, p.dt.accept j (some p.entry.value) = .ok v) :
    Reply.isError (handleChange pre env n (.full m a) j).reply = true ∧ (handleChange pre env n (.full m a) j).calls = [] := by
  have hadm : ∃ e, admitChange env mod p j = .error e := by
    unfold admitChange
    split
    · exact ⟨_, rfl⟩
    · split
      · exact ⟨_, rfl⟩
      · cases ha : p.dt.accept j (some p.entry.value) with
        | error e => exact ⟨e, rfl⟩
        | ok v => exact absurd ⟨v, ha⟩ hrej
  obtain ⟨e, he⟩ := hadm
  unfold handleChange
  simp only [target]; rw [hl]; simp only; rw [he]
  simp [refuse, Reply.isError]

/-- **model_change_probe_ok** (the monitor clause for `change` is sound on the model).  The exchange the model produces
for ANY `change m:a` — described parameter (read-only, constant or writable), described command or undescribed name —
satisfies `ProbeOK` against the model's own report, `allowed` being the verdict of the specification's decision list and
`client` the verdict of a client datatype that refuses only what the parameter's own datatype refuses (the datatype-oracle
law `AcceptLaw`, here needed in one direction and for this payload only). -/
theorem model_change_probe_ok [DecidableEq J] (pre : Predef) (env : Env V) (n : Node J V) (hwf : Node.WF pre n)
    (hno : NoForeignReadOnly env n) (m a : String) (j : J) (allowed client : Bool)
    (hallowed : allowed = true → ∃ m' a' hw v w, changeVerdict pre env n (.full m a) j = .allow m' a' hw v w)
    (hclient : client = false → ∀ mod p, lookupParam pre n m a = .ok (mod, p) →
      ¬ ∃ v, p.dt.accept j (some p.entry.value) = .ok v) :
    ProbeOK (describe pre n)
      ⟨.change, m, a, (handleChange pre env n (.full m a) j).reply, (handleChange pre env n (.full m a) j).calls, false,
       allowed, false, client⟩ := by
  unfold ProbeOK
  simp only
  cases hd : findDesc (describe pre n) m a with
  | none =>
    simp only
    obtain ⟨⟨cls, hch, hcls⟩, _⟩ := undescribed_unreachable pre env n hwf m a hd j none
    rw [hch]
    rcases hcls with rfl | rfl <;> simp [isNoSuch]
  | some ad =>
    simp only
    refine ⟨?_, ?_, ?_⟩
    · intro hk
      rw [((kind_honoured pre env n hwf m a ad hd none).1 hk).1 j]
      simp [isNoSuch]
    · intro hro
      rw [flags_predict_readonly pre env n hwf m a ad hd hro j]
      exact ⟨rfl, rfl⟩
    · intro hro
      obtain ⟨mod, p, hl, hr, hc, _⟩ := flags_predict_writable pre env n hwf m a ad hd hro j
      refine ⟨writable_reply_ne_readOnly pre env n hno m a mod p hl hr hc j, ?_,
        fun hcl => change_refused_of_datatype pre env n m a mod p hl j (hclient hcl mod p hl)⟩
      intro hal
      obtain ⟨m', a', hw, v, w, hv⟩ := hallowed hal
      have hver := handleChange_verdict pre env n hwf (.full m a) j
      rw [hv] at hver
      obtain ⟨mod', p', _, _, _, hhw, _, _, heq⟩ := hver
      rw [heq, finishWrite_calls]
      cases hb : p'.hasWrite with
      | true => left; simp
      | false =>
        right
        unfold finishWrite
        rw [hb]; simp [store, Reply.isError]

/-- **model_read_probe_ok** (the monitor clause for `read`). -/
theorem model_read_probe_ok [DecidableEq J] (pre : Predef) (env : Env V) (n : Node J V) (hwf : Node.WF pre n)
    (m a : String) (j0 : J) :
    ProbeOK (describe pre n)
      ⟨.read, m, a, (handleRead pre env n (.full m a) false).reply, (handleRead pre env n (.full m a) false).calls, false,
       false, false, false⟩ := by
  unfold ProbeOK
  simp only
  cases hd : findDesc (describe pre n) m a with
  | none =>
    simp only
    obtain ⟨_, ⟨cls, hch, hcls⟩, _⟩ := undescribed_unreachable pre env n hwf m a hd j0 none
    rw [hch]
    rcases hcls with rfl | rfl <;> simp [isNoSuch]
  | some ad =>
    simp only
    refine ⟨?_, ?_⟩
    · intro hk
      rw [((kind_honoured pre env n hwf m a ad hd none).1 hk).2.1]
      simp [isNoSuch]
    · cases hc : ad.constant with
      | none => trivial
      | some c =>
        simp only
        rw [constant_reads pre env n hwf m a ad hd c hc]
        exact ⟨rfl, rfl⟩

open Frappy.Props.C04.Example in
/-- the example node with its hooks and drivers uses ReadOnly for nothing of its own -/
theorem Example.noForeign : NoForeignReadOnly env node := by
  have hdt : ∀ mod ∈ node, ∀ p, Acc.param p ∈ mod.accs → p.dt = dt := by
    intro mod hmod p hp
    simp only [node, List.mem_singleton] at hmod; subst hmod
    simp only [m, List.mem_cons, List.not_mem_nil, or_false] at hp
    rcases hp with hp | hp | hp | hp
    · injection hp with hp; subst hp; rfl
    · injection hp with hp; subst hp; rfl
    · injection hp with hp; subst hp; rfl
    · cases hp
  refine ⟨?_, ?_, ?_, ?_⟩
  · intro mod hmod p hp j prev e h
    rw [hdt mod hmod p hp] at h
    simp only [dt] at h
    split at h
    · cases h
    · injection h with h; rw [← h]; simp
  · intro mod hmod p hp v e h
    rw [hdt mod hmod p hp] at h
    simp [dt] at h
  · intro m a i v e h
    simp only [env] at h
    split at h
    · injection h with h; rw [← h]; simp
    · cases h
  · intro call e h
    simp [env] at h

open Frappy.Props.C04.Example in
/-- `model_change_probe_ok` / `model_read_probe_ok` on the example node: an allowed change of the writable `target`
(it reaches the driver), a change of the constant `_k` (ReadOnly), a read of `_k` (the constant) -/
example :
    ProbeOK (describe pre node) ⟨.change, "m", "target", (handleChange pre env node (.full "m" "target") 20).reply,
      (handleChange pre env node (.full "m" "target") 20).calls, false, true, false, true⟩ ∧
    ProbeOK (describe pre node) ⟨.change, "m", "_k", (handleChange pre env node (.full "m" "_k") 20).reply,
      (handleChange pre env node (.full "m" "_k") 20).calls, false, false, false, true⟩ ∧
    ProbeOK (describe pre node) ⟨.read, "m", "_k", (handleRead pre env node (.full "m" "_k") false).reply,
      (handleRead pre env node (.full "m" "_k") false).calls, false, false, false, false⟩ :=
  ⟨model_change_probe_ok pre env node wf Example.noForeign "m" "target" 20 true true (fun _ => ⟨"m", "target", true, 20, 20, rfl⟩)
     (fun h => by cases h),
   model_change_probe_ok pre env node wf Example.noForeign "m" "_k" 20 false true (fun h => by cases h) (fun h => by cases h),
   model_read_probe_ok pre env node wf "m" "_k" 0⟩

/-! non-vacuity for the theorems relative to the datatype-oracle laws: a node whose parameter takes numbers up to 100
(datainfo: the bound), and a client that rebuilds "numbers up to the bound" from the datainfo -/
namespace Example3
open Frappy.Props.C04.Example

def upTo100 (v : Nat) : Except Node.Err Nat := if v ≤ 100 then .ok v else .error ⟨.rangeError, "too big"⟩

def dt3 : DtOps Nat Nat where
  accept := fun j _ => upTo100 j
  revalidate := upTo100
  convert := fun r => match r with | some v => upTo100 v | none => .error ⟨.wrongType, "None"⟩
  exportV := fun v => v
  datainfo := 100

def p3 : Param Nat Nat :=
  { attr := "p", exp := .auto, limitHead := none, isLimitsPair := false, readonly := false, constant := none, dt := dt3,
    entry := ⟨1, none⟩, checks := [], hasRead := true, hasWrite := true, props := [] }
def m3 : Module Nat Nat := { name := "m", exported := true, accs := [.param p3], props := [] }
def node3 : Node Nat Nat := [m3]
def env3 : Env Nat := { env with drv := fun _ => .value 42 }

def client (datainfo j : Nat) : Bool := decide (j ≤ datainfo)

theorem wf3 : Node.WF pre node3 := by
  refine ⟨by unfold namesNodup; decide +kernel, ?_, ?_, ?_, ?_⟩
  · intro x hx; simp only [node3, List.mem_singleton] at hx; subst hx; unfold Module.attrsNodup; decide +kernel
  · intro x hx; simp only [node3, List.mem_singleton] at hx; subst hx; unfold Module.wiresNodup; decide +kernel
  · intro x hx; simp only [node3, List.mem_singleton] at hx; subst hx
    intro a ha k hk
    simp only [m3, List.mem_singleton] at ha
    subst ha; revert hk; revert k; decide +kernel
  · intro x hx; simp only [node3, List.mem_singleton] at hx; subst hx
    intro a ha p hp hc
    simp only [m3, List.mem_singleton] at ha
    subst ha; injection hp with hp; subst hp; simp [p3] at hc

theorem upTo100_ok (x v : Nat) (h : upTo100 x = .ok v) : v ≤ 100 := by
  unfold upTo100 at h; split at h
  · injection h with h; omega
  · cases h

theorem validated3 (v : Nat) (h : Validated dt3 v) : v ≤ 100 := by
  rcases h with ⟨j, _, h⟩ | ⟨x, h⟩ | ⟨r, h⟩
  · exact upTo100_ok j v h
  · exact upTo100_ok x v h
  · cases r with
    | none => cases h
    | some x => exact upTo100_ok x v h

theorem importLaw3 : ImportLaw client node3 := by
  intro mod hmod p hp v hv
  simp only [node3, List.mem_singleton] at hmod; subst hmod
  simp only [m3, List.mem_singleton] at hp
  injection hp with hp; subst hp
  have := validated3 v hv
  show decide (v ≤ 100) = true
  simpa using this

theorem acceptLaw3 : AcceptLaw client node3 := by
  intro mod hmod p hp j prev
  simp only [node3, List.mem_singleton] at hmod; subst hmod
  simp only [m3, List.mem_singleton] at hp
  injection hp with hp; subst hp
  show decide (j ≤ 100) = true ↔ ∃ v, upTo100 j = .ok v
  unfold upTo100
  by_cases h : j ≤ 100 <;> simp [h]

theorem cacheValid3 : CacheValid node3 := by
  intro mod hmod p hp
  simp only [node3, List.mem_singleton] at hmod; subst hmod
  simp only [m3, List.mem_singleton] at hp
  injection hp with hp; subst hp
  exact ⟨Or.inl ⟨1, none, rfl⟩, fun c hc => by simp [p3] at hc⟩

end Example3

open Frappy.Props.C04.Example Example3 in
/-- `emits_importable` / `emits_importable_history`: the update `change m:_p 20` emits is importable by the client -/
example : (∃ ad, findDesc (describe pre node3) "m" "_p" = some ad ∧ client ad.datainfo 20 = true) ∧
    (∃ ad, findDesc (describe pre node3) "m" "_p" = some ad ∧ client ad.datainfo 42 = true) :=
  ⟨emits_importable pre env node3 wf3 client importLaw3 (.full "m" "_p") 20 "m" "_p" 20 (by decide +kernel),
   emits_importable_history pre client node3 wf3 importLaw3
     [(env, .change (.full "m" "_p") 20), (env3, .read (.full "m" "_p") false)]
     (handleRead pre env3 (handleChange pre env node3 (.full "m" "_p") 20).node (.full "m" "_p") false)
     (by simp [run, step]) "m" "_p" 42 (by decide +kernel)⟩

open Frappy.Props.C04.Example Example3 in
/-- `read_reply_importable`: the driver returns 42, the read reply carries 42, the client imports it -/
example : ∃ ad, findDesc (describe pre node3) "m" "_p" = some ad ∧ client ad.datainfo 42 = true :=
  read_reply_importable pre env3 node3 wf3 cacheValid3 client importLaw3 "m" "_p" 42 (by decide +kernel)

open Frappy.Props.C04.Example Example3 in
/-- `described_datainfo_equiv`: the described datainfo accepts 100 and rejects 101, as the node does -/
theorem Example3.equiv3 : ∀ j, ∃ mod p, lookupParam pre node3 "m" "_p" = .ok (mod, p) ∧
    (client 100 j = true ↔ ∃ v, p.dt.accept j (some p.entry.value) = .ok v) := by
  intro j
  cases h : findDesc (describe pre node3) "m" "_p" with
  | none => exact absurd h (by decide +kernel)
  | some ad =>
    have hk : ad.kind = .parameter ∧ ad.datainfo = 100 := by
      have : (findDesc (describe pre node3) "m" "_p").map (fun ad => (ad.kind, ad.datainfo)) = some (.parameter, 100) := by
        decide +kernel
      rw [h] at this; simpa using this
    have := described_datainfo_equiv pre node3 wf3 client acceptLaw3 "m" "_p" ad h hk.1 j
    rw [hk.2] at this; exact this

open Frappy.Props.C04.Example Example3 in
/-- `change_refused_of_datatype` (the clause "a payload the described datainfo excludes is refused, nothing is written"):
200 is beyond the described bound 100 (`client 100 200 = false`) — the change is refused and no driver is called -/
example : client 100 200 = false ∧
    Reply.isError (handleChange pre env3 node3 (.full "m" "_p") 200).reply = true ∧
    (handleChange pre env3 node3 (.full "m" "_p") 200).calls = [] := by
  obtain ⟨mod, p, hl, hiff⟩ := Example3.equiv3 200
  exact ⟨by decide +kernel, change_refused_of_datatype pre env3 node3 "m" "_p" mod p hl 200
    (fun hv => absurd (hiff.2 hv) (by decide +kernel))⟩

/-! non-vacuity for the command theorems: the example node plus a command `go` taking a number up to 5 -/
namespace Example2
open Frappy.Props.C04.Example

def go : Command Nat Nat :=
  { attr := "go", exp := .auto, arg := some ⟨fun j => if j ≤ 5 then .ok j else .error ⟨.rangeError, "too big"⟩⟩, res := none,
    datainfo := 5, props := [] }
def m2 : Module Nat Nat :=
  { name := "m", exported := true, accs := [.param target, .param ro, .command stop, .command go], props := [] }
def node2 : Node Nat Nat := [m2]

/-- the client rebuilds "numbers up to `datainfo`" from the datainfo -/
def clientAccepts (datainfo j : Nat) : Bool := decide (j ≤ datainfo)

theorem wf2 : Node.WF pre node2 := by
  refine ⟨by unfold namesNodup; decide +kernel, ?_, ?_, ?_, ?_⟩
  · intro x hx; simp only [node2, List.mem_singleton] at hx; subst hx; unfold Module.attrsNodup; decide +kernel
  · intro x hx; simp only [node2, List.mem_singleton] at hx; subst hx; unfold Module.wiresNodup; decide +kernel
  · intro x hx; simp only [node2, List.mem_singleton] at hx; subst hx
    intro a ha k hk
    simp only [m2, List.mem_cons, List.not_mem_nil, or_false] at ha
    rcases ha with rfl | rfl | rfl | rfl <;> revert hk <;> revert k <;> decide +kernel
  · intro x hx; simp only [node2, List.mem_singleton] at hx; subst hx
    intro a ha p hp hc
    simp only [m2, List.mem_cons, List.not_mem_nil, or_false] at ha
    rcases ha with rfl | rfl | rfl | rfl
    · injection hp with hp; subst hp; simp [Frappy.Props.C04.Example.target] at hc
    · injection hp with hp; subst hp; rfl
    · cases hp
    · cases hp

/-- the oracle law holds for the commands of this node -/
theorem law2 : ∀ mod ∈ node2, ∀ (c : Command Nat Nat), Acc.command c ∈ mod.accs → ∀ ops, c.arg = some ops →
    ∀ j, clientAccepts c.datainfo j = true ↔ ∃ v, ops.accept j = .ok v := by
  intro mod hmod c hc ops harg j
  simp only [node2, List.mem_singleton] at hmod; subst hmod
  simp only [m2, List.mem_cons, List.not_mem_nil, or_false] at hc
  rcases hc with hc | hc | hc | hc
  · cases hc
  · cases hc
  · injection hc with hc; subst hc; simp [stop] at harg
  · injection hc with hc; subst hc
    simp only [go, Option.some.injEq] at harg; subst harg
    show decide (j ≤ 5) = true ↔ ∃ v, (if j ≤ 5 then Except.ok j else Except.error ⟨.rangeError, "too big"⟩ : Except Node.Err Nat) = .ok v
    by_cases h : j ≤ 5 <;> simp [h]

end Example2

open Frappy.Props.C04.Example Example2 in
/-- `stop` is described as a command without argument, `go` as one with an argument -/
example : (findDesc (describe pre node2) "m" "stop").map (fun ad => (ad.kind, ad.argument)) = some (.command, some false) ∧
    (findDesc (describe pre node2) "m" "_go").map (fun ad => (ad.kind, ad.argument)) = some (.command, some true) := by
  decide +kernel

open Frappy.Props.C04.Example Example2 in
/-- the 'empty' payload 0 for the argument-less `stop` is refused without a call; without payload `stop` is executed;
`go 3` is executed with 3, `go 9` and `go` without payload are refused -/
example :
    (handleDo pre env node2 (.full "m" "stop") (some 0)).reply = .error .wrongType ∧
    (handleDo pre env node2 (.full "m" "stop") (some 0)).calls = [] ∧
    (handleDo pre env node2 (.full "m" "stop") none).calls = [DriverCall.cmd "m" "stop" none] ∧
    (handleDo pre env node2 (.full "m" "_go") (some 3)).calls = [DriverCall.cmd "m" "go" (some 3)] ∧
    (handleDo pre env node2 (.full "m" "_go") (some 9)).reply = .error .rangeError ∧
    (handleDo pre env node2 (.full "m" "_go") none).reply = .error .wrongType := by
  decide +kernel

open Frappy.Props.C04.Example Example2 in
/-- `command_datainfo_equiv` and `model_do_probe_ok` apply to this node (hypotheses satisfiable), e.g. for `go 3`
(accepted by the described datainfo, hence executed) and `stop 0` (excluded, hence refused) -/
example : (handleDo pre env node2 (.full "m" "_go") (some 3)).calls ≠ [] ∧
    (∃ cls, handleDo pre env node2 (.full "m" "stop") (some 0) = ⟨.error cls, [], [], node2⟩) ∧
    ProbeOK (describe pre node2) ⟨.do_, "m", "stop", (handleDo pre env node2 (.full "m" "stop") (some 0)).reply,
      (handleDo pre env node2 (.full "m" "stop") (some 0)).calls, false, false, true, true⟩ := by
  refine ⟨?_, ?_, ?_⟩
  · cases h : findDesc (describe pre node2) "m" "_go" with
    | none => exact absurd h (by decide +kernel)
    | some ad =>
      have hk : ad.kind = .command := by
        have : (findDesc (describe pre node2) "m" "_go").map (·.kind) = some .command := by decide +kernel
        rw [h] at this; simpa using this
      have hacc : describedAccepts clientAccepts ad (some 3) = true := by
        have : (findDesc (describe pre node2) "m" "_go").map (fun ad => describedAccepts clientAccepts ad (some 3)) = some true := by
          decide +kernel
        rw [h] at this; simpa using this
      exact ((command_datainfo_equiv pre env node2 wf2 clientAccepts law2 "m" "_go" ad h hk (some 3)).1 hacc).1
  · cases h : findDesc (describe pre node2) "m" "stop" with
    | none => exact absurd h (by decide +kernel)
    | some ad =>
      have hk : ad.kind = .command := by
        have : (findDesc (describe pre node2) "m" "stop").map (·.kind) = some .command := by decide +kernel
        rw [h] at this; simpa using this
      have hacc : describedAccepts clientAccepts ad (some 0) = false := by
        have : (findDesc (describe pre node2) "m" "stop").map (fun ad => describedAccepts clientAccepts ad (some 0)) = some false := by
          decide +kernel
        rw [h] at this; simpa using this
      exact (command_datainfo_equiv pre env node2 wf2 clientAccepts law2 "m" "stop" ad h hk (some 0)).2 hacc
  · exact model_do_probe_ok pre env node2 wf2 clientAccepts law2 "m" "stop" (some 0) true (by
      intro ad j had hj
      injection hj with hj; subst hj
      have : (findDesc (describe pre node2) "m" "stop").map (fun ad => clientAccepts ad.datainfo 0) = some true := by decide +kernel
      rw [had] at this
      simp only [Option.map_some, Option.some.injEq] at this
      exact this.symm)

open Frappy.Props.C04.Example Example2 in
/-- `kind_honoured` on this node: the command `stop` can not be changed or read, the parameter `target` not executed -/
example : (handleChange pre env node2 (.full "m" "stop") 1).reply = .error .noSuchParameter ∧
    (handleDo pre env node2 (.full "m" "target") none).reply = .error .noSuchCommand := by
  decide +kernel

/-! ### module properties: configuration first, automatic properties afterwards -/

section ModuleProps
variable {P : Type}

/-- **auto_props_ignore_cfg.**  Whatever the configuration of the module says — also for the names `implementation`,
`interface_classes`, `features`, which the configuration loop accepts like any declared property — the values of these
three properties after `Module.__init__` are the ones computed from the implementing class. -/
theorem auto_props_ignore_cfg (enc : PropEnc P) (base : List String) (i : ModInit P) :
    getProp (propertyValues enc base i) "interface_classes" = some (enc.strs (interfaceClassesOf base i.mro)) ∧
    getProp (propertyValues enc base i) "features" = some (enc.strs (featuresOf i.mro)) ∧
    getProp (propertyValues enc base i) "implementation" = some (enc.str i.impl) :=
  ⟨setAuto_interface .., setAuto_features .., setAuto_implementation ..⟩

/-- every OTHER declared property does follow the configuration (so the model of step 2 is not vacuous): a configured
value wins over the class-level value -/
theorem cfg_prop_applied (enc : PropEnc P) (base : List String) (i : ModInit P) (d : PropDecl P) (hd : d ∈ i.decls)
    (h1 : d.name ≠ "features") (h2 : d.name ≠ "interface_classes") (h3 : d.name ≠ "implementation")
    (v : P) (hv : getProp i.cfg d.name = some v) :
    propValue (propertyValues enc base i) d = v := by
  unfold propValue propertyValues
  rw [setAuto_other _ _ _ _ _ _ h1 h2 h3, getProp_applyCfg, if_pos (List.mem_map_of_mem hd)]
  unfold cfgOr; rw [hv]; rfl

/-- what the report says about the three automatic properties, explicitly -/
theorem reported_auto_props [DecidableEq P] (ser : P → J) (enc : PropEnc P) (base : List String) (i : ModInit P)
    (hd : AutoDecls ser i.decls (ser (enc.strs [])) (ser (enc.str ""))) :
    reportedProp (moduleProps ser enc base i) "interface_classes" (ser (enc.strs [])) =
      ser (enc.strs (interfaceClassesOf base i.mro)) ∧
    reportedProp (moduleProps ser enc base i) "features" (ser (enc.strs [])) = ser (enc.strs (featuresOf i.mro)) ∧
    reportedProp (moduleProps ser enc base i) "implementation" (ser (enc.str "")) = ser (enc.str i.impl) := by
  obtain ⟨dI, hI, hIn, hIe, hIx, hId⟩ := hd.ic
  obtain ⟨dF, hF, hFn, hFe, hFx, hFd⟩ := hd.feats
  obtain ⟨dM, hM, hMn, hMe, hMx, hMd⟩ := hd.impl
  obtain ⟨a1, a2, a3⟩ := auto_props_ignore_cfg enc base i
  refine ⟨?_, ?_, ?_⟩
  · have := reportedProp_exportProps ser i.decls (propertyValues enc base i) hd.uniq dI hI hIx
    rw [hIe, hId] at this
    show reportedProp (exportProps ser i.decls (propertyValues enc base i)) _ _ = _
    rw [this]; unfold propValue; rw [hIn, a1]; rfl
  · have := reportedProp_exportProps ser i.decls (propertyValues enc base i) hd.uniq dF hF hFx
    rw [hFe, hFd] at this
    show reportedProp (exportProps ser i.decls (propertyValues enc base i)) _ _ = _
    rw [this]; unfold propValue; rw [hFn, a2]; rfl
  · have := reportedProp_exportProps ser i.decls (propertyValues enc base i) hd.uniq dM hM hMx
    rw [hMe, hMd] at this
    show reportedProp (exportProps ser i.decls (propertyValues enc base i)) _ _ = _
    rw [this]; unfold propValue; rw [hMn, a3]; rfl

/-- **report_class_props** (the clause "the interface class and features match the implementing class", for every
configuration).  For a class that declares the three automatic properties (`AutoDecls`, a table fact for frappy's `Module`),
whatever the module's configuration contains: what the report gives for `interface_classes` and `features` (an absent entry
reads as the empty list) are the interface class and the features of the class chain — they satisfy `ClassPropsOK` —
and `implementation` is the name of the implementing class. -/
theorem report_class_props [DecidableEq P] (ser : P → J) (enc : PropEnc P) (base : List String) (i : ModInit P)
    (hd : AutoDecls ser i.decls (ser (enc.strs [])) (ser (enc.str ""))) :
    ReportClassPropsOK ⟨fun s => ser (enc.str s), fun l => ser (enc.strs l)⟩ base i.impl i.mro (moduleProps ser enc base i) := by
  obtain ⟨h1, h2, h3⟩ := reported_auto_props ser enc base i hd
  exact ⟨interfaceClassesOf base i.mro, featuresOf i.mro, class_props_derived base i.mro, h1, h2, h3⟩

/-- corollary: two configurations of the same class give the same three entries -/
theorem class_props_cfg_independent [DecidableEq P] (ser : P → J) (enc : PropEnc P) (base : List String) (i : ModInit P)
    (hd : AutoDecls ser i.decls (ser (enc.strs [])) (ser (enc.str ""))) (cfg' : List (String × P)) :
    reportedProp (moduleProps ser enc base i) "interface_classes" (ser (enc.strs [])) =
      reportedProp (moduleProps ser enc base { i with cfg := cfg' }) "interface_classes" (ser (enc.strs [])) ∧
    reportedProp (moduleProps ser enc base i) "features" (ser (enc.strs [])) =
      reportedProp (moduleProps ser enc base { i with cfg := cfg' }) "features" (ser (enc.strs [])) ∧
    reportedProp (moduleProps ser enc base i) "implementation" (ser (enc.str "")) =
      reportedProp (moduleProps ser enc base { i with cfg := cfg' }) "implementation" (ser (enc.str "")) := by
  obtain ⟨h1, h2, h3⟩ := reported_auto_props ser enc base i hd
  obtain ⟨h1', h2', h3'⟩ := reported_auto_props ser enc base { i with cfg := cfg' } hd
  exact ⟨by rw [h1, h1'], by rw [h2, h2'], by rw [h3, h3']⟩

def moduleDeclsTable : List (PropDecl (String × String)) :=
  Frappy.Generated.C06.moduleDecls.map (fun e => ⟨e.1, e.2.1, e.2.2.1, e.2.2.2.1, (e.2.2.2.2.1, e.2.2.2.2.2)⟩)

/-- table fact: frappy's `Module` declares the three automatic properties as `AutoDecls` wants them: exported under their
own names, the defaults read `[]`, `[]`, `""` (re-checked whenever modulebase.py changes) -/
theorem module_decls_auto : AutoDecls (fun p : String × String => p.2) moduleDeclsTable "[]" "\"\"" := by
  refine ⟨?_, ?_, ?_, ?_⟩
  · unfold ExtUnique; decide +kernel
  · decide +kernel
  · decide +kernel
  · decide +kernel

/-- a toy serialisation for the examples (Python value, exported text) — without string concatenation, which the kernel
cannot evaluate: a one-element list is written as its element -/
def exEnc : PropEnc (String × String) where
  str := fun s => if s = "" then ("s:\"\"", "\"\"") else (s, s)
  strs := fun l => match l with
    | [] => ("t[]", "[]")
    | [x] => (x, x)
    | _ => ("many", "many")

/-- non-vacuity: a Readable whose configuration claims to be a Drivable with a feature and another implementation, and
sets a group: the group is taken over, the three automatic properties are those of the class (`features`: the validated
empty tuple differs from the default `[]`, so it is exported) -/
example :
    moduleProps (fun p : String × String => p.2) exEnc Frappy.Generated.C06.secopBaseClasses
      ⟨moduleDeclsTable, [],
       [("group", ("s:g", "g")), ("interface_classes", ("Drivable", "Drivable")),
        ("features", ("HasOffset", "HasOffset")), ("implementation", ("x.Y", "x.Y"))],
       "demo.Plain", [⟨"Plain", false⟩, ⟨"Readable", false⟩, ⟨"Module", false⟩]⟩ =
      [("group", "g"), ("implementation", "demo.Plain"), ("interface_classes", "Readable"), ("features", "[]")] := by
  decide +kernel

/-- the hypotheses of `report_class_props` hold for frappy's `Module` with that serialisation -/
example (cfg : List (String × String × String)) (mro : List ClassInfo) :
    ReportClassPropsOK ⟨fun s => (exEnc.str s).2, fun l => (exEnc.strs l).2⟩ Frappy.Generated.C06.secopBaseClasses "demo.Plain" mro
      (moduleProps (fun p : String × String => p.2) exEnc Frappy.Generated.C06.secopBaseClasses
        ⟨moduleDeclsTable, [], cfg, "demo.Plain", mro⟩) :=
  report_class_props (fun p : String × String => p.2) exEnc Frappy.Generated.C06.secopBaseClasses
    ⟨moduleDeclsTable, [], cfg, "demo.Plain", mro⟩ module_decls_auto

end ModuleProps

/-! ### non-vacuity (the node of `Props.C04.Example`) -/

open Frappy.Props.C04.Example in
example : pairsOf (describe pre node) = [("m", "target"), ("m", "target_max"), ("m", "_k"), ("m", "stop")] := by
  decide +kernel

open Frappy.Props.C04.Example in
example : ListsExactly pre node (describe pre node) := describe_lists_exported pre node wf

open Frappy.Props.C04.Example in
/-- the constant `_k` is described with constant 7 and read-only; it reads as 7 and refuses changes -/
example : (findDesc (describe pre node) "m" "_k").map (fun ad => (ad.readonly, ad.constant)) = some (some true, some 7) ∧
    handleRead pre env node (.full "m" "_k") false = ⟨.read 7, [], [], node⟩ := by
  refine ⟨by decide +kernel, ?_⟩
  cases h : findDesc (describe pre node) "m" "_k" with
  | none => exact absurd h (by decide +kernel)
  | some ad =>
    have hc : ad.constant = some 7 := by
      have : (findDesc (describe pre node) "m" "_k").map (·.constant) = some (some 7) := by decide +kernel
      rw [h] at this; simpa using this
    exact constant_reads pre env node wf "m" "_k" ad h 7 hc

open Frappy.Props.C04.Example in
/-- `m:k` (the attribute name) is not described, hence unreachable -/
example : findDesc (describe pre node) "m" "k" = none := by decide +kernel

/-! ### the described datainfo of a parameter whose datatype is DERIVED (class + configuration), not assumed -/

section Derived
open Frappy Frappy.Datatypes FloatOps Frappy.Lemmas.C03Datainfo
variable {F : Type} [FloatOps F] [LawfulFloatOps F] [CompatLaws F]

/-- the full statement: for EVERY well-formed datatype tree the client rebuilt from the exported datainfo answers every
payload as the original does.  Before the repair of `ScaledInteger.validate` (`fixed` in `known_findings/C06.json`) it
was FALSE (scaled limits off the grid; the former `derived_datainfo_equiv_fails`).  Now
`derived_datainfo_equiv_partial` proves it for every tree with on-grid limits (no further condition) and for every
tree with off-grid limits under two conditions, which are exactly what is missing for the unrestricted statement:
(1) the carrier is `GridStable` (`round((k*scale)/scale) = k`; proved for `Rat`; binary64: holds while `|k| < 2^51`,
re-tested in every run), (2) the grid values of the scaled limits are finite numbers (`snapLimits t` exists).  Without
(2) `export_datatype` raises `OverflowError` (no description at all), or the described limit `index * scale` lies
beyond the float range: the node's datatype then refuses every number with a RangeError (C01: `scaledCall` of the
limit); what the rebuilt client does is not covered by C03's rebuild theorems (on the example
`ScaledInteger(7, 0, max)` over `Rat` the model's client agrees with the node on the payloads tried; neither proved
nor refuted in general). -/
def derived_datainfo_equiv_statement (F : Type) [FloatOps F] : Prop :=
  ∀ (D : Consts F), D.OK → ∀ t : DInfo F, t.WF D →
    ∃ di, exportDatatype D t = .ok di ∧ ∀ j prev, clientAccept D di j prev = acceptWire t.erase j prev

/-- the scaled limits of the tree can be described: they are on the grid, or - over a `GridStable` carrier - their grid
values are finite numbers -/
def LimitsDescribable (F : Type) [FloatOps F] (t : DInfo F) : Prop :=
  t.Exportable ∨ (GridStable F ∧ (DInfo.snapLimits t).isSome = true)

/-- **derived_datainfo_equiv_partial** (the datatype-oracle law `AcceptLaw`, PROVED for the datatype trees of C01–C03).  For
every well-formed tree whose scaled limits lie on the grid OR NOT (then: carrier `GridStable`, finite grid values):
`export_datatype()` succeeds, and a client that rebuilds its datatype from that datainfo does with EVERY payload (and
every previous value) exactly what the dispatcher does with the original object — same verdict, same error class,
same value. -/
theorem derived_datainfo_equiv_partial (D : Consts F) (hD : D.OK) (t : DInfo F) (hwf : t.WF D)
    (hex : LimitsDescribable F t) :
    ∃ di, exportDatatype D t = .ok di ∧ ∀ j prev, clientAccept D di j prev = acceptWire t.erase j prev := by
  have key : ∃ di t', exportDatatype D t = .ok di ∧ getDatatype D di = .ok t' ∧
      (∀ v prev, validate t'.erase v prev = validate t.erase v prev) ∧
      (∀ w, importValue t'.erase w = importValue t.erase w) := by
    rcases hex with hex | ⟨hG, hs⟩
    · obtain ⟨di, t', h1, h2, _, h4, h5⟩ := Frappy.Props.C03.rebuild_equiv D hD t hwf hex
      exact ⟨di, t', h1, h2, h4, h5⟩
    · obtain ⟨t1, e1⟩ := Option.isSome_iff_exists.1 hs
      obtain ⟨_, _, di, t', h1, _, h2, _, h4, h5⟩ := Frappy.Props.C03.rebuild_snaps hG D hD t t1 hwf e1
      exact ⟨di, t', h1, h2, h4, h5⟩
  obtain ⟨di, t', h1, h2, h4, h5⟩ := key
  refine ⟨di, h1, fun j prev => ?_⟩
  unfold clientAccept acceptWire
  rw [h2]; simp only [h5 j]
  cases importValue t.erase j with
  | error e => rfl
  | ok v => exact h4 v prev

/-- **cfg_limit_stored**: a limit given in the configuration of a scaled parameter is stored as given (any finite
float): nothing moves it to the grid. -/
theorem cfg_limit_stored (D : Consts F) (hD : D.OK) (k : LimitKey) (x s mn mx ar rr : F) (u f : String)
    (hx : isFinite x = true) (hc : addZero x = x) :
    setLimit D k (.float x) (.scaled s mn mx ar rr u f) =
      .ok (match k with
        | .min => .scaled s x mx ar rr u f
        | .max => .scaled s mn x ar rr u f) := by
  cases k <;> simp only [setLimit,
    propDouble_self D hD hc hx neg_max_finite max_finite (CompatLaws.finite_bounds x hx).1 (CompatLaws.finite_bounds x hx).2]

/-- **configured_scaled_described** (the description of a scaled parameter whose upper limit comes from the
configuration).  Let the configuration set `max` of a well-formed scaled datatype to a finite `x ≥ min` ON THE GRID
(`x = k·scale` as floats; `Aligned` is a statement about `round`, it does not say on which side of `k` the float quotient
`x / scale` lands), the lower limit being on the grid too.  Then the instance datatype is well formed, the integer the
report states as `max` is a grid index whose grid value IS `x`, and the datatype a client rebuilds from the described
datainfo treats every payload exactly as the node does. -/
theorem configured_scaled_described (D : Consts F) (hD : D.OK) (s mn mx ar rr x : F) (u f : String)
    (hwf : (DInfo.scaled s mn mx ar rr u f).WF D) (hx : isFinite x = true) (hc : addZero x = x)
    (hle : le mn x = true) (hmn : DInfo.Aligned s mn) (hax : DInfo.Aligned s x) :
    ∃ t', setLimit D .max (.float x) (.scaled s mn mx ar rr u f) = .ok t' ∧ limitsOrdered t' = true ∧ t'.WF D ∧
      ∃ kmax fields, exportDatatype D t' = .ok (.obj fields) ∧ PVal.dictGet fields "max" = some (.int kmax) ∧
        DType.ofGrid s kmax = some x ∧
        ∀ j prev, clientAccept D (.obj fields) j prev = acceptWire t'.erase j prev := by
  have hwf' : (DInfo.scaled s mn x ar rr u f).WF D := by
    simp only [DInfo.WF, DType.WF] at hwf ⊢
    obtain ⟨⟨a1, a2, a3, _, _, a6, _, a8, a9, a10, a11⟩, b⟩ := hwf
    exact ⟨⟨a1, a2, a3, hx, hle, a6, hc, a8, a9, a10, a11⟩, b⟩
  have hex : LimitsDescribable F (DInfo.scaled s mn x ar rr u f) := Or.inl ⟨hmn, hax⟩
  refine ⟨_, cfg_limit_stored D hD .max x s mn mx ar rr u f hx hc, hle, hwf', ?_⟩
  obtain ⟨_, kmax, fields, e1, _, e3, _, e5⟩ := Frappy.Props.C03.scaled_description_exact D s mn x ar rr u f hmn hax
  obtain ⟨di, d1, d2⟩ := derived_datainfo_equiv_partial D hD _ hwf' hex
  rw [e1] at d1; injection d1 with d1; subst d1
  exact ⟨kmax, fields, e1, e3, e5, d2⟩

/-- **configured_scaled_offgrid** (the repaired finding `scaled-limit-off-grid`).  Let the configuration set `max` of a
well-formed scaled datatype to ANY finite `x ≥ min` — a multiple of the scale or not — such that the limits have finite
grid values.  Then the instance datatype keeps `x` as given, is well formed, its description states the grid index
`round(x / scale)` as `max`, and the datatype a client rebuilds from the described datainfo treats every payload (every
previous value) exactly as the node does: same verdict, same error class, same value. -/
theorem configured_scaled_offgrid (hG : GridStable F) (D : Consts F) (hD : D.OK) (s mn mx ar rr x : F) (u f : String)
    (hwf : (DInfo.scaled s mn mx ar rr u f).WF D) (hx : isFinite x = true) (hc : addZero x = x)
    (hle : le mn x = true) (hfin : (DInfo.snapLimits (.scaled s mn x ar rr u f)).isSome = true) :
    ∃ t', setLimit D .max (.float x) (.scaled s mn mx ar rr u f) = .ok t' ∧ limitsOrdered t' = true ∧ t'.WF D ∧
      ∃ kmax fields, DType.gridIndex s x = some kmax ∧ exportDatatype D t' = .ok (.obj fields) ∧
        PVal.dictGet fields "max" = some (.int kmax) ∧
        ∀ j prev, clientAccept D (.obj fields) j prev = acceptWire t'.erase j prev := by
  have hwf' : (DInfo.scaled s mn x ar rr u f).WF D := by
    simp only [DInfo.WF, DType.WF] at hwf ⊢
    obtain ⟨⟨a1, a2, a3, _, _, a6, _, a8, a9, a10, a11⟩, b⟩ := hwf
    exact ⟨⟨a1, a2, a3, hx, hle, a6, hc, a8, a9, a10, a11⟩, b⟩
  refine ⟨_, cfg_limit_stored D hD .max x s mn mx ar rr u f hx hc, hle, hwf', ?_⟩
  obtain ⟨di, d1, d2⟩ := derived_datainfo_equiv_partial D hD _ hwf' (Or.inr ⟨hG, hfin⟩)
  have d1' := d1
  rw [exportDatatype] at d1'
  split at d1'
  · rename_i k1 k2 e1 e2
    injection d1' with d1'
    subst d1'
    refine ⟨k2, _, e2, d1, ?_, d2⟩
    simp [dictGet_append, dictGet_optField, dictGet_cons, dictGet_scaledAbsRes_ne]
  · cases d1'

/-- **described_datainfo_equiv_derived** (`described_datainfo_equiv` without the oracle assumption).  In a well-formed
node over the datatype model, let the parameter the dispatcher resolves for a described name carry the operations of
ONE tree `t` (`dtOpsOf`: the object that is described is the object that validates), well formed with describable scaled
limits (`LimitsDescribable`: on the grid, or off the grid with finite grid values over a `GridStable` carrier).  Then a client that rebuilds its datatype from the DESCRIBED datainfo of `m:a` answers every payload as the
node's `change m:a` validation does. -/
theorem described_datainfo_equiv_derived (pre : Predef) (D : Consts F) (hD : D.OK) (n : Node (JVal F) (PVal F))
    (hwf : Node.WF pre n) (m a : String) (ad : AccDesc (JVal F)) (h : findDesc (describe pre n) m a = some ad)
    (hk : ad.kind = .parameter) :
    ∃ mod p, lookupParam pre n m a = .ok (mod, p) ∧
      ∀ ev t, p.dt = dtOpsOf D ev t → t.WF D → LimitsDescribable F t →
        ∀ j prev, liftRes (clientAccept D ad.datainfo j prev) = p.dt.accept j prev := by
  obtain ⟨mod, p, hl, _, hdi, _, _⟩ := described_is_dispatched pre n hwf m a ad h hk
  refine ⟨mod, p, hl, fun ev t hp htw hte j prev => ?_⟩
  obtain ⟨di, d1, d2⟩ := derived_datainfo_equiv_partial D hD t htw hte
  rw [hdi, hp]
  simp only [dtOpsOf, d1, d2 j prev]

/-- **instance_limit_from_cfg** (class + configuration ↦ the datatype object of the instance).  For a well-formed scaled
datatype of the class with on-grid limits, `copy()` is the identity (C03 `copy_core`), so the instance datatype is the
class datatype with the configured limit put in AS GIVEN — on the grid or not (compare C03 `copy_snaps`: a limit of
the CLASS that is off the grid is moved to it by the copy, a configured one is not.  Since the repair of
`ScaledInteger.validate` the difference is invisible: `validate` reads a limit through its grid value only, C03
`snapLimits_same_behaviour`; `configured_scaled_offgrid`). -/
theorem instance_limit_from_cfg (D : Consts F) (hD : D.OK) (s mn mx ar rr x : F) (u f : String)
    (hwf : (DInfo.scaled s mn mx ar rr u f).WF D) (hex : (DInfo.scaled s mn mx ar rr u f).Exportable)
    (hx : isFinite x = true) (hc : addZero x = x) (hle : le mn x = true) :
    instanceDatatype D (.scaled s mn mx ar rr u f) [(.max, .float x)] = .ok (.scaled s mn x ar rr u f) := by
  have hcopy := copy_core D hD Frappy.Props.C03.constsOK2 _ hwf hex
  have hset := cfg_limit_stored D hD .max x s mn mx ar rr u f hx hc
  simp only at hset
  simp only [instanceDatatype, hcopy, applyLimits, hset, limitsOrdered, hle, if_true]

/-- **model_change_probe_ok_derived** (the monitor clause "a payload the described datainfo excludes is refused, nothing
is written" holds of the model WITHOUT an oracle assumption).  In a node over the datatype model whose parameters all
carry the operations of one well-formed tree with describable scaled limits (on the grid or not), the exchange of ANY `change m:a` aimed at a
described parameter satisfies `ProbeOK`, the client verdict being computed from the DESCRIBED datainfo
(`get_datatype`, `import_value`, `validate` against the value held). -/
theorem model_change_probe_ok_derived [DecidableEq (JVal F)] (pre : Predef) (D : Consts F) (hD : D.OK)
    (env : Env (PVal F)) (n : Node (JVal F) (PVal F)) (hwf : Node.WF pre n) (hno : NoForeignReadOnly env n)
    (hdt : ∀ mod ∈ n, ∀ p, Acc.param p ∈ mod.accs → ∃ ev t, p.dt = dtOpsOf D ev t ∧ t.WF D ∧ LimitsDescribable F t)
    (m a : String) (j : JVal F) (allowed : Bool)
    (hallowed : allowed = true → ∃ m' a' hw v w, changeVerdict pre env n (.full m a) j = .allow m' a' hw v w)
    (ad : AccDesc (JVal F)) (hd : findDesc (describe pre n) m a = some ad) (hk : ad.kind = .parameter) :
    ∃ mod p, lookupParam pre n m a = .ok (mod, p) ∧
      ProbeOK (describe pre n)
        ⟨.change, m, a, (handleChange pre env n (.full m a) j).reply, (handleChange pre env n (.full m a) j).calls, false,
         allowed, false,
         match clientAccept D ad.datainfo j (some p.entry.value) with
         | .ok _ => true
         | .error _ => false⟩ := by
  obtain ⟨mod, p, hl, hall⟩ := described_datainfo_equiv_derived pre D hD n hwf m a ad hd hk
  refine ⟨mod, p, hl, model_change_probe_ok pre env n hwf hno m a j allowed _ hallowed ?_⟩
  intro hcl mod' p' hl'
  rw [hl] at hl'; injection hl' with hl'; injection hl' with h1 h2; subst h1; subst h2
  have hex := exported_of_lookupParam pre n m a mod p hl
  obtain ⟨ev, t, hp, htw, hte⟩ := hdt mod hex.1 p hex.2.2.2.1
  have heq := hall ev t hp htw hte j (some p.entry.value)
  rintro ⟨v, hv⟩
  rw [← heq] at hv
  cases hca : clientAccept D ad.datainfo j (some p.entry.value) with
  | ok r => rw [hca] at hcl; simp at hcl
  | error e => rw [hca] at hv; simp [liftRes] at hv

end Derived

/-! non-vacuity of the derived-datainfo theorems: the exact carrier, `ScaledInteger(0.1, 0, 1)` whose `max` the
configuration sets to 0.3 -/
namespace Example4
open Frappy Frappy.Datatypes FloatOps Frappy.Props.C04.Example

def D4 : Consts Rat := ⟨0, 12/100000000, 1/10000000000⟩

theorem D4_ok : D4.OK := by
  refine ⟨?_, ?_, ?_, ?_, ?_, ?_, ?_, ?_⟩ <;> decide +kernel

def cls4 : DInfo Rat := .scaled (1/10) 0 1 (1/10) (12/100000000) "" "%g"
def t4 : DInfo Rat := .scaled (1/10) 0 (3/10) (1/10) (12/100000000) "" "%g"

theorem cls4_wf : cls4.WF D4 := by
  simp only [cls4, DInfo.WF, DType.WF, DInfo.strOK]; decide +kernel

theorem t4_wf : t4.WF D4 := by
  simp only [t4, DInfo.WF, DType.WF, DInfo.strOK]; decide +kernel

theorem t4_exportable : t4.Exportable := by
  refine ⟨?_, ?_⟩ <;> (unfold DInfo.Aligned; decide +kernel)

theorem cls4_exportable : cls4.Exportable := by
  refine ⟨?_, ?_⟩ <;> (unfold DInfo.Aligned; decide +kernel)

theorem stored4 : setLimit D4 .max (.float (3/10)) cls4 = .ok t4 :=
  cfg_limit_stored D4 D4_ok .max (3/10) (1/10) 0 1 (1/10) (12/100000000) "" "%g" (by decide +kernel) (by decide +kernel)

/-- the hypotheses of `configured_scaled_described` hold; the model computes: instance datatype = class datatype with
`max` = 0.3, described `max` = 3 -/
example : instanceDatatype D4 cls4 [(.max, .float (3/10))] = .ok t4 ∧
    (∃ fields, exportDatatype D4 t4 = .ok (.obj fields) ∧ PVal.dictGet fields "max" = some (.int 3)) := by
  refine ⟨?_, ?_⟩
  · have hc : copy D4 cls4 = .ok cls4 :=
      Frappy.Lemmas.C03Datainfo.copy_core D4 D4_ok Frappy.Props.C03.constsOK2 cls4 cls4_wf cls4_exportable
    have ho : limitsOrdered t4 = true := by decide +kernel
    simp only [instanceDatatype, hc, applyLimits, stored4, ho, if_true]
  obtain ⟨t', h1, _, _, kmax, fields, h2, h3, h4, _⟩ :=
    configured_scaled_described D4 D4_ok (1/10) 0 1 (1/10) (12/100000000) (3/10) "" "%g" cls4_wf
      (by decide +kernel) (by decide +kernel) (by decide +kernel) (by unfold DInfo.Aligned; decide +kernel)
      (by unfold DInfo.Aligned; decide +kernel)
  have ht : t' = t4 := by
    have h := stored4
    simp only [cls4] at h
    rw [h] at h1; injection h1 with h1; exact h1.symm
  subst ht
  refine ⟨fields, h2, ?_⟩
  have hk : kmax = 3 := by
    have h5 : DType.ofGrid (1/10 : Rat) kmax = some (3/10) := h4
    simp only [DType.ofGrid, FloatOps.ofInt, FloatOps.mul] at h5
    injection h5 with h5
    have h6 : (kmax : Rat) = 3 := by
      have h7 : (kmax : Rat) * (1/10) * 10 = (3/10) * 10 := by rw [h5]
      have e1 : (kmax : Rat) * (1/10) * 10 = (kmax : Rat) := by
        rw [Rat.mul_assoc]; have : (1/10 : Rat) * 10 = 1 := by decide +kernel
        rw [this, Rat.mul_one]
      have e2 : (3/10 : Rat) * 10 = 3 := by decide +kernel
      rw [e1, e2] at h7; exact h7
    exact_mod_cast h6
  rw [h3, hk]

/-- what a datatype answer looks like from outside: the error class, or the float it returns -/
def look : Res Rat → Option Err × Option Rat
  | .ok (.float x) => (none, some x)
  | .ok _ => (none, none)
  | .error e => (some e, none)

/-- `derived_datainfo_equiv` on that datatype: the payload 3 (0.3) is accepted by the rebuilt client and by the node,
5 is refused by both -/
example : ∃ di, exportDatatype D4 t4 = .ok di ∧
    clientAccept D4 di (.int 3) none = acceptWire t4.erase (.int 3) none ∧
    clientAccept D4 di (.int 5) none = acceptWire t4.erase (.int 5) none ∧
    look (acceptWire t4.erase (.int 3) none) = (none, some (3/10)) ∧
    look (acceptWire t4.erase (.int 5) none) = (some .range, none) := by
  obtain ⟨di, h1, h2⟩ := derived_datainfo_equiv_partial D4 D4_ok t4 t4_wf (Or.inl t4_exportable)
  exact ⟨di, h1, h2 _ _, h2 _ _, by decide +kernel, by decide +kernel⟩


/-- a scaled limit OFF the grid, as a configuration may set it (`cfg_limit_stored`: nothing moves it): `max = 0.34` at
scale 0.1.  The description says `max = 3`.  Before the repair the node took the payload 4 (0.4 < 0.34 + 0.1, "silently
clamped" to 0.3) while the client rebuilt from the description refused it (recorded finding
`C06:datainfo-disagrees:scaled-limit-off-grid`, now `fixed`); the repaired `validate` measures the band from the grid
value 0.3 of the limit: node and client refuse 4 and accept 3. -/
def t5 : DInfo Rat := .scaled (1/10) 0 (34/100) (1/10) (12/100000000) "" "%g"

theorem t5_wf : t5.WF D4 := by
  simp only [t5, DInfo.WF, DType.WF, DInfo.strOK]; decide +kernel

theorem t5_not_exportable : ¬ t5.Exportable := by
  intro h; exact absurd h.2 (by unfold DInfo.Aligned; decide +kernel)

theorem t5_describable : LimitsDescribable Rat t5 := by
  refine Or.inr ⟨Frappy.Lemmas.C03Datainfo.rat_gridStable, ?_⟩
  have h1 : DType.snap (1/10 : Rat) 0 = some 0 := by decide +kernel
  have h2 : DType.snap (1/10 : Rat) (34/100) = some (3/10) := by decide +kernel
  have f1 : isFinite (0 : Rat) = true := by decide +kernel
  have f2 : isFinite (3/10 : Rat) = true := by decide +kernel
  simp [t5, DInfo.snapLimits, h1, h2, f1, f2]

def di5 : JVal Rat := .obj [("scale", .num (1/10)), ("type", .str "scaled"), ("min", .int 0), ("max", .int 3)]

theorem export5 : exportDatatype D4 t5 = .ok di5 := by
  have h1 : DType.gridIndex (1/10 : Rat) 0 = some 0 := by decide +kernel
  have h2 : DType.gridIndex (1/10 : Rat) (34/100) = some 3 := by decide +kernel
  have h3 : scaledAbsResField D4 (1/10 : Rat) (1/10) = [] := by decide +kernel
  have h4 : (!feq (12/100000000 : Rat) D4.relRes) = false := by decide +kernel
  simp [t5, di5, exportDatatype, h1, h2, h3, h4, optField]

/-- the former counterexample, computed by the model of the repaired code: node and client agree on 3 and on 4 -/
theorem offgrid5 : look (acceptWire t5.erase (.int 4) none) = (some .range, none) ∧
    look (clientAccept D4 di5 (.int 4) none) = (some .range, none) ∧
    look (acceptWire t5.erase (.int 3) none) = (none, some (3/10)) ∧
    look (clientAccept D4 di5 (.int 3) none) = (none, some (3/10)) := by
  refine ⟨by decide +kernel, by decide +kernel, by decide +kernel, by decide +kernel⟩

/-- `derived_datainfo_equiv_partial` applies to it (non-vacuity of the off-grid arm): EVERY payload -/
example : ∀ j prev, clientAccept D4 di5 j prev = acceptWire t5.erase j prev := by
  obtain ⟨di, h1, h2⟩ := derived_datainfo_equiv_partial D4 D4_ok t5 t5_wf t5_describable
  rw [export5] at h1; injection h1 with h1; subst h1
  exact h2

def p4 : Param (JVal Rat) (PVal Rat) :=
  { attr := "p", exp := .auto, limitHead := none, isLimitsPair := false, readonly := false, constant := none,
    dt := dtOpsOf D4 (fun _ => .null) t4, entry := ⟨.float 0, none⟩, checks := [], hasRead := false, hasWrite := false, props := [] }
def m4 : Module (JVal Rat) (PVal Rat) := { name := "m", exported := true, accs := [.param p4], props := [] }
def node4 : Node (JVal Rat) (PVal Rat) := [m4]

theorem wf4 : Node.WF pre node4 := by
  refine ⟨by unfold namesNodup; decide +kernel, ?_, ?_, ?_, ?_⟩
  · intro x hx; simp only [node4, List.mem_singleton] at hx; subst hx; unfold Module.attrsNodup; decide +kernel
  · intro x hx; simp only [node4, List.mem_singleton] at hx; subst hx; unfold Module.wiresNodup; decide +kernel
  · intro x hx; simp only [node4, List.mem_singleton] at hx; subst hx
    intro a ha k hk
    simp only [m4, List.mem_singleton] at ha
    subst ha; revert hk; revert k; decide +kernel
  · intro x hx; simp only [node4, List.mem_singleton] at hx; subst hx
    intro a ha p hp hc
    simp only [m4, List.mem_singleton] at ha
    subst ha; injection hp with hp; subst hp; simp [p4] at hc

/-- `described_datainfo_equiv_derived` on a node whose parameter `m:_p` carries that datatype: the client built from
the described datainfo and the node's own validation give the same answer to every payload -/
example : ∃ ad, findDesc (describe pre node4) "m" "_p" = some ad ∧
    ∀ j prev, liftRes (clientAccept D4 ad.datainfo j prev) = p4.dt.accept j prev := by
  cases h : findDesc (describe pre node4) "m" "_p" with
  | none =>
    have : (findDesc (describe pre node4) "m" "_p").isSome = true := by decide +kernel
    rw [h] at this; cases this
  | some ad =>
    have hk : ad.kind = .parameter := by
      have : (findDesc (describe pre node4) "m" "_p").map (·.kind) = some .parameter := by decide +kernel
      rw [h] at this; simpa using this
    obtain ⟨mod, p, hl, hall⟩ := described_datainfo_equiv_derived pre D4 D4_ok node4 wf4 "m" "_p" ad h hk
    have hp : p = p4 := by
      have hex := exported_of_lookupParam pre node4 "m" "_p" mod p hl
      have hm : mod = m4 := by simpa [node4] using hex.1
      have := hex.2.2.2.1
      rw [hm] at this
      simp only [m4, List.mem_singleton] at this
      injection this
    subst hp
    exact ⟨ad, rfl, hall _ t4 rfl t4_wf (Or.inl t4_exportable)⟩

end Example4

/-! ### which modules are registered for the report: `create_modules` (round 7, seeded change C06-m11) -/

section Create
open Frappy.Node.Create

/-- the invariant of `SecNode`: the list the report is made from is exactly the module objects with a set `export`
flag, in their order of creation -/
def Reg (s : St) : Prop := RegisteredOK s.created s.registered

theorem addModule_reg (s : St) (name : String) (e : Bool) (h : Reg s) : Reg (addModule s name e) := by
  unfold Reg RegisteredOK at *
  cases e <;> simp [addModule, h, List.filter_append, List.map_append]

theorem getInstance_reg (s : St) (name : String) (h : Reg s) : Reg (getInstance s name).1 := by
  unfold getInstance
  split
  · exact h
  · split
    · exact h
    · exact addModule_reg s name _ h

theorem foldl_inv {α β : Type} (P : β → Prop) (g : β → α → β) (hg : ∀ b a, P b → P (g b a)) :
    ∀ (l : List α) (b : β), P b → P (l.foldl g b)
  | [], _, h => h
  | a :: l, b, h => foldl_inv P g hg l (g b a) (hg b a h)

theorem getModule_reg : ∀ (fuel : Nat) (s : St) (name : String), Reg s → Reg (getModule fuel s name)
  | 0, s, name, h => h
  | fuel + 1, s, name, h => by
    have hi := getInstance_reg s name h
    unfold getModule
    generalize getInstance s name = r at hi
    obtain ⟨s1, b⟩ := r
    cases b with
    | false => exact hi
    | true =>
      simp only
      split
      · exact hi
      · split
        · exact hi
        · exact foldl_inv Reg _ (fun b a hb => getModule_reg fuel b a hb) _ _ hi

theorem createLoop_reg (pool : List ModCfg) (depth : Nat) :
    ∀ (fuel : Nat) (todos : List ModCfg) (s : St), Reg s → Reg (createLoop pool depth fuel todos s)
  | 0, [], s, h => h
  | 0, _ :: _, s, h => h
  | _ + 1, [], s, h => h
  | fuel + 1, c :: todos, s, h => by
    unfold createLoop
    split
    · exact createLoop_reg pool depth fuel todos s h
    · have h1 : Reg (getInstance { s with table := c :: s.table } c.name).1 := getInstance_reg _ _ h
      split
      · exact createLoop_reg pool depth fuel _ _ (getModule_reg depth _ _ h1)
      · exact createLoop_reg pool depth fuel _ _ h1

/-- **create_modules_registers.**  For EVERY configuration — whatever the order of declaration, whichever modules are
attached to which, whatever the Pinatas yield, whatever goes wrong on the way — `create_modules` ends with the list the
report is made from being exactly the module objects whose `export` flag is set, each once, in the order of their
creation: a module that came into being before its own turn (as the attached module of a Pinata initialised inside the
loop) is registered like any other.  (This is the statement the seeded change C06-m11 breaks.) -/
theorem create_modules_registers (pool cfg : List ModCfg) (fuel depth : Nat) :
    RegisteredOK (createModules pool cfg fuel depth).created (createModules pool cfg fuel depth).registered := by
  unfold createModules
  exact foldl_inv Reg _ (fun b a hb => getModule_reg depth b a hb) _ _
    (createLoop_reg pool depth fuel cfg _ (by simp [Reg, RegisteredOK]))

theorem exported_names_eq (n : Node J V) :
    (n.filter (fun m => m.exported)).map (·.name) =
      ((n.map (fun m => (m.name, m.exported))).filter (·.2)).map (·.1) := by
  induction n with
  | nil => rfl
  | cons m rest ih =>
    cases hm : m.exported <;> simp [List.filter_cons, hm, ih]

/-- no module object is made twice: the names of the created modules are distinct -/
def NamesNodup (s : St) : Prop := (s.created.map (·.1)).Nodup

theorem getInstance_nodup (s : St) (name : String) (h : NamesNodup s) : NamesNodup (getInstance s name).1 := by
  unfold getInstance
  split
  · exact h
  · rename_i hc
    split
    · exact h
    · unfold NamesNodup addModule at *
      simp only [List.map_append, List.map_cons, List.map_nil]
      refine List.nodup_append.mpr ⟨h, by simp, ?_⟩
      intro a ha b hb
      simp only [List.mem_singleton] at hb
      subst hb
      intro hab
      subst hab
      apply hc
      simp only [isCreated, List.any_eq_true]
      obtain ⟨x, hx, hxa⟩ := List.mem_map.mp ha
      exact ⟨x, hx, by simp [hxa]⟩

theorem getModule_nodup : ∀ (fuel : Nat) (s : St) (name : String), NamesNodup s → NamesNodup (getModule fuel s name)
  | 0, s, name, h => h
  | fuel + 1, s, name, h => by
    have hi := getInstance_nodup s name h
    unfold getModule
    generalize getInstance s name = r at hi
    obtain ⟨s1, b⟩ := r
    cases b with
    | false => exact hi
    | true =>
      simp only
      split
      · exact hi
      · split
        · exact hi
        · exact foldl_inv NamesNodup _ (fun b a hb => getModule_nodup fuel b a hb) _ _ hi

theorem createLoop_nodup (pool : List ModCfg) (depth : Nat) :
    ∀ (fuel : Nat) (todos : List ModCfg) (s : St), NamesNodup s → NamesNodup (createLoop pool depth fuel todos s)
  | 0, [], s, h => h
  | 0, _ :: _, s, h => h
  | _ + 1, [], s, h => h
  | fuel + 1, c :: todos, s, h => by
    unfold createLoop
    split
    · exact createLoop_nodup pool depth fuel todos s h
    · have h1 : NamesNodup (getInstance { s with table := c :: s.table } c.name).1 := getInstance_nodup _ _ h
      split
      · exact createLoop_nodup pool depth fuel _ _ (getModule_nodup depth _ _ h1)
      · exact createLoop_nodup pool depth fuel _ _ h1

/-- **create_modules_once**: every module object is made once (hence registered at most once) -/
theorem create_modules_once (pool cfg : List ModCfg) (fuel depth : Nat) :
    ((createModules pool cfg fuel depth).created.map (·.1)).Nodup ∧ (createModules pool cfg fuel depth).registered.Nodup := by
  have h : NamesNodup (createModules pool cfg fuel depth) := by
    unfold createModules
    exact foldl_inv NamesNodup _ (fun b a hb => getModule_nodup depth b a hb) _ _
      (createLoop_nodup pool depth fuel cfg _ (by simp [NamesNodup]))
  refine ⟨h, ?_⟩
  rw [create_modules_registers pool cfg fuel depth]
  unfold NamesNodup at h
  exact (List.Nodup.sublist (List.Sublist.map _ List.filter_sublist) h)

/-! every module of the configuration comes into being -/

/-- nothing is un-made and no error is forgotten -/
def Sub (s s' : St) : Prop := (∀ x, isCreated s x = true → isCreated s' x = true) ∧ s.errors ≤ s'.errors

theorem Sub.rfl' (s : St) : Sub s s := ⟨fun _ h => h, Nat.le_refl _⟩
theorem Sub.trans' {a b c : St} (h1 : Sub a b) (h2 : Sub b c) : Sub a c :=
  ⟨fun x h => h2.1 x (h1.1 x h), Nat.le_trans h1.2 h2.2⟩

theorem isCreated_addModule (s : St) (name : String) (e : Bool) (x : String) :
    isCreated (addModule s name e) x = (isCreated s x || name == x) := by
  simp [isCreated, addModule, List.any_append]

theorem getInstance_sub (s : St) (name : String) : Sub s (getInstance s name).1 := by
  unfold getInstance
  split
  · exact Sub.rfl' s
  · split
    · exact ⟨fun _ h => h, Nat.le_succ _⟩
    · refine ⟨fun x h => ?_, Nat.le_refl _⟩
      rw [isCreated_addModule, h]; rfl

theorem foldl_sub {α : Type} (g : St → α → St) (hg : ∀ b a, Sub b (g b a)) :
    ∀ (l : List α) (b : St), Sub b (l.foldl g b)
  | [], b => Sub.rfl' b
  | a :: l, b => Sub.trans' (hg b a) (foldl_sub g hg l (g b a))

theorem getModule_sub : ∀ (fuel : Nat) (s : St) (name : String), Sub s (getModule fuel s name)
  | 0, s, name => ⟨fun _ h => h, Nat.le_succ _⟩
  | fuel + 1, s, name => by
    have hi := getInstance_sub s name
    unfold getModule
    generalize getInstance s name = r at hi
    obtain ⟨s1, b⟩ := r
    cases b with
    | false => exact hi
    | true =>
      simp only
      split
      · exact hi
      · split
        · exact Sub.trans' hi ⟨fun _ h => h, Nat.le_succ _⟩
        · refine Sub.trans' hi ?_
          have h2 := foldl_sub (fun s a => getModule fuel s a) (fun b a => getModule_sub fuel b a)
            (match lookup s1 name with
              | some c => c.attached
              | none => []) { s1 with initializing := name :: s1.initializing }
          exact ⟨fun x h => h2.1 x h, h2.2⟩

theorem createLoop_sub (pool : List ModCfg) (depth : Nat) :
    ∀ (fuel : Nat) (todos : List ModCfg) (s : St), Sub s (createLoop pool depth fuel todos s)
  | 0, [], s => Sub.rfl' s
  | 0, _ :: _, s => ⟨fun _ h => h, Nat.le_succ _⟩
  | _ + 1, [], s => Sub.rfl' s
  | fuel + 1, c :: todos, s => by
    unfold createLoop
    split
    · exact createLoop_sub pool depth fuel todos s
    · have h1 : Sub s (getInstance { s with table := c :: s.table } c.name).1 :=
        let h := getInstance_sub { s with table := c :: s.table } c.name
        ⟨fun x hx => h.1 x hx, h.2⟩
      split
      · exact Sub.trans' h1 (Sub.trans' (getModule_sub depth _ _) (createLoop_sub pool depth fuel _ _))
      · exact Sub.trans' h1 (createLoop_sub pool depth fuel _ _)

/-- the entry just written into `srv.module_cfg` is the one the module is made from -/
theorem getInstance_creates (s : St) (c : ModCfg) :
    isCreated (getInstance { s with table := c :: s.table } c.name).1 c.name = true := by
  unfold getInstance
  split
  · assumption
  · have hl : lookup { s with table := c :: s.table } c.name = some c := by simp [lookup, List.find?_cons]
    rw [hl]
    simp only
    rw [isCreated_addModule]; simp

theorem createLoop_creates (pool : List ModCfg) (depth : Nat) :
    ∀ (fuel : Nat) (todos : List ModCfg) (s : St), (createLoop pool depth fuel todos s).errors = 0 →
      ∀ c ∈ todos, isCreated (createLoop pool depth fuel todos s) c.name = true
  | 0, [], s, _, c, hc => by cases hc
  | 0, _ :: _, s, h, c, hc => by simp [createLoop] at h
  | _ + 1, [], s, _, c, hc => by cases hc
  | fuel + 1, c0 :: todos, s, h, c, hc => by
    unfold createLoop at h ⊢
    split at h
    · rename_i hcr
      rw [if_pos hcr]
      rcases List.mem_cons.mp hc with rfl | hc'
      · exact (createLoop_sub pool depth fuel todos s).1 _ hcr
      · exact createLoop_creates pool depth fuel todos s h c hc'
    · rename_i hcr
      rw [if_neg hcr]
      have hmade := getInstance_creates s c0
      split at h
      · rename_i hp
        simp only [hp, if_true]
        rcases List.mem_cons.mp hc with rfl | hc'
        · exact (createLoop_sub pool depth fuel _ _).1 _ ((getModule_sub depth _ _).1 _ hmade)
        · exact createLoop_creates pool depth fuel _ _ h c (List.mem_append_left _ hc')
      · rename_i hp
        simp only [hp]
        rcases List.mem_cons.mp hc with rfl | hc'
        · exact (createLoop_sub pool depth fuel _ _).1 _ hmade
        · exact createLoop_creates pool depth fuel _ _ h c hc'

/-- **create_modules_creates**: when `create_modules` meets no error (no unknown attached module, no cyclic dependency;
for the model: enough fuel), every module of the configuration exists afterwards — in its own turn or before it -/
theorem create_modules_creates (pool cfg : List ModCfg) (fuel depth : Nat)
    (h : (createModules pool cfg fuel depth).errors = 0) :
    ∀ c ∈ cfg, isCreated (createModules pool cfg fuel depth) c.name = true := by
  intro c hc
  have key : createModules pool cfg fuel depth =
      ((createLoop pool depth fuel cfg { table := cfg }).created.map (·.1)).foldl (fun s a => getModule depth s a)
        (createLoop pool depth fuel cfg { table := cfg }) := rfl
  have hs := foldl_sub (fun s a => getModule depth s a) (fun b a => getModule_sub depth b a)
    ((createLoop pool depth fuel cfg { table := cfg }).created.map (·.1)) (createLoop pool depth fuel cfg { table := cfg })
  rw [← key] at hs
  have h0 : (createLoop pool depth fuel cfg { table := cfg }).errors = 0 := Nat.le_zero.mp (h ▸ hs.2)
  exact hs.1 _ (createLoop_creates pool depth fuel cfg _ h0 c hc)

/-- what the monitor `allRegisteredB` demands of the implementation follows from `RegisteredOK` -/
theorem allRegistered_of_registeredOK (created : List (String × Bool)) (registered : List String)
    (h : RegisteredOK created registered) : allRegisteredB created registered = true := by
  unfold allRegisteredB unregistered
  unfold RegisteredOK at h
  rw [← h]
  simp [List.filter_eq_nil_iff]

/-- the report follows the registration: for a node whose modules are the created module objects (name and `export` flag,
in the order of creation), the modules of the report are the registered ones, in that order -/
theorem describe_follows_registration (pre : Predef) (n : Node J V) (created : List (String × Bool))
    (registered : List String) (hn : n.map (fun m => (m.name, m.exported)) = created)
    (hr : RegisteredOK created registered) :
    (describe pre n).map (·.name) = registered := by
  unfold RegisteredOK at hr
  rw [hr, ← hn, ← exported_names_eq]
  unfold describe
  rw [List.map_map]
  rfl

/-- both together: the modules of the report of a node made by `create_modules` are the registered ones, and these are
the module objects with `export = True` -/
theorem report_lists_created_exported (pre : Predef) (pool cfg : List ModCfg) (fuel depth : Nat) (n : Node J V)
    (hn : n.map (fun m => (m.name, m.exported)) = (createModules pool cfg fuel depth).created) :
    (describe pre n).map (·.name) = (((createModules pool cfg fuel depth).created).filter (·.2)).map (·.1) := by
  rw [describe_follows_registration pre n _ _ hn (create_modules_registers pool cfg fuel depth)]
  exact create_modules_registers pool cfg fuel depth

namespace Example5
/-- the configuration of the seeded demonstration: an ordinary module, a Pinata `hub` that needs `bus` — declared BEHIND
it —, a hidden module; the Pinata yields `ch1` (exported) and `ch2` (hidden) -/
def cfg5 : List ModCfg :=
  [{ name := "first", exported := true }, { name := "hub", exported := false, pinata := true, attached := ["bus"], scan := ["ch1", "ch2"] },
   { name := "bus", exported := true }, { name := "hidden", exported := false }]
def pool5 : List ModCfg := [{ name := "ch1", exported := true }, { name := "ch2", exported := false }]

/-- `bus` is created while `hub` is initialised, in front of its own turn — and registered -/
example : (createModules pool5 cfg5 7 7).created =
      [("first", true), ("hub", false), ("bus", true), ("hidden", false), ("ch1", true), ("ch2", false)] ∧
    (createModules pool5 cfg5 7 7).registered = ["first", "bus", "ch1"] ∧
    (createModules pool5 cfg5 7 7).errors = 0 := by decide +kernel

example : RegisteredOK (createModules pool5 cfg5 7 7).created (createModules pool5 cfg5 7 7).registered :=
  create_modules_registers pool5 cfg5 7 7

/-- the hypothesis of `create_modules_creates` holds here: no error, so `bus` (and every other configured module) exists -/
example : isCreated (createModules pool5 cfg5 7 7) "bus" = true :=
  create_modules_creates pool5 cfg5 7 7 (by decide +kernel) ⟨"bus", true, false, [], []⟩ (by decide +kernel)

/-- the monitor refuses the registry of the seeded change (`bus` created, exported, not registered) -/
example : registeredB [("first", true), ("hub", false), ("bus", true), ("hidden", false), ("ch1", true), ("ch2", false)]
    ["first", "ch1"] = false ∧
    unregistered [("first", true), ("hub", false), ("bus", true), ("hidden", false), ("ch1", true), ("ch2", false)]
    ["first", "ch1"] = ["bus"] := by decide +kernel
end Example5

end Create

/-! ### module code changes the datatype of a live parameter (round 7, seeded change C06-m12) -/

section Retype

theorem exportName_setDt (pre : Predef) (attr : String) (dt : DtOps J V) (a : Acc J V) :
    exportName pre (Acc.setDt attr dt a) = exportName pre a := by
  cases a with
  | command c => rfl
  | param p =>
    simp only [Acc.setDt]
    split <;> rfl

@[simp] theorem wireName_setDt (pre : Predef) (m : Module J V) (attr : String) (dt : DtOps J V) (a : Acc J V) :
    wireName pre (m.setDt attr dt) (Acc.setDt attr dt a) = wireName pre m a := by
  unfold wireName
  rw [exportName_setDt]
  rfl

/-- **retype_other_stable** — "stable between calls" for everything that did not change: the entry of an accessible
other than the retyped parameter is the same before and after -/
theorem retype_other_stable (pre : Predef) (m : Module J V) (attr : String) (dt : DtOps J V) (a : Acc J V)
    (h : a.attr ≠ attr) :
    describeAcc pre (m.setDt attr dt) (Acc.setDt attr dt a) = describeAcc pre m a := by
  unfold describeAcc
  rw [wireName_setDt]
  cases a with
  | command c => rfl
  | param p =>
    have hb : (p.attr == attr) = false := by simpa [Acc.attr] using h
    simp only [Acc.setDt, hb]
    rfl

/-- **retype_reported** — the report is true AT THE TIME it is asked for: after module code gave parameter `attr` the
datatype `dt`, its entry states `dt`'s datainfo (and serialises a constant with `dt`); wire name, kind, `readonly` and
the property list are what they were -/
theorem retype_reported (pre : Predef) (m : Module J V) (dt : DtOps J V) (p : Param J V) (w : String)
    (hw : wireName pre m (.param p) = some w) :
    describeAcc pre (m.setDt p.attr dt) (Acc.setDt p.attr dt (.param p)) =
      some ⟨w, .parameter, dt.datainfo, some p.readonly, p.constant.map dt.exportV, p.props, none⟩ := by
  unfold describeAcc
  rw [wireName_setDt, hw]
  simp [Acc.setDt]

/-- ... and the dispatcher validates with that same `dt` from then on: the one `Param` value serves both -/
theorem retype_dispatched (attr : String) (dt : DtOps J V) (p : Param J V) (h : p.attr = attr) :
    Acc.setDt attr dt (.param p) = .param { p with dt := dt } := by
  simp [Acc.setDt, h]

theorem updDt_name (mod attr : String) (dt : DtOps J V) (m : Module J V) : (updDt mod attr dt m).name = m.name := by
  unfold updDt; split <;> rfl

theorem updDt_exported (mod attr : String) (dt : DtOps J V) (m : Module J V) :
    (updDt mod attr dt m).exported = m.exported := by
  unfold updDt; split <;> rfl

/-- a module other than the one whose parameter was retyped is described as before -/
theorem retype_other_module (pre : Predef) (mod attr : String) (dt : DtOps J V) (m : Module J V) (h : m.name ≠ mod) :
    describeModule pre (updDt mod attr dt m) = describeModule pre m := by
  have hb : (m.name == mod) = false := by simpa using h
  simp [updDt, hb]

/-- **retype_same_modules**: a live datatype change never changes WHICH modules the report lists, nor their properties -/
theorem retype_same_modules (pre : Predef) (n : Node J V) (mod attr : String) (dt : DtOps J V) :
    (describe pre (setDt n mod attr dt)).map (·.name) = (describe pre n).map (·.name) ∧
    (describe pre (setDt n mod attr dt)).map (·.props) = (describe pre n).map (·.props) := by
  unfold describe setDt
  have h1 : ((fun m : Module J V => m.exported) ∘ updDt mod attr dt) = (fun m : Module J V => m.exported) := by
    funext m; exact updDt_exported mod attr dt m
  rw [List.filter_map, h1]
  simp only [List.map_map]
  refine ⟨?_, ?_⟩
  · apply List.map_congr_left; intro m _; simp only [Function.comp]; unfold updDt; split <;> rfl
  · apply List.map_congr_left; intro m _; simp only [Function.comp]; unfold updDt; split <;> rfl

/-- the monitor `stableExceptB` accepts only pairs of reports that satisfy `StableExcept` -/
theorem stableExceptB_sound [DecidableEq J] (touched : List (String × String)) (d1 d2 : List (ModDesc J))
    (h : stableExceptB touched d1 d2 = true) : StableExcept touched d1 d2 := by
  unfold stableExceptB at h
  simp only [Bool.and_eq_true, decide_eq_true_eq, List.all_eq_true] at h
  obtain ⟨⟨h1, h2⟩, h3⟩ := h
  refine ⟨h1, h2, fun xy hxy => ?_⟩
  obtain ⟨h4, h5⟩ := h3 xy hxy
  refine ⟨h4, fun ab hab => ?_⟩
  have h6 := h5 ab hab
  split at h6 <;> rename_i ht
  · rw [if_pos ht]; simpa using h6
  · rw [if_neg ht]; simpa using h6

/-- with nothing touched, `StableExcept` is plain stability of every entry -/
example : stableExceptB (J := Nat) [] [⟨"m", [⟨"a", .parameter, 0, some true, none, [], none⟩], []⟩]
    [⟨"m", [⟨"a", .parameter, 1, some true, none, [], none⟩], []⟩] = false ∧
    stableExceptB (J := Nat) [("m", "a")] [⟨"m", [⟨"a", .parameter, 0, some true, none, [], none⟩], []⟩]
    [⟨"m", [⟨"a", .parameter, 1, some true, none, [], none⟩], []⟩] = true := by decide +kernel

open Frappy.Props.C04.Example in
/-- non-vacuity: in the example node the parameter `target` (wire name `target`) gets a new datatype (datainfo 7 instead
of 0): the report states 7 for it; the entry of `ro` is untouched -/
example : ∃ dt' : DtOps Nat Nat, dt'.datainfo = 7 ∧
    (findDesc (describe pre (setDt node "m" "target" dt')) "m" "target").map (·.datainfo) = some 7 ∧
    (findDesc (describe pre node) "m" "target").map (·.datainfo) = some 0 ∧
    findDesc (describe pre (setDt node "m" "target" dt')) "m" "_ro" = findDesc (describe pre node) "m" "_ro" :=
  ⟨{ dt with datainfo := 7 }, rfl, by decide +kernel, by decide +kernel, by decide +kernel⟩

open Frappy.Props.C04.Example in
example : wireName pre m (.param target) = some "target" := by decide +kernel

end Retype

section LiveLimits
open Frappy Frappy.Datatypes FloatOps Frappy.Lemmas.C03Datainfo
variable {F : Type} [FloatOps F] [LawfulFloatOps F] [CompatLaws F]

/-- **live_scaled_described** — `configured_scaled_described` for a limit set at RUN TIME: `datatype.set_properties(max=x)`
on the live datatype object of a scaled parameter (x finite, on the grid, not below `min`) succeeds, the datatype stays
well formed, the report made afterwards states the grid index of `x`, and the client rebuilt from THAT report treats every
payload as the node does from then on -/
theorem live_scaled_described (D : Consts F) (hD : D.OK) (s mn mx ar rr x : F) (u f : String)
    (hwf : (DInfo.scaled s mn mx ar rr u f).WF D) (hx : isFinite x = true) (hc : addZero x = x)
    (hle : le mn x = true) (hmn : DInfo.Aligned s mn) (hax : DInfo.Aligned s x) :
    ∃ t', liveSetLimits D [(.max, .float x)] (.scaled s mn mx ar rr u f) = .ok t' ∧ t'.WF D ∧
      ∃ kmax fields, exportDatatype D t' = .ok (.obj fields) ∧ PVal.dictGet fields "max" = some (.int kmax) ∧
        DType.ofGrid s kmax = some x ∧
        ∀ j prev, clientAccept D (.obj fields) j prev = acceptWire t'.erase j prev := by
  obtain ⟨t', h1, h2, h3, h4⟩ := configured_scaled_described D hD s mn mx ar rr x u f hwf hx hc hle hmn hax
  refine ⟨t', ?_, h3, h4⟩
  simp only [liveSetLimits, applyLimits, h1, h2, if_true]

end LiveLimits

namespace Example4
open Frappy Frappy.Datatypes FloatOps
/-- non-vacuity of `live_scaled_described`: the live `ScaledInteger(0.1, 0, 1)` gets `max = 0.3` at run time -/
example : liveSetLimits D4 [(.max, .float (3/10))] cls4 = .ok t4 := by
  have ho : limitsOrdered t4 = true := by decide +kernel
  simp only [liveSetLimits, applyLimits, stored4, ho, if_true]

example : ∃ t', liveSetLimits D4 [(.max, .float (3/10))] cls4 = .ok t' ∧ t'.WF D4 :=
  let ⟨t', h1, h2, _⟩ := live_scaled_described D4 D4_ok (1/10) 0 1 (1/10) (12/100000000) (3/10) "" "%g" cls4_wf
      (by decide +kernel) (by decide +kernel) (by decide +kernel) (by unfold DInfo.Aligned; decide +kernel)
      (by unfold DInfo.Aligned; decide +kernel)
  ⟨t', h1, h2⟩
end Example4

end Frappy.Props.C06
