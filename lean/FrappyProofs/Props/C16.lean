import FrappyProofs.Lemmas.Comm
import FrappyModel.Generated.C16
/-
C16 — property theorems (nothing but property theorems and their non-vacuity examples).
-/
namespace Frappy.Props.C16
open Frappy.Comm Frappy.Spec.C16

/-! ## reply framing is independent of how the device's bytes are chunked -/

/-- `AsynConn.readline`: the line returned and everything left unread (receive buffer + chunks not yet received)
depend only on the concatenation of the chunks — for every end-of-line sequence, every initial buffer and any two
chunkings of the same byte stream -/
theorem framing_chunk_independent (eol buf : Bytes) (c₁ c₂ : List Bytes) (h : c₁.flatten = c₂.flatten) :
    (readline eol buf c₁).view = (readline eol buf c₂).view := by
  cases h₁ : readline eol buf c₁ with
  | got l₁ r₁ u₁ =>
    have e₁ := readline_got eol c₁ buf l₁ r₁ u₁ h₁
    cases h₂ : readline eol buf c₂ with
    | got l₂ r₂ u₂ =>
      have e₂ := readline_got eol c₂ buf l₂ r₂ u₂ h₂
      rw [h, e₂] at e₁
      simp only [Option.some.injEq, Prod.mk.injEq] at e₁
      simp [Framed.view, e₁.1, e₁.2]
    | pending b₂ =>
      have e₂ := readline_pending eol c₂ buf b₂ h₂
      rw [h, ← e₂.1, e₂.2] at e₁
      simp at e₁
  | pending b₁ =>
    have e₁ := readline_pending eol c₁ buf b₁ h₁
    cases h₂ : readline eol buf c₂ with
    | got l₂ r₂ u₂ =>
      have e₂ := readline_got eol c₂ buf l₂ r₂ u₂ h₂
      rw [← h, ← e₁.1, e₁.2] at e₂
      simp at e₂
    | pending b₂ =>
      have e₂ := readline_pending eol c₂ buf b₂ h₂
      simp [Framed.view, e₁.1, e₂.1, h]

/-- the same for `AsynConn.readbytes` (fixed-length replies) -/
theorem framing_chunk_independent_bytes (n : Nat) (buf : Bytes) (c₁ c₂ : List Bytes) (h : c₁.flatten = c₂.flatten) :
    (readbytes n buf c₁).view = (readbytes n buf c₂).view := by
  cases h₁ : readbytes n buf c₁ with
  | got l₁ r₁ u₁ =>
    have e₁ := readbytes_got n c₁ buf l₁ r₁ u₁ h₁
    cases h₂ : readbytes n buf c₂ with
    | got l₂ r₂ u₂ =>
      have e₂ := readbytes_got n c₂ buf l₂ r₂ u₂ h₂
      simp [Framed.view, e₁.2.1, e₁.2.2, e₂.2.1, e₂.2.2, h]
    | pending b₂ =>
      have e₂ := readbytes_pending n c₂ buf b₂ h₂
      have := e₁.1
      rw [h, ← e₂.1] at this
      omega
  | pending b₁ =>
    have e₁ := readbytes_pending n c₁ buf b₁ h₁
    cases h₂ : readbytes n buf c₂ with
    | got l₂ r₂ u₂ =>
      have e₂ := readbytes_got n c₂ buf l₂ r₂ u₂ h₂
      have := e₂.1
      rw [← h, ← e₁.1] at this
      omega
    | pending b₂ =>
      have e₂ := readbytes_pending n c₂ buf b₂ h₂
      simp [Framed.view, e₁.1, e₂.1, h]

/-- a line is what precedes the first end-of-line of the stream, whatever the chunking: reading the whole stream
as one chunk gives the same result as reading it in pieces -/
theorem framing_eq_unchunked (eol buf : Bytes) (chunks : List Bytes) :
    (readline eol buf chunks).view = (readline eol buf [chunks.flatten]).view :=
  framing_chunk_independent eol buf chunks [chunks.flatten] (by simp)

/-- non-vacuity: "ab\r" "\n" "cd" with eol "\r\n" -/
example : (readline [13, 10] [] [[97, 98, 13], [10], [99, 100]]).view = (some [97, 98], [99, 100]) := by decide
example : (readline [13, 10] [] [[97], [98, 13, 10, 99], [100]]).view = (some [97, 98], [99, 100]) := by decide
example : (readbytes 3 [1] [[2], [3, 4], [5]]).view = (some [1, 2, 3], [4, 5]) := by decide

end Frappy.Props.C16
