import FrappyProofs.Lemmas.CommReply
import FrappyProofs.Lemmas.CommVisible
import FrappyProofs.Lemmas.CommRate
import FrappyProofs.Lemmas.CommBook
import FrappyProofs.Lemmas.CommTimeout
import FrappyProofs.Lemmas.CommRet
import FrappyProofs.Lemmas.CommCallbacks
import FrappyProofs.Lemmas.CommExchange
import FrappyProofs.Lemmas.CommProtect
import FrappyProofs.Lemmas.CommStateTrue
import FrappyProofs.Lemmas.CommCallbacksIdent
import FrappyProofs.Lemmas.CommTimeoutAll
import FrappyProofs.Lemmas.CommGlue
import FrappyProofs.Lemmas.CommWait
import FrappyModel.Generated.C16
/-
C16 — property theorems (nothing but property theorems and their non-vacuity examples).
-/
namespace Frappy.Props.C16
open Frappy.Comm Frappy.Spec.C16

/-! ## reply framing is independent of how the device's bytes are chunked -/

/-- `AsynConn.readline`: the line returned and everything left unread (receive buffer + chunks not yet received)
depend only on the concatenation of the chunks — for every end-of-line sequence, every initial buffer and any two
chunkings of the same byte stream -/
theorem framing_chunk_independent (eol buf : Bytes) (c₁ c₂ : List Bytes) (h : c₁.flatten = c₂.flatten) :
    (readline eol buf c₁).view = (readline eol buf c₂).view := by
  cases h₁ : readline eol buf c₁ with
  | got l₁ r₁ u₁ =>
    have e₁ := readline_got eol c₁ buf l₁ r₁ u₁ h₁
    cases h₂ : readline eol buf c₂ with
    | got l₂ r₂ u₂ =>
      have e₂ := readline_got eol c₂ buf l₂ r₂ u₂ h₂
      rw [h, e₂] at e₁
      simp only [Option.some.injEq, Prod.mk.injEq] at e₁
      simp [Framed.view, e₁.1, e₁.2]
    | pending b₂ =>
      have e₂ := readline_pending eol c₂ buf b₂ h₂
      rw [h, ← e₂.1, e₂.2] at e₁
      simp at e₁
  | pending b₁ =>
    have e₁ := readline_pending eol c₁ buf b₁ h₁
    cases h₂ : readline eol buf c₂ with
    | got l₂ r₂ u₂ =>
      have e₂ := readline_got eol c₂ buf l₂ r₂ u₂ h₂
      rw [← h, ← e₁.1, e₁.2] at e₂
      simp at e₂
    | pending b₂ =>
      have e₂ := readline_pending eol c₂ buf b₂ h₂
      simp [Framed.view, e₁.1, e₂.1, h]

/-- the same for `AsynConn.readbytes` (fixed-length replies) -/
theorem framing_chunk_independent_bytes (n : Nat) (buf : Bytes) (c₁ c₂ : List Bytes) (h : c₁.flatten = c₂.flatten) :
    (readbytes n buf c₁).view = (readbytes n buf c₂).view := by
  cases h₁ : readbytes n buf c₁ with
  | got l₁ r₁ u₁ =>
    have e₁ := readbytes_got n c₁ buf l₁ r₁ u₁ h₁
    cases h₂ : readbytes n buf c₂ with
    | got l₂ r₂ u₂ =>
      have e₂ := readbytes_got n c₂ buf l₂ r₂ u₂ h₂
      simp [Framed.view, e₁.2.1, e₁.2.2, e₂.2.1, e₂.2.2, h]
    | pending b₂ =>
      have e₂ := readbytes_pending n c₂ buf b₂ h₂
      have := e₁.1
      rw [h, ← e₂.1] at this
      omega
  | pending b₁ =>
    have e₁ := readbytes_pending n c₁ buf b₁ h₁
    cases h₂ : readbytes n buf c₂ with
    | got l₂ r₂ u₂ =>
      have e₂ := readbytes_got n c₂ buf l₂ r₂ u₂ h₂
      have := e₂.1
      rw [← h, ← e₁.1] at this
      omega
    | pending b₂ =>
      have e₂ := readbytes_pending n c₂ buf b₂ h₂
      simp [Framed.view, e₁.1, e₂.1, h]

/-- a line is what precedes the first end-of-line of the stream, whatever the chunking: reading the whole stream
as one chunk gives the same result as reading it in pieces -/
theorem framing_eq_unchunked (eol buf : Bytes) (chunks : List Bytes) :
    (readline eol buf chunks).view = (readline eol buf [chunks.flatten]).view :=
  framing_chunk_independent eol buf chunks [chunks.flatten] (by simp)

/-- non-vacuity: "ab\r" "\n" "cd" with eol "\r\n" -/
example : (readline [13, 10] [] [[97, 98, 13], [10], [99, 100]]).view = (some [97, 98], [99, 100]) := by decide
example : (readline [13, 10] [] [[97], [98, 13, 10, 99], [100]]).view = (some [97, 98], [99, 100]) := by decide
example : (readbytes 3 [1] [[2], [3, 4], [5]]).view = (some [1, 2, 3], [4, 5]) := by decide


def findingCfgA : Cfg := { bytesMode := false, eol := [10], timeout := 2000000, waitBefore := 0, interval := 3000000,
                           gran := 1000000, slack := 300 }

/-- caller 1: multicomm [A (reply), W (no reply, delay 0.2 s)]; caller 2: communicate D, waiting for the lock meanwhile -/
def atomicRun : List TEv := [
  ⟨5000000, .call 1 .multi [⟨[65, 10], true, 0, 0⟩, ⟨[87, 10], false, 0, 200000⟩]⟩, ⟨5000000, .acq 1⟩, ⟨5000000, .chk 1 false⟩,
  ⟨5000001, .now 1 5000001⟩, ⟨5000002, .now 1 5000002⟩, ⟨5000002, .connect 1 true true⟩, ⟨5000003, .isconn 1 true⟩,
  ⟨5000003, .acq 1⟩, ⟨5000003, .flush 1⟩, ⟨5000003, .send 1 0 0 [65, 10]⟩,
  ⟨5000004, .call 2 .comm [⟨[68, 10], true, 0, 0⟩]⟩, ⟨5000004, .chk 2 true⟩,
  ⟨5100000, .arrive 0 (some 0) [97, 10]⟩, ⟨5100000, .recv 1 (.data [97, 10])⟩, ⟨5100000, .rel 1⟩,
  ⟨5100000, .chk 1 true⟩, ⟨5100000, .acq 1⟩, ⟨5100000, .flush 1⟩, ⟨5100000, .send 1 0 1 [87, 10]⟩, ⟨5100000, .rel 1⟩,
  ⟨5100000, .slp 1 200000⟩, ⟨5300000, .wake 1⟩, ⟨5300000, .rel 1⟩, ⟨5300000, .ret 1 (.ok [[97]])⟩,
  ⟨5300000, .acq 2⟩, ⟨5300000, .flush 2⟩, ⟨5300000, .send 2 0 2 [68, 10]⟩,
  ⟨5400000, .arrive 0 (some 2) [100, 10]⟩, ⟨5400000, .recv 2 (.data [100, 10])⟩, ⟨5400000, .rel 2⟩, ⟨5400000, .ret 2 (.ok [[100]])⟩]

def rq (cmd : Bytes) : Req := ⟨cmd, true, 0, 0⟩
/-- caller 3 finds the connection closed, announces it, fails; 3.1 s later it reconnects (callbacks 0 and 1 run, 1 asks
to be removed) and communicates; then a silent command: two empty recvs, time-out -/
def healRun : List TEv := [
  ⟨5000000, .call 3 .comm [rq [68, 10]]⟩, ⟨5000000, .chk 3 false⟩, ⟨5000001, .now 3 5000001⟩, ⟨5000002, .now 3 5000002⟩,
  ⟨5000002, .connect 3 true true⟩, ⟨5000003, .isconn 3 true⟩, ⟨5000004, .acq 3⟩, ⟨5000004, .flush 3⟩,
  ⟨5000004, .send 3 0 0 [68, 10]⟩, ⟨5000004, .devclose 0⟩, ⟨5000005, .recv 3 .closed⟩, ⟨5000005, .hclose 3⟩,
  ⟨5000006, .isconn 3 false⟩, ⟨5000006, .rel 3⟩, ⟨5000006, .ret 3 .err⟩,
  ⟨8100000, .call 3 .comm [rq [69, 10]]⟩, ⟨8100000, .chk 3 false⟩, ⟨8100001, .now 3 8100001⟩, ⟨8100002, .now 3 8100002⟩,
  ⟨8100002, .connect 3 true true⟩, ⟨8100003, .isconn 3 true⟩, ⟨8100003, .cb 3 0 true⟩, ⟨8100003, .cb 3 1 false⟩,
  ⟨8100004, .acq 3⟩, ⟨8100004, .flush 3⟩, ⟨8100004, .send 3 1 1 [69, 10]⟩,
  ⟨8200000, .arrive 1 (some 1) [101]⟩, ⟨8200000, .recv 3 (.data [101])⟩, ⟨8250000, .arrive 1 (some 1) [10]⟩,
  ⟨8250000, .recv 3 (.data [10])⟩, ⟨8250000, .rel 3⟩, ⟨8250000, .ret 3 (.ok [[101]])⟩,
  ⟨9000000, .call 3 .comm [rq [83, 10]]⟩, ⟨9000000, .chk 3 true⟩, ⟨9000000, .acq 3⟩, ⟨9000000, .flush 3⟩,
  ⟨9000000, .send 3 1 2 [83, 10]⟩, ⟨10000001, .recv 3 .empty⟩, ⟨11000002, .recv 3 .empty⟩, ⟨11000003, .rel 3⟩,
  ⟨11000003, .ret 3 .err⟩]

/-! ## the transaction model: full statements, and what is proved of them

A run is accepted by the model iff `exec init evs` is defined.  The clauses quantify over ALL accepted runs (all
schedules, any number of callers, all device behaviours, all non-decreasing clocks).  Proved below for all accepted runs:
`lock_exclusive`, `multicomm_atomic`, `stale_discarded_run`, `reply_pairing_run`, `reply_own_ret`, `delays_honoured_run`,
`delays_honoured_return`, `fails_within_timeout_run`, `state_visible_run`, `reconnect_rate_limited` (under
`AttemptsAtomic`), `callbacks_once_run`.  The `*_statement` definitions keep the clauses in the exact form of the
monitors (windows between sends and returns); the theorems state the same facts at the events where they arise — the
reformulation is not proved equivalent, except for `transaction_protected` and `state_not_overwritten_run`, which ARE the
monitor forms.
On the implementation side every clause is judged by its monitor on every recorded run, and every recorded run is
replayed through `exec`. -/

def Accepted (cfg : Cfg) (cbs : List Nat) (evs : List TEv) : Prop := (exec { cfg := cfg, cbsReg := cbs } evs).isSome = true

def delays_honoured_statement : Prop := ∀ cfg cbs evs, Accepted cfg cbs evs → DelaysHonoured evs
def stale_discarded_statement : Prop := ∀ cfg cbs evs, Accepted cfg cbs evs → StaleDiscarded cfg.bytesMode cfg.eol evs
def reply_pairing_statement : Prop := ∀ cfg cbs evs, Accepted cfg cbs evs → ReplyPairing cfg.bytesMode cfg.eol evs
def fails_within_timeout_statement : Prop := ∀ cfg cbs evs, Accepted cfg cbs evs → FailsWithinTimeout cfg evs
def state_visible_statement : Prop := ∀ cfg cbs evs, Accepted cfg cbs evs → StateNotOverwritten evs
def reconnect_rate_limited_all_statement : Prop := ∀ cfg cbs evs, Accepted cfg cbs evs → RateLimitedAll cfg evs
def callbacks_once_statement : Prop := ∀ cfg cbs evs, Accepted cfg cbs evs → CallbacksOnce cbs evs
def transaction_protected_statement : Prop := ∀ cfg cbs evs, Accepted cfg cbs evs → TransactionProtected evs

/-- The lock is exclusive, for every accepted run (every schedule of any number of callers, every device): at most one
caller is inside `with self._lock` (at any depth), and it is the owner. -/
theorem lock_exclusive (cfg : Cfg) (cbs : List Nat) (evs : List TEv) (s : State)
    (h : exec { cfg := cfg, cbsReg := cbs } evs = some s) (c c' : Nat)
    (hc : 0 < (s.callers c).held) (hc' : 0 < (s.callers c').held) : c = c' := by
  have hi := inv_exec cfg cbs evs s h
  have h1 := hi.li1 c hc
  have h2 := hi.li1 c' hc'
  rw [h1] at h2; simpa using h2

/-- A multi-command transaction is never interleaved with other traffic — for EVERY accepted run: between two sends
of one call of caller `c` (no return of `c` in between) every send is `c`'s.  (A `multicomm` holds the re-entrant
lock from before its first send until after its last; `communicate`/`writeline` send once.) -/
theorem multicomm_atomic (cfg : Cfg) (cbs : List Nat) (evs : List TEv) (hacc : Accepted cfg cbs evs) :
    MulticommAtomic evs := by
  intro i j k c c' hij hjk hsi hsk hnr hsj
  unfold Accepted at hacc
  cases hex : exec { cfg := cfg, cbsReg := cbs } evs with
  | none => simp [hex] at hacc
  | some sf =>
    have hklt := sendAt_lt_length evs k c hsk
    -- the event at position k
    obtain ⟨ek, hek⟩ : ∃ ek, evs[k]? = some ek := ⟨evs[k], by simp [hklt]⟩
    obtain ⟨sk, sk', hpre, hst⟩ := exec_cut _ evs k ek hek sf hex
    have hi := inv_exec cfg cbs (evs.take k) sk hpre
    -- event k is a send of c, accepted from sk: c holds the lock there
    have hev : ∃ conn n d, ek.ev = .send c conn n d := by
      simp only [sendAt, evAt, hek, Option.map_some] at hsk
      cases hv : ek.ev <;> simp only [hv] at hsk <;> try (simp at hsk)
      subst hsk; exact ⟨_, _, _, rfl⟩
    obtain ⟨conn, n, d, hv⟩ := hev
    have hheld : 0 < (sk.callers c).held := by
      rw [step_caller_form sk ek c (by rw [hv]; rfl)] at hst
      split at hst
      · simp at hst
      · rw [hv] at hst
        have hp := stale_send_pc _ _ _ _ _ _ _ hst
        have hk := hi.hk c
        simp only [heldOk] at hk
        simp only at hp
        rw [hp] at hk
        simp only at hk
        omega
    have hlen : (evs.take k).length = k := by simp; omega
    refine hi.cc c i j c' ?_ ?_ hheld hij ?_
    · rw [sendAt_take evs k i (by omega)]; exact hsi
    · intro m h1 h2
      rw [hlen] at h2
      rw [evAt_take evs k m h2]
      exact hnr m h1 h2
    · rw [sendAt_take evs k j hjk]; exact hsj

/-- the monitor `multicommAtomicB` decides the clause -/
theorem multicommAtomicB_sound (log : Log) (h : MulticommAtomic log) : multicommAtomicB log = true := by
  simp only [multicommAtomicB, allBelow, List.all_eq_true, List.mem_range]
  intro k _ j hjk i hij
  cases hsi : sendAt log i with
  | none => rfl
  | some c =>
    cases hsj : sendAt log j with
    | none => rfl
    | some c' =>
      simp only [Bool.or_eq_true, Bool.not_eq_eq_eq_not, Bool.not_true, beq_eq_false_iff_ne, ne_eq, beq_iff_eq]
      by_cases hsk : sendAt log k = some c
      · by_cases hnr : (allBetween i k fun m => !isRetOf c (evAt log m)) = true
        · right
          apply h i j k c c' hij hjk hsi hsk _ hsj
          intro m h1 h2
          simp only [allBetween, List.all_eq_true, List.mem_range, Bool.or_eq_true, Bool.not_eq_eq_eq_not, Bool.not_true,
            decide_eq_false_iff_not] at hnr
          rcases hnr m h2 with h3 | h3
          · omega
          · simpa using h3
        · left; right; simpa using hnr
      · left; left; exact hsk

/-- non-vacuity: an accepted run of two callers (a multicomm of two requests against a communicate) -/
example : Accepted findingCfgA [] atomicRun ∧ 0 < (atomicRun.filter (fun e => match e.ev with | .send _ _ _ _ => true | _ => false)).length := by
  unfold Accepted; decide

/-- Stale data discarded — for EVERY accepted run, every request of every call (communicate and multicomm alike):
whenever the model completes a reply `l` for caller `c` (event `e`, read loop → reply taken), the last send of the
log is `c`'s own (position `i`, connection `conn`), and — unless the connection was replaced after that send — `l` is
the first line (line devices) / the first `rlen` bytes (byte devices) of the bytes that ARRIVED AFTER that send.
No byte that arrived before the send is part of the reply. -/
theorem stale_discarded_run (cfg : Cfg) (cbs : List Nat) (pre : List TEv) (e : TEv) (sk s' : State)
    (hpre : exec { cfg := cfg, cbsReg := cbs } pre = some sk) (hst : step sk e = some s') (c : Nat)
    (hread : (sk.callers c).pc = .read) (hrel : (s'.callers c).pc = .relI) :
    ∃ i conn n l, LastSend pre i c conn n ∧ (s'.callers c).replies = (sk.callers c).replies ++ [l] ∧
      (NoConnectAfter pre i →
        replyFrom sk.cfg.bytesMode sk.cfg.eol (current (sk.callers c)) l (arrivedIn pre conn none i pre.length) = true) := by
  have hr := rinv_exec cfg cbs pre sk hpre
  cases hwho : e.ev.who with
  | none =>
    have := (step_env_callers hwho hst).1
    rw [this, hread] at hrel; simp at hrel
  | some c0 =>
    rw [step_caller_form sk e c0 hwho] at hst
    split at hst
    · simp at hst
    · by_cases hcc : c = c0
      · subst hcc
        obtain ⟨_, hcase⟩ := step_read _ s' e.t c e.ev hst hread
        rcases hcase with ⟨hp, _⟩ | ⟨_, x, l, r, dd, rest, _, hchan, hcomp, hrep⟩ | ⟨_, hne⟩
        · rw [hrel] at hp; simp at hp
        · obtain ⟨i, conn, n, hl, himp⟩ := hr.r c hread
          refine ⟨i, conn, n, l, hl, hrep, fun hno => ?_⟩
          obtain ⟨_, heq⟩ := himp hno
          rw [← heq]
          simp only at hchan hcomp
          rw [hchan]
          have := complete_replyFrom sk.cfg (current (sk.callers c)) (sk.rxbuf ++ dd) l r rest.flatten hcomp
          simpa [List.append_assoc] using this
        · exact absurd hrel hne
      · rw [step_others _ s' e.t c0 e.ev hst c hcc] at hrel
        simp only at hrel
        rw [hread] at hrel; simp at hrel

/-- Reply pairing — for every accepted run: if, after the send of a command, the device sends nothing on that
connection but its answer to that very command (it answers in order; nothing unsolicited and no late reply arrives
after the send), then the reply handed to the caller is (the frame of) that answer. -/
theorem reply_pairing_run (cfg : Cfg) (cbs : List Nat) (pre : List TEv) (e : TEv) (sk s' : State)
    (hpre : exec { cfg := cfg, cbsReg := cbs } pre = some sk) (hst : step sk e = some s') (c : Nat)
    (hread : (sk.callers c).pc = .read) (hrel : (s'.callers c).pc = .relI) :
    ∃ i conn n l, LastSend pre i c conn n ∧ (s'.callers c).replies = (sk.callers c).replies ++ [l] ∧
      (NoConnectAfter pre i → OnlyAnswers pre conn n i pre.length →
        replyFrom sk.cfg.bytesMode sk.cfg.eol (current (sk.callers c)) l (arrivedIn pre conn (some n) i pre.length) = true) := by
  obtain ⟨i, conn, n, l, hl, hrep, himp⟩ := stale_discarded_run cfg cbs pre e sk s' hpre hst c hread hrel
  exact ⟨i, conn, n, l, hl, hrep, fun hno ho => by rw [arrivedIn_tag_eq pre conn n i pre.length ho]; exact himp hno⟩

/-- The connection state becomes visible — for EVERY accepted run: when a `recv` of caller `c` reports the closed
connection (position i) and `c`'s call returns at position r (no return of `c` in between), the update
`is_connected = false` by `c` lies strictly between the two. -/
theorem state_visible_run (cfg : Cfg) (cbs : List Nat) (evs : List TEv) (hacc : Accepted cfg cbs evs) (hid : cfg.ident = [])
    (c i r : Nat) (res : Res) (hir : i < r) (hi : evAt evs i = some (.recv c .closed)) (hr : evAt evs r = some (.ret c res))
    (hnr : ∀ m, i < m → m < r → isRetOf c (evAt evs m) = false) :
    ∃ j, i < j ∧ j < r ∧ evAt evs j = some (.isconn c false) := by
  unfold Accepted at hacc
  cases hex : exec { cfg := cfg, cbsReg := cbs } evs with
  | none => simp [hex] at hacc
  | some sf =>
    have hrlt : r < evs.length := by
      false_or_by_contra; rename_i hn
      rw [evAt_none evs r (by omega)] at hr; simp at hr
    obtain ⟨er, her⟩ : ∃ er, evs[r]? = some er := ⟨evs[r], by simp [hrlt]⟩
    have herv : er.ev = .ret c res := by simpa [evAt, her] using hr
    obtain ⟨sk, sk', hpre, hst⟩ := exec_cut _ evs r er her sf hex
    have hv := vinv_exec cfg cbs (evs.take r) sk hid hpre
    have hlen : (evs.take r).length = r := by simp; omega
    false_or_by_contra
    rename_i hno
    have hpend : PendingVis (evs.take r) c i := by
      refine ⟨by rw [evAt_take evs r i hir]; exact hi, ?_, ?_⟩
      · intro m h1 h2 heq
        rw [hlen] at h2
        rw [evAt_take evs r m h2] at heq
        exact hno ⟨m, h1, h2, heq⟩
      · intro m h1 h2
        rw [hlen] at h2
        rw [evAt_take evs r m h2]; exact hnr m h1 h2
    have hvis := hv.v c i hpend
    rw [step_caller_form sk er c (by rw [herv]; rfl)] at hst
    split at hst
    · simp at hst
    · rw [herv] at hst
      have := step_ret_pc _ sk' er.t c c res hst
      simp only at this
      rw [hvis] at this; simp at this

/-- the monitor `attemptsAtomicB` is sound for the hypothesis `AttemptsAtomic` of `reconnect_rate_limited`: a run on which
the monitor says true has atomic attempts -/
theorem attemptsAtomicB_sound (log : Log) (h : attemptsAtomicB log = true) : AttemptsAtomic log := by
  intro p j c hpj hp ⟨ok, od, hj⟩ hnochk m hpm hmj
  have hjl : j < log.length := evAt_lt_of_some hj
  simp only [attemptsAtomicB, allBelow, List.all_eq_true, List.mem_range] at h
  have h1 := h j hjl
  rw [hj] at h1
  simp only [List.all_eq_true, List.mem_range] at h1
  have h2 := h1 p hpj
  simp only [hp, beq_self_eq_true, Bool.not_true, Bool.false_or, Bool.or_eq_true, Bool.not_eq_eq_eq_not] at h2
  rcases h2 with h2 | h2
  · exfalso
    simp only [allBetween, Bool.not_eq_eq_eq_not, Bool.not_true] at h2
    have : ((List.range j).all fun m => !decide (p < m) || !isChk c (evAt log m)) = true := by
      simp only [List.all_eq_true, List.mem_range, Bool.or_eq_true, Bool.not_eq_eq_eq_not, Bool.not_true,
        decide_eq_false_iff_not]
      intro x hx
      by_cases hpx : p < x
      · right; exact hnochk x hpx hx
      · left; exact hpx
    rw [this] at h2; simp at h2
  · simp only [allBetween, List.all_eq_true, List.mem_range, Bool.or_eq_true, Bool.not_eq_eq_eq_not, Bool.not_true,
      decide_eq_false_iff_not] at h2
    rcases h2 m hmj with h3 | h3
    · exact absurd hpm h3
    · simpa using h3

/-- Reconnect rate limit — for EVERY accepted run in which attempts do not interleave (`AttemptsAtomic`, the effect of
`accessLock`; monitored on the implementation): a connect attempt made on behalf of a communicate call comes at least
the reconnect interval after EVERY earlier attempt, of whatever origin (up to the clock slack). -/
theorem reconnect_rate_limited (cfg : Cfg) (cbs : List Nat) (evs : List TEv) (hacc : Accepted cfg cbs evs)
    (hat : AttemptsAtomic evs) (i j : Nat) (hij : i < j) (hci : connectAt evs i ≠ none) (hcj : connectAt evs j = some true) :
    timeAt evs i + cfg.interval ≤ timeAt evs j + 2 * cfg.slack := by
  unfold Accepted at hacc
  cases hex : exec { cfg := cfg, cbsReg := cbs } evs with
  | none => simp [hex] at hacc
  | some sf =>
    have hjlt : j < evs.length := by
      false_or_by_contra; rename_i hn
      simp [connectAt, evAt_none evs j (by omega)] at hcj
    obtain ⟨ej, hej⟩ : ∃ ej, evs[j]? = some ej := ⟨evs[j], by simp [hjlt]⟩
    obtain ⟨x, ok, hejv⟩ : ∃ x ok, ej.ev = .connect x ok true := by
      simp only [connectAt, evAt, hej, Option.map_some] at hcj
      cases hv : ej.ev <;> simp only [hv] at hcj <;> try (simp at hcj)
      subst hcj; exact ⟨_, _, rfl⟩
    obtain ⟨sk, sk', hpre, hst⟩ := exec_cut _ evs j ej hej sf hex
    have ht := tinv_exec cfg cbs (evs.take j) sk hpre
    have hlen : (evs.take j).length = j := by simp; omega
    have hclk : sk.clock ≤ ej.t := by
      unfold step at hst; split at hst
      · simp at hst
      · omega
    have htj : timeAt evs j = ej.t := by simp [timeAt, hej]
    rw [step_caller_form sk ej x (by rw [hejv]; rfl)] at hst
    split at hst
    · simp at hst
    · rw [hejv] at hst
      obtain ⟨hpc, _, hkind⟩ := step_connect _ sk' ej.t x x ok true hst
      have hfl : flight (sk.callers x) = true := by
        have hk := hkind rfl
        simp only at hpc hk
        simp [flight, flightPc, hpc, hk]
      obtain ⟨p, q, hpq, hql, hpe, hno, hconn⟩ := ht.a5 x hfl
      rw [hlen] at hql
      rcases Nat.lt_or_ge i q with hiq | hqi
      · have h1 := hconn i hiq (by rw [connectAt_take evs j i (by omega)]; exact hci)
        rw [timeAt_take evs j i (by omega), timeAt_take evs j q hql] at h1
        have h2 := ht.t3 q (by rw [hlen]; exact hql)
        rw [timeAt_take evs j q hql] at h2
        omega
      · exfalso
        have := hat p j x (by omega) (by rw [← evAt_take evs j p (by omega)]; exact hpe)
          ⟨ok, true, by simp [evAt, hej, hejv]⟩
          (fun m h1 h2 => by rw [← evAt_take evs j m h2]; exact hno m h1 (by rw [hlen]; exact h2))
          i (by omega) hij
        exact hci this

/-- Delays honoured — for EVERY accepted run: in a multicomm call of caller `c` (started at position a with requests
`reqs`, not yet returned), two consecutive sends of `c` at positions p < q are at least the delay of the request sent
at p apart; that request is `reqs[m]` where m is the number of sends of the call before p. -/
theorem delays_honoured_run (cfg : Cfg) (cbs : List Nat) (evs : List TEv) (hacc : Accepted cfg cbs evs)
    (c a p q : Nat) (reqs : List Req) (ha : evAt evs a = some (.call c .multi reqs)) (hap : a < p) (hpq : p < q)
    (hnr : ∀ m, a < m → m < q → isRetOf c (evAt evs m) = false)
    (hp : sendAt evs p = some c) (hq : sendAt evs q = some c) (hno : ∀ m, p < m → m < q → sendAt evs m ≠ some c) :
    timeAt evs p + (reqs.getD (sendsIn evs c a p).length noReq).delay ≤ timeAt evs q := by
  unfold Accepted at hacc
  cases hex : exec { cfg := cfg, cbsReg := cbs } evs with
  | none => simp [hex] at hacc
  | some sf =>
    have hqlt := sendAt_lt_length evs q c hq
    obtain ⟨eq, heq⟩ : ∃ eq, evs[q]? = some eq := ⟨evs[q], by simp [hqlt]⟩
    obtain ⟨sk, sk', hpre, hst⟩ := exec_cut _ evs q eq heq sf hex
    have hl := linv_exec cfg cbs (evs.take q) sk hpre
    have hg := ginv_exec cfg cbs (evs.take q) sk hpre
    have hlen : (evs.take q).length = q := by simp; omega
    have hclk : sk.clock ≤ eq.t := by
      unfold step at hst; split at hst
      · simp at hst
      · omega
    have htq : timeAt evs q = eq.t := by simp [timeAt, heq]
    obtain ⟨conn, n, d, hv⟩ : ∃ conn n d, eq.ev = .send c conn n d := by
      simp only [sendAt, evAt, heq, Option.map_some] at hq
      cases hv : eq.ev <;> simp only [hv] at hq <;> try (simp at hq)
      subst hq; exact ⟨_, _, _, rfl⟩
    rw [step_caller_form sk eq c (by rw [hv]; rfl)] at hst
    split at hst
    · simp at hst
    · rw [hv] at hst
      have hdrain := stale_send_pc _ _ _ _ _ _ _ hst
      simp only at hdrain
      obtain ⟨a', ha'l, hev', hnr', huniq, hcnt, hlast⟩ := hl.l1 c (by rw [hdrain]; simp)
      -- the call the caller is in is the one at `a`
      have haa : a = a' := by
        apply huniq a
        · rw [evAt_take evs q a (by omega), ha]; simp [isCallOf]
        · intro m h1 h2; rw [hlen] at h2; rw [evAt_take evs q m h2]; exact hnr m h1 h2
      subst haa
      rw [evAt_take evs q a (by omega), ha] at hev'
      simp only [Option.some.injEq, Ev.call.injEq, true_and] at hev'
      obtain ⟨hkind, hreqs⟩ := hev'
      -- how many sends so far
      have hcount : (sk.callers c).sent = (sendsIn evs c a p).length + 1 := by
        rw [hcnt, hlen, sendsIn_take]
        have := sendsIn_last evs c a p hap hp (q - (p + 1)) (fun m h1 h2 => hno m h1 (by omega))
        rw [show p + 1 + (q - (p + 1)) = q by omega] at this
        rw [this]; simp
      -- the last send is the one at p
      obtain ⟨p', hap', hp'l, hp's, hp'no, hp't⟩ := hlast (by omega)
      rw [hlen] at hp'l
      have hpp : p' = p := by
        rcases Nat.lt_trichotomy p' p with h | h | h
        · exact absurd (by rw [sendAt_take evs q p hpq]; exact hp) (hp'no p h (by rw [hlen]; exact hpq))
        · exact h
        · rw [sendAt_take evs q p' hp'l] at hp's
          exact absurd hp's (hno p' h hp'l)
      subst hpp
      rw [timeAt_take evs q p' hp'l] at hp't
      have hg3 := (hg c).g3 hkind.symm (by omega) (by rw [hdrain]; rfl)
      unfold lastDelay at hg3
      rw [← hreqs, hcount] at hg3
      simp only [Nat.add_sub_cancel] at hg3
      rw [hp't, htq]; omega

/-- … and a multicomm that returns its replies does not return before the delay of the request sent last has passed
(p: position of the last send of the call, b: position of the return). -/
theorem delays_honoured_return (cfg : Cfg) (cbs : List Nat) (evs : List TEv) (hacc : Accepted cfg cbs evs)
    (c a p b : Nat) (reqs : List Req) (rs : List Bytes) (ha : evAt evs a = some (.call c .multi reqs)) (hap : a < p) (hpb : p < b)
    (hnr : ∀ m, a < m → m < b → isRetOf c (evAt evs m) = false)
    (hp : sendAt evs p = some c) (hb : evAt evs b = some (.ret c (.ok rs))) (hno : ∀ m, p < m → m < b → sendAt evs m ≠ some c) :
    timeAt evs p + (reqs.getD (sendsIn evs c a p).length noReq).delay ≤ timeAt evs b := by
  unfold Accepted at hacc
  cases hex : exec { cfg := cfg, cbsReg := cbs } evs with
  | none => simp [hex] at hacc
  | some sf =>
    have hblt : b < evs.length := by
      false_or_by_contra; rename_i hn
      rw [evAt_none evs b (by omega)] at hb; simp at hb
    obtain ⟨eb, heb⟩ : ∃ eb, evs[b]? = some eb := ⟨evs[b], by simp [hblt]⟩
    have hv : eb.ev = .ret c (.ok rs) := by simpa [evAt, heb] using hb
    obtain ⟨sk, sk', hpre, hst⟩ := exec_cut _ evs b eb heb sf hex
    have hl := linv_exec cfg cbs (evs.take b) sk hpre
    have hg := ginv_exec cfg cbs (evs.take b) sk hpre
    have hlen : (evs.take b).length = b := by simp; omega
    have hclk : sk.clock ≤ eb.t := by
      unfold step at hst; split at hst
      · simp at hst
      · omega
    have htb : timeAt evs b = eb.t := by simp [timeAt, heb]
    rw [step_caller_form sk eb c (by rw [hv]; rfl)] at hst
    split at hst
    · simp at hst
    · rw [hv] at hst
      obtain ⟨hpc, hfail⟩ := step_ret_ok _ sk' eb.t c c rs hst
      simp only at hpc hfail
      have hnidle : (sk.callers c).pc ≠ .idle := by rcases hpc with h | h <;> (rw [h]; simp)
      obtain ⟨a', ha'l, hev', hnr', huniq, hcnt, hlast⟩ := hl.l1 c hnidle
      have haa : a = a' := by
        apply huniq a
        · rw [evAt_take evs b a (by omega), ha]; simp [isCallOf]
        · intro m h1 h2; rw [hlen] at h2; rw [evAt_take evs b m h2]; exact hnr m h1 h2
      subst haa
      rw [evAt_take evs b a (by omega), ha] at hev'
      simp only [Option.some.injEq, Ev.call.injEq, true_and] at hev'
      obtain ⟨hkind, hreqs⟩ := hev'
      have hcount : (sk.callers c).sent = (sendsIn evs c a p).length + 1 := by
        rw [hcnt, hlen, sendsIn_take]
        have := sendsIn_last evs c a p hap hp (b - (p + 1)) (fun m h1 h2 => hno m h1 (by omega))
        rw [show p + 1 + (b - (p + 1)) = b by omega] at this
        rw [this]; simp
      obtain ⟨p', hap', hp'l, hp's, hp'no, hp't⟩ := hlast (by omega)
      rw [hlen] at hp'l
      have hpp : p' = p := by
        rcases Nat.lt_trichotomy p' p with h | h | h
        · exact absurd (by rw [sendAt_take evs b p hpb]; exact hp) (hp'no p h (by rw [hlen]; exact hpb))
        · exact h
        · rw [sendAt_take evs b p' hp'l] at hp's
          exact absurd hp's (hno p' h hp'l)
      subst hpp
      rw [timeAt_take evs b p' hp'l] at hp't
      -- a multicomm returns from `done` (rcheck is doPoll's)
      have hdone : (sk.callers c).pc = .done := by
        rcases hpc with h | h
        · exact h
        · have hk := (hg c).g1 (by rw [h]; rfl)
          have hk3 := (hg c).g3 hkind.symm (by omega) (by rw [h]; rfl)
          -- rcheck is reached by a multicomm only after the delay as well; but a return from rcheck needs kind = poll
          exfalso
          have := hst
          simp only [stepCaller, h] at this
          simp [← hkind] at this
      have hg7 := (hg c).g7 hdone hfail hkind.symm (by omega)
      unfold lastDelay at hg7
      rw [← hreqs, hcount] at hg7
      simp only [Nat.add_sub_cancel] at hg7
      rw [hp't, htb]; omega

/-- Delays honoured — the clause in the WINDOW form of the monitor (`delaysHonouredB`), for EVERY accepted run (any
configuration): this IS `delays_honoured_statement`.  From `delays_honoured_run` (consecutive sends) and
`delays_honoured_return` (the return after the last send). -/
theorem delays_honoured : delays_honoured_statement := by
  intro cfg cbs evs hacc
  unfold DelaysHonoured delaysHonouredB
  simp only [allBelow, List.all_eq_true, List.mem_range]
  intro a _
  cases hev : evAt evs a with
  | none => rfl
  | some ev =>
    cases ev <;> try rfl
    rename_i c kind reqs
    cases kind <;> try rfl
    obtain ⟨hnr, hble, hbret⟩ := spanEnd_spec evs c a
    simp only [Bool.and_eq_true, List.all_eq_true, List.mem_range, decide_eq_true_eq, Bool.or_eq_true,
      Bool.not_eq_eq_eq_not, Bool.not_true, beq_iff_eq]
    constructor
    · intro m hm
      have hm0 : m < (sendsIn evs c a (spanEnd evs c a)).length := by omega
      have hm1 : m + 1 < (sendsIn evs c a (spanEnd evs c a)).length := by omega
      have hp := List.getElem?_eq_getElem hm0
      have hq := List.getElem?_eq_getElem hm1
      obtain ⟨hap, hpb, hsp, hcnt⟩ := sendsIn_nth evs c a _ m _ hp
      obtain ⟨_, hqb, hsq, _⟩ := sendsIn_nth evs c a _ (m + 1) _ hq
      obtain ⟨hpq, hno⟩ := sendsIn_consecutive evs c a _ m _ _ hp hq
      rw [getD_of_getElem? hp, getD_of_getElem? hq]
      have := delays_honoured_run cfg cbs evs hacc c a _ _ reqs hev hap hpq
        (fun x h1 h2 => hnr x h1 (by omega)) hsp hsq hno
      rw [hcnt, List.length_take, Nat.min_eq_left (by omega)] at this
      exact this
    · by_cases hg : ((sendsIn evs c a (spanEnd evs c a)).length = reqs.length ∧
          0 < (sendsIn evs c a (spanEnd evs c a)).length) ∧ isOkRet (evAt evs (spanEnd evs c a)) = true
      · right
        obtain ⟨⟨_, hpos⟩, hok⟩ := hg
        have hl : (sendsIn evs c a (spanEnd evs c a)).length - 1 < (sendsIn evs c a (spanEnd evs c a)).length := by omega
        have hp := List.getElem?_eq_getElem hl
        obtain ⟨hap, hpb, hsp, hcnt⟩ := sendsIn_nth evs c a _ _ _ hp
        obtain ⟨x, rs, hbev⟩ := isOkRet_some hok
        have hblt : spanEnd evs c a < evs.length := evAt_lt_of_some hbev
        have hxc : x = c := by
          have := (hbret hblt).2
          rw [hbev] at this
          simpa [isRetOf] using this
        subst hxc
        rw [getD_of_getElem? hp]
        have hno : ∀ y, (sendsIn evs x a (spanEnd evs x a))[(sendsIn evs x a (spanEnd evs x a)).length - 1] < y →
            y < spanEnd evs x a → sendAt evs y ≠ some x := by
          intro y h1 h2 hs
          have hy : y ∈ sendsIn evs x a (spanEnd evs x a) := mem_sendsIn.2 ⟨h2, by omega, hs⟩
          obtain ⟨n, hn, hyn⟩ := List.getElem_of_mem hy
          -- y is the n-th send, n ≤ last: then y ≤ the last send
          rcases Nat.lt_or_ge n ((sendsIn evs x a (spanEnd evs x a)).length - 1) with hlt | hge
          · have hny := List.getElem?_eq_getElem hn
            rw [hyn] at hny
            obtain ⟨_, _, _, hcy⟩ := sendsIn_nth evs x a _ n y hny
            have hmem : (sendsIn evs x a (spanEnd evs x a))[(sendsIn evs x a (spanEnd evs x a)).length - 1] ∈
                sendsIn evs x a y := by
              apply mem_sendsIn.2
              exact ⟨h1, hap, hsp⟩
            rw [hcy] at hmem
            have hlen := congrArg List.length hcnt
            rw [List.length_take, Nat.min_eq_left (by omega)] at hlen
            -- the last send lies in the first n sends: it then precedes itself
            obtain ⟨k, hk, hkk⟩ := List.getElem_of_mem hmem
            rw [List.length_take, Nat.min_eq_left (by omega)] at hk
            rw [List.getElem_take] at hkk
            have hkq := List.getElem?_eq_getElem (show k < (sendsIn evs x a (spanEnd evs x a)).length by omega)
            rw [hkk] at hkq
            obtain ⟨_, _, _, hck⟩ := sendsIn_nth evs x a _ k _ hkq
            have := congrArg List.length hck
            rw [List.length_take, Nat.min_eq_left (by omega), hlen] at this
            omega
          · have : n = (sendsIn evs x a (spanEnd evs x a)).length - 1 := by omega
            subst this
            omega
        have := delays_honoured_return cfg cbs evs hacc x a _ (spanEnd evs x a) reqs rs hev hap hpb hnr hsp hbev hno
        rw [hcnt, List.length_take, Nat.min_eq_left (by omega)] at this
        exact this
      · left
        simp only [not_and, Bool.not_eq_true] at hg
        simp only [Bool.and_eq_false_iff, beq_eq_false_iff_ne, ne_eq, decide_eq_false_iff_not]
        by_cases h2 : (sendsIn evs c a (spanEnd evs c a)).length = reqs.length
        · by_cases h3 : 0 < (sendsIn evs c a (spanEnd evs c a)).length
          · right; exact hg ⟨h2, h3⟩
          · left; right; exact h3
        · left; left; exact h2

/-- Fails within the time-out — for EVERY accepted run: a `recv` of caller `c` that ends empty (position u) belongs to
the read loop started by `c`'s own last send (position p), and it ends no later than one `recv` period (`gran`) after
the end of the time-out — or after the last byte-carrying `recv` of the loop, if the device kept talking — up to the
clock slack.  After an empty `recv` past the time-out the loop is not continued (`mayRetry`), so this bounds the moment
the time-out is detected.  (That the error is then RETURNED promptly is a matter of the scheduler, not of the model:
`fails_within_timeout` monitor on the implementation.) -/
theorem fails_within_timeout_run (cfg : Cfg) (cbs : List Nat) (evs : List TEv) (hacc : Accepted cfg cbs evs) (hid : cfg.ident = []) (hnm : NoMore evs)
    (c u : Nat) (hu : evAt evs u = some (.recv c .empty)) :
    ∃ p conn n, LastSend (evs.take u) p c conn n ∧
      timeAt evs u ≤ max (timeAt evs p + cfg.timeout + cfg.slack) (lastDataTime evs c p u) + cfg.gran + cfg.slack := by
  unfold Accepted at hacc
  cases hex : exec { cfg := cfg, cbsReg := cbs } evs with
  | none => simp [hex] at hacc
  | some sf =>
    have hult : u < evs.length := by
      false_or_by_contra; rename_i hn
      rw [evAt_none evs u (by omega)] at hu; simp at hu
    obtain ⟨eu, heu⟩ : ∃ eu, evs[u]? = some eu := ⟨evs[u], by simp [hult]⟩
    have hv : eu.ev = .recv c .empty := by simpa [evAt, heu] using hu
    obtain ⟨sk, sk', hpre, hst⟩ := exec_cut _ evs u eu heu sf hex
    have hr := rinv_exec cfg cbs (evs.take u) sk hpre
    have he := einv_exec cfg cbs (evs.take u) sk hpre
    have ht := tinv_exec cfg cbs (evs.take u) sk hpre
    have hlen : (evs.take u).length = u := by simp; omega
    have htu : timeAt evs u = eu.t := by simp [timeAt, heu]
    rw [step_caller_form sk eu c (by rw [hv]; rfl)] at hst
    split at hst
    · simp at hst
    · rw [hv] at hst
      have hi0 := inv_exec cfg cbs (evs.take u) sk hpre
      have hrd := step_recv_empty_pc _ sk' eu.t c c hst (hi0.ni (by rw [ht.cfg_eq]; exact hid) c)
        (hi0.nx (noMore_take hnm u) c)
      simp only at hrd
      obtain ⟨p, conn, n, hls, _⟩ := hr.r c hrd
      obtain ⟨h1, h2, h3⟩ := he.e c hrd p conn n hls
      have hpl := lastSend_lt hls
      rw [hlen] at hpl
      refine ⟨p, conn, n, hls, ?_⟩
      rcases step_read_time _ sk' eu.t c _ hst hrd with ⟨_, _, hcase⟩ | hne
      · rcases hcase with ⟨_, hg, hm, _, _⟩ | ⟨⟨x, d, hx⟩, _⟩
        · simp only at hg hm
          rw [ht.cfg_eq] at hg hm
          have hb := mayRetry_lastT hm h2 h3
          unfold waitBound at hb
          rw [hlen, lastDataTime_take, h1, timeAt_take evs u p hpl] at hb
          rw [htu]
          have : timeAt evs p + cfg.timeout + cfg.slack = timeAt evs p + cfg.timeout + cfg.slack := rfl
          omega
        · simp at hx
      · -- an empty recv keeps the caller in the loop
        exfalso
        have := hst
        simp only [stepCaller, hrd] at this
        split at this
        · simp only [Option.some.injEq] at this; subst this; simp at hne
        · simp at this

/-- Fails within the time-out, EVERY read — for EVERY accepted run (any configuration, identification and replies of
variable length included): a `recv` of caller `c` that ends empty (position u) belongs to the read started by `c`'s own
last read-starting event p < u — the send of a command, an identification request (`isend`) or a `readBytes` of
`getFullReply` (`more`), each of which has the communicator's time-out — and it ends no later than one `recv` period after
the end of that time-out, or after the last byte-carrying `recv` of that read, up to the clock slack.
(`fails_within_timeout_run` is the special case without identification and with replies of fixed length, where p is a send.) -/
theorem fails_within_timeout_all (cfg : Cfg) (cbs : List Nat) (evs : List TEv) (hacc : Accepted cfg cbs evs)
    (c u : Nat) (hu : evAt evs u = some (.recv c .empty)) :
    ∃ p, LoopStart (evs.take u) c p ∧
      timeAt evs u ≤ max (timeAt evs p + cfg.timeout + cfg.slack) (lastDataTime evs c p u) + cfg.gran + cfg.slack := by
  unfold Accepted at hacc
  cases hex : exec { cfg := cfg, cbsReg := cbs } evs with
  | none => simp [hex] at hacc
  | some sf =>
    have hult : u < evs.length := by
      false_or_by_contra; rename_i hn
      rw [evAt_none evs u (by omega)] at hu; simp at hu
    obtain ⟨eu, heu⟩ : ∃ eu, evs[u]? = some eu := ⟨evs[u], by simp [hult]⟩
    have hv : eu.ev = .recv c .empty := by simpa [evAt, heu] using hu
    obtain ⟨sk, sk', hpre, hst⟩ := exec_cut _ evs u eu heu sf hex
    have he := einvAll_exec cfg cbs (evs.take u) sk hpre
    have ht := tinv_exec cfg cbs (evs.take u) sk hpre
    have hlen : (evs.take u).length = u := by simp; omega
    have htu : timeAt evs u = eu.t := by simp [timeAt, heu]
    rw [step_caller_form sk eu c (by rw [hv]; rfl)] at hst
    split at hst
    · simp at hst
    · rw [hv] at hst
      have hloop := step_recv_empty_loop _ sk' eu.t c c hst
      simp only at hloop
      obtain ⟨p, hls, h1, h2, h3⟩ := he.e c hloop
      have hpl := loopStart_lt hls
      rw [hlen] at hpl
      refine ⟨p, hls, ?_⟩
      have hp' : loopPc (sk'.callers c).pc = true := by
        have := hst
        cases hpc : (sk.callers c).pc <;> simp only [hpc, loopPc] at hloop <;> try (simp at hloop)
        all_goals (
          simp only [stepCaller, hpc] at this
          split at this
          · simp only [Option.some.injEq] at this; subst this; simp [hpc, loopPc]
          · simp at this)
      rcases step_loop _ sk' eu.t c _ hst hp' with ⟨_, _, hcase⟩ | ⟨hk, _⟩
      · rcases hcase with ⟨_, hg, hm, _, _⟩ | ⟨⟨x, d, hx⟩, _⟩
        · simp only at hg hm
          rw [ht.cfg_eq] at hg hm
          have hb := mayRetry_lastT hm h2 h3
          unfold waitBound at hb
          rw [hlen, lastDataTime_take, h1, timeAt_take evs u p hpl] at hb
          rw [htu]
          omega
        · simp at hx
      · simp [loopStartKind] at hk

/-- Every caller receives the reply to its own command — for EVERY accepted run, in the form of what a call RETURNS:
each reply in the result of a call of caller `c` (return at position b) is framed (first line / first `rlen` bytes)
from the bytes that arrived on the connection after one of `c`'s OWN sends p < b of that same call (no return of `c`
between p and b) and before some position w ≤ b — unless the connection was replaced between p and w. -/
theorem reply_own_ret (cfg : Cfg) (cbs : List Nat) (evs : List TEv) (hacc : Accepted cfg cbs evs) (hnm : NoMore evs)
    (c b : Nat) (rs : List Bytes) (hb : evAt evs b = some (.ret c (.ok rs))) (l : Bytes) (hl : l ∈ rs) :
    FreshReply cfg (evs.take b) c l := by
  unfold Accepted at hacc
  cases hex : exec { cfg := cfg, cbsReg := cbs } evs with
  | none => simp [hex] at hacc
  | some sf =>
    have hblt : b < evs.length := by
      false_or_by_contra; rename_i hn
      rw [evAt_none evs b (by omega)] at hb; simp at hb
    obtain ⟨eb, heb⟩ : ∃ eb, evs[b]? = some eb := ⟨evs[b], by simp [hblt]⟩
    have hv : eb.ev = .ret c (.ok rs) := by simpa [evAt, heb] using hb
    obtain ⟨sk, sk', hpre, hst⟩ := exec_cut _ evs b eb heb sf hex
    have hq := qinv_exec cfg cbs (evs.take b) sk hpre
    rw [step_caller_form sk eb c (by rw [hv]; rfl)] at hst
    split at hst
    · simp at hst
    · rw [hv] at hst
      obtain ⟨hpc, hfail⟩ := step_ret_ok _ sk' eb.t c c rs hst
      simp only at hpc hfail
      have hnidle : (sk.callers c).pc ≠ .idle := by rcases hpc with h | h <;> (rw [h]; simp)
      -- the result is the list of replies collected
      have hrs : rs = (sk.callers c).replies := by
        have := hst
        rcases hpc with h | h <;> simp only [stepCaller, h] at this
        · split at this
          · next hg => have := hg; simp only [result, hfail] at this; simpa using this
          · simp at this
        · split at this
          · next hg => have := hg.2; simp only [result, hfail] at this; simpa using this
          · simp at this
      rw [hrs] at hl
      exact hq.q (noMore_take hnm b) c l hl hnidle

/-- Callbacks once — for EVERY accepted run: let caller `c` connect successfully at position i and announce
`is_connected = true` at v (its next event), after the communicator had closed a connection before (some `hclose`
before v: a REconnect, clean or not).  Then the events of `c` that follow are, one by one and in order, the runs of the
callbacks registered at v: the j-th event of `c` after v is the run of the j-th registered callback
(j < number of registered callbacks).  So every registered callback runs exactly once (the registered names are
distinct keys), before `c` does anything else. -/
theorem callbacks_once_run (cfg : Cfg) (cbs : List Nat) (evs : List TEv) (hacc : Accepted cfg cbs evs) (hid : cfg.ident = [])
    (c i v m : Nat) (od : Bool) (hiv : i < v) (hvm : v < m)
    (hi : evAt evs i = some (.connect c true od)) (hv : evAt evs v = some (.isconn c true))
    (hno : ∀ x, i < x → x < v → whoAt evs x ≠ some c)
    (hh : ∃ h0, h0 < v ∧ isHclose (evAt evs h0) = true)
    (hm : whoAt evs m = some c)
    (hj : countOf evs c v m < (registeredAt cbs evs v).length) :
    ∃ keep, evAt evs m = some (.cb c ((registeredAt cbs evs v).getD (countOf evs c v m) 0) keep) := by
  unfold Accepted at hacc
  cases hex : exec { cfg := cfg, cbsReg := cbs } evs with
  | none => simp [hex] at hacc
  | some sf =>
    have hmlt : m < evs.length := by
      false_or_by_contra; rename_i hn
      simp [whoAt, evAt_none evs m (by omega)] at hm
    obtain ⟨em, hem⟩ : ∃ em, evs[m]? = some em := ⟨evs[m], by simp [hmlt]⟩
    have hwho : em.ev.who = some c := by simpa [whoAt, evAt, hem] using hm
    obtain ⟨sk, sk', hpre, hst⟩ := exec_cut _ evs m em hem sf hex
    have hc := cinv_exec cfg cbs (evs.take m) sk hid hpre
    have hlen : (evs.take m).length = m := by simp; omega
    have hpc := hc.k3 c i od v hiv (by rw [evAt_take evs m i (by omega)]; exact hi)
      (by rw [evAt_take evs m v hvm]; exact hv)
      (fun x h1 h2 => by rw [whoAt_take evs m x (by omega)]; exact hno x h1 h2)
      (by obtain ⟨h0, h0v, hx⟩ := hh; exact ⟨h0, h0v, by rw [evAt_take evs m h0 (by omega)]; exact hx⟩)
      (by rw [hlen, countOf_take, registeredAt_take cbs evs m v (by omega)]; exact hj)
    rw [hlen, countOf_take, registeredAt_take cbs evs m v (by omega)] at hpc
    rw [List.drop_eq_getElem_cons (h := hj)] at hpc
    rw [step_caller_form sk em c hwho] at hst
    split at hst
    · simp at hst
    · obtain ⟨x, keep, hev, _⟩ := step_in_cbs _ sk' em.t c _ _ em.ev hst hpc
      have hx : x = c := by rw [hev] at hwho; simpa [Ev.who] using hwho
      subst hx
      refine ⟨keep, ?_⟩
      simp only [evAt, hem, Option.map_some, hev]
      congr 2
      simp [List.getD, List.getElem?_eq_getElem hj]

/-- Callbacks once, with an identification configured — for EVERY accepted run (any configuration): when `checkHWIdent`
of caller `c` has passed at position v (event `idend c true`: the reconnect is successful now) after the communicator
had closed a connection before (a REconnect), the events of `c` that follow are, one by one and in order, the runs of the
callbacks registered at v — each exactly once, before `c` does anything else.  (Also for a reconnect made from within an
identification request.) -/
theorem callbacks_once_ident_run (cfg : Cfg) (cbs : List Nat) (evs : List TEv) (hacc : Accepted cfg cbs evs)
    (c v m : Nat) (hvm : v < m) (hv : evAt evs v = some (.idend c true))
    (hh : ∃ h0, h0 < v ∧ isHclose (evAt evs h0) = true)
    (hm : whoAt evs m = some c)
    (hj : countOf evs c v m < (registeredAt cbs evs v).length) :
    ∃ keep, evAt evs m = some (.cb c ((registeredAt cbs evs v).getD (countOf evs c v m) 0) keep) := by
  unfold Accepted at hacc
  cases hex : exec { cfg := cfg, cbsReg := cbs } evs with
  | none => simp [hex] at hacc
  | some sf =>
    have hmlt : m < evs.length := by
      false_or_by_contra; rename_i hn
      simp [whoAt, evAt_none evs m (by omega)] at hm
    obtain ⟨em, hem⟩ : ∃ em, evs[m]? = some em := ⟨evs[m], by simp [hmlt]⟩
    have hwho : em.ev.who = some c := by simpa [whoAt, evAt, hem] using hm
    obtain ⟨sk, sk', hpre, hst⟩ := exec_cut _ evs m em hem sf hex
    have hc := dinv_exec cfg cbs (evs.take m) sk hpre
    have hlen : (evs.take m).length = m := by simp; omega
    have hpc := hc.k5 c v (by rw [evAt_take evs m v hvm]; exact hv)
      (by obtain ⟨h0, h0v, hx⟩ := hh; exact ⟨h0, h0v, by rw [evAt_take evs m h0 (by omega)]; exact hx⟩)
      (by rw [hlen, countOf_take, registeredAt_take cbs evs m v (by omega)]; exact hj)
    rw [hlen, countOf_take, registeredAt_take cbs evs m v (by omega)] at hpc
    rw [List.drop_eq_getElem_cons (h := hj)] at hpc
    rw [step_caller_form sk em c hwho] at hst
    split at hst
    · simp at hst
    · obtain ⟨x, keep, hev, _⟩ := step_in_cbs _ sk' em.t c _ _ em.ev hst hpc
      have hx : x = c := by rw [hev] at hwho; simpa [Ev.who] using hwho
      subst hx
      refine ⟨keep, ?_⟩
      simp only [evAt, hem, Option.map_some, hev]
      congr 2
      simp [List.getD, List.getElem?_eq_getElem hj]

/-- Polling resumes, the part that is a fact about `trigger_all` alone: after the poll thread's reconnect callback every
polled module of the thread is due in the next turn (any turn at a time later than the module's poll interval — times
are seconds since the epoch).  That the callback runs after EVERY reconnect is `callbacks_once_run` together with the
fix of F34 (it stays registered); that the thread then takes its turn is judged on the real poll thread
(`polling_resumes` monitor). -/
theorem polling_resumes_partial (lastMain interval : Nat → Nat) (polled : List Nat) (now m : Nat)
    (hm : m ∈ polled) (hnow : interval m < now) : pollDue (triggerAll lastMain polled) interval now m = true := by
  unfold pollDue triggerAll
  simp only [List.contains_eq_mem, hm, decide_true, if_true, Nat.zero_add]
  simpa using hnow

/-- stale data discarded, step level: a `send` is accepted only from the drain state, when everything that had
arrived on the connection has been read away and the device has not closed; the receive buffer is emptied -/
theorem stale_discarded_partial (s s' : State) (t c conn n : Nat) (d : Bytes)
    (h : stepCaller s t c (.send c conn n d) = some s') :
    (s.callers c).pc = .drain ∧ s.chan = [] ∧ s.eof = false ∧ s.conn = some conn ∧ n = s.nsend
      ∧ d = (current (s.callers c)).cmd := by
  cases hpc : (s.callers c).pc <;> simp only [stepCaller, hpc] at h <;> try (simp at h)
  split at h <;> simp_all

/-- delays honoured, step level: a sleep of `d` started at `t` sets the wake-up time to `t + d`, and `d` is
wait_before or the delay of the request just done … -/
theorem delays_honoured_partial_sleep (s s' : State) (t c d : Nat) (h : stepCaller s t c (.slp c d) = some s') :
    (s'.callers c).wakeAt = t + d ∧
      (((s.callers c).pc = .slpWB ∧ d = s.cfg.waitBefore) ∨ ((s.callers c).pc = .slpD ∧ d = (s.callers c).wakeAt) ∨
       ((s.callers c).pc = .idSlp ∧ d = s.cfg.waitBefore)) := by
  cases hpc : (s.callers c).pc <;> simp only [stepCaller, hpc] at h <;> try (simp at h)
  all_goals (obtain ⟨h1, h2⟩ := h; subst h2; simp [State.setC, h1])

/-- … and the thread continues (next request, flush + send, or return) only when that time has come -/
theorem delays_honoured_partial_wake (s s' : State) (t c : Nat) (h : stepCaller s t c (.wake c) = some s') :
    (s.callers c).wakeAt ≤ t := by
  cases hpc : (s.callers c).pc <;> simp only [stepCaller, hpc] at h <;> try (simp at h)
  all_goals exact h.1

/-- fails within the time-out, step level: the read loop is left with a time-out only after an empty `recv` at or
after the end of the time-out (up to the clock slack); an empty `recv` ends no later than `gran` after it began
(guard of the model = assumption on the lowest layer, `AsynConn.timeout`) -/
theorem fails_within_timeout_partial (s s' : State) (t c : Nat) (hpc : (s.callers c).pc = .read) (hconn : s.conn ≠ none)
    (h : stepCaller s t c (.rel c) = some s') :
    ∃ te, (s.callers c).emptyAt = some te ∧ (s.callers c).endT ≤ te + s.cfg.slack ∧ (s'.callers c).failed = true := by
  simp only [stepCaller, hpc, hconn, if_false] at h
  split at h
  · next te hte =>
    split at h
    · next hg =>
      simp only [Option.some.injEq] at h
      subst h
      refine ⟨te, hte, hg.1, ?_⟩
      simp [State.setC, failTo]
    · simp at h
  · simp at h

theorem recv_empty_bounded (s s' : State) (t c : Nat) (h : stepCaller s t c (.recv c .empty) = some s') :
    t ≤ (s.callers c).lastT + s.cfg.gran + s.cfg.slack := by
  cases hpc : (s.callers c).pc <;> simp only [stepCaller, hpc] at h <;> try (simp at h)
  all_goals exact h.1.2.2.1

/-- state visible, step level: once a `recv` has reported the closed connection the caller cannot return (nor do
anything else) before `closeConnection` has run and `is_connected = false` has been announced (communicators without
identification: with one, another thread's failed identification may drop the connection first) -/
theorem state_visible_partial (s : State) (t c : Nat) (e : Ev) (hid : s.cfg.ident = [])
    (hpc : (s.callers c).pc = .closing ∨ (s.callers c).pc = .visF) :
    (stepCaller s t c e).isSome = true → (∃ x, e = .hclose x) ∨ (∃ x, e = .isconn x false) := by
  intro h
  rcases hpc with hpc | hpc <;> cases e <;> simp [stepCaller, hpc, connGone, hid] at h ⊢
  · exact h

/-- reconnect rate limit, step level: an attempt on behalf of a communicate call goes on only if the reconnect
interval has passed since the attempt recorded last; otherwise the call fails at once -/
theorem reconnect_rate_limited_partial (s s' : State) (t c t' : Nat) (hpc : (s.callers c).pc = .chkNow)
    (h : stepCaller s t c (.now c t') = some s') :
    t' = t ∧
    ((s.lastAttempt + s.cfg.interval ≤ t' ∧ s'.lastAttempt = t' ∧ (s'.callers c).pc = .rcheck) ∨
     (t' < s.lastAttempt + s.cfg.interval ∧ (s'.callers c).failed = true)) := by
  simp only [stepCaller, hpc] at h
  split at h
  · next ht =>
    refine ⟨ht, ?_⟩
    split at h
    · next hle => simp only [Option.some.injEq] at h; subst h; left; simp [State.setC, hle]
    · next hlt => simp only [Option.some.injEq] at h; subst h; right; simp [State.setC, failTo]; omega
  · simp at h

/-- every connect attempt is recorded first: `connect` is accepted only in the state entered by the clock read of
`read_is_connected`, which stores the time of the attempt -/
theorem reconnect_recorded_partial (s s' : State) (t c t' : Nat) (hpc : (s.callers c).pc = .rcheck)
    (h : stepCaller s t c (.now c t') = some s') : s'.lastAttempt = t' ∧ (s'.callers c).pc = .connecting := by
  simp only [stepCaller, hpc] at h
  split at h
  · simp only [Option.some.injEq] at h; subst h; simp [State.setC]
  · simp at h

/-- callbacks once, step level: in the state "callbacks `n :: rest` still to run" the only accepted event is the run
of callback `n`, after which `rest` remains (or the caller goes on) -/
theorem callbacks_once_partial (s s' : State) (t c n n' : Nat) (rest : List Nat) (keep : Bool)
    (hpc : (s.callers c).pc = .cbs (n :: rest)) (h : stepCaller s t c (.cb c n' keep) = some s') :
    n' = n ∧ (rest ≠ [] → (s'.callers c).pc = .cbs rest) := by
  simp only [stepCaller, hpc] at h
  split at h
  · next hn =>
    simp only [Option.some.injEq] at h
    subst h
    refine ⟨hn, fun hr => ?_⟩
    cases rest with
    | nil => exact absurd rfl hr
    | cons a b => cases keep <;> simp [State.setC]
  · simp at h


/-! ## exchanges are atomic; a dropped connection is announced; identification on connect; replies of variable length -/

/-! ## a transaction keeps the connection to itself until its last delay has elapsed -/

/-- Between two sends of one call nobody else touches the connection — for EVERY accepted run (any configuration):
`multicomm_atomic` for every kind of traffic (send, identification request, flush, recv), not only for sends. -/
theorem transaction_uninterrupted (cfg : Cfg) (cbs : List Nat) (evs : List TEv) (hacc : Accepted cfg cbs evs) :
    TransactionUninterrupted evs := by
  intro i j k c c' hij hjk hsi hsk hnr htj
  unfold Accepted at hacc
  cases hex : exec { cfg := cfg, cbsReg := cbs } evs with
  | none => simp [hex] at hacc
  | some sf =>
    have hklt := sendAt_lt_length evs k c hsk
    obtain ⟨ek, hek⟩ : ∃ ek, evs[k]? = some ek := ⟨evs[k], by simp [hklt]⟩
    obtain ⟨sk, sk', hpre, hst⟩ := exec_cut _ evs k ek hek sf hex
    have hi := inv_exec cfg cbs (evs.take k) sk hpre
    have hp := pinv_exec cfg cbs (evs.take k) sk hpre
    obtain ⟨conn, n, d, hv⟩ : ∃ conn n d, ek.ev = .send c conn n d := by
      simp only [sendAt, evAt, hek, Option.map_some] at hsk
      cases hv : ek.ev <;> simp only [hv] at hsk <;> try (simp at hsk)
      subst hsk; exact ⟨_, _, _, rfl⟩
    have hheld : 0 < (sk.callers c).held := by
      rw [step_caller_form sk ek c (by rw [hv]; rfl)] at hst
      split at hst
      · simp at hst
      · rw [hv] at hst
        have hp := stale_send_pc _ _ _ _ _ _ _ hst
        have hk := hi.hk c
        simp only [heldOk] at hk
        simp only at hp
        rw [hp] at hk
        simp only at hk
        omega
    have hlen : (evs.take k).length = k := by simp; omega
    refine hp.ct c i j c' ?_ ?_ hheld hij ?_
    · rw [sendAt_take evs k i (by omega)]; exact hsi
    · intro m h1 h2
      rw [hlen] at h2
      rw [evAt_take evs k m h2]
      exact hnr m h1 h2
    · rw [trafficAt_take evs k j hjk]; exact htj

/-- The pause after the last command belongs to the transaction — for EVERY accepted run (any configuration, the
identification made on connect included): let a multicomm call of caller `c` (started at a with requests `reqs`) return its replies at b; if
ANOTHER caller touches the connection at q (send, flush or recv) after a send of `c` at p, with no send of `c` between p
and q, then q is at least the delay of the request sent at p after p.  (That request is `reqs[m]`, m = number of sends of
the call before p.  By `transaction_uninterrupted` p is the LAST send of the call: before that nobody else gets in.) -/
theorem last_delay_protected_run (cfg : Cfg) (cbs : List Nat) (evs : List TEv) (hacc : Accepted cfg cbs evs)
    (c a p q b c' : Nat) (reqs : List Req) (rs : List Bytes) (ha : evAt evs a = some (.call c .multi reqs))
    (hap : a < p) (hpq : p < q) (hqb : q < b)
    (hnr : ∀ m, a < m → m < b → isRetOf c (evAt evs m) = false) (hb : evAt evs b = some (.ret c (.ok rs)))
    (hp : sendAt evs p = some c) (hno : ∀ m, p < m → m < q → sendAt evs m ≠ some c)
    (hq : trafficAt evs q = some c') (hne : c' ≠ c) :
    timeAt evs p + (reqs.getD (sendsIn evs c a p).length noReq).delay ≤ timeAt evs q := by
  unfold Accepted at hacc
  cases hex : exec { cfg := cfg, cbsReg := cbs } evs with
  | none => simp [hex] at hacc
  | some sf =>
    have hblt : b < evs.length := by
      false_or_by_contra; rename_i hn
      rw [evAt_none evs b (by omega)] at hb; simp at hb
    obtain ⟨eb, heb⟩ : ∃ eb, evs[b]? = some eb := ⟨evs[b], by simp [hblt]⟩
    have hbv : eb.ev = .ret c (.ok rs) := by simpa [evAt, heb] using hb
    obtain ⟨sb, sb', hpreb, hstb⟩ := exec_cut _ evs b eb heb sf hex
    obtain ⟨eq, heq⟩ : ∃ eq, evs[q]? = some eq := ⟨evs[q]'(by omega), by simp⟩
    obtain ⟨sk, sk', hpre, hst⟩ := exec_cut _ evs q eq heq sf hex
    have hi := inv_exec cfg cbs (evs.take q) sk hpre
    have hl := linv_exec cfg cbs (evs.take q) sk hpre
    have hg := ginv_exec cfg cbs (evs.take q) sk hpre
    have hlen : (evs.take q).length = q := by simp; omega
    have hclk : sk.clock ≤ eq.t := by
      unfold step at hst; split at hst
      · simp at hst
      · omega
    have htq : timeAt evs q = eq.t := by simp [timeAt, heq]
    -- the event at q is traffic of c'
    have htr : trafficEv eq.ev = some c' := by
      rw [trafficAt_eq] at hq; simpa [evAt, heq] using hq
    have hwho := trafficEv_who htr
    rw [step_caller_form sk eq c' hwho] at hst
    split at hst
    · simp at hst
    · -- c' holds the lock, so c does not: c is through with its requests
      have hheld' := step_traffic_held _ sk' eq.t c' eq.ev hst (hi.hk c') (by rw [htr]; rfl)
      have hown := hi.li1 c' hheld'
      have hheld0 : (sk.callers c).held = 0 := by
        false_or_by_contra; rename_i hn
        have := hi.li1 c (by omega)
        rw [hown] at this; simp at this; exact hne this
      have hnrq : NoRetAfter (evs.take q) c p := by
        intro m h1 h2
        rw [hlen] at h2
        rw [evAt_take evs q m h2]; exact hnr m (by omega) (by omega)
      have hdone : (sk.callers c).pc = .done :=
        hi.b c p (by rw [sendAt_take evs q p hpq]; exact hp) hnrq hheld0
      -- the call the caller is in is the one at `a`
      obtain ⟨a', ha'l, hev', hnr', huniq, hcnt, hlast⟩ := hl.l1 c (by rw [hdone]; simp)
      have haa : a = a' := by
        apply huniq a
        · rw [evAt_take evs q a (by omega), ha]; simp [isCallOf]
        · intro m h1 h2; rw [hlen] at h2; rw [evAt_take evs q m h2]; exact hnr m h1 (by omega)
      subst haa
      rw [evAt_take evs q a (by omega), ha] at hev'
      simp only [Option.some.injEq, Ev.call.injEq, true_and] at hev'
      obtain ⟨hkind, hreqs⟩ := hev'
      have hcount : (sk.callers c).sent = (sendsIn evs c a p).length + 1 := by
        rw [hcnt, hlen, sendsIn_take]
        have := sendsIn_last evs c a p hap hp (q - (p + 1)) (fun m h1 h2 => hno m h1 (by omega))
        rw [show p + 1 + (q - (p + 1)) = q by omega] at this
        rw [this]; simp
      obtain ⟨p', hap', hp'l, hp's, hp'no, hp't⟩ := hlast (by omega)
      rw [hlen] at hp'l
      have hpp : p' = p := by
        rcases Nat.lt_trichotomy p' p with h | h | h
        · exact absurd (by rw [sendAt_take evs q p hpq]; exact hp) (hp'no p h (by rw [hlen]; exact hpq))
        · exact h
        · rw [sendAt_take evs q p' hp'l] at hp's
          exact absurd hp's (hno p' h hp'l)
      subst hpp
      rw [timeAt_take evs q p' hp'l] at hp't
      -- the call has not failed: it returns its replies at b, and an error is never forgotten
      have hfail : (sk.callers c).failed = false := by
        cases hf : (sk.callers c).failed with
        | false => rfl
        | true =>
          exfalso
          have hseg := exec_segment _ evs q b (by omega) sk sb hpre hpreb
          have hsticky := exec_failed_sticky c _ sk sb hseg hf (by rw [hdone]; simp) (by
            intro e he
            obtain ⟨m, h1, h2, h3⟩ := mem_segment he
            have := hnr m (by omega) h2
            simpa [evAt, h3] using this)
          rw [step_caller_form sb eb c (by rw [hbv]; rfl)] at hstb
          split at hstb
          · simp at hstb
          · rw [hbv] at hstb
            have := (step_ret_ok _ sb' eb.t c c rs hstb).2
            simp only at this
            rw [hsticky.1] at this; simp at this
      have hg7 := (hg c).g7 hdone hfail hkind.symm (by omega)
      unfold lastDelay at hg7
      rw [← hreqs, hcount] at hg7
      simp only [Nat.add_sub_cancel] at hg7
      rw [hp't, htq]; omega


/-- A transaction is protected until its last delay has elapsed — the clause in the WINDOW form of the monitor
(`transactionProtectedB`), for EVERY accepted run (any configuration): this IS `transaction_protected_statement`
(`transaction_protected_full`).  From `transaction_uninterrupted` (before the last send) and `last_delay_protected_run`
(after it). -/
theorem transaction_protected (cfg : Cfg) (cbs : List Nat) (evs : List TEv) (hacc : Accepted cfg cbs evs) :
    TransactionProtected evs := by
  unfold TransactionProtected transactionProtectedB
  simp only [allBelow, List.all_eq_true, List.mem_range]
  intro a _
  cases hev : evAt evs a with
  | none => rfl
  | some ev =>
    cases ev <;> try rfl
    rename_i c kind reqs
    cases kind <;> try rfl
    simp only
    obtain ⟨hnr, hble, hbret⟩ := spanEnd_spec evs c a
    rcases sends_spec evs c a (spanEnd evs c a) with ⟨h1, h2⟩ | ⟨p0, pl, h1, h2, hap0, hp0l, hplb, hs0, hsl, hlast⟩
    · rw [h1, h2]
    · rw [h1, h2]
      simp only
      cases hok : isOkRet (evAt evs (spanEnd evs c a)) with
      | false => rfl
      | true =>
        simp only [Bool.not_true, Bool.false_or, allBetween, List.all_eq_true, List.mem_range, Bool.or_eq_true,
          Bool.not_eq_eq_eq_not, decide_eq_false_iff_not]
        intro q hqb
        by_cases hpq : p0 < q
        · right
          cases htr : trafficAt evs q with
          | none => rfl
          | some c' =>
            simp only [Bool.or_eq_true, beq_iff_eq, Bool.and_eq_true, decide_eq_true_eq]
            by_cases hcc : c' = c
            · left; exact hcc
            · right
              -- the return at b
              obtain ⟨x, rs, hbev⟩ := isOkRet_some hok
              have hblt : spanEnd evs c a < evs.length := evAt_lt_of_some hbev
              have hxc : x = c := by
                have := (hbret hblt).2
                rw [hbev] at this
                simpa [isRetOf] using this
              subst hxc
              have hsend_tr : ∀ m, sendAt evs m = some x → trafficAt evs m = some x := by
                intro m hm
                simp only [sendAt] at hm
                cases hevm : evAt evs m with
                | none => simp [hevm] at hm
                | some em =>
                  cases em <;> simp only [hevm] at hm <;> try (simp at hm)
                  subst hm
                  simp [trafficAt, hevm]
              rcases Nat.lt_trichotomy q pl with hlt | heq | hgt
              · exfalso
                exact hcc (transaction_uninterrupted cfg cbs evs hacc p0 q pl x c' hpq hlt hs0 hsl
                  (fun m h3 h4 => hnr m (by omega) (by omega)) htr)
              · exfalso
                subst heq
                have := hsend_tr q hsl
                rw [htr] at this
                simp only [Option.some.injEq] at this
                exact hcc this
              · refine ⟨hgt, ?_⟩
                exact last_delay_protected_run cfg cbs evs hacc x a pl q (spanEnd evs x a) c' reqs rs hev
                  (by omega) hgt hqb hnr hbev hsl (fun m h3 h4 => hlast m h3 (by omega)) htr hcc
        · left; exact hpq


theorem transaction_protected_full : transaction_protected_statement :=
  fun cfg cbs evs hacc => transaction_protected cfg cbs evs hacc

/-- `atomicRun` with caller 2 getting the lock as soon as the multicomm of caller 1 has given it back — after the pause
of 0.2 s that follows the last command — and before that call returns -/
def protectedRun : List TEv := [
  ⟨5000000, .call 1 .multi [⟨[65, 10], true, 0, 0⟩, ⟨[87, 10], false, 0, 200000⟩]⟩, ⟨5000000, .acq 1⟩, ⟨5000000, .chk 1 false⟩,
  ⟨5000001, .now 1 5000001⟩, ⟨5000002, .now 1 5000002⟩, ⟨5000002, .connect 1 true true⟩, ⟨5000003, .isconn 1 true⟩,
  ⟨5000003, .acq 1⟩, ⟨5000003, .flush 1⟩, ⟨5000003, .send 1 0 0 [65, 10]⟩,
  ⟨5000004, .call 2 .comm [⟨[68, 10], true, 0, 0⟩]⟩, ⟨5000004, .chk 2 true⟩,
  ⟨5100000, .arrive 0 (some 0) [97, 10]⟩, ⟨5100000, .recv 1 (.data [97, 10])⟩, ⟨5100000, .rel 1⟩,
  ⟨5100000, .chk 1 true⟩, ⟨5100000, .acq 1⟩, ⟨5100000, .flush 1⟩, ⟨5100000, .send 1 0 1 [87, 10]⟩, ⟨5100000, .rel 1⟩,
  ⟨5100000, .slp 1 200000⟩, ⟨5300000, .wake 1⟩, ⟨5300000, .rel 1⟩,
  ⟨5300000, .acq 2⟩, ⟨5300000, .flush 2⟩, ⟨5300000, .send 2 0 2 [68, 10]⟩, ⟨5300000, .ret 1 (.ok [[97]])⟩,
  ⟨5400000, .arrive 0 (some 2) [100, 10]⟩, ⟨5400000, .recv 2 (.data [100, 10])⟩, ⟨5400000, .rel 2⟩, ⟨5400000, .ret 2 (.ok [[100]])⟩]

/-- what the clause forbids (and the model does not accept): the lock is given back BEFORE the pause after the last
command is slept; caller 2 sends 1 µs after the last command of the transaction.  The caller of the multicomm notices
nothing: it returns late enough (`delaysHonouredB`), and no send lies between its sends (`multicommAtomicB`). -/
def unprotectedRun : List TEv := [
  ⟨5000000, .call 1 .multi [⟨[65, 10], true, 0, 0⟩, ⟨[87, 10], false, 0, 200000⟩]⟩, ⟨5000000, .acq 1⟩, ⟨5000000, .chk 1 false⟩,
  ⟨5000001, .now 1 5000001⟩, ⟨5000002, .now 1 5000002⟩, ⟨5000002, .connect 1 true true⟩, ⟨5000003, .isconn 1 true⟩,
  ⟨5000003, .acq 1⟩, ⟨5000003, .flush 1⟩, ⟨5000003, .send 1 0 0 [65, 10]⟩,
  ⟨5000004, .call 2 .comm [⟨[68, 10], true, 0, 0⟩]⟩, ⟨5000004, .chk 2 true⟩,
  ⟨5100000, .arrive 0 (some 0) [97, 10]⟩, ⟨5100000, .recv 1 (.data [97, 10])⟩, ⟨5100000, .rel 1⟩,
  ⟨5100000, .chk 1 true⟩, ⟨5100000, .acq 1⟩, ⟨5100000, .flush 1⟩, ⟨5100000, .send 1 0 1 [87, 10]⟩, ⟨5100000, .rel 1⟩,
  ⟨5100000, .rel 1⟩, ⟨5100000, .slp 1 200000⟩,
  ⟨5100001, .acq 2⟩, ⟨5100001, .flush 2⟩, ⟨5100001, .send 2 0 2 [68, 10]⟩,
  ⟨5200000, .arrive 0 (some 2) [100, 10]⟩, ⟨5200000, .recv 2 (.data [100, 10])⟩, ⟨5200000, .rel 2⟩, ⟨5200000, .ret 2 (.ok [[100]])⟩,
  ⟨5300000, .wake 1⟩, ⟨5300000, .ret 1 (.ok [[97]])⟩]

-- non-vacuity of `transaction_uninterrupted`, `last_delay_protected_run`, `transaction_protected`: the multicomm of caller 1
-- in `protectedRun` (call at 0, sends at 9 and 18, return at 26); caller 2 touches the connection at 24 and 25, inside the
-- span of the call, 0.2 s after the last send
example : Accepted findingCfgA [] protectedRun ∧ findingCfgA.ident = [] ∧
    evAt protectedRun 0 = some (.call 1 .multi [⟨[65, 10], true, 0, 0⟩, ⟨[87, 10], false, 0, 200000⟩]) ∧
    sendAt protectedRun 9 = some 1 ∧ sendAt protectedRun 18 = some 1 ∧ trafficAt protectedRun 13 = some 1 ∧
    trafficAt protectedRun 24 = some 2 ∧ trafficAt protectedRun 25 = some 2 ∧ spanEnd protectedRun 1 0 = 26 ∧
    evAt protectedRun 26 = some (.ret 1 (.ok [[97]])) ∧ (sendsIn protectedRun 1 0 18).length = 1 ∧
    firstSendIn protectedRun 1 0 26 = some 9 ∧ lastSendIn protectedRun 1 0 26 = some 18 ∧
    timeAt protectedRun 18 + 200000 ≤ timeAt protectedRun 24 ∧ transactionProtectedB protectedRun = true := by
  unfold Accepted; decide
-- the monitor tells the two apart; the other two transaction clauses do not
example : transactionProtectedB unprotectedRun = false ∧ delaysHonouredB unprotectedRun = true ∧
    multicommAtomicB unprotectedRun = true ∧ ¬ Accepted findingCfgA [] unprotectedRun := by
  unfold Accepted; decide


/-- An exchange is never interleaved with other traffic — for EVERY accepted run (identification, replies of variable
length and any number of callers included): between the send of a command (or of an identification request) by caller
`c` and every `recv` by which `c` reads the reply — the header and whatever `getFullReply` reads in addition — no other
caller sends, flushes or receives.  (The communicator lock is held from before the flush until the reply is complete.) -/
theorem exchange_atomic (cfg : Cfg) (cbs : List Nat) (evs : List TEv) (hacc : Accepted cfg cbs evs) :
    ExchangeAtomicAll evs := by
  intro k c out i hk hown m him hmk c' htr
  unfold Accepted at hacc
  cases hex : exec { cfg := cfg, cbsReg := cbs } evs with
  | none => simp [hex] at hacc
  | some sf =>
    have hklt : k < evs.length := by
      false_or_by_contra; rename_i hn
      rw [evAt_none evs k (by omega)] at hk; simp at hk
    obtain ⟨ek, hek⟩ : ∃ ek, evs[k]? = some ek := ⟨evs[k], by simp [hklt]⟩
    have hekv : ek.ev = .recv c out := by simpa [evAt, hek] using hk
    obtain ⟨sk, sk', hpre, hst⟩ := exec_cut _ evs k ek hek sf hex
    have hx := xinv_exec cfg cbs (evs.take k) sk hpre
    have hlen : (evs.take k).length = k := by simp; omega
    have hsl : ∀ x, x < k → sendLikeAt (evs.take k) x = sendLikeAt evs x := by
      intro x hxk; rw [sendLikeAt_eq, sendLikeAt_eq, evAt_take evs k x hxk]
    have htra : ∀ x, x < k → trafficAt (evs.take k) x = trafficAt evs x := by
      intro x hxk; rw [trafficAt_eq, trafficAt_eq, evAt_take evs k x hxk]
    rw [step_caller_form sk ek c (by rw [hekv]; rfl)] at hst
    split at hst
    · simp at hst
    · rw [hekv] at hst
      -- the search of `ownSendBefore`
      let p : Nat → Bool := fun x => (sendLikeAt evs x == some c) || isRetOf c (evAt evs x) || (evAt evs x == some (.flush c))
      have hown' : (match (List.range k).reverse.find? p with
          | some x => if sendLikeAt evs x == some c then some x else none
          | none => none) = some i := hown
      rcases step_recv_pc _ sk' ek.t c c out hst with hd | hexp
      · -- draining: the last boundary event of `c` is its `flush`, not a send
        exfalso
        obtain ⟨f, hf, hall⟩ := hx.d c hd
        have hfk : f < k := by
          have : f < (evs.take k).length := by
            false_or_by_contra; rename_i hn
            rw [evAt_none _ f (by omega)] at hf; simp at hf
          omega
        rw [evAt_take evs k f hfk] at hf
        have hfind := find_last p k f hfk (by simp [p, hf]) (fun x h1 h2 => by
          obtain ⟨a1, a2, a3⟩ := hall x h1 (by rw [hlen]; exact h2)
          rw [hsl x h2] at a1
          rw [evAt_take evs k x h2] at a2 a3
          simp only [p, Bool.or_eq_false_iff, beq_eq_false_iff_ne, ne_eq]
          exact ⟨⟨a1, a2⟩, a3⟩)
        rw [hfind] at hown'
        have : sendLikeAt evs f = none := by simp [sendLikeAt, hf]
        simp [this] at hown'
      · obtain ⟨i', hs, hall⟩ := hx.x c hexp
        have hik : i' < k := by have := sendLikeAt_lt hs; omega
        rw [hsl i' hik] at hs
        have hfind := find_last p k i' hik (by simp [p, hs]) (fun x h1 h2 => by
          obtain ⟨_, a1, a2, a3⟩ := hall x h1 (by rw [hlen]; exact h2)
          rw [hsl x h2] at a1
          rw [evAt_take evs k x h2] at a2 a3
          simp only [p, Bool.or_eq_false_iff, beq_eq_false_iff_ne, ne_eq]
          exact ⟨⟨a1, a2⟩, a3⟩)
        rw [hfind] at hown'
        simp only [hs, beq_self_eq_true, if_true, Option.some.injEq] at hown'
        subst hown'
        have := (hall m him (by rw [hlen]; exact hmk)).1 c'
        rw [htra m hmk] at this
        exact this htr

/-- the monitor `exchangeAtomicB` decides the clause -/
theorem exchangeAtomicB_sound (log : Log) (h : ExchangeAtomicAll log) : exchangeAtomicB log = true := by
  simp only [exchangeAtomicB, allBelow, List.all_eq_true, List.mem_range]
  intro k _
  cases hev : evAt log k with
  | none => rfl
  | some ev =>
    cases ev <;> try rfl
    rename_i c out
    simp only
    cases hown : ownSendBefore log c k with
    | none => rfl
    | some i =>
      simp only [allBetween, List.all_eq_true, List.mem_range, Bool.or_eq_true, Bool.not_eq_eq_eq_not, Bool.not_true,
        decide_eq_false_iff_not]
      intro m hmk
      by_cases him : i < m
      · right
        cases htr : trafficAt log m with
        | none => rfl
        | some c' => simpa using h k c out i hev hown m him hmk c' htr
      · left; exact him

/-- A dropped connection is announced — for EVERY accepted run (with or without identification): when caller `c`
drops the connection (`hclose` at position i, from `closeConnection` in a failed exchange or after a failed
identification) and its call returns at position r, the update `is_connected = false` by `c` lies strictly between. -/
theorem closed_visible_run (cfg : Cfg) (cbs : List Nat) (evs : List TEv) (hacc : Accepted cfg cbs evs)
    (c i r : Nat) (res : Res) (hir : i < r) (hi : evAt evs i = some (.hclose c)) (hr : evAt evs r = some (.ret c res))
    (hnr : ∀ m, i < m → m < r → isRetOf c (evAt evs m) = false) :
    ∃ j, i < j ∧ j < r ∧ evAt evs j = some (.isconn c false) := by
  unfold Accepted at hacc
  cases hex : exec { cfg := cfg, cbsReg := cbs } evs with
  | none => simp [hex] at hacc
  | some sf =>
    have hrlt : r < evs.length := by
      false_or_by_contra; rename_i hn
      rw [evAt_none evs r (by omega)] at hr; simp at hr
    obtain ⟨er, her⟩ : ∃ er, evs[r]? = some er := ⟨evs[r], by simp [hrlt]⟩
    have herv : er.ev = .ret c res := by simpa [evAt, her] using hr
    obtain ⟨sk, sk', hpre, hst⟩ := exec_cut _ evs r er her sf hex
    have hv := winv_exec cfg cbs (evs.take r) sk hpre
    have hlen : (evs.take r).length = r := by simp; omega
    false_or_by_contra
    rename_i hno
    have hpend : PendingClose (evs.take r) c i := by
      refine ⟨by rw [evAt_take evs r i hir]; exact hi, ?_, ?_⟩
      · intro m h1 h2 heq
        rw [hlen] at h2
        rw [evAt_take evs r m h2] at heq
        exact hno ⟨m, h1, h2, heq⟩
      · intro m h1 h2
        rw [hlen] at h2
        rw [evAt_take evs r m h2]; exact hnr m h1 h2
    have hvis := hv.w c i hpend
    rw [step_caller_form sk er c (by rw [herv]; rfl)] at hst
    split at hst
    · simp at hst
    · rw [herv] at hst
      have := step_ret_pc2 _ sk' er.t c c res hst
      simp only at this
      rw [hvis] at this; simp at this

/-- The mark "the next successful connect is a reconnect" (`_last_error`) is never cleared by anything a caller does —
every single step, the exchanges of an identification included (step level; this is what keeps the reconnect callbacks
from being skipped when `checkHWIdent` communicates between the connect and the test of the mark) -/
theorem reconnect_mark_kept_partial (s s' : State) (t c : Nat) (e : Ev) (h : stepCaller s t c e = some s')
    (hm : s.lastError = true) : s'.lastError = true :=
  (step_cbs s s' t c e h).2.1 hm

/-- … and when `checkHWIdent` has passed (`idend c true`) on a reconnect, the callbacks registered at that moment are
what the caller runs next (step level; the run-level theorem `callbacks_once_run` is for communicators without
identification) -/
theorem callbacks_after_ident_partial (s s' : State) (t c n : Nat) (r : List Nat)
    (hpc : (s.callers c).pc = .idEnd true) (h : stepCaller s t c (.idend c true) = some s')
    (hm : s.lastError = true) (hreg : s.cbsReg = n :: r) : (s'.callers c).pc = .cbs (n :: r) := by
  simp only [stepCaller, hpc, if_true] at h
  simp only [Option.some.injEq] at h
  subst h
  simp [afterIdent, hm, hreg]

/-- a failed identification (`idend c false`: wrong answer, time-out or disconnect during `checkHWIdent`) sets the mark
and makes the call fail (or leaves the enclosing identification); no callback is run -/
theorem ident_failed_partial (s s' : State) (t c : Nat)
    (hpc : (s.callers c).pc = .idEnd false) (h : stepCaller s t c (.idend c false) = some s') :
    s'.lastError = true ∧ ((s.callers c).idSaved = [] → (s'.callers c).failed = true) := by
  simp only [stepCaller, hpc] at h
  simp only [if_true, Bool.false_eq_true, if_false, Option.some.injEq] at h
  subst h
  refine ⟨rfl, fun hs => ?_⟩
  simp [rcFail, hs, failTo]

/-- replies of variable length, step level: `getFullReply` may ask for `n` more bytes only while the caller is still
inside the inner `with self._lock` of its exchange (state `relI`, byte device, a reply was expected); what it gets is
appended to the header: the first `n` bytes of the receive buffer at once, or the read loop `readX` is entered -/
theorem variable_reply_partial (s s' : State) (t c n : Nat) (h : stepCaller s t c (.more c n) = some s') :
    (s.callers c).pc = .relI ∧ s.cfg.bytesMode = true ∧ 0 < n ∧ (s'.callers c).held = (s.callers c).held ∧
      ((n ≤ s.rxbuf.length ∧ (s'.callers c).pc = .relI ∧
          (s'.callers c).replies = extendLast (s.callers c).replies (s.rxbuf.take n) ∧ s'.rxbuf = s.rxbuf.drop n) ∨
       (s.rxbuf.length < n ∧ (s'.callers c).pc = .readX ∧ (s'.callers c).xlen = n ∧
          (s'.callers c).endT = t + s.cfg.timeout)) := by
  cases hpc : (s.callers c).pc <;> simp only [stepCaller, hpc] at h <;> try (simp at h)
  obtain ⟨⟨h1, h2, h3, h4⟩, h⟩ := h
  refine ⟨rfl, h1, h3, ?_⟩
  split at h
  · next hle => simp only [Option.some.injEq] at h; subst h; exact ⟨by simp, Or.inl ⟨hle, by simp, by simp, by simp [State.setC]⟩⟩
  · next hgt => simp only [Option.some.injEq] at h; subst h; exact ⟨by simp, Or.inr ⟨by omega, by simp, by simp, by simp⟩⟩

/-- byte device "ID" → "id0x" identifies itself on connect; then "A" is answered by the header "a3" and three more bytes -/
def identCfg : Cfg := { bytesMode := true, eol := [], timeout := 2000000, waitBefore := 0, interval := 3000000,
                        gran := 1000000, slack := 300, ident := [⟨[73, 68], 4, [105, 100]⟩] }

def identRun : List TEv := [
  ⟨5000000, .call 1 .comm [⟨[65], true, 2, 0⟩]⟩, ⟨5000000, .chk 1 false⟩, ⟨5000001, .now 1 5000001⟩, ⟨5000002, .now 1 5000002⟩,
  ⟨5000002, .connect 1 true true⟩, ⟨5000003, .isconn 1 true⟩,
  ⟨5000003, .chk 1 true⟩, ⟨5000003, .acq 1⟩, ⟨5000003, .flush 1⟩, ⟨5000003, .isend 1 0 0 [73, 68]⟩,
  ⟨5100000, .arrive 0 (some 0) [105, 100, 48, 120]⟩, ⟨5100000, .recv 1 (.data [105, 100, 48, 120])⟩, ⟨5100000, .rel 1⟩,
  ⟨5100001, .idend 1 true⟩,
  ⟨5100002, .acq 1⟩, ⟨5100002, .flush 1⟩, ⟨5100002, .send 1 0 1 [65]⟩,
  ⟨5200000, .arrive 0 (some 1) [97, 51, 49, 121, 122]⟩, ⟨5200000, .recv 1 (.data [97, 51, 49, 121, 122])⟩,
  ⟨5200000, .more 1 3⟩, ⟨5200000, .rel 1⟩, ⟨5200001, .ret 1 (.ok [[97, 51, 49, 121, 122]])⟩]

example : Accepted identCfg [] identRun := by unfold Accepted; decide
-- exchange_atomic: the recv at 18 reads the reply to the send at 16; the recv at 11 that of the identification request at 9
example : evAt identRun 18 = some (.recv 1 (.data [97, 51, 49, 121, 122])) ∧ ownSendBefore identRun 1 18 = some 16 ∧
    ownSendBefore identRun 1 11 = some 9 ∧ exchangeAtomicB identRun = true := by decide
-- closed_visible_run: `healRun`: hclose at 11, update at 12, return at 14
example : evAt healRun 11 = some (.hclose 3) ∧ evAt healRun 12 = some (.isconn 3 false) ∧ evAt healRun 14 = some (.ret 3 .err) := by
  decide
-- the monitors agree on the run with identification and a reply of variable length
example : staleDiscardedB true [] identRun = true ∧ closedVisibleB healRun = true ∧ moreIn identRun 1 16 21 = 3 := by decide

/-- with an identification: a multicomm (one request, pause 0.1 s) that has to connect first — the identification request
goes out inside its `check_connection` — against a communicate of caller 2 -/
def identMultiRun : List TEv := [
  ⟨5000000, .call 1 .multi [⟨[65], true, 2, 100000⟩]⟩, ⟨5000000, .acq 1⟩, ⟨5000000, .chk 1 false⟩, ⟨5000001, .now 1 5000001⟩,
  ⟨5000002, .now 1 5000002⟩, ⟨5000002, .connect 1 true true⟩, ⟨5000003, .isconn 1 true⟩,
  ⟨5000003, .chk 1 true⟩, ⟨5000003, .acq 1⟩, ⟨5000003, .flush 1⟩, ⟨5000003, .isend 1 0 0 [73, 68]⟩,
  ⟨5000004, .call 2 .comm [⟨[66], true, 2, 0⟩]⟩, ⟨5000004, .chk 2 true⟩,
  ⟨5100000, .arrive 0 (some 0) [105, 100, 48, 120]⟩, ⟨5100000, .recv 1 (.data [105, 100, 48, 120])⟩, ⟨5100000, .rel 1⟩,
  ⟨5100001, .idend 1 true⟩,
  ⟨5100002, .acq 1⟩, ⟨5100002, .flush 1⟩, ⟨5100002, .send 1 0 1 [65]⟩,
  ⟨5200000, .arrive 0 (some 1) [97, 48]⟩, ⟨5200000, .recv 1 (.data [97, 48])⟩, ⟨5200000, .rel 1⟩,
  ⟨5200000, .slp 1 100000⟩, ⟨5300000, .wake 1⟩, ⟨5300000, .rel 1⟩,
  ⟨5300000, .acq 2⟩, ⟨5300000, .flush 2⟩, ⟨5300000, .send 2 0 2 [66]⟩, ⟨5300001, .ret 1 (.ok [[97, 48]])⟩,
  ⟨5400000, .arrive 0 (some 2) [98, 48]⟩, ⟨5400000, .recv 2 (.data [98, 48])⟩, ⟨5400000, .rel 2⟩, ⟨5400001, .ret 2 (.ok [[98, 48]])⟩]

-- delays_honoured_return / last_delay_protected_run / transaction_protected with an identification configured
example : Accepted identCfg [] identMultiRun ∧ identCfg.ident ≠ [] ∧ sendAt identMultiRun 19 = some 1 ∧
    trafficAt identMultiRun 27 = some 2 ∧ evAt identMultiRun 29 = some (.ret 1 (.ok [[97, 48]])) ∧
    timeAt identMultiRun 19 + 100000 ≤ timeAt identMultiRun 27 ∧ transactionProtectedB identMultiRun = true ∧
    delaysHonouredB identMultiRun = true := by
  unfold Accepted; decide

/-- with an identification: caller 1 connects (the device identifies itself), communicates; the device closes; the next
call finds the connection closed and drops it; 3.1 s later caller 1 reconnects, the identification passes, the
callbacks 0 and 1 run (1 asks to be removed), the command is answered -/
def identHealRun : List TEv := [
  ⟨5000000, .call 1 .comm [⟨[65], true, 2, 0⟩]⟩, ⟨5000000, .chk 1 false⟩, ⟨5000001, .now 1 5000001⟩, ⟨5000002, .now 1 5000002⟩,
  ⟨5000002, .connect 1 true true⟩, ⟨5000003, .isconn 1 true⟩,
  ⟨5000003, .chk 1 true⟩, ⟨5000003, .acq 1⟩, ⟨5000003, .flush 1⟩, ⟨5000003, .isend 1 0 0 [73, 68]⟩,
  ⟨5100000, .arrive 0 (some 0) [105, 100, 48, 120]⟩, ⟨5100000, .recv 1 (.data [105, 100, 48, 120])⟩, ⟨5100000, .rel 1⟩,
  ⟨5100001, .idend 1 true⟩,
  ⟨5100002, .acq 1⟩, ⟨5100002, .flush 1⟩, ⟨5100002, .send 1 0 1 [65]⟩, ⟨5100003, .devclose 0⟩,
  ⟨5100004, .recv 1 .closed⟩, ⟨5100004, .hclose 1⟩, ⟨5100005, .isconn 1 false⟩, ⟨5100005, .rel 1⟩, ⟨5100006, .ret 1 .err⟩,
  ⟨8200000, .call 1 .comm [⟨[66], true, 2, 0⟩]⟩, ⟨8200000, .chk 1 false⟩, ⟨8200001, .now 1 8200001⟩, ⟨8200002, .now 1 8200002⟩,
  ⟨8200002, .connect 1 true true⟩, ⟨8200003, .isconn 1 true⟩,
  ⟨8200003, .chk 1 true⟩, ⟨8200003, .acq 1⟩, ⟨8200003, .flush 1⟩, ⟨8200003, .isend 1 1 2 [73, 68]⟩,
  ⟨8300000, .arrive 1 (some 2) [105, 100, 50, 120]⟩, ⟨8300000, .recv 1 (.data [105, 100, 50, 120])⟩, ⟨8300000, .rel 1⟩,
  ⟨8300001, .idend 1 true⟩, ⟨8300002, .cb 1 0 true⟩, ⟨8300003, .cb 1 1 false⟩,
  ⟨8300004, .acq 1⟩, ⟨8300004, .flush 1⟩, ⟨8300004, .send 1 1 3 [66]⟩,
  ⟨8400000, .arrive 1 (some 3) [98, 48]⟩, ⟨8400000, .recv 1 (.data [98, 48])⟩, ⟨8400000, .rel 1⟩, ⟨8400001, .ret 1 (.ok [[98, 48]])⟩]

-- callbacks_once_ident_run: identification passed at 36 after the close at 19; callbacks 0 and 1 at 37 and 38
example : Accepted identCfg [0, 1] identHealRun ∧ evAt identHealRun 36 = some (.idend 1 true) ∧
    isHclose (evAt identHealRun 19) = true ∧ whoAt identHealRun 37 = some 1 ∧ countOf identHealRun 1 36 37 = 0 ∧
    countOf identHealRun 1 36 38 = 1 ∧ registeredAt [0, 1] identHealRun 36 = [0, 1] ∧
    evAt identHealRun 38 = some (.cb 1 1 false) ∧ callbacksOnceB [0, 1] identHealRun = true ∧
    stateNotOverwrittenB identHealRun = true := by
  unfold Accepted; decide
-- reconnect_rate_limited with an identification: attempts at 4 and 27, the second on demand, 3.2 s later
example : connectAt identHealRun 4 ≠ none ∧ connectAt identHealRun 27 = some true ∧ attemptsAtomicB identHealRun = true ∧
    rateLimitedB identCfg identHealRun = true := by decide
-- delays_honoured (window form) on the runs above
example : DelaysHonoured protectedRun ∧ DelaysHonoured identMultiRun :=
  ⟨delays_honoured findingCfgA [] _ (by unfold Accepted; decide), delays_honoured identCfg [] _ (by unfold Accepted; decide)⟩

/-- with an identification: the device accepts the connection but does not answer the identification request — two empty
`recv`s, the time-out, `checkHWIdent` fails, the call fails -/
def identSilentRun : List TEv := [
  ⟨5000000, .call 1 .comm [⟨[65], true, 2, 0⟩]⟩, ⟨5000000, .chk 1 false⟩, ⟨5000001, .now 1 5000001⟩, ⟨5000002, .now 1 5000002⟩,
  ⟨5000002, .connect 1 true true⟩, ⟨5000003, .isconn 1 true⟩,
  ⟨5000003, .chk 1 true⟩, ⟨5000003, .acq 1⟩, ⟨5000003, .flush 1⟩, ⟨5000003, .isend 1 0 0 [73, 68]⟩,
  ⟨6000004, .recv 1 .empty⟩, ⟨7000005, .recv 1 .empty⟩, ⟨7000006, .rel 1⟩, ⟨7000007, .idend 1 false⟩, ⟨7000008, .ret 1 .err⟩]

-- fails_within_timeout_all: the empty recvs at 10 and 11 belong to the read started by the identification request at 9
example : Accepted identCfg [] identSilentRun ∧ evAt identSilentRun 9 = some (.isend 1 0 0 [73, 68]) ∧
    evAt identSilentRun 11 = some (.recv 1 .empty) ∧ timeAt identSilentRun 11 = 7000005 := by
  unfold Accepted; decide
example : ∃ p, LoopStart (identSilentRun.take 11) 1 p ∧
    timeAt identSilentRun 11 ≤ max (timeAt identSilentRun p + identCfg.timeout + identCfg.slack)
      (lastDataTime identSilentRun 1 p 11) + identCfg.gran + identCfg.slack :=
  fails_within_timeout_all identCfg [] identSilentRun (by unfold Accepted; decide) 1 11 (by decide)

/-! ## facts about the constants taken from the source (re-generated on every run) -/

/-- the model's initial state has `lastAttempt = 0`: that is `IOBase._last_connect_attempt` of the source -/
theorem initial_attempt_is_model_init : Frappy.Generated.C16.initialLastAttempt = ({ cfg := findingCfgA } : State).lastAttempt := by
  decide

/-- `AsynConn.timeout` (the `gran` of the time clauses) is one second, as the harness and the examples assume -/
theorem recv_granularity_is_one_second : Frappy.Generated.C16.recvGranularity = 1000000 := by decide

/-! ## non-vacuity of the run-level theorems: `atomicRun` and `healRun` are accepted and meet the hypotheses -/

example : Accepted findingCfgA [0, 1] healRun := by unfold Accepted; decide
-- state_visible_run: closed recv at 10, return at 14 — the update is at 12
example : evAt healRun 10 = some (.recv 3 .closed) ∧ evAt healRun 14 = some (.ret 3 .err) ∧
    evAt healRun 12 = some (.isconn 3 false) := by decide
-- reconnect_rate_limited: attempts at 4 and 19, the second on demand; the run has atomic attempts (monitor form)
example : connectAt healRun 4 ≠ none ∧ connectAt healRun 19 = some true ∧ attemptsAtomicB healRun = true := by decide
-- callbacks_once_run: reconnect at 19, announced at 20, after the close at 11; callbacks 0 and 1 at 21 and 22
example : evAt healRun 19 = some (.connect 3 true true) ∧ evAt healRun 20 = some (.isconn 3 true) ∧
    isHclose (evAt healRun 11) = true ∧ whoAt healRun 21 = some 3 ∧ countOf healRun 3 20 21 = 0 ∧
    countOf healRun 3 20 22 = 1 ∧ registeredAt [0, 1] healRun 20 = [0, 1] ∧
    evAt healRun 22 = some (.cb 3 1 false) := by decide
-- reply_own_ret / stale_discarded_run: the call returning at 31
example : evAt healRun 31 = some (.ret 3 (.ok [[101]])) ∧ sendAt healRun 25 = some 3 ∧
    arrivedIn healRun 1 none 25 31 = [101, 10] := by decide
-- fails_within_timeout_run: empty recvs at 37 and 38 after the send at 36
example : evAt healRun 37 = some (.recv 3 .empty) ∧ sendAt healRun 36 = some 3 ∧ timeAt healRun 36 = 9000000 ∧
    timeAt healRun 38 = 11000002 := by decide
-- delays_honoured_run / _return and multicomm_atomic: the multicomm of caller 1 in `atomicRun` (sends at 9 and 18)
example : evAt atomicRun 0 = some (.call 1 .multi [⟨[65, 10], true, 0, 0⟩, ⟨[87, 10], false, 0, 200000⟩]) ∧
    sendAt atomicRun 9 = some 1 ∧ sendAt atomicRun 18 = some 1 ∧ evAt atomicRun 23 = some (.ret 1 (.ok [[97]])) ∧
    (sendsIn atomicRun 1 0 18).length = 1 ∧ timeAt atomicRun 18 + 200000 ≤ timeAt atomicRun 23 := by decide

/-! ## the state stays true to the connection (repaired defect F39: a stale `is_connected = True` from the read wrapper) -/

def findingCfg : Cfg := { bytesMode := false, eol := [10], timeout := 2000000, waitBefore := 0, interval := 3000000,
                          gran := Frappy.Generated.C16.recvGranularity, slack := 300 }

/-- caller 1 reconnects (read_is_connected returns True); before its wrapper announces that value caller 3 sends,
finds the connection closed, closes it and announces `is_connected = false`; then the wrapper's update arrives — and is
discarded (`drop`): there is no connection any more -/
def findingRun : List TEv := [
  ⟨5000000, .call 1 .comm [⟨[65, 10], true, 0, 0⟩]⟩, ⟨5000000, .chk 1 false⟩, ⟨5000001, .now 1 5000001⟩,
  ⟨5000002, .now 1 5000002⟩, ⟨5000002, .connect 1 true true⟩, ⟨5000003, .isconn 1 true⟩,
  ⟨5000004, .call 3 .comm [⟨[65, 10], true, 0, 0⟩]⟩, ⟨5000004, .chk 3 true⟩, ⟨5000004, .acq 3⟩, ⟨5000004, .flush 3⟩,
  ⟨5000004, .send 3 0 0 [65, 10]⟩, ⟨5000004, .devclose 0⟩, ⟨5000005, .recv 3 .closed⟩, ⟨5000005, .hclose 3⟩,
  ⟨5000006, .isconn 3 false⟩, ⟨5000007, .drop 1⟩]

/-- what the code did before the repair: the wrapper's outdated value is published -/
def staleRun : List TEv := findingRun.dropLast ++ [⟨5000007, .isconn 1 true⟩]

/-- The state stays true to the connection — `state_visible_statement` in FULL, for EVERY accepted run (any
configuration, identification and replies of variable length included), in the window form of the monitor
`stateNotOverwrittenB`: whenever `is_connected = true` is published, a successful connect lies between every earlier
`closeConnection` and that update.  (An update `True` is accepted only while there is a connection; the connection
exists from a successful connect to the next closeConnection.) -/
theorem state_not_overwritten_run : state_visible_statement := by
  intro cfg cbs evs hacc
  unfold Accepted at hacc
  cases hex : exec { cfg := cfg, cbsReg := cbs } evs with
  | none => simp [hex] at hacc
  | some sf =>
    unfold StateNotOverwritten stateNotOverwrittenB
    simp only [allBelow, List.all_eq_true, List.mem_range]
    intro j hj
    cases hevj : evAt evs j with
    | none => rfl
    | some ev =>
      cases ev <;> try rfl
      rename_i x v
      cases v <;> try rfl
      simp only [List.all_eq_true, List.mem_range]
      intro i hij
      cases hevi : evAt evs i with
      | none => rfl
      | some ev' =>
        cases ev' <;> try rfl
        rename_i y
        -- the state before the update at j
        obtain ⟨ej, hej⟩ : ∃ ej, evs[j]? = some ej := ⟨evs[j], by simp⟩
        have hejv : ej.ev = .isconn x true := by simpa [evAt, hej] using hevj
        obtain ⟨sk, sk', hpre, hst⟩ := exec_cut _ evs j ej hej sf hex
        have hjv := jinv_exec cfg cbs (evs.take j) sk hpre
        have hlen : (evs.take j).length = j := by simp; omega
        rw [step_caller_form sk ej x (by rw [hejv]; rfl)] at hst
        split at hst
        · simp at hst
        · rw [hejv] at hst
          have hconn := step_isconn_true _ sk' ej.t x x hst
          obtain ⟨m, hm, ⟨c, od, hevm⟩, hno⟩ := hjv.j hconn
          rw [hlen] at hm
          rw [evAt_take evs j m hm] at hevm
          have him : i < m := by
            rcases Nat.lt_trichotomy i m with h | h | h
            · exact h
            · subst h; rw [hevi] at hevm; simp at hevm
            · have := hno i h (by rw [hlen]; exact hij)
              rw [evAt_take evs j i hij, hevi] at this
              simp [isHclose] at this
          simp only [anyBetween, List.any_eq_true, List.mem_range, Bool.and_eq_true, decide_eq_true_eq]
          exact ⟨m, hm, him, by rw [hevm]⟩

/-- non-vacuity: the run in which the outdated update is discarded is accepted, the monitor agrees; the run with the
outdated update published (the behaviour before the repair) is rejected by the model and by the monitor -/
example : Accepted findingCfg [] findingRun ∧ stateNotOverwrittenB findingRun = true ∧
    ¬ Accepted findingCfg [] staleRun ∧ stateNotOverwrittenB staleRun = false := by
  unfold Accepted; decide

/-- … and the first half (the update `is_connected = false` is made before the detecting call returns) holds on it -/
example : StateVisible findingRun := by unfold StateVisible; decide

/-! ## `wait_before` is honoured before every line put on the wire (glue model `commPlan`, io.py:330-346) -/

/-- nothing of the command is lost, doubled or reordered by cutting it into lines: the sends of one communicate, put
together, are the command followed by the send terminator — for every terminator, with or without `wait_before` -/
theorem send_plan_intact (w : Nat) (eolW cmd : Bytes) : (sendPlan w eolW cmd).flatten = cmd ++ eolW := by
  unfold sendPlan commandLines
  split
  · exact splitAll_flatten eolW cmd.length cmd
  · simp

/-- with a pause owed before every line (`wait_before ≠ 0`) and a send terminator of one byte, every send of a
communicate carries exactly ONE line (the clause `oneLineB` of the monitor `waitBeforeHonouredB`) -/
theorem send_plan_one_line (w b : Nat) (cmd : Bytes) (hw : w ≠ 0) :
    ∀ d ∈ sendPlan w [b] cmd, oneLineB [b] d = true := by
  intro d hd
  unfold sendPlan commandLines at hd
  simp only [hw, ne_eq, not_false_eq_true, List.cons_ne_self, and_self, ↓reduceIte, List.mem_map] at hd
  obtain ⟨p, hp, rfl⟩ := hd
  have hfree := splitAll1_free b cmd.length cmd (Nat.le_refl _) p hp
  simp [oneLineB, splitFirst1_line b p hfree]

/-- a pause of `w` has passed since the last send -/
def planPaced (w : Nat) : Bool → List PlanEv → Bool
  | _, [] => true
  | _, .slp d :: es => planPaced w (decide (w ≤ d)) es
  | r, .flush :: es => planPaced w r es
  | r, .send _ :: es => r && planPaced w false es

theorem planFrom_paced (w : Nat) (hw : w ≠ 0) : ∀ (ds : List Bytes) (i : Nat) (r : Bool), planPaced w r (planFrom w i ds) = true
  | [], i, r => by simp [planFrom, planPaced]
  | d :: ds, i, r => by
    have ih := planFrom_paced w hw ds (i + 1) false
    by_cases hi : i = 0
    · subst hi; simpa [planFrom, lineEvents, hw, planPaced] using ih
    · simp [planFrom, lineEvents, hw, hi, planPaced, ih]

/-- every send of a communicate comes after a pause of its own: between two sends of the plan (and before the
first) the caller sleeps `wait_before` — for every terminator and every command -/
theorem comm_plan_paced (w : Nat) (eolW cmd : Bytes) (hw : w ≠ 0) : planPaced w false (commPlan w eolW cmd) = true :=
  planFrom_paced w hw _ 0 false

/-- non-vacuity: a command without reply joined with a query, distinct terminators: two sends, a pause before each;
the behaviour of a cut at the RECEIVE terminator (one send for both lines) is not a plan of the model and breaks the clause -/
example : commPlan 200000 [13] [83, 13, 82] = [.slp 200000, .flush, .send [83, 13], .slp 200000, .send [82, 13]] ∧
    oneLineB [13] [83, 13, 82, 13] = false ∧ oneLineB [13] [82, 13] = true := by decide

/-- the quirk the transcription keeps: a command that ends with the terminator yields an empty last line — a bare
terminator is sent; and with a terminator that overlaps itself a line may swallow part of the next terminator
(`send_plan_one_line` is stated for terminators of one byte) -/
example : sendPlan 1 [13] [65, 13] = [[65, 13], [13]] ∧
    sendPlan 1 [97, 97] [97, 97, 97] = [[97, 97], [97, 97, 97]] ∧ oneLineB [97, 97] [97, 97, 97] = false := by decide

/-- the clause for the transaction model (which sends the requests it is given, one send each): the pause -/
def wait_before_paced_statement : Prop := ∀ cfg cbs evs, Accepted cfg cbs evs → pacedB cfg.waitBefore evs = true

/-- event form: in every accepted run (any configuration, identification included), with `wait_before ≠ 0`, every send —
of a command or of an identification request — at position q by caller c is preceded by a sleep of c of `wait_before`
that began at least that much earlier, with no send of c in between (invariant `WbInv`, `Lemmas/CommWait.lean`) -/
theorem wait_before_paced_run (cfg : Cfg) (cbs : List Nat) (evs : List TEv) (hacc : Accepted cfg cbs evs)
    (hw : cfg.waitBefore ≠ 0) (q c : Nat) (hq : sendLikeAt evs q = some c) :
    ∃ p, p < q ∧ evAt evs p = some (.slp c cfg.waitBefore) ∧ timeAt evs p + cfg.waitBefore ≤ timeAt evs q ∧
      ∀ m, p < m → m < q → sendLikeAt evs m ≠ some c := by
  unfold Accepted at hacc
  cases hex : exec { cfg := cfg, cbsReg := cbs } evs with
  | none => simp [hex] at hacc
  | some sf =>
    have hsome : ∃ e, evs[q]? = some e := by
      cases hge : evs[q]? with
      | none => simp [sendLikeAt, evAt, hge] at hq
      | some e => exact ⟨e, rfl⟩
    obtain ⟨e, he⟩ := hsome
    obtain ⟨sk, sk', hpre, hst⟩ := exec_cut _ evs q e he sf hex
    have hi := wbinv_exec cfg cbs (evs.take q) sk hw hpre
    have hqlt : q < evs.length := by
      false_or_by_contra; rename_i hn
      rw [List.getElem?_eq_none (by omega)] at he; simp at he
    have hev : evAt evs q = some e.ev := by simp [evAt, he]
    have hsl : sendLikeEv e.ev = true ∧ e.ev.who = some c := by
      rw [sendLikeAt_eq, hev] at hq
      simp only [Option.bind_some] at hq
      split at hq
      · next h1 => exact ⟨h1, hq⟩
      · simp at hq
    have hclk : sk.clock ≤ e.t := by
      unfold step at hst; split at hst
      · simp at hst
      · omega
    rw [step_caller_form sk e c hsl.2] at hst
    split at hst
    · simp at hst
    · have hr := step_send_rested _ sk' e.t c e.ev hst hsl.1
      obtain ⟨T, hT, p, hp, hpev, hpt, hno⟩ := hi.rs c hr
      simp only [List.length_take] at hp
      have hpq : p < q := by omega
      refine ⟨p, hpq, by rw [← evAt_take evs q p hpq]; exact hpev, ?_, ?_⟩
      · rw [timeAt_take evs q p hpq] at hpt
        have : timeAt evs q = e.t := by simp [timeAt, he]
        omega
      · intro m h1 h2
        have := hno m h1 (by simp only [List.length_take]; omega)
        unfold sendLikeAt at this ⊢
        rwa [evAt_take evs q m h2] at this

/-- **the pause clause in the form of the monitor**, for every accepted run of the transaction model -/
theorem wait_before_paced : wait_before_paced_statement := by
  intro cfg cbs evs hacc
  unfold pacedB waitBeforeHonouredB
  by_cases hw : cfg.waitBefore = 0
  · simp [hw]
  · simp only [Bool.or_eq_true, beq_iff_eq, hw, false_or, allBelow, List.all_eq_true, List.mem_range]
    intro q _
    cases hd : sendLikeData evs q with
    | none => rfl
    | some cd =>
      obtain ⟨c, data⟩ := cd
      have hq : sendLikeAt evs q = some c := by
        unfold sendLikeData at hd; unfold sendLikeAt
        cases hev : evAt evs q with
        | none => simp [hev] at hd
        | some ev => cases ev <;> simp [hev] at hd ⊢ <;> exact hd.1
      obtain ⟨p, hpq, hpev, hpt, hno⟩ := wait_before_paced_run cfg cbs evs hacc hw q c hq
      simp only [oneLineB, List.isEmpty_nil, Bool.true_or, Bool.true_and, List.any_eq_true, List.mem_range]
      refine ⟨p, hpq, ?_⟩
      simp only [hpev, beq_self_eq_true, Nat.le_refl, decide_true, Bool.true_and, Bool.and_eq_true, decide_eq_true_eq]
      refine ⟨hpt, ?_⟩
      simp only [allBetween, List.all_eq_true, List.mem_range, Bool.or_eq_true, Bool.not_eq_eq_eq_not, Bool.not_true,
        decide_eq_false_iff_not, beq_eq_false_iff_ne]
      intro m hm
      by_cases hpm : p < m
      · exact Or.inr (hno m hpm hm)
      · exact Or.inl hpm

/-- non-vacuity: an accepted run with `wait_before` 0.05 s — the send comes 0.05 s after the sleep began -/
def pacedCfg : Cfg := { findingCfgA with waitBefore := 50000 }
def pacedRun : List TEv := [
  ⟨0, .call 1 .poll []⟩, ⟨1, .now 1 1⟩, ⟨1, .connect 1 true false⟩, ⟨2, .isconn 1 true⟩, ⟨3, .ret 1 (.ok [])⟩,
  ⟨10, .call 1 .comm [⟨[65, 10], true, 0, 0⟩]⟩, ⟨11, .chk 1 true⟩, ⟨12, .acq 1⟩, ⟨13, .slp 1 50000⟩, ⟨50013, .wake 1⟩,
  ⟨50014, .flush 1⟩, ⟨50015, .send 1 0 0 [65, 10]⟩]
example : Accepted pacedCfg [] pacedRun ∧ pacedCfg.waitBefore ≠ 0 ∧ sendLikeAt pacedRun 11 = some 1 ∧
    pacedB pacedCfg.waitBefore pacedRun = true ∧ pacedB pacedCfg.waitBefore (pacedRun.eraseIdx 8) = false := by
  unfold Accepted; decide

/-- with `wait_before ≠ 0` a caller that has taken the inner lock of communicate sleeps first (the flush and the send
come after `slp wait_before` … `wake`, see `delays_honoured_partial_sleep` / `_wake`) -/
theorem wait_before_partial (s s' : State) (t c : Nat) (hpc : (s.callers c).pc = .acqI) (hw : s.cfg.waitBefore ≠ 0)
    (h : stepCaller s t c (.acq c) = some s') : (s'.callers c).pc = .slpWB := by
  simp only [stepCaller, hpc, doAcqI] at h
  split at h
  · simp only [Option.some.injEq] at h; subst h; simp [hw, State.setC, State.acquire]
  · simp at h

/-! ## self-healing goes back to the same device (glue model `tcpInit`, asynconn.py:171-179) -/

/-- every connect of a communicator — the first one and every reconnect — is made to the same port: the class-level
default settings are only read, never consumed -/
theorem connect_targets_same (up : Option Nat) : ∀ (n : Nat) (d : TcpSettings) (p : Nat),
    p ∈ connectTargets up n d → p = (tcpInit up d).2
  | 0, d, p, h => by simp [connectTargets] at h
  | n + 1, d, p, h => by
    simp only [connectTargets, List.mem_cons] at h
    rcases h with h | h
    · exact h
    · have := connect_targets_same up n (tcpInit up d).1 p h
      simpa [tcpInit] using this

theorem connect_targets_length (up : Option Nat) : ∀ (n : Nat) (d : TcpSettings), (connectTargets up n d).length = n
  | 0, _ => rfl
  | n + 1, d => by simp [connectTargets, connect_targets_length up n]

/-- … in the form of the monitor: on a log with n connect attempts the targets of the model satisfy `reconnectSameTargetB` -/
theorem reconnect_same_target (up : Option Nat) (d : TcpSettings) (log : Log) :
    ReconnectSameTarget ((connectTargets up (connectCount log) d).map fun p => (0, p)) log := by
  unfold ReconnectSameTarget reconnectSameTargetB
  simp only [List.length_map, connect_targets_length, beq_self_eq_true, Bool.true_and, List.all_eq_true, List.mem_map]
  rintro a ⟨p, hp, rfl⟩
  have hp' := connect_targets_same up _ d p hp
  cases hn : connectCount log with
  | zero => rw [hn] at hp; simp [connectTargets] at hp
  | succ n => simp [connectTargets, hp']

/-- non-vacuity: port from the class defaults (uri without port), three connects — and the behaviour of settings that
are consumed by the first connect (the reconnects go to the SECoP default port) breaks the clause -/
example : connectTargets none 3 ⟨some 7777⟩ = [7777, 7777, 7777] ∧ connectTargets (some 4001) 2 ⟨some 7777⟩ = [4001, 4001] ∧
    connectTargets none 2 ⟨none⟩ = [Frappy.Generated.C16.secopDefaultPort, 10767] ∧
    reconnectSameTargetB [(0, 7777), (0, 10767)] [⟨0, .connect 1 true true⟩, ⟨5, .connect 1 false true⟩] = false ∧
    reconnectSameTargetB [(0, 7777), (0, 7777)] [⟨0, .connect 1 true true⟩, ⟨5, .connect 1 true true⟩] = true := by decide

end Frappy.Props.C16
