import FrappyProofs.Lemmas.CompatComplete
import FrappyProofs.Lemmas.CompatLawsRat
import FrappyProofs.Lemmas.CopyHeap
import FrappyProofs.Lemmas.DatainfoOpt
import FrappyProofs.Lemmas.DatainfoSnap
import FrappyProofs.Lemmas.CommandInfo
import FrappyProofs.Lemmas.Variants
import FrappyProofs.Lemmas.CompatRefl
import FrappyProofs.Lemmas.History
import FrappyModel.Generated.C03
/-
C03 — property theorems (nothing but property theorems, table facts and non-vacuity examples).

For every float carrier `F` with `LawfulFloatOps F` and `CompatLaws F` (both proved for `Rat`, assumed for
binary64), every datatype tree of any depth.
-/
set_option linter.unusedSectionVars false
namespace Frappy.Props.C03
open Frappy.Datatypes Frappy.Spec.C01 Frappy.Spec.C03 Frappy.Lemmas.C03 Frappy.Lemmas.C03Datainfo FloatOps

variable {F : Type} [FloatOps F] [LawfulFloatOps F] [CompatLaws F]

/-! ## rebuilding from the datainfo, copying -/

/-- `±sys.float_info.max` are canonical (laws of the carrier) -/
theorem constsOK2 : ConstsOK2 F :=
  ⟨LawfulFloatOps.addZero_neg_maxFinite, LawfulFloatOps.addZero_maxFinite⟩

/-- exporting the datainfo of a well-formed exportable tree and rebuilding it yields a type that exports the
identical datainfo again and validates / imports exactly like the original.  (The rebuilt tree is the original
up to the enum name — not exported —, the `client` mark, and the order of `optional` where it names all
members: the datainfo leaves it out then and the rebuild lists the members in member order; `optional` is only
ever used as a set.) -/
theorem rebuild_equiv (D : Consts F) (hD : D.OK) (dt : DInfo F) (hwf : dt.WF D) (hex : dt.Exportable) :
    ∃ j dt', exportDatatype D dt = .ok j ∧ getDatatype D j = .ok dt' ∧ exportDatatype D dt' = .ok j ∧
      (∀ v prev, validate dt'.erase v prev = validate dt.erase v prev) ∧
      (∀ w, importValue dt'.erase w = importValue dt.erase w) := by
  obtain ⟨j, h1, h2⟩ := rebuild_core D hD constsOK2 (normOpt dt) (normOpt_wf D dt hwf) (normOpt_exportable dt hex)
    (normOpt_inOrder dt)
  rw [export_normOpt] at h1
  refine ⟨j, (normOpt dt).asClient, h1, h2, by rw [export_asClient, export_normOpt, h1], ?_, ?_⟩
  · intro v prev
    rw [validate_asClient]
    exact conv_normOpt .validate dt v prev
  · intro w
    rw [import_asClient]
    exact import_normOpt dt w

/-- when `optional` is in member order wherever it names all members, the rebuilt tree is exactly the
original up to the enum name and the `client` mark -/
theorem rebuild_exact (D : Consts F) (hD : D.OK) (dt : DInfo F) (hwf : dt.WF D)
    (hex : dt.Exportable) (hord : dt.OptionalInOrder) :
    ∃ j, exportDatatype D dt = .ok j ∧ getDatatype D j = .ok dt.asClient :=
  rebuild_core D hD constsOK2 dt hwf hex hord

/-- `copy()` of an exportable tree is the tree itself (same datainfo, same `validate`, same `import_value`,
same `__call__`, the enum name and the client mark kept) — sharing is the subject of `copyH_fresh` -/
theorem copy_equiv (D : Consts F) (hD : D.OK) (dt : DInfo F) (hwf : dt.WF D)
    (hex : dt.Exportable) :
    ∃ dt', copy D dt = .ok dt' ∧ exportDatatype D dt' = exportDatatype D dt ∧
      (∀ v prev, validate dt'.erase v prev = validate dt.erase v prev) ∧
      (∀ w, importValue dt'.erase w = importValue dt.erase w) ∧ (∀ v, call dt'.erase v = call dt.erase v) :=
  ⟨dt, copy_core D hD constsOK2 dt hwf hex, rfl, fun _ _ => rfl, fun _ => rfl, fun _ => rfl⟩

/-- the description of a scaled integer says where its limits are: the integers exported as `min` / `max`
(`int(round(limit / scale))`) are grid indices whose grid values `index * scale` — what `get_datatype` and
`copy()` hand to the constructor — are the limits themselves, whatever side of the whole number the float
quotient `limit / scale` lands on (`Aligned` is a statement about `round`, not about the quotient) -/
theorem scaled_description_exact (D : Consts F) (s mn mx ar rr : F) (u f : String)
    (hmn : DInfo.Aligned s mn) (hmx : DInfo.Aligned s mx) :
    ∃ kmin kmax fields, exportDatatype D (.scaled s mn mx ar rr u f) = .ok (.obj fields) ∧
      PVal.dictGet fields "min" = some (.int kmin) ∧ PVal.dictGet fields "max" = some (.int kmax) ∧
      DType.ofGrid s kmin = some mn ∧ DType.ofGrid s kmax = some mx := by
  obtain ⟨kmin, ymin, g1, o1, e1⟩ := aligned_iff hmn
  obtain ⟨kmax, ymax, g2, o2, e2⟩ := aligned_iff hmx
  refine ⟨kmin, kmax, _, by rw [exportDatatype, g1, g2], ?_, ?_, ?_, ?_⟩
  · simp [dictGet_append, dictGet_optField, dictGet_cons, dictGet_scaledAbsRes_ne]
  · simp [dictGet_append, dictGet_optField, dictGet_cons, dictGet_scaledAbsRes_ne]
  · simp [DType.ofGrid, o1, e1]
  · simp [DType.ofGrid, o2, e2]

/-- … and only then: when the exported `min` (`max`) denotes the limit, the limit is grid aligned.  So
"grid-aligned limits" in the quantifier of the property is exactly the condition under which the description
can be faithful; any other limit is moved to its nearest grid value by the round trip (`rebuild_snaps`). -/
theorem scaled_description_exact_only_if (D : Consts F) (s mn mx ar rr : F) (u f : String)
    (fields : List (String × JVal F)) (kmin kmax : Int)
    (hex : exportDatatype D (.scaled s mn mx ar rr u f) = .ok (.obj fields))
    (h1 : PVal.dictGet fields "min" = some (.int kmin)) (h2 : PVal.dictGet fields "max" = some (.int kmax))
    (g1 : DType.ofGrid s kmin = some mn) (g2 : DType.ofGrid s kmax = some mx) :
    DInfo.Aligned s mn ∧ DInfo.Aligned s mx := by
  rw [exportDatatype] at hex
  split at hex
  · rename_i k1 k2 e1 e2
    injection hex with hex
    injection hex with hex
    subst hex
    simp [dictGet_append, dictGet_optField, dictGet_cons, dictGet_scaledAbsRes_ne] at h1 h2
    subst h1 h2
    exact ⟨by simp [DInfo.Aligned, DType.snap, e1, g1], by simp [DInfo.Aligned, DType.snap, e2, g2]⟩
  · cases hex

/-- scaled limits that are NOT grid aligned (`checkProperties` has the remark "Datatype.copy() will round min, max to a
multiple of self.scale"; a configuration may set such a limit): a tree and the tree with its scaled limits moved to their
grid values behave alike - `validate` (repaired: the clamping band is measured from the grid values of the limits, like
the range test), `__call__` and `import_value` are the SAME functions.  Carrier: `GridStable` (`round((k*scale)/scale) = k`). -/
theorem snapLimits_same_behaviour (hG : GridStable F) (D : Consts F) (dt dt' : DInfo F) (hwf : dt.WF D)
    (hs : DInfo.snapLimits dt = some dt') :
    (∀ v prev, validate dt'.erase v prev = validate dt.erase v prev) ∧
    (∀ w, importValue dt'.erase w = importValue dt.erase w) ∧ (∀ v, call dt'.erase v = call dt.erase v) :=
  ⟨fun v prev => conv_snapLimits hG D .validate dt dt' hwf hs v prev, fun w => import_snapLimits dt dt' hs w,
   fun v => conv_snapLimits hG D .call dt dt' hwf hs v none⟩

/-- `rebuild_equiv` for EVERY well-formed tree whose scaled limits have finite grid values, on the grid or not
(`snapLimits dt = some dt'`; for an aligned tree `dt' = dt`, `snapLimits_aligned`): the type rebuilt from the description
of `dt` exports that description again and validates / imports exactly like `dt` ITSELF.  In addition the tree `dt'` with
the limits moved to their grid values is well formed and grid aligned and has the identical description: what the round
trip changes in the tree is exactly `snapLimits`, and that changes no behaviour (`snapLimits_same_behaviour`). -/
theorem rebuild_snaps (hG : GridStable F) (D : Consts F) (hD : D.OK) (dt dt' : DInfo F) (hwf : dt.WF D)
    (hs : DInfo.snapLimits dt = some dt') :
    dt'.WF D ∧ dt'.Exportable ∧
    ∃ j dt'', exportDatatype D dt = .ok j ∧ exportDatatype D dt' = .ok j ∧ getDatatype D j = .ok dt'' ∧
      exportDatatype D dt'' = .ok j ∧
      (∀ v prev, validate dt''.erase v prev = validate dt.erase v prev) ∧
      (∀ w, importValue dt''.erase w = importValue dt.erase w) := by
  obtain ⟨w, x, ex⟩ := snapLimits_spec hG D dt dt' hwf hs
  obtain ⟨b1, b2, _⟩ := snapLimits_same_behaviour hG D dt dt' hwf hs
  obtain ⟨j, dt'', h1, h2, h3, h4, h5⟩ := rebuild_equiv D hD dt' w x
  exact ⟨w, x, j, dt'', by rw [← ex]; exact h1, h1, h2, h3, fun v prev => (h4 v prev).trans (b1 v prev),
    fun w => (h5 w).trans (b2 w)⟩

/-- … and `copy()` of any such tree IS the tree with the limits moved to their grid values -/
theorem copy_snaps (hG : GridStable F) (D : Consts F) (hD : D.OK) (dt dt' : DInfo F) (hwf : dt.WF D)
    (hs : DInfo.snapLimits dt = some dt') : copy D dt = .ok dt' :=
  copy_snap_gen hG D hD constsOK2 dt dt' hwf hs

/-- `copy_equiv` for EVERY well-formed tree whose scaled limits have finite grid values: the copy has the same datainfo,
the same `validate`, `import_value` and `__call__` as the original (its limits are the grid values) -/
theorem copy_equiv_snaps (hG : GridStable F) (D : Consts F) (hD : D.OK) (dt dt' : DInfo F) (hwf : dt.WF D)
    (hs : DInfo.snapLimits dt = some dt') :
    copy D dt = .ok dt' ∧ exportDatatype D dt' = exportDatatype D dt ∧
      (∀ v prev, validate dt'.erase v prev = validate dt.erase v prev) ∧
      (∀ w, importValue dt'.erase w = importValue dt.erase w) ∧ (∀ v, call dt'.erase v = call dt.erase v) := by
  obtain ⟨_, _, ex⟩ := snapLimits_spec hG D dt dt' hwf hs
  obtain ⟨b1, b2, b3⟩ := snapLimits_same_behaviour hG D dt dt' hwf hs
  exact ⟨copy_snaps hG D hD dt dt' hwf hs, ex, b1, b2, b3⟩

/-- for a grid-aligned tree nothing moves (`rebuild_snaps` / `copy_snaps` specialise to `rebuild_equiv` / `copy_equiv`) -/
theorem snapLimits_aligned (D : Consts F) (dt : DInfo F) (hwf : dt.WF D) (hex : dt.Exportable) :
    DInfo.snapLimits dt = some dt :=
  snapLimits_of_exportable D dt hwf hex

/-- the monitors' test "is this tree in the quantifier" is the hypothesis `Exportable` of the theorems -/
theorem exportableB_iff_exportable (dt : DInfo F) : dt.exportableB = true ↔ dt.Exportable :=
  exportableB_iff dt

/-- commands: the description of a `CommandType` whose argument / result are well-formed exportable trees (or `None`)
is rebuilt by `get_datatype` — and `CommandType.copy()`, which is the inherited `DataType.copy`, gives the very same
command — into a command that exports the identical description again, has an argument / a result exactly where the
original has one, and whose argument and result validate / import like the original's. -/
theorem command_rebuild_equiv (D : Consts F) (hD : D.OK) (c : CmdInfo F)
    (hwf : ∀ t, c.argument = some t ∨ c.result = some t → t.WF D ∧ t.Exportable) :
    ∃ j c', exportCommand D c = .ok j ∧ getCommand D j = .ok c' ∧ copyCommand D c = .ok c' ∧
      exportCommand D c' = .ok j ∧ SameOpt c'.argument c.argument ∧ SameOpt c'.result c.result := by
  have comp : ∀ x : Option (DInfo F), (∀ t, x = some t → t.WF D ∧ t.Exportable) →
      ∃ jx x', OptRebuilt D x jx x' := by
    intro x hx
    cases x with
    | none => exact ⟨none, none, optRebuilt_none D⟩
    | some t =>
      obtain ⟨w, e⟩ := hx t rfl
      obtain ⟨j, t', h1, h2, h3, h4, h5⟩ := rebuild_equiv D hD t w e
      exact ⟨some j, some t', optRebuilt_some D h1 h2 h3 h4 h5⟩
  obtain ⟨ja, a', ea, ga, ea', sa⟩ := comp c.argument (fun t h => hwf t (Or.inl h))
  obtain ⟨jr, r', er, gr, er', sr⟩ := comp c.result (fun t h => hwf t (Or.inr h))
  have hex : exportCommand D c =
      .ok (.obj ([("type", .str "command")] ++ optItem "argument" ja ++ optItem "result" jr)) := by
    simp only [exportCommand, ea, er]
  have hget := getCommand_export D ga gr
  exact ⟨_, ⟨a', r'⟩, hex, hget, by simp only [copyCommand, hex, hget], by simp only [exportCommand, ea', er'], sa, sr⟩

/-- … and the same for argument / result trees whose scaled limits are NOT on the grid (finite grid values; carrier
`GridStable`): `command_rebuild_equiv` with `rebuild_snaps` in the place of `rebuild_equiv` -/
theorem command_rebuild_snaps (hG : GridStable F) (D : Consts F) (hD : D.OK) (c : CmdInfo F)
    (hwf : ∀ t, c.argument = some t ∨ c.result = some t → t.WF D ∧ (DInfo.snapLimits t).isSome = true) :
    ∃ j c', exportCommand D c = .ok j ∧ getCommand D j = .ok c' ∧ copyCommand D c = .ok c' ∧
      exportCommand D c' = .ok j ∧ SameOpt c'.argument c.argument ∧ SameOpt c'.result c.result := by
  have comp : ∀ x : Option (DInfo F), (∀ t, x = some t → t.WF D ∧ (DInfo.snapLimits t).isSome = true) →
      ∃ jx x', OptRebuilt D x jx x' := by
    intro x hx
    cases x with
    | none => exact ⟨none, none, optRebuilt_none D⟩
    | some t =>
      obtain ⟨w, e⟩ := hx t rfl
      obtain ⟨t1, e1⟩ := Option.isSome_iff_exists.1 e
      obtain ⟨_, _, j, t', h1, _, h2, h3, h4, h5⟩ := rebuild_snaps hG D hD t t1 w e1
      exact ⟨some j, some t', optRebuilt_some D h1 h2 h3 h4 h5⟩
  obtain ⟨ja, a', ea, ga, ea', sa⟩ := comp c.argument (fun t h => hwf t (Or.inl h))
  obtain ⟨jr, r', er, gr, er', sr⟩ := comp c.result (fun t h => hwf t (Or.inr h))
  have hex : exportCommand D c =
      .ok (.obj ([("type", .str "command")] ++ optItem "argument" ja ++ optItem "result" jr)) := by
    simp only [exportCommand, ea, er]
  have hget := getCommand_export D ga gr
  exact ⟨_, ⟨a', r'⟩, hex, hget, by simp only [copyCommand, hex, hget], by simp only [exportCommand, ea', er'], sa, sr⟩

/-! ## compatibility verdicts -/

/-- the full statement: "the check passes only if every value valid for the first is valid for the second" -/
def compatible_sound_statement (F : Type) [FloatOps F] : Prop :=
  ∀ a b : DType F, a.WF → b.WF → GridAligned a → GridAligned b → compatible a b = .ok () →
    ∀ v, InSet a v → ∃ r, validate b v none = .ok r

/-- proved part: a passing check is sound whenever no `relative_resolution` of the second type exceeds 1
(the law "the tolerance band is order convex") and no struct of the first type with *all* members optional —
the constructor's default, which `StructOf.compatible` takes as "not specified" — meets a struct with a
mandatory member (`OptionalRespected`; recorded finding).  Missing for the full statement: exactly these
two side conditions, each with a proved counterexample below. -/
theorem compatible_sound_partial (a b : DType F) (ha : a.WF) (hb : b.WF) (hal : GridAligned a) (hbl : GridAligned b)
    (hres : ResLeOne b) (hopt : OptionalRespected a b) (h : compatible a b = .ok ()) :
    ∀ v, InSet a v → ∃ r, validate b v none = .ok r :=
  compat_sound a b ha hb hal hbl hres hopt h

/-- the full statement fails on the code that exists: a struct whose member is optional passes the check
against the same struct with the member mandatory, and the empty struct value separates them -/
theorem compatible_sound_fails : ¬ compatible_sound_statement Rat := by
  intro hs
  have h := hs (.struct [("x", .bool)] ["x"] false) (.struct [("x", .bool)] [] false)
    (by simp [DType.WF, DType.WFFields]) (by simp [DType.WF, DType.WFFields])
    (by simp [GridAligned, GridAlignedFields]) (by simp [GridAligned, GridAlignedFields]) rfl (.dict [])
    (by simp [InSet, InSetG])
  obtain ⟨r, hr⟩ := h
  have : validate (.struct [("x", .bool)] [] false : DType Rat) (.dict []) none = .error .wrongType := rfl
  rw [this] at hr
  cases hr

/-- … and on a second ground: a `relative_resolution` above 1 on the second type lets the two limits of the
first pass although a value between them is refused —
`FloatRange(-10, 100).compatible(FloatRange(5, 200, relative_resolution=2))` passes, `-1` is refused -/
theorem compatible_sound_fails_resolution : ¬ compatible_sound_statement Rat := by
  intro hs
  have wa : (DType.double (-10) 100 0 0 : DType Rat).WF := by simp only [DType.WF]; decide +kernel
  have wb : (DType.double 5 200 0 2 : DType Rat).WF := by simp only [DType.WF]; decide +kernel
  have acc : ∀ x : Rat, isFinite x = true → addZero x = x →
      le (sub (5 : Rat) (DType.tolerance 2 0 x)) x = true → le x (add (200 : Rat) (DType.tolerance 2 0 x)) = true →
      ∃ r, validate (DType.double 5 200 0 2 : DType Rat) (.float x) none = .ok r := by
    intro x fx cx h1 h2
    obtain ⟨r, hr⟩ := doubleValidate_of_band (bmin := 5) (bmax := 200) (ar := 0) (rr := 2) (v := .float x)
      (by simp [PVal.toFloat?, cx]) fx h1 h2
    exact ⟨.float r, by simp only [validate, conv, hr]; rfl⟩
  have hpass : compatible (DType.double (-10) 100 0 0 : DType Rat) (.double 5 200 0 2) = .ok () := by
    simp only [compatible]
    exact limitsValid_of
      (acc (-10) (by decide +kernel) rfl (by decide +kernel) (by decide +kernel))
      (acc 100 (by decide +kernel) rfl (by decide +kernel) (by decide +kernel))
  obtain ⟨r, hr⟩ := hs _ _ wa wb trivial trivial hpass (.float (-1))
    (by simp only [InSet, InSetG]; decide +kernel)
  simp only [validate, conv] at hr
  obtain ⟨x, hx, _⟩ := Frappy.Lemmas.C01.map_ok hr
  have := (doubleValidate_band (bmin := (5 : Rat)) (bmax := 200) (ar := 0) (rr := 2) (v := .float (-1)) (x := -1)
    rfl (by decide +kernel) hx).1
  revert this
  decide +kernel

/-- "it does pass for the pairings it is written to support when the value sets are nested" -/
theorem compatible_complete (a b : DType F) (ha : a.WF) (hb : b.WF) (hal : GridAligned a) (hbl : GridAligned b)
    (hn : Nested a b) : compatible a b = .ok () :=
  compat_complete a b ha hb hal hbl hn

/-! ## compatibility verdicts with derived classes (`TextType`, `LimitsType`, `StatusType`) on either side -/

open Frappy.Lemmas.C03V in
/-- a derived class gets the verdict of the kind it is described as: on either side, at any depth, `compatibleC`
(the inherited `compatible` methods with their `isinstance` / attribute tests, `FrappyModel/Datatypes/Variants.lean`)
is `compatible` of the two kind trees — in particular a datatype and its own description are compatible whenever
the description is compatible with itself -/
theorem compatibleC_as_described (a b : CType F) (hb : b.WF) : compatibleC a b = compatible a.erase b.erase :=
  compatibleC_erase a b (wf_leafy b hb)

open Frappy.Lemmas.C03V in
/-- "it does pass for the pairings it is written to support when the value sets are nested", derived classes
included: `NestedC` = the kind trees are nested and every `LimitsType` of the second meets a `LimitsType` of the first -/
theorem compatibleC_complete (a b : CType F) (ha : a.WF) (hb : b.WF) (hal : GridAligned a.erase)
    (hbl : GridAligned b.erase) (hn : NestedC a b) : compatibleC a b = .ok () := by
  rw [compatibleC_as_described a b hb]
  exact compat_complete a.erase b.erase (erase_wf a ha) (erase_wf b hb) hal hbl hn.1

/-- the full statement for trees with derived classes: the value set is `InSetC` (pairs of a `LimitsType` ordered),
"valid for the second" is `cvalidate` (the order test of every `LimitsType` included) -/
def compatibleC_sound_statement (F : Type) [FloatOps F] : Prop :=
  ∀ a b : CType F, a.WF → b.WF → GridAligned a.erase → GridAligned b.erase → ResLeOne b.erase →
    OptionalRespected a.erase b.erase → compatibleC a b = .ok () →
    ∀ v, InSetC a v → ∃ r, cvalidate b v none = .ok r

open Frappy.Lemmas.C03V in
/-- proved part: a passing check is sound when the *second* type holds no `LimitsType` (derived classes anywhere in
the first, `TextType` / `StatusType` anywhere in the second) — always the case when the second type was rebuilt from
a description (`ProxyModule._check_descriptive_data`: `pobj.datatype.compatible(remote datatype)`).  Missing for the
full statement: a `LimitsType` in the second type.  Against a plain tuple the statement is false
(`compatibleC_sound_fails_limits`, recorded finding); against a `LimitsType` of the first type it needs that
`validate` of the number kinds is monotone (ordered pairs stay ordered), which is not proved. -/
theorem compatibleC_sound_partial (a b : CType F) (ha : a.WF) (hb : b.WF) (hal : GridAligned a.erase)
    (hbl : GridAligned b.erase) (hres : ResLeOne b.erase) (hopt : OptionalRespected a.erase b.erase)
    (hlim : b.limitsFree = true) (h : compatibleC a b = .ok ()) :
    ∀ v, InSetC a v → ∃ r, cvalidate b v none = .ok r := by
  intro v hv
  rw [cvalidate_limitsFree b hlim]
  rw [compatibleC_as_described a b hb] at h
  exact compat_sound a.erase b.erase (erase_wf a ha) (erase_wf b hb) hal hbl hres hopt h v hv.1

/-- the full statement fails on the code that exists: `TupleOf(IntRange(0,10), IntRange(0,10))` passes the check
against `LimitsType(IntRange(0,10))`, and `(10, 0)` — valid for the plain tuple — is refused by `LimitsType.validate` -/
theorem compatibleC_sound_fails_limits : ¬ compatibleC_sound_statement Rat := by
  intro hs
  have h := hs (.tuple [.leaf (.int 0 10), .leaf (.int 0 10)]) (.limits (.leaf (.int 0 10)))
    (by simp [CType.WF, CType.WFList, DType.WF, DType.isLeafKind, DType.intLimit])
    (by simp [CType.WF, CType.isNumeric, DType.WF, DType.isLeafKind, DType.intLimit])
    (by simp [CType.erase, CType.eraseList, GridAligned, GridAlignedList])
    (by simp [CType.erase, GridAligned, GridAlignedList])
    (by simp [CType.erase, ResLeOne, ResLeOneList])
    (by simp [CType.erase, CType.eraseList, OptionalRespected, OptionalRespectedList])
    rfl (.tuple [.int 10, .int 0])
    (by simp [InSetC, InSet, InSetG, ZipInG, CType.erase, CType.eraseList, OrderedIn, OrderedZip])
  obtain ⟨r, hr⟩ := h
  have : cvalidate (.limits (.leaf (.int 0 10)) : CType Rat) (.tuple [.int 10, .int 0]) none = .error .range := rfl
  rw [this] at hr
  cases hr

/-! ## rebuilding and copying trees with derived classes -/

open Frappy.Lemmas.C03V in
/-- `copy()` of a tree with derived classes (`copyC`: `TextType` and `LimitsType` come back as themselves, a
`StatusType` as the plain tuple of its members) is described as the same kind tree — hence `copy_equiv` applies to
its datainfo, `import_value` and `__call__`, which the derived classes inherit — and validates exactly like the
original, the order test of every `LimitsType` included -/
theorem copyC_equiv (a : CType F) :
    (copyC a).erase = a.erase ∧ ∀ v prev, cvalidate (copyC a) v prev = cvalidate a v prev :=
  ⟨erase_copyC a, cvalidate_copyC a⟩

/-- the full statement for the rebuild: the type `get_datatype` builds from the description of a tree with derived
classes (`rebuildC`: base classes only) accepts and rejects the same values with equal results -/
def rebuildC_equiv_statement (F : Type) [FloatOps F] : Prop :=
  ∀ (a : CType F) (v : PVal F) (prev : Option (PVal F)), a.WF → cvalidate (rebuildC a) v prev = cvalidate a v prev

open Frappy.Lemmas.C03V in
/-- proved part: … when the tree holds no `LimitsType` (`TextType`, `StatusType` anywhere).  Missing: `LimitsType`,
whose order test is not part of the description — counterexample below (recorded finding). -/
theorem rebuildC_equiv_partial (a : CType F) (h : a.limitsFree = true) (v : PVal F) (prev : Option (PVal F)) :
    (rebuildC a).erase = a.erase ∧ cvalidate (rebuildC a) v prev = cvalidate a v prev :=
  ⟨erase_ofKind a.erase, cvalidate_rebuildC a h v prev⟩

/-- the full statement fails on the code that exists: `LimitsType(IntRange(0,10))` is described as
`tuple(int, int)`; the rebuilt type accepts `(10, 0)`, the original refuses it -/
theorem rebuildC_equiv_fails_limits : ¬ rebuildC_equiv_statement Rat := by
  intro hs
  have h := hs (.limits (.leaf (.int 0 10))) (.tuple [.int 10, .int 0]) none
    (by simp [CType.WF, CType.isNumeric, DType.WF, DType.isLeafKind, DType.intLimit])
  have h1 : cvalidate (rebuildC (.limits (.leaf (.int 0 10)) : CType Rat)) (.tuple [.int 10, .int 0]) none
      = .ok (.tuple [.int 10, .int 0]) := rfl
  have h2 : cvalidate (.limits (.leaf (.int 0 10)) : CType Rat) (.tuple [.int 10, .int 0]) none = .error .range := rfl
  rw [h1, h2] at h
  cases h

/-! ## a datatype against itself and against its own description; the users of `compatible()` -/

open Frappy.Lemmas.C03V in
/-- every datatype is compatible with itself ("same kind with equal limits") -/
theorem compatible_self (t : DType F) (h : t.WF) (hal : GridAligned t) : compatible t t = .ok () :=
  compatible_refl t h hal

open Frappy.Lemmas.C03V in
/-- a datatype — derived classes at any depth — and the datatype a client rebuilds from its description are
compatible in both directions -/
theorem compatible_with_own_description (a : CType F) (ha : a.WF) (hal : GridAligned a.erase) :
    compatibleC a (rebuildC a) = .ok () ∧ compatibleC (rebuildC a) a = .ok () :=
  described_compatible a ha hal

/-- hence `ProxyModule._check_descriptive_data` logs no datatype warning for a parameter checked against the
description of the very same parameter (only 'is read only' when the remote one is and the local one is not) -/
theorem proxy_own_description_silent (a : CType F) (ha : a.WF) (hal : GridAligned a.erase) (pname : String)
    (exported readonly remoteReadonly : Bool) :
    proxyParam pname exported readonly a (some ⟨rebuildC a, remoteReadonly⟩) =
      if !readonly && remoteReadonly then [.readOnly] else [] := by
  obtain ⟨h1, h2⟩ := compatible_with_own_description a ha hal
  simp only [proxyParam, h1, h2, passes]
  cases readonly <;> cases remoteReadonly <;> rfl

open Frappy.Lemmas.C03V in
/-- … and `Writable.__init__` accepts a module whose `target` has the datatype of its `value` -/
theorem writable_same_datatype_ok (a : CType F) (ha : a.WF) (hal : GridAligned a.erase) : writableCheck a a = .ok := by
  have : compatibleC a a = .ok () := by
    rw [compatibleC_erase a a (wf_leafy a ha)]
    exact compatible_refl _ (erase_wf a ha) hal
  simp only [writableCheck, this, passes, if_true]

/-! ## histories on one datatype object: the description is the one of the datatype as it is now -/

open Frappy.Lemmas.C03History in
/-- `set_main_unit` (the `'$'` of every unit replaced, at any depth) changes no behaviour: `validate`, `import_value`
and `__call__` are the same functions before and after -/
theorem set_main_unit_same_behaviour (u : String) (dt : DInfo F) :
    (∀ v prev, validate (setMainUnit u dt).erase v prev = validate dt.erase v prev) ∧
    (∀ w, importValue (setMainUnit u dt).erase w = importValue dt.erase w) ∧
    (∀ v, call (setMainUnit u dt).erase v = call dt.erase v) := by
  rw [setMainUnit_erase]
  exact ⟨fun _ _ => rfl, fun _ => rfl, fun _ => rfl⟩

open Frappy.Lemmas.C03History in
/-- whatever was asked for and changed before (descriptions of the object or of its members, the main unit, properties
of any member — set on the member itself or through the arrays above it): the description the object gives at the
end of a history is the description of the object as it is at the end, and asking did not change the object -/
theorem history_description_current (D : Consts F) (t t' : DInfo F) (steps : List (Step F))
    (outs : List (Except Err (JVal F))) (h : run D t (steps ++ [.export []]) = .ok (t', outs)) :
    outs.getLast? = some (exportDatatype D t') ∧ ∃ outs0, run D t steps = .ok (t', outs0) := by
  obtain ⟨outs0, h1, h2⟩ := run_snoc_export D steps t t' outs h
  exact ⟨by rw [h2]; simp, outs0, h1⟩

/-- hence the first clause of the property at the end of any history that leaves a well-formed object with grid-aligned
scaled limits (what `checkProperties` and the datatypes of the properties enforce — a hypothesis here, `DInfo.WF` is
not proved to be kept by `setProps`): the type rebuilt from the description given THEN exports the identical datainfo
and validates / imports exactly like the object as it is then -/
theorem history_rebuild_equiv (D : Consts F) (hD : D.OK) (t t' : DInfo F) (steps : List (Step F))
    (outs : List (Except Err (JVal F))) (h : run D t (steps ++ [.export []]) = .ok (t', outs))
    (hwf : t'.WF D) (hex : t'.Exportable) :
    ∃ j dt', outs.getLast? = some (.ok j) ∧ getDatatype D j = .ok dt' ∧ exportDatatype D dt' = .ok j ∧
      (∀ v prev, validate dt'.erase v prev = validate t'.erase v prev) ∧
      (∀ w, importValue dt'.erase w = importValue t'.erase w) := by
  obtain ⟨j, dt', h1, h2, h3, h4, h5⟩ := rebuild_equiv D hD t' hwf hex
  exact ⟨j, dt', by rw [(history_description_current D t t' steps outs h).1, h1], h2, h3, h4, h5⟩

/-- … and a copy made then is the object as it is then -/
theorem history_copy_equiv (D : Consts F) (hD : D.OK) (t t' : DInfo F) (steps : List (Step F))
    (outs : List (Except Err (JVal F))) (_h : run D t steps = .ok (t', outs)) (hwf : t'.WF D) (hex : t'.Exportable) :
    copy D t' = .ok t' :=
  copy_core D hD constsOK2 t' hwf hex

/-! ## the proxy check: the verdict in the direction in which the values flow -/

open Frappy.Lemmas.C03History in
/-- which way round `_check_descriptive_data` asks `compatible()` follows from the flags of the PROXY's own parameter:
for a writable one no 'incompatible' warning means the check proxy → remote passed, no warning about the datatypes at
all means the check remote → proxy passed as well; for a read-only one the only check is remote → proxy, and the
`readonly` flag of the remote parameter plays no role -/
theorem proxy_direction (pname : String) (exported readonly : Bool) (dt : CType F) (r : RemoteParam F) :
    (readonly = false → ProxyWarning.incompatible ∉ proxyParam pname exported readonly dt (some r) →
      compatibleC dt r.datatype = .ok ()) ∧
    (ProxyWarning.incompatible ∉ proxyParam pname exported readonly dt (some r) →
      ProxyWarning.notFully ∉ proxyParam pname exported readonly dt (some r) → compatibleC r.datatype dt = .ok ()) ∧
    (readonly = true → proxyParam pname exported readonly dt (some r) =
      if passes (compatibleC r.datatype dt) then [] else [.incompatible]) := by
  refine ⟨?_, ?_, ?_⟩
  · intro hro hno
    subst hro
    rw [← passes_iff]
    cases hp : passes (compatibleC dt r.datatype) with
    | true => rfl
    | false => exact absurd (by simp [proxyParam, hp]) hno
  · intro hno hnf
    rw [← passes_iff]
    cases hq : passes (compatibleC r.datatype dt) with
    | true => rfl
    | false =>
      cases readonly with
      | true => exact absurd (by simp [proxyParam, hq]) hno
      | false =>
        cases hp : passes (compatibleC dt r.datatype) with
        | true => exact absurd (by simp [proxyParam, hp, hq]) hnf
        | false => exact absurd (by simp [proxyParam, hp]) hno
  · intro hro
    subst hro
    simp [proxyParam]

/-- the use of the verdict, full statement: a parameter the proxy may write and about which no 'incompatible' warning is
logged takes remotely every value valid on the proxy; a parameter about whose datatype nothing is logged takes on the
proxy every value valid remotely -/
def proxy_flow_sound_statement (F : Type) [FloatOps F] : Prop :=
  ∀ (pname : String) (exported readonly : Bool) (dt : CType F) (r : RemoteParam F),
    dt.WF → r.datatype.WF → GridAligned dt.erase → GridAligned r.datatype.erase →
    (readonly = false → ProxyWarning.incompatible ∉ proxyParam pname exported readonly dt (some r) →
      ∀ v, InSetC dt v → ∃ x, cvalidate r.datatype v none = .ok x) ∧
    (ProxyWarning.incompatible ∉ proxyParam pname exported readonly dt (some r) →
      ProxyWarning.notFully ∉ proxyParam pname exported readonly dt (some r) →
      ∀ v, InSetC r.datatype v → ∃ x, cvalidate dt v none = .ok x)

/-- proved part: with the side conditions of `compatibleC_sound_partial` on the pair in the direction concerned (the
recorded findings of `compatible()` itself excluded: all-optional struct against a mandatory member, a
`relative_resolution` not below 1, a `LimitsType` in the type checked against — for the writing direction the remote
type is rebuilt from a description and never holds one) -/
theorem proxy_flow_sound_partial (pname : String) (exported readonly : Bool) (dt : CType F) (r : RemoteParam F)
    (hdt : dt.WF) (hr : r.datatype.WF) (hal : GridAligned dt.erase) (hrl : GridAligned r.datatype.erase) :
    (readonly = false → ProxyWarning.incompatible ∉ proxyParam pname exported readonly dt (some r) →
      ResLeOne r.datatype.erase → OptionalRespected dt.erase r.datatype.erase → r.datatype.limitsFree = true →
      ∀ v, InSetC dt v → ∃ x, cvalidate r.datatype v none = .ok x) ∧
    (ProxyWarning.incompatible ∉ proxyParam pname exported readonly dt (some r) →
      ProxyWarning.notFully ∉ proxyParam pname exported readonly dt (some r) →
      ResLeOne dt.erase → OptionalRespected r.datatype.erase dt.erase → dt.limitsFree = true →
      ∀ v, InSetC r.datatype v → ∃ x, cvalidate dt v none = .ok x) := by
  obtain ⟨h1, h2, _⟩ := proxy_direction pname exported readonly dt r
  exact ⟨fun hro hno hres hopt hlim => compatibleC_sound_partial dt r.datatype hdt hr hal hrl hres hopt hlim (h1 hro hno),
    fun hno hnf hres hopt hlim => compatibleC_sound_partial r.datatype dt hr hdt hrl hal hres hopt hlim (h2 hno hnf)⟩

/-! ## commands -/

/-- a passing `compatOpt`: both `None`, or both datatypes with a passing check -/
theorem compatOpt_ok {x y : Option (CType F)} (h : compatOpt x y = .ok ()) :
    (x = none ∧ y = none) ∨ ∃ a b, x = some a ∧ y = some b ∧ compatibleC a b = .ok () := by
  match x, y, h with
  | none, none, _ => exact .inl ⟨rfl, rfl⟩
  | some a, some b, h => exact .inr ⟨a, b, rfl, rfl, h⟩
  | none, some _, h => simp [compatOpt] at h
  | some _, none, h => simp [compatOpt] at h

/-- a passing `CommandType.compatible` means: both commands take an argument or neither does, and the argument type
here passed the check against the one there; both give a result or neither does, and the result type there passed
the check against the one here — so `compatibleC_sound_partial` applies to the two pairs (arguments valid here are
valid there, results valid there are valid here) -/
theorem compatibleCmd_reduces (a b : CmdType F) (h : compatibleCmd a b = .ok ()) :
    ((a.argument = none ∧ b.argument = none) ∨
      ∃ x y, a.argument = some x ∧ b.argument = some y ∧ compatibleC x y = .ok ()) ∧
    ((a.result = none ∧ b.result = none) ∨
      ∃ x y, a.result = some x ∧ b.result = some y ∧ compatibleC y x = .ok ()) := by
  unfold compatibleCmd at h
  cases h1 : compatOpt a.argument b.argument with
  | error e => rw [h1] at h; cases h
  | ok u =>
    rw [h1] at h
    refine ⟨compatOpt_ok h1, ?_⟩
    rcases compatOpt_ok h with ⟨p, q⟩ | ⟨y, x, p, q, r⟩
    · exact .inl ⟨q, p⟩
    · exact .inr ⟨x, y, q, p, r⟩

/-- `CommandType.compatible` passes on the pairings of the statement: arguments nested towards the other command,
results nested from it -/
theorem compatibleCmd_complete (a b : CmdType F)
    (hwa : ∀ x, a.argument = some x ∨ a.result = some x → x.WF ∧ GridAligned x.erase)
    (hwb : ∀ y, b.argument = some y ∨ b.result = some y → y.WF ∧ GridAligned y.erase)
    (hn : NestedCmd a b) : compatibleCmd a b = .ok () := by
  unfold NestedCmd at hn
  have harg : compatOpt a.argument b.argument = .ok () := by
    have h1 := hn.1
    cases ha : a.argument with
    | none =>
      cases hb : b.argument with
      | none => rfl
      | some y => rw [ha, hb] at h1; exact h1.elim
    | some x =>
      cases hb : b.argument with
      | none => rw [ha, hb] at h1; exact h1.elim
      | some y =>
        rw [ha, hb] at h1
        exact compatibleC_complete x y (hwa x (.inl ha)).1 (hwb y (.inl hb)).1 (hwa x (.inl ha)).2 (hwb y (.inl hb)).2 h1
  have hres : compatOpt b.result a.result = .ok () := by
    have h2 := hn.2
    cases ha : a.result with
    | none =>
      cases hb : b.result with
      | none => rfl
      | some y => rw [ha, hb] at h2; exact h2.elim
    | some x =>
      cases hb : b.result with
      | none => rw [ha, hb] at h2; exact h2.elim
      | some y =>
        rw [ha, hb] at h2
        exact compatibleC_complete y x (hwb y (.inr hb)).1 (hwa x (.inr ha)).1 (hwb y (.inr hb)).2 (hwa x (.inr ha)).2 h2
  simp only [compatibleCmd, harg, hres]

/-- a command is compatible with the command rebuilt from its own description, so the proxy check logs nothing for it -/
theorem proxy_own_command_silent (a : CmdType F)
    (hwa : ∀ x, a.argument = some x ∨ a.result = some x → x.WF ∧ GridAligned x.erase) :
    compatibleCmd a (rebuildCmd a) = .ok () ∧ proxyCommand a (some (rebuildCmd a)) = [] := by
  have harg : compatOpt a.argument (a.argument.map rebuildC) = .ok () := by
    cases ha : a.argument with
    | none => rfl
    | some x => exact (compatible_with_own_description x (hwa x (.inl ha)).1 (hwa x (.inl ha)).2).1
  have hres : compatOpt (a.result.map rebuildC) a.result = .ok () := by
    cases ha : a.result with
    | none => rfl
    | some x => exact (compatible_with_own_description x (hwa x (.inr ha)).1 (hwa x (.inr ha)).2).2
  have h : compatibleCmd a (rebuildCmd a) = .ok () := by
    simp only [compatibleCmd, rebuildCmd, harg, hres]
  exact ⟨h, by simp only [proxyCommand, h, passes, if_true]⟩

/-- the monitor decides `Nested` -/
theorem nestedB_iff (a b : DType F) : nestedB a b = true ↔ Nested a b := decide_eq_true_iff

/-- the Boolean range test used in `Nested` says what it should: every integer of the range is a value -/
theorem rangeInB_sound (lo hi : Int) (vals : List Int) (h : rangeInB lo hi vals = true) : RangeIn lo hi vals := by
  intro i h1 h2
  exact rangeInFrom_all _ _ h i h1 (by omega)

/-! ## copies share no mutable state (explicit object heap) -/

open Frappy.Datatypes.Heap Frappy.Lemmas.C03Heap in
/-- no object reachable from the copy is reachable from any object allocated before the copy was made -/
theorem copyH_fresh {h h' : Heap F} {r r' : Ref} (D : Consts F) (hc : Closed h)
    (hcp : copyH D h r = some (h', r')) :
    ∀ r0, r0 < h.size → ∀ x, Reach h' r' x → ¬ Reach h' r0 x :=
  Frappy.Lemmas.C03Heap.copyH_fresh D hc hcp

open Frappy.Datatypes.Heap Frappy.Lemmas.C03Heap in
/-- mutating any object of the copy leaves every object allocated before unchanged -/
theorem copyH_frame {h h' : Heap F} {r r' x : Ref} (D : Consts F) (hcp : copyH D h r = some (h', r'))
    (hx : Reach h' r' x) : ∀ (o : Obj F) i, i < h.size → (h'.set x o).get? i = h.get? i :=
  Frappy.Lemmas.C03Heap.copyH_frame D hcp hx

open Frappy.Datatypes.Heap Frappy.Lemmas.C03Heap in
/-- building a datatype keeps the heap closed (so the hypothesis of `copyH_fresh` holds for every heap
made of datatypes) -/
theorem build_keeps_closed (t : DInfo F) (h : Heap F) (hc : Closed h) : Closed (build t h).1 :=
  build_closed t h hc

/-! ## constants and tables of the source -/

/-- the ten SECoP kinds the model of `get_datatype` dispatches on are keys of `DATATYPES`, and the only
other keys are the two non-SECoP convenience entries -/
theorem datatypes_keys :
    Generated.C03.datatypeKeys =
      ["bool", "int", "scaled", "double", "blob", "string", "array", "tuple", "enum", "struct", "command", "limit"] := by
  decide

/-- argument names of the lambdas of `DATATYPES`: which keys are required, which have which default, and
that every lambda swallows unknown keys (`**kwds`: must-ignore) — as the model `buildNode` assumes -/
theorem datatypes_args :
    Generated.C03.lambdaArgs.take 10 =
      [("bool", [], [], true),
       ("int", ["min", "max"], [], true),
       ("scaled", ["scale", "min", "max"], [], true),
       ("double", [], [("min", "None"), ("max", "None")], true),
       ("blob", ["maxbytes"], [("minbytes", "0")], true),
       ("string", [], [("minchars", "0"), ("maxchars", "18446744073709551616"), ("isUTF8", "False")], true),
       ("array", ["maxlen", "members"], [("minlen", "0"), ("pname", "''")], true),
       ("tuple", ["members"], [("pname", "''")], true),
       ("enum", ["members"], [("pname", "''")], true),
       ("struct", ["members"], [("optional", "None"), ("pname", "''")], true)] := by
  decide

/-- the float arguments passed through to `FloatRange` / `ScaledInteger` -/
theorem datatypes_floatargs :
    Generated.C03.floatArgs = ["absolute_resolution", "fmtstr", "relative_resolution", "unit"] := by decide

/-- defaults that `exportProperties` compares with, limits of the length properties, integer defaults -/
theorem datatypes_defaults :
    Generated.C03.unlimited = DType.intLimit ∧ Generated.C03.stringLengthPropMax = DType.intLimit ∧
    Generated.C03.lengthPropMax = 16777216 ∧ Generated.C03.arrayLengthPropMax = 16777216 ∧
    Generated.C03.defaultMinInt = -16777216 ∧ Generated.C03.defaultMaxInt = 16777216 ∧
    Generated.C03.defaultFmtstr = "%g" ∧ Generated.C03.relResBits = Generated.C03.scaledRelResBits ∧
    Generated.C03.zeroBits = 0 := by decide

/-- the exported properties of the property-carrying classes, in `propertyDict` order, with their defaults
(what `exportDatatype` writes conditionally) -/
theorem datatypes_exported_props :
    Generated.C03.exportedProps.map (fun c => (c.1, c.2.map (fun p => (p.2.1, p.2.2.2)))) =
      [("FloatRange", [("unit", "''"), ("min", "-1.7976931348623157e+308"), ("max", "1.7976931348623157e+308"),
          ("fmtstr", "'%g'"), ("absolute_resolution", "0.0"), ("relative_resolution", "1.2e-07")]),
       ("IntRange", [("min", "None"), ("max", "None")]),
       ("ScaledInteger", [("unit", "''"), ("scale", "2.2250738585072014e-308"), ("min", "0"), ("max", "0"),
          ("fmtstr", "'%g'"), ("absolute_resolution", "0.0"), ("relative_resolution", "1.2e-07")]),
       ("BLOBType", [("minbytes", "0"), ("maxbytes", "0")]),
       ("StringType", [("minchars", "0"), ("maxchars", "18446744073709551616"), ("isUTF8", "False")]),
       ("ArrayOf", [("minlen", "0"), ("maxlen", "0")])] := by
  decide

/-! ## non-vacuity -/

/-- the hypotheses of `compatible_sound_partial` are met by a pair the check accepts -/
example : ∃ (a b : DType Rat), a.WF ∧ b.WF ∧ GridAligned a ∧ GridAligned b ∧ ResLeOne b ∧ OptionalRespected a b ∧
    compatible a b = .ok () ∧ InSet a (.int 2) :=
  ⟨.int 1 2, .enum [("a", 1), ("b", 2)], by simp [DType.WF, DType.intLimit], by simp [DType.WF, DType.namesOK],
    trivial, trivial, trivial, trivial, rfl, by simp [InSet, InSetG]⟩

/-- `scaled_description_exact` applies to `ScaledInteger(0.1, -0.3, 0.7)` (over the exact carrier): the description says
`min = -3`, `max = 7` -/
example : DInfo.Aligned (1/10 : Rat) (-3/10) ∧ DInfo.Aligned (1/10 : Rat) (7/10) ∧
    DType.gridIndex (1/10 : Rat) (-3/10) = some (-3) ∧ DType.gridIndex (1/10 : Rat) (7/10) = some 7 := by
  refine ⟨?_, ?_, ?_, ?_⟩
  · unfold DInfo.Aligned; decide +kernel
  · unfold DInfo.Aligned; decide +kernel
  · decide +kernel
  · decide +kernel

/-- `rebuild_snaps` / `copy_snaps` apply to `ArrayOf(ScaledInteger(0.1, -0.26, 0.74), 0, 3)` over the exact carrier
(which is `GridStable`): the limits move to `-0.3` and `0.7` -/
example : GridStable Rat ∧
    DInfo.snapLimits (.array (.scaled (1/10 : Rat) (-26/100) (74/100) (1/10) 0 "" "%g") 0 3) =
      some (.array (.scaled (1/10 : Rat) (-3/10) (7/10) (1/10) 0 "" "%g") 0 3) ∧
    ¬ DInfo.Aligned (1/10 : Rat) (74/100) := by
  have h1 : DType.snap (1/10 : Rat) (-26/100) = some (-3/10) := by decide +kernel
  have h2 : DType.snap (1/10 : Rat) (74/100) = some (7/10) := by decide +kernel
  have f1 : isFinite (-3/10 : Rat) = true := by decide +kernel
  have f2 : isFinite (7/10 : Rat) = true := by decide +kernel
  exact ⟨rat_gridStable, by simp [DInfo.snapLimits, h1, h2, f1, f2], by unfold DInfo.Aligned; decide +kernel⟩

/-- … and the behaviour does not move with them (`snapLimits_same_behaviour`): `ScaledInteger(0.1, 0, 0.34)` and
`ScaledInteger(0.1, 0, 0.3)` both clamp 0.39 to 0.3 and both refuse 0.4 (before the repair the first one took 0.4:
0.4 < 0.34 + 0.1) -/
example :
    (match validate (.scaled (1/10 : Rat) 0 (34/100) (1/10) 0) (.float (39/100)) none with
      | .ok (.float x) => some x | _ => none) = some (3/10) ∧
    (match validate (.scaled (1/10 : Rat) 0 (3/10) (1/10) 0) (.float (39/100)) none with
      | .ok (.float x) => some x | _ => none) = some (3/10) ∧
    (match validate (.scaled (1/10 : Rat) 0 (34/100) (1/10) 0) (.float (4/10)) none with
      | .error e => some e | _ => none) = some .range ∧
    (match validate (.scaled (1/10 : Rat) 0 (3/10) (1/10) 0) (.float (4/10)) none with
      | .error e => some e | _ => none) = some .range := by
  refine ⟨?_, ?_, ?_, ?_⟩ <;> decide +kernel

/-- the hypothesis of `command_rebuild_equiv` is met by `CommandType(IntRange(1, 2), BoolType())` and by `CommandType()` -/
example : (∀ t, (⟨some (.int 1 2), some .bool⟩ : CmdInfo Rat).argument = some t ∨
      (⟨some (.int 1 2), some .bool⟩ : CmdInfo Rat).result = some t → t.WF ⟨0, 0, 0⟩ ∧ t.Exportable) ∧
    (∀ t, (⟨none, none⟩ : CmdInfo Rat).argument = some t ∨ (⟨none, none⟩ : CmdInfo Rat).result = some t →
      t.WF ⟨0, 0, 0⟩ ∧ t.Exportable) := by
  refine ⟨?_, ?_⟩
  · intro t h
    rcases h with h | h <;> simp only [Option.some.injEq] at h <;> subst h <;>
      simp [DInfo.WF, DType.WF, DType.intLimit, DInfo.Exportable]
  · intro t h
    rcases h with h | h <;> cases h

/-- a history that meets the hypotheses of `history_description_current` / `history_rebuild_equiv` / `history_copy_equiv`:
`dt = ArrayOf(IntRange(0, 10), 1, 3)`; `dt.export_datatype()`; `dt.set_properties(max=5)` (handed to the member by
`ArrayOf.setProperty`); `dt.members.set_properties(min=2)`; `dt.export_datatype()` — the object at the end is
`ArrayOf(IntRange(2, 5), 1, 3)` and two descriptions were given -/
example : (match run (⟨0, 0, 1⟩ : Consts Rat) (.array (.int 0 10) 1 3)
      ([.export [], .setProps [] [("max", .int 5)], .setProps [0] [("min", .int 2)]] ++ [.export []]) with
    | .ok (.array (.int a b) 1 3, outs) => (a, b, outs.length)
    | _ => (0, 0, 0)) = (2, 5, 2) ∧
    (DInfo.array (.int 2 5) 1 3 : DInfo Rat).WF ⟨0, 0, 1⟩ ∧ (DInfo.array (.int 2 5) 1 3 : DInfo Rat).Exportable :=
  ⟨by decide +kernel, by simp [DInfo.WF, DType.WF, DType.intLimit], by simp [DInfo.Exportable]⟩

/-- `set_main_unit` on a struct reaches the member of an array inside it (`'$/s'` becomes `'K/s'`), an inverted pair of
limits is refused (`ProgrammingError`) -/
example : (match run (⟨0, 0, 1⟩ : Consts Rat)
      (.struct [("curve", .array (.double 0 10 0 0 "$/s" "%g") 0 5), ("n", .int 0 3)] [] false)
      [.export [], .mainUnit [] "K", .export [0]] with
    | .ok (.struct [(_, .array (.double _ _ _ _ u _) _ _), _] _ _, outs) => (u, outs.length)
    | _ => ("", 0)) = ("K/s", 2) ∧
    (match run (⟨0, 0, 1⟩ : Consts Rat) (.int 0 3) [.setProps [] [("min", .int 7)]] with
    | .error e => some e
    | .ok _ => none) = some progErr :=
  ⟨by decide +kernel, by decide +kernel⟩

/-- the cases of `proxy_direction` occur: a parameter writable on the proxy and wider than the read-only remote one is
reported ('is read only' and 'incompatible'), the same pair with a read-only parameter on the proxy is accepted silently
(every remote value is valid on the proxy), and a proxy parameter narrower than the remote one is 'not fully compatible'
when writable and 'incompatible' when read only -/
example :
    proxyParam "gain" true false (.leaf (.int 0 100) : CType Rat) (some ⟨.leaf (.int 0 10), true⟩) = [.readOnly, .incompatible] ∧
    proxyParam "gain" true true (.leaf (.int 0 100) : CType Rat) (some ⟨.leaf (.int 0 10), false⟩) = [] ∧
    proxyParam "level" true false (.leaf (.int 0 3) : CType Rat) (some ⟨.leaf (.int 0 7), false⟩) = [.notFully] ∧
    proxyParam "level" true true (.leaf (.int 0 3) : CType Rat) (some ⟨.leaf (.int 0 7), false⟩) = [.incompatible] :=
  ⟨by decide +kernel, by decide +kernel, by decide +kernel, by decide +kernel⟩

/-- the hypotheses of `proxy_flow_sound_partial` are met by a quiet writable parameter: `IntRange(0, 10)` on both sides -/
example : (CType.leaf (.int 0 10) : CType Rat).WF ∧ GridAligned (CType.leaf (.int 0 10) : CType Rat).erase ∧
    ResLeOne (CType.leaf (.int 0 10) : CType Rat).erase ∧ (CType.leaf (.int 0 10) : CType Rat).limitsFree = true ∧
    OptionalRespected (CType.leaf (.int 0 10) : CType Rat).erase (CType.leaf (.int 0 10) : CType Rat).erase ∧
    proxyParam "p" true false (.leaf (.int 0 10) : CType Rat) (some ⟨.leaf (.int 0 10), false⟩) = [] ∧
    InSetC (CType.leaf (.int 0 10) : CType Rat) (.int 4) :=
  ⟨by simp [CType.WF, DType.WF, DType.isLeafKind, DType.intLimit], by simp [CType.erase, GridAligned],
    by simp [CType.erase, ResLeOne], by decide, by simp [CType.erase, OptionalRespected], by decide +kernel,
    by simp [InSetC, InSet, InSetG, CType.erase, OrderedIn]⟩

/-- … and `compatible_complete` applies to a container pair with nested members -/
example : ∃ (a b : DType Rat), a.WF ∧ b.WF ∧ GridAligned a ∧ GridAligned b ∧ Nested a b :=
  ⟨.array (.int 1 2) 0 3, .array (.enum [("a", 1), ("b", 2)]) 0 5, by simp [DType.WF, DType.intLimit],
    by simp [DType.WF, DType.namesOK], trivial, trivial, by simp [Nested, rangeInB, rangeInFrom]⟩

/-- `compatibleC_complete` applies to a `LimitsType` against the plain tuple it is described as (with wider members) … -/
example : ∃ (a b : CType Rat), a.WF ∧ b.WF ∧ GridAligned a.erase ∧ GridAligned b.erase ∧ NestedC a b ∧ a.cls = "limits" :=
  ⟨.limits (.leaf (.int 1 2)), .tuple [.leaf (.int 0 5), .leaf (.int 1 2)],
    by simp [CType.WF, CType.isNumeric, DType.WF, DType.isLeafKind, DType.intLimit],
    by simp [CType.WF, CType.WFList, DType.WF, DType.isLeafKind, DType.intLimit],
    by simp [CType.erase, GridAligned, GridAlignedList], by simp [CType.erase, CType.eraseList, GridAligned, GridAlignedList],
    by decide +kernel, rfl⟩

/-- … and the hypotheses of `compatibleC_sound_partial` are met by a `StatusType` checked against the tuple it is
described as, with a value in its set -/
example : ∃ (a b : CType Rat), a.WF ∧ b.WF ∧ GridAligned a.erase ∧ GridAligned b.erase ∧ ResLeOne b.erase ∧
    OptionalRespected a.erase b.erase ∧ b.limitsFree = true ∧ compatibleC a b = .ok () ∧
    InSetC a (.tuple [.enum "IDLE" 100, .str "ok"]) := by
  have wa : (CType.status [("IDLE", 100), ("BUSY", 300)] : CType Rat).WF := by simp [CType.WF, DType.namesOK]
  have wb : (CType.tuple [.leaf (.enum [("IDLE", 100), ("BUSY", 300), ("ERROR", 400)]), .text unlimitedChars] : CType Rat).WF := by
    simp [CType.WF, CType.WFList, DType.WF, DType.isLeafKind, DType.namesOK]
  refine ⟨_, _, wa, wb, by simp [CType.erase, GridAligned, GridAlignedList],
    by simp [CType.erase, CType.eraseList, GridAligned, GridAlignedList],
    by simp [CType.erase, CType.eraseList, ResLeOne, ResLeOneList],
    by simp [CType.erase, CType.eraseList, OptionalRespected, OptionalRespectedList], by decide, ?_, ?_⟩
  · exact compatibleC_complete _ _ wa wb (by simp [CType.erase, GridAligned, GridAlignedList])
      (by simp [CType.erase, CType.eraseList, GridAligned, GridAlignedList]) (by decide +kernel)
  · simp [InSetC, InSet, InSetG, ZipInG, CType.erase, OrderedIn, unlimitedChars]
    decide

/-- `rebuildC_equiv_partial` applies to a struct holding a `StatusType` and a `TextType`; `copyC` turns the
`StatusType` into a plain tuple and keeps a `LimitsType` -/
example : ∃ a : CType Rat, a.WF ∧ a.limitsFree = true ∧
    (rebuildC a).skel = .struct [("s", .tuple [.leaf, .leaf]), ("t", .leaf)] ∧
    (copyC (.tuple [a, .limits (.leaf (.int 0 5))])).skel =
      .tuple [.struct [("s", .tuple [.leaf, .leaf]), ("t", .text)], .limits .leaf] :=
  ⟨.struct [("s", .status [("IDLE", 100)]), ("t", .text 80)] [] false,
    by simp [CType.WF, CType.WFFields, DType.namesOK], by decide, rfl, rfl⟩

/-- the hypotheses of `compatible_with_own_description` / `proxy_own_description_silent` are met by the datatype of
`target_limits` (a `LimitsType`) and of a status parameter (a `StatusType`) -/
example : ∃ a b : CType Rat, a.WF ∧ GridAligned a.erase ∧ a.cls = "limits" ∧ b.WF ∧ GridAligned b.erase ∧ b.cls = "status" :=
  ⟨.limits (.leaf (.int 0 10)), .status [("IDLE", 100), ("BUSY", 300)],
    by simp [CType.WF, CType.isNumeric, DType.WF, DType.isLeafKind, DType.intLimit],
    by simp [CType.erase, GridAligned, GridAlignedList], rfl,
    by simp [CType.WF, DType.namesOK], by simp [CType.erase, GridAligned, GridAlignedList], rfl⟩

/-- the hypotheses of `compatibleCmd_complete` / `proxy_own_command_silent` are met by a command with an integer
argument and a status result, against one taking a wider argument -/
example : ∃ a b : CmdType Rat, (∀ x, a.argument = some x ∨ a.result = some x → x.WF ∧ GridAligned x.erase) ∧
    (∀ y, b.argument = some y ∨ b.result = some y → y.WF ∧ GridAligned y.erase) ∧ NestedCmd a b ∧ a.argument.isSome = true := by
  have w1 : (CType.leaf (.int 0 5) : CType Rat).WF ∧ GridAligned (CType.leaf (.int 0 5) : CType Rat).erase := by
    simp [CType.WF, DType.WF, DType.isLeafKind, DType.intLimit, CType.erase, GridAligned]
  have w2 : (CType.leaf (.int 0 9) : CType Rat).WF ∧ GridAligned (CType.leaf (.int 0 9) : CType Rat).erase := by
    simp [CType.WF, DType.WF, DType.isLeafKind, DType.intLimit, CType.erase, GridAligned]
  have w3 : (CType.status [("IDLE", 100)] : CType Rat).WF ∧ GridAligned (CType.status [("IDLE", 100)] : CType Rat).erase := by
    simp [CType.WF, DType.namesOK, CType.erase, GridAligned, GridAlignedList]
  refine ⟨⟨some (.leaf (.int 0 5)), some (.status [("IDLE", 100)])⟩, ⟨some (.leaf (.int 0 9)), some (.status [("IDLE", 100)])⟩,
    ?_, ?_, by decide +kernel, rfl⟩
  · intro x hx
    rcases hx with hx | hx <;> cases hx <;> assumption
  · intro y hy
    rcases hy with hy | hy <;> cases hy <;> assumption

/-- the law classes are inhabited: the exact carrier -/
example : LawfulFloatOps Rat ∧ CompatLaws Rat := ⟨inferInstance, inferInstance⟩

end Frappy.Props.C03
