import FrappyModel.Datatypes.Datainfo
import FrappyModel.Datatypes.Compat
import FrappyModel.Datatypes.CopyHeap
import FrappyModel.Spec.C03
import FrappyModel.Generated.C03
/-
C03 — property theorems.
-/
namespace Frappy.Props.C03
open Frappy.Datatypes Frappy.Spec.C03

/-- the ten SECoP kinds the model of `get_datatype` dispatches on are keys of `DATATYPES` -/
theorem datatypes_keys :
    ["bool", "int", "scaled", "double", "blob", "string", "array", "tuple", "enum", "struct"].all
      (Generated.C03.datatypeKeys.contains ·) = true := by decide

end Frappy.Props.C03
