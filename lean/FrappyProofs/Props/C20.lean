import FrappyProofs.Lemmas.Rotate
import FrappyProofs.Lemmas.Logging
import FrappyProofs.Lemmas.LoggingConc
import FrappyModel.Generated.C20
/-
C20 — property theorems (nothing but property theorems and their non-vacuity examples).
-/
namespace Frappy.Props.C20
open Frappy.Spec.C20 Frappy.Rotate Frappy.Logging

/-! ## Rotation -/

section rotation
variable {α : Type} [DecidableEq α]

/-- Rotation with retention `n > 0` keeps the file being written and the `n-1` newest earlier log
files, removes only older log files, and leaves foreign files alone — for every directory, every
(total, transitive, antisymmetric) name order and every choice of which names are log files. -/
theorem rotation_keeps_newest
    (le : α → α → Bool) (isLog : α → Bool) (dir : List α) (new : α) (n : Nat)
    (trans : ∀ a b c : α, le a b = true → le b c = true → le a c = true)
    (total : ∀ a b : α, (le a b || le b a) = true)
    (antisymm : ∀ a b : α, le a b = true → le b a = true → a = b)
    (hdir : dir.Nodup) (hn : 0 < n) (hnew : isLog new = true)
    (hnewest : ∀ g ∈ dir, isLog g = true → le g new = true) :
    KeepsNewest le isLog dir new n (rollover le isLog dir new n) := by
  unfold KeepsNewest
  rw [← openNew_eq_withNew]
  have hd : (openNew dir new).Nodup := nodup_openNew hdir
  have c := mkCut le isLog (openNew dir new) n trans total hd
  have hroll : rollover le isLog dir new n =
      (openNew dir new).filter (fun f => !c.rem.contains f) := by
    unfold rollover; simp only [c.rem_eq]; rw [if_neg (by omega)]
  have hmemlog : ∀ f, f ∈ c.rem ++ c.kept ↔ f ∈ (openNew dir new).filter isLog := fun f => c.perm.mem_iff
  have hnewd : new ∈ openNew dir new := mem_openNew.2 (Or.inr rfl)
  -- the kept log files of the result are exactly `c.kept`
  have hlogs : ((openNew dir new).filter (fun f => !c.rem.contains f)).filter isLog |>.Perm c.kept := by
    rw [List.filter_filter]
    have : (fun a => isLog a && !c.rem.contains a) = (fun a => (!c.rem.contains a) && isLog a) := by
      funext a; exact Bool.and_comm _ _
    rw [this, ← List.filter_filter]
    have := (c.perm.symm.filter (fun f => !c.rem.contains f))
    rw [filter_not_rem c.disjoint] at this
    exact this
  have hnewkept : new ∉ c.rem := by
    intro hr
    have hlen : 0 < c.kept.length := by
      rw [c.kept_len]
      have : new ∈ (openNew dir new).filter isLog := by simp [hnewd, hnew]
      have : 0 < ((openNew dir new).filter isLog).length := List.length_pos_of_mem this
      omega
    obtain ⟨k, hk⟩ := List.exists_mem_of_length_pos hlen
    have hle := c.sorted new hr k hk
    have hne := c.disjoint new hr k hk
    have hkd : k ∈ (openNew dir new).filter isLog := (hmemlog k).1 (List.mem_append_right _ hk)
    rw [List.mem_filter] at hkd
    rcases mem_openNew.1 hkd.1 with h | h
    · exact hne (antisymm _ _ hle (hnewest k h hkd.2))
    · exact hne h.symm
  refine ⟨?_, ?_, ?_, ?_, ?_, ?_⟩
  · rw [hroll, List.mem_filter]; exact ⟨hnewd, by simpa using hnewkept⟩
  · intro f hf; rw [hroll, List.mem_filter] at hf; exact hf.1
  · intro f hf hlog; rw [hroll, List.mem_filter]; refine ⟨hf, ?_⟩
    simp only [Bool.not_eq_eq_eq_not, Bool.not_true, List.contains_eq_mem, decide_eq_false_iff_not]
    intro hr
    have := (hmemlog f).1 (List.mem_append_left _ hr)
    rw [List.mem_filter] at this; simp [hlog] at this
  · rw [hroll, hlogs.length_eq, c.kept_len]
  · intro r hr hlog hnot k hk hklog
    rw [hroll] at hnot hk
    have hrrem : r ∈ c.rem := by
      false_or_by_contra
      rename_i hc
      exact hnot (List.mem_filter.2 ⟨hr, by simpa using hc⟩)
    have hkk : k ∈ c.kept := hlogs.mem_iff.1 (List.mem_filter.2 ⟨hk, hklog⟩)
    exact ⟨c.sorted r hrrem k hkk, c.disjoint r hrrem k hkk⟩
  · rw [hroll]; exact hd.sublist List.filter_sublist

/-- retention switched off: a rollover removes nothing -/
theorem rotation_off_keeps_all (le : α → α → Bool) (isLog : α → Bool) (dir : List α) (new : α) :
    KeepsAll dir new (rollover le isLog dir new 0) := by
  unfold rollover KeepsAll
  simp only [↓reduceIte]
  refine ⟨mem_openNew.2 (Or.inr rfl), fun f hf => mem_openNew.2 (Or.inl hf), fun f hf => ?_⟩
  rw [← openNew_eq_withNew]; exact hf

/-- the days of a run: each rollover opens a file that is a log file and at least as new as
everything already there -/
inductive Days (le : α → α → Bool) (isLog : α → Bool) (n : Nat) : List α → List α → Prop
  | start (dir) : dir.Nodup → Days le isLog n dir dir
  | next (dir₀ dir new) : Days le isLog n dir₀ dir → isLog new = true →
      (∀ g ∈ dir, isLog g = true → le g new = true) →
      Days le isLog n dir₀ (rollover le isLog dir new n)

/-- after any number of rotations (at least one) the directory never holds more than `n` log
files, and it never loses a foreign file -/
theorem rotations_bounded
    (le : α → α → Bool) (isLog : α → Bool) (n : Nat)
    (trans : ∀ a b c : α, le a b = true → le b c = true → le a c = true)
    (total : ∀ a b : α, (le a b || le b a) = true)
    (antisymm : ∀ a b : α, le a b = true → le b a = true → a = b)
    (hn : 0 < n) (dir₀ dir : List α) (h : Days le isLog n dir₀ dir) :
    dir.Nodup ∧ (∀ f ∈ dir₀, isLog f = false → f ∈ dir) ∧
    (dir = dir₀ ∨ (dir.filter isLog).length ≤ n) := by
  induction h with
  | start hd => exact ⟨hd, fun f hf _ => hf, Or.inl rfl⟩
  | next dir new hdays hnew hnewest ih =>
    obtain ⟨hd, hforeign, _⟩ := ih
    obtain ⟨_, _, hf, hcount, _, hnd⟩ :=
      rotation_keeps_newest le isLog dir new n trans total antisymm hd hn hnew hnewest
    refine ⟨hnd, fun f hf0 hlog => hf f ?_ hlog, Or.inr (by rw [hcount]; exact Nat.min_le_left _ _)⟩
    unfold withNew; split
    · exact hforeign f hf0 hlog
    · exact List.mem_append_left _ (hforeign f hf0 hlog)

/-- non-vacuity: day numbers as names, retention 3, five dated files and two foreign ones
(`isLog` = "below 100"); the rollover of day 6 keeps 4, 5, 6 and both foreign files -/
example : KeepsNewest (fun a b : Nat => decide (a ≤ b)) (fun a => decide (a < 100)) [3, 100, 1, 5, 2, 200, 4] 6 3
    (rollover (fun a b : Nat => decide (a ≤ b)) (fun a => decide (a < 100)) [3, 100, 1, 5, 2, 200, 4] 6 3) :=
  rotation_keeps_newest _ _ _ _ _
    (by intro a b c h1 h2; simp at *; omega) (by intro a b; simp; omega)
    (by intro a b h1 h2; simp at *; omega) (by decide) (by decide) (by decide) (by decide)

example : KeepsNewest (fun a b : Nat => decide (a ≤ b)) (fun a => decide (a < 100)) [3, 100, 1, 5, 2, 200, 4] 6 3
    [100, 5, 200, 4, 6] := by decide

/-- the monitor rejects what the pinned code used to do (newest removed, oldest kept) -/
example : keepsNewestB (fun a b : Nat => decide (a ≤ b)) (fun a => decide (a < 100)) [3, 100, 1, 5, 2, 200, 4] 6 3
    [3, 100, 1, 2, 200] = false := by decide

end rotation

/-! ## Routing -/

section routing

/-- generalisation of `delivery_iff` to a run that starts after history `h` -/
theorem delivery_from (t : Tables) (mods : List String) :
    ∀ (ops : List Op) (h : List Op) (s : Subs), Inv s (histCur t mods h) →
      (run t mods s ops).length = ops.length ∧
      ∀ pre m lvl post, ops = pre ++ Op.emit m lvl :: post →
        ∃ cs, (run t mods s ops)[pre.length]? = some (Out.delivered cs) ∧ cs.Nodup ∧
          ∀ c, c ∈ cs ↔ ∃ l, Setting t mods (h ++ pre) m c l ∧ l ≤ lvl := by
  intro ops
  induction ops with
  | nil =>
    intro h s _
    refine ⟨rfl, ?_⟩
    intro pre m lvl post heq
    cases pre <;> simp at heq
  | cons op rest ih =>
    intro h s hinv
    have hnext : Inv (step t mods s op).1 (histCur t mods (h ++ [op])) := by
      rw [histCur_snoc]; exact step_inv t mods hinv op
    obtain ⟨hlen, hrest⟩ := ih (h ++ [op]) (step t mods s op).1 hnext
    refine ⟨by simp [run, hlen], ?_⟩
    intro pre m lvl post heq
    cases pre with
    | nil =>
      simp only [List.nil_append, List.cons.injEq] at heq
      obtain ⟨rfl, rfl⟩ := heq
      refine ⟨sortConns (receivers s m lvl), by simp [run, step], ?_, ?_⟩
      · exact ((perm_sortConns _).nodup_iff).2 (nodup_receivers hinv m lvl)
      · intro c
        rw [(perm_sortConns _).mem_iff, mem_receivers hinv, List.append_nil]
        constructor
        · rintro ⟨l, hl, hle⟩
          exact ⟨l, (setting_iff ..).1 (by rw [← histCur_eq_setting]; exact hl), hle⟩
        · rintro ⟨l, hl, hle⟩
          exact ⟨l, by rw [histCur_eq_setting]; exact (setting_iff ..).2 hl, hle⟩
    | cons p pre' =>
      simp only [List.cons_append, List.cons.injEq] at heq
      obtain ⟨rfl, heq⟩ := heq
      obtain ⟨cs, hget, hnd, hmem⟩ := hrest pre' m lvl post heq
      refine ⟨cs, by simpa [run] using hget, hnd, ?_⟩
      intro c; rw [hmem c]; simp

/-- **delivery_iff** — for every history of `logging`, record, `*IDN?` and disconnect events on any
number of connections, a connection receives a record (exactly once) iff the level it most recently
chose for the record's module is at or below the record's level. -/
theorem delivery_iff (t : Tables) (mods : List String) (ops : List Op) :
    DeliveryIff t mods ops (run t mods [] ops) := by
  obtain ⟨hlen, h⟩ := delivery_from t mods ops [] [] (by simpa [histCur] using inv_nil)
  exact ⟨hlen, fun pre m lvl post heq => by simpa using h pre m lvl post heq⟩

/-- the monitor's expectation is the specification: `c` is expected iff its current setting admits the level -/
theorem mem_expected (t : Tables) (mods : List String) (pre : List Op) (m : String) (lvl : Level) (c : Conn) :
    c ∈ expected t mods pre m lvl → ∃ l, Setting t mods pre m c l ∧ l ≤ lvl := by
  unfold expected
  rw [(perm_sortConns _).mem_iff]
  intro hc
  have : c ∈ (pre.flatMap opConns).filter (fun c =>
      match setting t mods pre m c with
      | some l => decide (l ≤ lvl)
      | none => false) := by
    revert hc
    generalize (pre.flatMap opConns).filter _ = L
    induction L with
    | nil => simp [dedupConns]
    | cons x xs ih =>
      simp only [dedupConns, List.foldr_cons]
      intro hc
      split at hc
      · exact List.mem_cons_of_mem _ (ih hc)
      · rcases List.mem_cons.1 hc with h | h
        · exact h ▸ List.mem_cons_self
        · exact List.mem_cons_of_mem _ (ih h)
  rw [List.mem_filter] at this
  obtain ⟨_, h2⟩ := this
  split at h2
  · rename_i l hl
    exact ⟨l, (setting_iff ..).1 hl, by simpa using h2⟩
  · simp at h2

/-- **off_ident_disconnect_stop** — once a connection switched a module off, re-identified or
disconnected, it receives nothing for that module until it asks again. -/
theorem off_ident_disconnect_stop (t : Tables) (mods : List String) (pre : List Op) (stop : Op) (mid : List Op)
    (m : String) (lvl : Level) (post : List Op) (c : Conn)
    (hstop : effect t mods m c stop = some none)
    (hmid : ∀ op ∈ mid, effect t mods m c op = none) :
    ∀ cs, (run t mods [] (pre ++ stop :: mid ++ Op.emit m lvl :: post))[(pre ++ stop :: mid).length]? =
        some (Out.delivered cs) → c ∉ cs := by
  intro cs hget hc
  obtain ⟨_, h⟩ := delivery_iff t mods (pre ++ stop :: mid ++ Op.emit m lvl :: post)
  obtain ⟨cs', hget', _, hmem⟩ := h (pre ++ stop :: mid) m lvl post (by simp)
  rw [hget] at hget'
  simp only [Option.some.injEq, Out.delivered.injEq] at hget'
  subst hget'
  obtain ⟨l, hset, _⟩ := (hmem c).1 hc
  have := (setting_iff t mods (pre ++ stop :: mid) m c l).2 hset
  unfold setting at this
  rw [List.foldl_append, List.foldl_cons] at this
  rw [foldl_setting_iff] at this
  rcases this with ⟨p, o, q, heq, he, _⟩ | ⟨hinit, _⟩
  · have : o ∈ mid := by rw [heq]; simp
    rw [hmid o this] at he; simp at he
  · rw [hstop] at hinit; simp at hinit

/-- the three ways of stopping delivery named in the statement all have the stopping effect -/
theorem stop_effects (t : Tables) (mods : List String) (m : String) (c : Conn) (hm : mods.contains m = true)
    (hoff : checkLevel t (.name "off") = some t.off) :
    effect t mods m c (.ident c) = some none ∧ effect t mods m c (.disconnect c) = some none ∧
    effect t mods m c (.logging c (some m) (.name "off")) = some none ∧
    effect t mods m c (.logging c none (.name "off")) = some none := by
  simp only [List.contains_eq_mem, decide_eq_true_eq] at hm
  simp [effect, hm, hoff]

/-- **others_unaffected** — nothing connection `c` does changes what another connection `c'` has chosen
(on the model's table, for every state). -/
theorem others_unaffected (t : Tables) (mods : List String) (s : Subs) (cur : Cur) (hinv : Inv s cur)
    (op : Op) (c c' : Conn) (hop : opConns op = [c]) (hne : c ≠ c') (m : String) (l : Level) :
    ((m, c'), l) ∈ (step t mods s op).1 ↔ ((m, c'), l) ∈ s := by
  rw [(step_inv t mods hinv op).mem, hinv.mem]
  have : effect t mods m c' op = none := by
    cases op <;> simp [opConns] at hop <;> subst hop <;> simp [effect, hne]
  simp [absStep, this]

/-- the generated level table contains `off` with the code's `OFF` constant (what `reset_connection` relies on) -/
theorem generated_off :
    checkLevel ⟨Generated.C20.logLevels, Generated.C20.logOff⟩ (.name "off") = some Generated.C20.logOff := by decide +kernel

/-- non-vacuity: two connections, two modules; conn 1 asks for `info` on everything, conn 2 for `error` on `a`;
a warning of `a` goes to 1 only, an error to both, and after `*IDN?` of 1 only to 2. -/
example :
    run ⟨Generated.C20.logLevels, Generated.C20.logOff⟩ ["a", "b"] []
      [.logging 1 none (.name "info"), .logging 2 (some "a") (.name "ERROR"), .emit "a" 30, .emit "a" 40,
       .ident 1, .emit "a" 40, .emit "b" 40]
    = [.ok, .ok, .delivered [1], .delivered [1, 2], .ok, .delivered [2], .delivered []] := by decide +kernel

end routing

/-! ## Routing under interleavings (`Node/LoggingConc.lean`) -/

section interleavings

/-- **step_eq_micros** — the sequential model of a request / connection event is the fold of its primitive table
updates: the interleaving layer refines the model `delivery_iff` is about. -/
theorem step_eq_micros (t : Tables) (mods : List String) (s : Subs) (op : Op) :
    (step t mods s op).1 = (microsOf t mods op).foldl (applyMicro t) s := by
  cases op with
  | emit m lvl => rfl
  | ident c => exact setAll_eq_foldl_map t mods s c t.off
  | disconnect c => exact setAll_eq_foldl_map t mods s c t.off
  | logging c spec lvl =>
    cases spec with
    | none =>
      simp only [step, microsOf]
      cases checkLevel t lvl with
      | none => rfl
      | some l => exact setAll_eq_foldl_map t mods s c l
    | some m =>
      simp only [step, microsOf]
      by_cases hm : mods.contains m = true
      · simp only [hm, ↓reduceIte]
        cases checkLevel t lvl with
        | none => rfl
        | some l => rfl
      · simp only [hm, Bool.false_eq_true, ↓reduceIte]; rfl

/-- **conc_others_unaffected** — whatever primitive updates other connections perform, in whatever order and
number, the table entry of a connection that does nothing (`c`) stays as it was: at every point of every
interleaving. -/
theorem conc_others_unaffected (t : Tables) (s : Subs) (cur : Cur) (hinv : Inv s cur) (zs : List Micro)
    (c : Conn) (hother : ∀ z ∈ zs, z.c ≠ c) (m : String) (l : Level) :
    ((m, c), l) ∈ zs.foldl (applyMicro t) s ↔ ((m, c), l) ∈ s := by
  rw [(foldl_micro_inv t zs hinv).mem, hinv.mem, foldl_microCur_apply, foldl_scanPair_other t m c zs hother]

/-- **conc_depends_on_own** — for every interleaving `zs` of the updates `xs` of the thread that serves connection
`c` with updates `ys` of other connections (any number of other threads, any order), the entry of `c` ends up as
if its own thread had run alone: no update of `c` is lost and none is resurrected. -/
theorem conc_depends_on_own (t : Tables) (s : Subs) (cur : Cur) (hinv : Inv s cur) {xs ys zs : List Micro}
    (hs : Shuffle xs ys zs) (c : Conn) (hother : ∀ y ∈ ys, y.c ≠ c) (m : String) (l : Level) :
    ((m, c), l) ∈ zs.foldl (applyMicro t) s ↔ ((m, c), l) ∈ xs.foldl (applyMicro t) s := by
  rw [(foldl_micro_inv t zs hinv).mem, (foldl_micro_inv t xs hinv).mem, foldl_microCur_apply, foldl_microCur_apply,
    shuffle_scanPair t m c hs hother]

/-- **conc_emit_bystander** — a record emitted at any moment of a concurrent run (`pre` = everything that happened
before in the global order) goes to a connection `c` that performed no update so far in that run iff the level `c`
had chosen before the run admits it. -/
theorem conc_emit_bystander (t : Tables) (s : Subs) (cur : Cur) (hinv : Inv s cur) (pre post : List CEv)
    (m : String) (lvl : Level) (c : Conn) (hby : ∀ z, CEv.upd z ∈ pre → z.c ≠ c) :
    cdeliveries t s (pre ++ CEv.emit m lvl :: post)
        = cdeliveries t s pre ++ sortConns (receivers (cfinal t s pre) m lvl) :: cdeliveries t (cfinal t s pre) post
    ∧ (c ∈ sortConns (receivers (cfinal t s pre) m lvl) ↔ ∃ l, cur m c = some l ∧ l ≤ lvl) := by
  refine ⟨by rw [cdeliveries_append]; rfl, ?_⟩
  rw [(perm_sortConns _).mem_iff, mem_receivers (cfinal_inv t pre hinv), ccur_other t pre cur m c hby]

/-- **setting_shuffle** — the specification itself is well defined for concurrent histories: the setting of the
pair `(m, c)` after a sequential prefix followed by ANY interleaving of the events of `c`'s thread (`xs`) with
events of other connections (`ys`) is the setting after the prefix and `c`'s own events. -/
theorem setting_shuffle (t : Tables) (mods : List String) (pre : List Op) {xs ys zs : List Op}
    (hs : Shuffle xs ys zs) (m : String) (c : Conn) (hother : ∀ op ∈ ys, c ∉ opConns op) :
    setting t mods (pre ++ zs) m c = setting t mods (pre ++ xs) m c := by
  unfold setting
  rw [List.foldl_append, List.foldl_append, shuffle_foldl_upd t mods m c hs hother]

/-- … and equals the setting after the concatenation the monitor `judgeConc` uses, for a connection that acts in
one of the two parts only. -/
theorem setting_shuffle_concat (t : Tables) (mods : List String) (pre : List Op) {xs ys zs : List Op}
    (hs : Shuffle xs ys zs) (m : String) (c : Conn)
    (hone : (∀ op ∈ ys, c ∉ opConns op) ∨ (∀ op ∈ xs, c ∉ opConns op)) :
    setting t mods (pre ++ zs) m c = setting t mods (pre ++ (xs ++ ys)) m c := by
  rcases hone with hy | hx
  · rw [setting_shuffle t mods pre hs m c hy]
    unfold setting
    rw [← List.append_assoc, List.foldl_append (l := pre ++ xs) (l' := ys), foldl_upd_other t mods m c ys hy]
  · rw [setting_shuffle t mods pre hs.symm m c hx]
    unfold setting
    rw [List.foldl_append, List.foldl_append, List.foldl_append, foldl_upd_other t mods m c xs hx]

/-- non-vacuity: conn 1 and conn 2 are subscribed to `a`; while thread A disconnects conn 1 (two modules, two
updates) thread B switches conn 2 to `error` on everything and a poll thread emits a warning of `a`.  In the
interleaving below the record is emitted between the two updates of the disconnect: conn 3 (bystander, level info
on `a`) gets it, and at the end conn 1 is off everywhere and conn 2 has `error` on both modules. -/
example :
    let t : Tables := ⟨Generated.C20.logLevels, Generated.C20.logOff⟩
    let s0 := finalState t ["a", "b"] []
      [.logging 1 (some "a") (.name "debug"), .logging 2 (some "a") (.name "debug"), .logging 3 (some "a") (.name "info")]
    let evs : List CEv := [.upd ⟨"a", 1, t.off⟩, .upd ⟨"a", 2, 40⟩, .emit "a" 30, .upd ⟨"b", 1, t.off⟩, .upd ⟨"b", 2, 40⟩]
    cdeliveries t s0 evs = [[3]] ∧
    (cfinal t s0 evs).map (fun e => (e.1.1, e.1.2, e.2)) = [("a", 3, 20), ("a", 2, 40), ("b", 2, 40)] := by
  decide +kernel

example : Shuffle [1, 2] [10, 20] [1, 10, 20, 2] := .left 1 (.right 10 (.right 20 (.left 2 .nil)))

end interleavings

end Frappy.Props.C20
