import FrappyProofs.Lemmas.Poller
import FrappyProofs.Lemmas.PollerSlow
import FrappyProofs.Lemmas.PollerGap
import FrappyModel.Generated.C13
/-
C13 — property theorems (nothing but property theorems, the kept full statement of the unfinished one, and
non-vacuity examples).  `Quiet env`: other threads only trigger, they do not change the poll bookkeeping;
`Bounded env D E`: every poll function lasts at most `D`, every look at the clock finds it at most `E` later.
-/
namespace Frappy.Props.C13
open Frappy.Poller Frappy.Spec.C13

/-! ## failures are contained -/

/-- **errors_contained.**  A turn of the poll loop is a total function of the state and the environment (it
"returns": there is no outcome of any poll function for which it has no successor state), and neither the
successor state nor the list of calls it makes depends on how any of the called functions ended — SECoP error,
silent error, communication failure or arbitrary exception.  For every state, every environment and every
reassignment `o` of all outcomes. -/
theorem errors_contained (c : Consts) (env : Env) (o : Nat → Outcome) (σ : PollState) :
    turn c (env.setOut o) σ = turn c env σ :=
  turn_setOut c env o σ

/-- the same for any number of turns: the whole call list of the loop is independent of all outcomes -/
theorem errors_contained_run (c : Consts) (env : Env) (o : Nat → Outcome) (n : Nat) (σ : PollState) :
    run c (env.setOut o) n σ [] = run c env n σ [] :=
  run_setOut c env o n σ []

/-- **startup_writes_call_no_read.**  What `writeInitParams` calls for module `i` (in the start-up round and behind it),
for every environment — whatever the write functions do, common write handlers that take further entries out of
`writeDict` included — and every state: only write functions of start values that were in its `writeDict`, in that order
(a sublist: an entry somebody has taken in the mean time is passed over) — no read function of any parameter, polled or
not, and no poll function; the calls do not depend on how any of them ends; afterwards nothing is left to write for that
module (a second `writeInitParams` calls nothing) and the start values of the other modules are untouched. -/
theorem startup_writes_call_no_read (env : Env) (o : Nat → Outcome) (σ : PollState) (i : Nat) :
    List.Sublist ((writeInit env σ i []).evs.map evKey) ((σ.pending i).map (fun p => (i, Fn.write p))) ∧
    (∀ e ∈ (writeInit env σ i []).evs, isRead e.f = false ∧ e.f ≠ Fn.doPoll) ∧
    writeInit (env.setOut o) σ i [] = writeInit env σ i [] ∧
    (writeInit env σ i []).σ.pending i = [] ∧
    (writeInit env (writeInit env σ i []).σ i []).evs = [] ∧
    ∀ j, j ≠ i → (writeInit env σ i []).σ.pending j = σ.pending j := by
  obtain ⟨hp, hother⟩ := writeInit_pending env σ i []
  refine ⟨?_, ?_, writeInit_setOut env o σ i [], hp, ?_, hother⟩
  · obtain ⟨l, h1, h2⟩ := writeInit_calls env σ i []
    rw [h1]; simpa using h2
  · intro e he
    rcases writeInit_events env σ i [] e he with h | ⟨_, p, hf, _⟩
    · cases h
    · rw [hf]; exact ⟨rfl, by simp⟩
  · obtain ⟨l, h1, h2⟩ := writeInit_calls env (writeInit env σ i []).σ i []
    rw [hp] at h2
    have : l = [] := by simpa using h2
    rw [this] at h1
    simpa using h1

/-- **startup_writes_all_written.**  When no write function takes further entries out of `writeDict` (no common write
handlers), `writeInitParams` calls the write function of EVERY start value of the module, in the order of `writeDict`,
each exactly once. -/
theorem startup_writes_all_written (env : Env) (hn : NoTakes env) (σ : PollState) (i : Nat) (hnd : (σ.pending i).Nodup) :
    (writeInit env σ i []).evs.map evKey = (σ.pending i).map (fun p => (i, Fn.write p)) := by
  simpa using writeInit_calls_exact env hn σ i hnd []

/-- what module initialisation enters into `writeDict`: exactly the parameters with a given value, each once -/
theorem givenIdx_mem (gs : List Bool) : ∀ (i p : Nat), p ∈ givenIdx i gs ↔ i ≤ p ∧ gs[p - i]? = some true := by
  induction gs with
  | nil => intro i p; simp [givenIdx]
  | cons g gs ih =>
    intro i p
    simp only [givenIdx, List.mem_append, ih]
    constructor
    · rintro (h | ⟨h1, h2⟩)
      · cases g
        · simp at h
        · simp only [if_true, List.mem_singleton] at h; subst h; simp
      · refine ⟨by omega, ?_⟩
        have : p - i = (p - (i + 1)) + 1 := by omega
        rw [this, List.getElem?_cons_succ]; exact h2
    · rintro ⟨h1, h2⟩
      by_cases hp : p = i
      · subst hp
        simp only [Nat.sub_self, List.getElem?_cons_zero, Option.some.injEq] at h2
        subst h2; exact Or.inl (by simp)
      · have : p - i = (p - (i + 1)) + 1 := by omega
        rw [this, List.getElem?_cons_succ] at h2
        exact Or.inr ⟨by omega, h2⟩

theorem givenIdx_nodup (gs : List Bool) : ∀ i, (givenIdx i gs).Nodup := by
  induction gs with
  | nil => intro i; simp [givenIdx]
  | cons g gs ih =>
    intro i
    simp only [givenIdx]
    refine List.nodup_append.2 ⟨by cases g <;> simp, ih (i + 1), ?_⟩
    intro a ha b hb
    have hb' := ((givenIdx_mem gs (i + 1) b).1 hb).1
    cases g
    · simp at ha
    · simp only [if_true, List.mem_singleton] at ha; omega

/-- **start_values_written_once.**  A thread started with the `writeDict`s module initialisation leaves (`givenIdx`: the
parameters whose value is given, in parameter order), in an environment without common write handlers: the first
`writeInitParams` of module `i` calls the write function of every given start value, in parameter order, each exactly
once (and nothing else — `startup_writes_call_no_read`). -/
theorem start_values_written_once (env : Env) (hn : NoTakes env) (clock : Nat) (mods : List Mod) (stamp : Nat → Nat → Nat)
    (given : Nat → List Bool) (i : Nat) :
    (writeInit env (startState clock mods stamp (fun m => givenIdx 0 (given m))) i []).evs.map evKey =
      (givenIdx 0 (given i)).map (fun p => (i, Fn.write p)) :=
  startup_writes_all_written env hn _ i (givenIdx_nodup _ 0)

/-- the table fact the model's `writeParams` rests on (re-extracted from the source of `Module.writeInitParams` on every
run): the only methods of the module it looks up are `write_<pname>`, and it calls no method of the module directly —
no `read_<pname>` is reached from there -/
theorem writeInitParams_looks_up_write_functions_only :
    Generated.C13.writeInitParamsLookups = ["write_"] ∧ Generated.C13.writeInitParamsSelfCalls = [] := by
  decide +kernel

/-- **late_writes_contained.**  The `writeInitParams` calls behind the start-up round (repaired code: the configured
values a round broken off by a communication failure had skipped): the successor state and the call list do not depend
on any outcome — whatever a late write raises (SECoP / silent / communication error, arbitrary exception), the thread
goes on; every call is a write function of a start value that was still to be written, of a module of the thread — no
read function is called; and afterwards no module of the thread, polled or not, has anything left to write. -/
theorem late_writes_contained (env : Env) (o : Nat → Outcome) (is : List Nat) (σ : PollState) (evs : List Event) :
    lateAll (env.setOut o) is σ evs = lateAll env is σ evs ∧
    (∀ e ∈ (lateAll env is σ []).evs, e.m ∈ is ∧ ∃ p, e.f = Fn.write p ∧ p ∈ σ.pending e.m) ∧
    ∀ j ∈ is, (lateAll env is σ evs).σ.pending j = [] := by
  obtain ⟨a, _, _⟩ := lateAll_events env is σ []
  obtain ⟨_, _, c⟩ := lateAll_events env is σ evs
  refine ⟨lateAll_setOut env o is σ evs, fun e he => ?_, c⟩
  rcases a e he with h | h
  · cases h
  · exact h

/-- everything behind the start-up round — the late writes and any number of turns — is independent of all outcomes:
from the state the round leaves, no failure of any kind changes what the thread does next (only a communication failure
*inside* the round changes anything: it ends the round) -/
theorem errors_contained_after_round (c : Consts) (env : Env) (o : Nat → Outcome) (n : Nat) (σ : PollState) (evs : List Event) :
    run c (env.setOut o) n (lateAll (env.setOut o) (List.range σ.mods.length) σ evs).σ
        (lateAll (env.setOut o) (List.range σ.mods.length) σ evs).evs =
      run c env n (lateAll env (List.range σ.mods.length) σ evs).σ (lateAll env (List.range σ.mods.length) σ evs).evs := by
  rw [lateAll_setOut, run_setOut]

/-- the table fact the model's `call` rests on: `callPollFunc` catches `Exception` (re-extracted from the source) -/
theorem callPollFunc_catches_exception : Generated.C13.callPollFuncCatchesException = true := by decide

/-! ## due ⇔ polled -/

/-- **due_polled_this_turn.**  A module with polling enabled whose main poll is due when the turn looks at the
clock (`last_main + interval < now`) has its `doPoll` called in this very turn, exactly once. -/
theorem due_polled_this_turn (c : Consts) (env : Env) (hq : Quiet env) (D E : Nat) (hb : Bounded env D E)
    (σ : PollState) (i : Nat) (m : Mod) (hm : σ.mods[i]? = some m) (he : m.enabled = true)
    (hdue : m.lastMain + m.interval < (readClock env σ).clock) :
    ∃ t, startsOf (turn c env σ).evs i = [t] := by
  obtain ⟨m', _, _, _, _, hcase⟩ := turn_module c env hq D E hb σ i m hm
  rcases hcase with ⟨_, _, _, h⟩ | ⟨t, h, _⟩
  · have := (h he).2; omega
  · exact ⟨t, h⟩

/-- **not_due_not_polled.**  Whenever `doPoll` of module `i` is called in a turn, the module has polling enabled
and was due at that moment; at most one such call happens per turn. -/
theorem not_due_not_polled (c : Consts) (env : Env) (hq : Quiet env) (D E : Nat) (hb : Bounded env D E)
    (σ : PollState) (i : Nat) (m : Mod) (hm : σ.mods[i]? = some m) :
    (startsOf (turn c env σ).evs i).length ≤ 1 ∧
    ∀ t ∈ startsOf (turn c env σ).evs i, m.enabled = true ∧ m.lastMain + m.interval < t := by
  obtain ⟨m', _, _, _, _, hcase⟩ := turn_module c env hq D E hb σ i m hm
  rcases hcase with ⟨h, _⟩ | ⟨t, h, he, _, _, _, _, _, hd⟩
  · rw [h]; exact ⟨by simp, fun t ht => by cases ht⟩
  · rw [h]; refine ⟨by simp, fun t' ht' => ?_⟩
    simp only [List.mem_singleton] at ht'; subst ht'; exact ⟨he, hd⟩

/-! ## parameters that are not polled -/

/-- **nopoll_never_read.**  In every trace of the thread body — the start-up round with everything `writeInitParams`
calls, the late writes, and any number of turns — for every environment and whatever start values are to be written:
each `read_p` call is for a parameter listed as polled of a module with polling enabled, each `doPoll` is of a module
with polling enabled — the clause `NoPollNeverRead` of the specification, the one the monitor evaluates on
implementation traces (whose events are every function of a module the poll thread's own code calls). -/
theorem nopoll_never_read (c : Consts) (env : Env) (n : Nat) (σ : PollState) (h : σ.toPoll = none)
    (loopStart tEnd eps : Nat) :
    NoPollNeverRead (traceOf σ (thread c env n σ).evs loopStart tEnd eps) := by
  intro e he
  have hv := thread_ok c env n σ h e he
  have hget : ∀ (j : Nat) (s : Bool × List Nat × Nat), (statics σ)[j]? = some s →
      ∃ mi : ModInfo, (traceOf σ (thread c env n σ).evs loopStart tEnd eps).mods[j]? = some mi ∧
        mi.enabled = s.1 ∧ mi.polled = s.2.1 := by
    intro j s hs
    simp only [statics, List.getElem?_map, Option.map_eq_some_iff] at hs
    obtain ⟨m, hm, rfl⟩ := hs
    exact ⟨infoOf m, by simp [traceOf, hm], rfl, rfl⟩
  rcases e with ⟨t, mm, f, d⟩
  cases f with
  | read p =>
    obtain ⟨s, hs, h1, h2⟩ := hv
    obtain ⟨mi, a, b, cc⟩ := hget _ s hs
    exact ⟨mi, a, by rw [b]; exact h1, by rw [cc]; exact h2⟩
  | doPoll =>
    obtain ⟨s, hs, h1⟩ := hv
    obtain ⟨mi, a, b, _⟩ := hget _ s hs
    exact ⟨mi, a, by rw [b]; exact h1⟩
  | init =>
    have : mm < (statics σ).length := hv
    simpa [traceOf, statics] using this
  | write q =>
    have : mm < (statics σ).length := hv
    simpa [traceOf, statics] using this

/-- **poll_flags_mark.**  The flag the poll thread tests (`rfunc.poll`, as computed by the read wrapper of
`HasAccessibles`, `Handler.__set_name__`, `CommonReadHandler.wrap` and `nopoll` — model `PollFlags.pollFlag`) is
set exactly for the parameters that are not marked as not polled, for every way a class can declare a read function;
hence the list of parameters the thread collects is the list the monitor allows (`Spec.C13.mayPoll`), and with
`nopoll_never_read`: a parameter marked as not polled is never read by the poller. -/
theorem poll_flags_mark (d : PollFlags.Decl) : PollFlags.pollFlag d = true ↔ ¬ MarkedNotPolled d := by
  rcases d with ⟨k, i, o⟩
  cases k <;> cases i <;> cases o <;> decide

theorem polled_is_mayPoll (ds : List PollFlags.Decl) : ∀ i, PollFlags.polledIdx i ds = mayPoll i ds := by
  induction ds with
  | nil => intro i; rfl
  | cons d ds ih =>
    intro i
    simp only [PollFlags.polledIdx, mayPoll, ih]
    by_cases h : MarkedNotPolled d
    · rw [if_pos h, if_neg (by rw [poll_flags_mark]; exact fun hn => hn h)]
    · rw [if_neg h, if_pos ((poll_flags_mark d).2 h)]

/-- which positions `mayPoll` lists: those whose declaration is not marked as not polled -/
theorem mem_mayPoll (ds : List PollFlags.Decl) : ∀ (i p : Nat),
    p ∈ mayPoll i ds ↔ ∃ d, i ≤ p ∧ ds[p - i]? = some d ∧ ¬ MarkedNotPolled d := by
  induction ds with
  | nil => intro i p; simp [mayPoll]
  | cons d ds ih =>
    intro i p
    simp only [mayPoll, List.mem_append, ih]
    constructor
    · rintro (h | ⟨d', h1, h2, h3⟩)
      · by_cases hm : MarkedNotPolled d
        · rw [if_pos hm] at h; cases h
        · rw [if_neg hm] at h
          simp only [List.mem_singleton] at h; subst h
          exact ⟨d, Nat.le_refl _, by simp, hm⟩
      · refine ⟨d', by omega, ?_, h3⟩
        have : p - i = (p - (i + 1)) + 1 := by omega
        rw [this, List.getElem?_cons_succ]; exact h2
    · rintro ⟨d', h1, h2, h3⟩
      by_cases hp : p = i
      · subst hp
        simp only [Nat.sub_self, List.getElem?_cons_zero, Option.some.injEq] at h2
        subst h2
        exact Or.inl (by rw [if_neg h3]; exact List.mem_singleton.2 rfl)
      · have : p - i = (p - (i + 1)) + 1 := by omega
        rw [this, List.getElem?_cons_succ] at h2
        exact Or.inr ⟨d', by omega, h2, h3⟩

/-- **marked_not_polled_never_read.**  The clause of the statement in its own words, end to end: a thread started
(`startState`, `startMod`) for modules given by how their classes DECLARE the read functions (`decl`: polling enabled, slow
interval, the declarations in parameter order, poll interval), with the lists of polled parameters collected as the real
thread collects them (`PollFlags.polledIdx`, a module without polling has none) — in every environment, for any number of
turns, whatever start values are written: every read function the thread calls, in the loop, in the start-up round or
inside `writeInitParams`, belongs to a module with polling enabled and to a parameter that is NOT marked as not polled. -/
theorem marked_not_polled_never_read (c : Consts) (env : Env) (n clock : Nat) (stamp : Nat → Nat → Nat)
    (pending : Nat → List Nat) (decl : List (Bool × Nat × List PollFlags.Decl × Nat)) :
    let σ := startState clock
      (decl.map fun d => startMod d.1 d.2.1 (if d.1 then PollFlags.polledIdx 0 d.2.2.1 else []) d.2.2.2) stamp pending
    ∀ e ∈ (thread c env n σ).evs, ∀ p, e.f = Fn.read p →
      ∃ d dd, decl[e.m]? = some d ∧ d.1 = true ∧ d.2.2.1[p]? = some dd ∧ ¬ MarkedNotPolled dd := by
  intro σ e he p hf
  have hv := thread_ok c env n σ rfl e he
  unfold ValidEvent at hv
  rw [hf] at hv
  obtain ⟨s, hs, h1, h2⟩ := hv
  simp only [σ, startState, statics, List.getElem?_map, Option.map_eq_some_iff, List.map_map] at hs
  obtain ⟨d, hd, rfl⟩ := hs
  simp only [Function.comp, static, startMod] at h1 h2
  rw [h1] at h2
  simp only [if_true] at h2
  rw [polled_is_mayPoll, mem_mayPoll] at h2
  obtain ⟨dd, _, h3, h4⟩ := h2
  exact ⟨d, dd, hd, h1, by simpa using h3, h4⟩

/-! ## interval changes -/

/-- **interval_change_next_wakeup (1).**  `setFastPoll` on a polled module installs the new interval and sets the
trigger event; so does a change of `pollinterval` unless fast polling is on (then it is only remembered). -/
theorem interval_change_triggers (σ : PollState) (i : Nat) (m : Mod) (hm : σ.mods[i]? = some m)
    (he : m.enabled = true) :
    (∀ flag fastI, (applyExt σ (.setFastPoll i flag fastI)).trig = true ∧
        (applyExt σ (.setFastPoll i flag fastI)).mods[i]? =
          some { m with fast := flag, interval := if flag then fastI else m.pollinterval }) ∧
    (∀ v, m.fast = false → (applyExt σ (.updateInterval i v)).trig = true ∧
        (applyExt σ (.updateInterval i v)).mods[i]? = some { m with pollinterval := v, interval := v }) := by
  constructor
  · intro flag fastI
    constructor
    · simp [applyExt, extTriggers, hasPollInfo, hm, he]
    · simp [applyExt, applyExtMods, updAt_getElem?, hm, extSetFastPoll]
  · intro v hf
    constructor
    · simp [applyExt, extTriggers, hm, he, hf]
    · simp [applyExt, applyExtMods, updAt_getElem?, hm, extUpdateInterval, hf]

/-- **interval_change_next_wakeup (2).**  Once the event is set the next `wait` of the loop returns without any
time passing; and a wait that is in progress when another thread changes an interval ends at that very moment,
with the change applied. -/
theorem interval_change_wakes (env : Env) (σ : PollState) (timeout : Nat) :
    (σ.trig = true → (doWait env σ timeout).clock = σ.clock ∧
      (doWait env σ timeout).mods = (applyExts (env.gap σ.nWait) σ).mods) ∧
    (∀ d e rest, σ.trig = false → env.wake σ.nWait = (d, [e]) :: rest → d ≤ timeout →
      extTriggers σ.mods e = true →
      (waitEvent env σ timeout).clock = σ.clock + d ∧ (waitEvent env σ timeout).mods = applyExtMods σ.mods e) :=
  ⟨fun h => doWait_trig env σ timeout h,
   fun d e rest ht hw hd he => waitEvent_interrupted env σ timeout d e rest ht hw hd he⟩

/-- **interval_change_next_wakeup (3).**  Every wait of the loop is computed from the intervals in force at that
moment: in any state (in particular right after a change), for any environment, a turn that waits ends no later
than `last_main + interval` and `last_slow + slowinterval` of every polled module, with the values the state has
now. -/
theorem interval_change_next_wakeup (c : Consts) (env : Env) (σ : PollState) (i : Nat) (m : Mod)
    (hm : σ.mods[i]? = some m) (he : m.enabled = true)
    (hwait : (readClock env σ).clock < wakeAt c (readClock env σ).clock σ.mods ∧ σ.toPoll.isNone = true) :
    (turn c env σ).evs = [] ∧ (turn c env σ).σ.clock ≤ m.lastMain + m.interval ∧
    (turn c env σ).σ.clock ≤ m.lastSlow + m.slow := by
  have hw := wakeAt_le c (readClock env σ).clock σ.mods i m hm he
  have hcl := doWait_clock_le env (readClock env σ) (wakeAt c (readClock env σ).clock σ.mods - (readClock env σ).clock)
  have ht : turn c env σ =
      ⟨doWait env (readClock env σ) (wakeAt c (readClock env σ).clock σ.mods - (readClock env σ).clock), []⟩ := by
    unfold turn
    simp only [readClock_mods, readClock_toPoll]
    exact if_pos hwait
  rw [ht]
  refine ⟨rfl, ?_, ?_⟩
  · dsimp only; omega
  · dsimp only; omega

/-- **interval_change_next_wakeup (4): no lost wake-up.**  Whenever another thread acts on the poll bookkeeping
around a wait of the loop — before the wait is entered (first batch at distance 0), while it lasts (a batch at distance
`d`), or in the window between the return of `wait` and the `clear` that follows it (`env.gap`) — the state the turn
ends in contains that action: nothing the `clear` wipes out is still needed.  Precisely, for every environment, state
and time-out: the poll bookkeeping after `wait; clear` is what the actions of the window make of what the wait left, the
clock is the one the wait ended with (so the window costs no time), the event is clear, and the *next* turn — which,
by (3), computes its wake-up from the values of the state it starts in — therefore ends no later than
`last_main + interval` of the bookkeeping *including* the window's actions.  (Had the `clear` come before the `wait`,
an action between the computation of `wait_time` and the `clear` would be slept over for the old interval.) -/
theorem interval_change_not_lost (c : Consts) (env : Env) (σ : PollState) (timeout : Nat) :
    (doWait env σ timeout).mods = (applyExts (env.gap σ.nWait) (waitEvent env σ timeout)).mods ∧
    (doWait env σ timeout).clock = (waitEvent env σ timeout).clock ∧
    (doWait env σ timeout).trig = false ∧
    ∀ (i : Nat) (m : Mod), (doWait env σ timeout).mods[i]? = some m → m.enabled = true →
      (readClock env (doWait env σ timeout)).clock < wakeAt c (readClock env (doWait env σ timeout)).clock (doWait env σ timeout).mods ∧
        (doWait env σ timeout).toPoll.isNone = true →
      (turn c env (doWait env σ timeout)).σ.clock ≤ m.lastMain + m.interval := by
  refine ⟨doWait_mods env σ timeout, doWait_clock env σ timeout, rfl, ?_⟩
  intro i m hm he hw
  exact (interval_change_next_wakeup c env (doWait env σ timeout) i m hm he hw).2.1

/-- a `setFastPoll` / `pollinterval` change falling into the window between `wait` and `clear` is installed when the
turn ends (with (4): the next wake-up is computed from it) -/
theorem interval_change_in_window (env : Env) (σ : PollState) (timeout : Nat) (i : Nat) (m : Mod)
    (hm : (waitEvent env σ timeout).mods[i]? = some m) (flag : Bool) (fastI : Nat)
    (hg : env.gap σ.nWait = [.setFastPoll i flag fastI]) :
    (doWait env σ timeout).mods[i]? =
      some { m with fast := flag, interval := if flag then fastI else m.pollinterval } := by
  rw [doWait_mods, hg, applyExts_single]
  simp [applyExt, applyExtMods, updAt_getElem?, hm, extSetFastPoll]

/-! ## the interval the poller uses is the one the module was told -/

/-- the model's `PollInfo` of module `m` agrees with what the module was told (`s`): same poll interval, same
fast-polling switch, and `PollInfo.interval` is the interval in force -/
def Tracks (m : Mod) (s : IvState) : Prop :=
  m.pollinterval = s.pollinterval ∧ m.fast = s.fast ∧ m.interval = s.inForce

/-- the command module `i` receives through an action of another thread at time `t` (triggers are no commands) -/
def cmdOf (i t : Nat) : Ext → Option Cmd
  | .updateInterval m v => if m = i then some (.setInterval t v) else none
  | .setFastPoll m flag v => if m = i then some (.setFast t flag v) else none
  | _ => none

def stepOpt (s : IvState) : Option Cmd → IvState
  | some c => cmdStep s c
  | none => s

/-- **interval_follows_commands.**  For every sequence of actions of other threads on the poll bookkeeping —
`pollinterval` changes with or without fast polling being on, fast polling switched on or off, triggers, reconnect —
in whatever order and at whatever times: the interval the poll loop computes with (`PollInfo.interval`) stays the
interval the module was *told* (`Spec.C13.IvState.inForce`: the fast interval while fast polling is on, the module's
current `pollinterval` otherwise), i.e. the one the monitor's `MainGapBound` holds the implementation to.  In
particular a `pollinterval` change made while fast polling is on is in force as soon as fast polling is switched off. -/
theorem interval_follows_commands (i : Nat) (es : List (Nat × Ext)) : ∀ (mods : List Mod) (m : Mod) (s : IvState),
    mods[i]? = some m → Tracks m s →
    ∃ m', (es.foldl (fun ms te => applyExtMods ms te.2) mods)[i]? = some m' ∧
      Tracks m' (es.foldl (fun s te => stepOpt s (cmdOf i te.1 te.2)) s) ∧ m'.enabled = m.enabled := by
  induction es with
  | nil => intro mods m s hm hc; exact ⟨m, hm, hc, rfl⟩
  | cons te es ih =>
    intro mods m s hm hc
    obtain ⟨t, e⟩ := te
    have step : ∃ m1, (applyExtMods mods e)[i]? = some m1 ∧ Tracks m1 (stepOpt s (cmdOf i t e)) ∧
        m1.enabled = m.enabled := by
      obtain ⟨hp, hf, hi⟩ := hc
      unfold IvState.inForce at hi
      cases e with
      | updateInterval j v =>
        by_cases hj : j = i
        · subst hj
          refine ⟨extUpdateInterval v m, by simp [applyExtMods, updAt_getElem?, hm], ?_, ?_⟩
          · unfold Tracks IvState.inForce extUpdateInterval
            cases hfm : m.fast <;> simp [hfm, cmdOf, stepOpt, cmdStep, ← hf] at hi ⊢
            exact hi
          · unfold extUpdateInterval; split <;> rfl
        · exact ⟨m, by simp [applyExtMods, updAt_getElem?, hm, Ne.symm hj], by simpa [cmdOf, hj, stepOpt] using ⟨hp, hf, hi⟩, rfl⟩
      | setFastPoll j flag v =>
        by_cases hj : j = i
        · subst hj
          refine ⟨extSetFastPoll flag v m, by simp [applyExtMods, updAt_getElem?, hm], ?_, rfl⟩
          unfold Tracks IvState.inForce extSetFastPoll
          cases flag <;> simp [cmdOf, stepOpt, cmdStep, hp]
        · exact ⟨m, by simp [applyExtMods, updAt_getElem?, hm, Ne.symm hj], by simpa [cmdOf, hj, stepOpt] using ⟨hp, hf, hi⟩, rfl⟩
      | trigger j imm =>
        by_cases hj : j = i
        · subst hj
          refine ⟨extTrigger imm m, by simp [applyExtMods, updAt_getElem?, hm], ?_, ?_⟩
          · unfold extTrigger; split <;> exact ⟨hp, hf, hi⟩
          · unfold extTrigger; split <;> rfl
        · exact ⟨m, by simp [applyExtMods, updAt_getElem?, hm, Ne.symm hj], ⟨hp, hf, hi⟩, rfl⟩
      | triggerAll =>
        refine ⟨extTriggerAll m, by simp [applyExtMods, hm], ?_, ?_⟩
        · unfold extTriggerAll; split <;> exact ⟨hp, hf, hi⟩
        · unfold extTriggerAll; split <;> rfl
    obtain ⟨m1, h1, c1, e1⟩ := step
    obtain ⟨m', h', c', e'⟩ := ih (applyExtMods mods e) m1 _ h1 c1
    exact ⟨m', h', c', by rw [e', e1]⟩

/-- the entries the monitor derives from the commands (`ModInfo.intervals`) are the intervals in force after each command -/
theorem intervals_are_in_force (s : IvState) (c : Cmd) (cs : List Cmd) :
    intervalsFrom s (c :: cs) = (c.time, (cmdStep s c).inForce) :: intervalsFrom (cmdStep s c) cs := rfl

/-! ## bounded staleness of the main polls -/

/-- **main_gap_bound.**  For every thread of `n` modules, every polled module `i` with interval `I`, every quiet
environment in which poll functions last at most `D` and clock reads advance at most `E`, and any number of turns
after the start-up round: two consecutive starts of `doPoll i` are at most

    max I D + (n-1)·(D+E) + D + 2·E   ≤   I + n·(D+E) + D + E  =  I + one sweep

apart (`sweepBound n D E`: every module's `doPoll` and clock read, one slow poll, the clock read at the top).
Failing poll functions do not matter (`errors_contained`: outcomes are not even looked at). -/
theorem main_gap_bound (c : Consts) (env : Env) (hq : Quiet env) (D E : Nat) (hb : Bounded env D E)
    (σ : PollState) (i : Nat) (m : Mod) (hm : σ.mods[i]? = some m) (he : m.enabled = true)
    (hle : m.lastMain ≤ m.lastStart) (k : Nat) :
    GapsLe (startsOf (thread c env k σ).evs i) (gapBound σ.mods.length D E m.interval) ∧
    GapsLe (startsOf (thread c env k σ).evs i) (m.interval + sweepBound σ.mods.length D E) := by
  have hilt : i < σ.mods.length := by
    rcases List.getElem?_eq_some_iff.1 hm with ⟨h, _⟩; exact h
  obtain ⟨pm, ps⟩ := prologue_quiet c env hq i σ
  have hinv : GapInv σ.mods.length i D E m.interval (prologue c env σ).σ m :=
    ⟨by rw [pm], by rw [pm]; exact hm, he, rfl, hle⟩
  have h1 : GapsLe (startsOf (thread c env k σ).evs i) (gapBound σ.mods.length D E m.interval) := by
    unfold thread
    apply run_gaps c env hq D E hb σ.mods.length i m.interval hilt k _ m _ hinv
    · rw [ps]; intro ab hab; simp [pairs] at hab
    · rw [ps]; intro a ha; simp at ha
  exact ⟨h1, gapsLe_mono _ _ _ (gapBound_le _ D E _ (by omega)) h1⟩

/-- **main_gap_bound, as the specification states it.**  The clause the monitor evaluates on implementation traces —
`MainGapBoundS`: for every polled module, between consecutive `doPoll` starts after the start-up round, from the end
of the start-up round to the first start, and from the last start to the end of the observation, no more than the
interval in force plus one sweep — holds for the trace of the model's thread body (start-up round and any number of
turns, observed until the clock of the last turn), with one sweep `= sweepBound n D E`, for every quiet environment
with durations `≤ D` and clock steps `≤ E`, every number of modules and any intervals.  The thread starts with every
polled module due (`last_main = 0` in `PollInfo.__init__`: hypothesis `hstart`). -/
theorem main_gap_bound_spec (c : Consts) (env : Env) (hq : Quiet env) (D E : Nat) (hb : Bounded env D E)
    (σ : PollState)
    (hstart : ∀ (i : Nat) (m : Mod), σ.mods[i]? = some m → m.enabled = true →
      m.lastMain ≤ m.lastStart ∧ m.lastMain + m.interval < σ.clock) (k : Nat) :
    MainGapBoundS (sweepBound σ.mods.length D E)
      (traceOf σ (thread c env k σ).evs (prologue c env σ).σ.clock (thread c env k σ).σ.clock E) := by
  intro i hi mi hmi
  simp only [traceOf, List.getElem?_map, Option.map_eq_some_iff] at hmi
  obtain ⟨m, hm, rfl⟩ := hmi
  have he : m.enabled = true := by
    simp only [traceOf, enabledIdx, List.mem_filter, List.getElem?_map, hm, Option.map_some, infoOf] at hi
    exact hi.2
  have hilt : i < σ.mods.length := by
    rcases List.getElem?_eq_some_iff.1 hm with ⟨h, _⟩; exact h
  obtain ⟨hle, hdue⟩ := hstart i m hm he
  obtain ⟨pm, ps⟩ := prologue_quiet c env hq i σ
  have hclk : σ.clock ≤ (prologue c env σ).σ.clock := (prologue_step c env hq 0 0 σ).clk
  have hinv : GapInv σ.mods.length i D E m.interval (prologue c env σ).σ m :=
    ⟨by rw [pm], by rw [pm]; exact hm, he, rfl, hle⟩
  have hmx : Nat.max (m.lastMain + m.interval) (prologue c env σ).σ.clock = (prologue c env σ).σ.clock :=
    Nat.max_eq_right (by omega)
  have hr0 : RunInv σ.mods.length i D E m.interval (prologue c env σ).σ.clock m.lastMain (prologue c env σ).σ m
      (startsOf (prologue c env σ).evs i) := by
    rw [ps]
    exact ⟨fun ab hab => by simp [pairs] at hab, fun a ha => by simp at ha, fun t ht => by simp at ht,
      fun a ha => by simp at ha, fun _ => ⟨rfl, by omega⟩, Nat.le_refl _⟩
  obtain ⟨m', _, hR⟩ := run_full c env hq D E hb σ.mods.length i m.interval (prologue c env σ).σ.clock m.lastMain hilt k
    (prologue c env σ).σ m (prologue c env σ).evs hinv hr0
  have hth : thread c env k σ = run c env k (prologue c env σ).σ (prologue c env σ).evs := rfl
  rw [← hth] at hR
  have hS : gapBound σ.mods.length D E m.interval ≤ m.interval + sweepBound σ.mods.length D E :=
    gapBound_le _ D E _ (by omega)
  have hfilter : (startsOf (thread c env k σ).evs i).filter (fun t => decide ((prologue c env σ).σ.clock ≤ t)) =
      startsOf (thread c env k σ).evs i :=
    List.filter_eq_self.2 (fun t ht => decide_eq_true (Nat.le_of_lt (hR.lo t ht)))
  have hgl : GapsLe (startsOf (thread c env k σ).evs i ++ [(thread c env k σ).σ.clock])
      (gapBound σ.mods.length D E m.interval) := by
    apply gapsLe_append_single _ _ _ hR.gaps
    intro a ha
    obtain ⟨h1, h2⟩ := hR.link a ha
    unfold ClockInv restAfter at h2
    unfold gapBound
    have hmaxI : m.interval ≤ Nat.max m.interval D := Nat.le_max_left _ _
    have h5 : (σ.mods.length - 1 - i) * (D + E) ≤ (σ.mods.length - 1) * (D + E) :=
      Nat.mul_le_mul_right _ (by omega)
    omega
  show (∀ ab ∈ pairs ((startsOf (thread c env k σ).evs i).filter
        (fun t => decide ((prologue c env σ).σ.clock ≤ t)) ++ [(thread c env k σ).σ.clock]),
      ab.2 ≤ mainLimit (sweepBound σ.mods.length D E) (infoOf m) ab.1 ab.2) ∧
    ((startsOf (thread c env k σ).evs i).filter (fun t => decide ((prologue c env σ).σ.clock ≤ t)) ++
      [(thread c env k σ).σ.clock]).head! ≤ (prologue c env σ).σ.clock + sweepBound σ.mods.length D E
  rw [hfilter]
  constructor
  · intro ab hab
    have hg := hgl ab hab
    by_cases hb0 : ab.2 = 0
    · rw [hb0]; exact Nat.zero_le _
    · have hpos : 0 < ab.2 := Nat.pos_of_ne_zero hb0
      have hmax : ab.1 + m.interval ≤ Nat.max (ab.1 + m.interval) 0 := Nat.le_max_left _ _
      simp only [mainLimit, infoOf, ModInfo.intervals, intervalsFrom, inForce, List.foldl_cons, List.foldl_nil, hpos, if_true]
      omega
  · cases hs : startsOf (thread c env k σ).evs i with
    | nil =>
      have := (hR.fresh hs).2
      rw [hmx] at this
      unfold restAfter at this
      have h6 : (σ.mods.length - 1 - i) * (D + E) ≤ σ.mods.length * (D + E) := Nat.mul_le_mul_right _ (by omega)
      show (thread c env k σ).σ.clock ≤ _
      unfold sweepBound
      omega
    | cons x xs =>
      have := hR.head x (by rw [hs]; rfl)
      unfold firstBound at this
      rw [hmx] at this
      have h6 : σ.mods.length * (D + E) = (σ.mods.length - 1) * (D + E) + (D + E) := by
        have : σ.mods.length = (σ.mods.length - 1) + 1 := by omega
        conv => lhs; rw [this, Nat.add_mul, Nat.one_mul]
      show x ≤ _
      unfold sweepBound
      omega

/-- **interval_change_next_wakeup (5): at run level.**  Let other threads do *anything* to the poll bookkeeping
(`es`: interval changes, fast polling on/off, triggers, reconnects, in any number and order) in any state `σ0` of the
loop between two turns — `σ` is the state after that, `m` what module `i` looks like then (its interval is the one in
force after these commands, `interval_follows_commands`).  From there on, in every quiet bounded environment and for
any number of turns: the first `doPoll i` starts no later than

    max (last_main + new interval) (moment of the change)  +  one sweep

(the monitor's `mainLimit`: `last_main ≤` the previous start), every later pair of consecutive starts is at most
`new interval + one sweep` apart, and as long as there is no start the clock is within the same limit.  No assumption
about `σ0` (the iterator may be alive, the event set, other modules due), except that `last_main` of the module is not
later than its latest start — which every action and every turn preserves. -/
theorem interval_change_takes_effect (c : Consts) (env : Env) (hq : Quiet env) (D E : Nat) (hb : Bounded env D E)
    (σ0 : PollState) (es : List Ext) (i : Nat) (m0 : Mod) (hm0 : σ0.mods[i]? = some m0) (he0 : m0.enabled = true)
    (hle0 : m0.lastMain ≤ m0.lastStart) (k : Nat) :
    ∃ m, (applyExts es σ0).mods[i]? = some m ∧
      GapsLe (startsOf (run c env k (applyExts es σ0) []).evs i) (m.interval + sweepBound σ0.mods.length D E) ∧
      (∀ a, (startsOf (run c env k (applyExts es σ0) []).evs i).head? = some a →
        a ≤ max (m.lastMain + m.interval) σ0.clock + sweepBound σ0.mods.length D E) ∧
      (startsOf (run c env k (applyExts es σ0) []).evs i = [] →
        (run c env k (applyExts es σ0) []).σ.clock ≤ max (m.lastMain + m.interval) σ0.clock + sweepBound σ0.mods.length D E) := by
  obtain ⟨m, hm, hen, hl⟩ := applyExts_keeps es σ0 i m0 hm0
  have he : m.enabled = true := by rw [hen]; exact he0
  have hle := hl hle0
  have hclk : (applyExts es σ0).clock = σ0.clock := applyExts_clock es σ0
  have hlen : (applyExts es σ0).mods.length = σ0.mods.length := by
    have := congrArg List.length (applyExts_statics es σ0)
    simpa [statics] using this
  have hilt : i < σ0.mods.length := by
    rcases List.getElem?_eq_some_iff.1 hm0 with ⟨h, _⟩; exact h
  have hinv : GapInv σ0.mods.length i D E m.interval (applyExts es σ0) m := ⟨hlen, hm, he, rfl, hle⟩
  have hr0 : RunInv σ0.mods.length i D E m.interval σ0.clock m.lastMain (applyExts es σ0) m
      (startsOf ([] : List Event) i) :=
    ⟨fun ab hab => by simp [startsOf, pairs] at hab, fun a ha => by simp [startsOf] at ha,
     fun t ht => by simp [startsOf] at ht, fun a ha => by simp [startsOf] at ha,
     fun _ => ⟨rfl, by rw [hclk]; exact Nat.le_trans (Nat.le_max_right _ _) (Nat.le_add_right _ _)⟩,
     by rw [hclk]; exact Nat.le_refl _⟩
  obtain ⟨m', _, hR⟩ := run_full c env hq D E hb σ0.mods.length i m.interval σ0.clock m.lastMain hilt k
    (applyExts es σ0) m [] hinv hr0
  have h6 : σ0.mods.length * (D + E) = (σ0.mods.length - 1) * (D + E) + (D + E) := by
    have : σ0.mods.length = (σ0.mods.length - 1) + 1 := by omega
    conv => lhs; rw [this, Nat.add_mul, Nat.one_mul]
  have hmaxeq : Nat.max (m.lastMain + m.interval) σ0.clock = max (m.lastMain + m.interval) σ0.clock := rfl
  refine ⟨m, hm, gapsLe_mono _ _ _ (gapBound_le _ D E _ (by omega)) hR.gaps, ?_, ?_⟩
  · intro a ha
    have := hR.head a ha
    unfold firstBound at this
    rw [hmaxeq] at this
    unfold sweepBound
    omega
  · intro hs
    have := (hR.fresh hs).2
    unfold restAfter at this
    rw [hmaxeq] at this
    have h7 : (σ0.mods.length - 1 - i) * (D + E) ≤ (σ0.mods.length - 1) * (D + E) := Nat.mul_le_mul_right _ (by omega)
    unfold sweepBound
    omega

/-! ## refresh of the other parameters -/

/-- the explicit refresh bound: one and a half slow intervals plus `2N+2` sweeps, `N` the number of polled
parameters of the thread (the same expression as `Spec.C13.slowLimit`, which the monitor checks) -/
def slowBound (slow N n D E : Nat) : Nat := slow + slow / 2 + (2 * N + 2) * sweepBound n D E + 2

/-- **slow_refresh_bound.**  From any state with an empty iterator (in particular the state in which the start-up
round leaves the thread), in every quiet bounded environment, after any number of turns: the clock is at most
`slowBound` past the latest refresh of every polled parameter `(i, p)` — or past the start, while nothing has been
refreshed yet.  `refreshed i p` is the model's ghost for "latest refresh so far": the largest of the time stamps the
parameter received (whoever set them) and of the start times of the poller's own `read_p` calls; the loop never reads it.
`N` = number of polled parameters of all polled modules, `n` = number of modules of the thread.  Failing reads do not
matter: outcomes are not looked at (`errors_contained`), and a read that fails still counts as the attempt it is. -/
theorem slow_refresh_bound (c : Consts) (env : Env) (hq : Quiet env) (D E : Nat) (hb : Bounded env D E)
    (σ : PollState) (i p : Nat) (m : Mod) (hm : σ.mods[i]? = some m) (he : m.enabled = true) (hp : p ∈ m.polled)
    (hS : 0 < m.slow) (hls : m.lastSlow ≤ σ.clock) (hk : σ.stamp i p ≤ σ.refreshed i p) (ht : σ.toPoll = none)
    (k : Nat) :
    (run c env k σ []).σ.clock ≤
      max ((run c env k σ []).σ.refreshed i p) σ.clock +
        slowBound m.slow (allEntries 0 σ.mods).length σ.mods.length D E := by
  have hok : ModOk i p m.slow σ m := ⟨hm, he, hp, rfl, hls⟩
  have h0 : SlowInv i p m.slow (allEntries 0 σ.mods).length (sweepBound σ.mods.length D E) σ.mods.length σ.clock σ := by
    refine ⟨⟨m, hok⟩, by rw [ht]; simp, Nat.le_refl _, rfl, hk, ?_⟩
    rw [PhiOf_none _ _ _ _ _ ht, dueOf_eq i p m.slow σ m hok]
    have : phiOut (allEntries 0 σ.mods).length (sweepBound σ.mods.length D E) σ.clock 0 (m.lastSlow + m.slow) ≤
        σ.clock + slowC m.slow (allEntries 0 σ.mods).length (sweepBound σ.mods.length D E) := by
      apply phiOut_evidence
      · have : ((allEntries 0 σ.mods).length + 1) * sweepBound σ.mods.length D E =
            (allEntries 0 σ.mods).length * sweepBound σ.mods.length D E + sweepBound σ.mods.length D E := by
          rw [Nat.add_mul]; omega
        omega
      · omega
    omega
  have hr := run_slowInv c env hq D E hb i p m.slow (allEntries 0 σ.mods).length σ.mods.length σ.clock hS k σ [] h0
  have h1 := clock_le_PhiAt i p (allEntries 0 σ.mods).length (sweepBound σ.mods.length D E)
    (run c env k σ []).σ.clock ((run c env k σ []).σ.toPoll.getD []) (dueOf (run c env k σ []).σ i)
  have h2 := hr.j
  unfold PhiOf at h2
  unfold slowBound
  unfold slowC at h2
  omega

/-- **slow_refresh_bound, for the whole thread body**: start-up round, then any number of turns.  `loopStart` is the
clock when the start-up round is over (whether it was completed or cut short by a communication failure). -/
theorem slow_refresh_bound_thread (c : Consts) (env : Env) (hq : Quiet env) (D E : Nat) (hb : Bounded env D E)
    (σ : PollState) (i p : Nat) (m : Mod) (hm : σ.mods[i]? = some m) (he : m.enabled = true) (hp : p ∈ m.polled)
    (hS : 0 < m.slow) (hls : m.lastSlow ≤ σ.clock) (hk : σ.stamp i p ≤ σ.refreshed i p) (ht : σ.toPoll = none)
    (k : Nat) :
    (thread c env k σ).σ.clock ≤
      max ((thread c env k σ).σ.refreshed i p) (prologue c env σ).σ.clock +
        slowBound m.slow (allEntries 0 σ.mods).length σ.mods.length D E := by
  have st := prologue_step c env hq i p σ
  obtain ⟨m', hm', hsp⟩ := slowPart_get (prologue c env σ).σ.mods σ.mods st.slow i m hm
  simp only [slowPart, Prod.mk.injEq] at hsp
  have hN : (allEntries 0 (prologue c env σ).σ.mods).length = (allEntries 0 σ.mods).length := by
    rw [allEntries_congr _ _ 0 (slowPart_ep _ _ st.slow)]
  have hn : (prologue c env σ).σ.mods.length = σ.mods.length := by
    have := congrArg List.length st.slow
    simpa only [List.length_map] using this
  have h := slow_refresh_bound c env hq D E hb (prologue c env σ).σ i p m' hm' (by rw [hsp.1]; exact he)
    (by rw [hsp.2.1]; exact hp) (by rw [hsp.2.2.1]; exact hS) (by rw [hsp.2.2.2]; exact Nat.le_trans hls st.clk)
    (st.k hk) (by rw [st.poll]; exact ht) k
  rw [hN, hn, hsp.2.2.1] at h
  unfold thread
  rw [run_σ_indep]
  exact h

/-- **the bounds, from the state a thread really starts in.**  For a thread whose modules carry fresh `PollInfo`s
(`startMod`: `interval = pollinterval`, `last_main = last_slow = 0`, as `PollInfo.__init__` leaves them) started at a
clock later than every poll interval (the clock is the time since 1970) with slow intervals `> 0` (the datatype's
lower limit), in every quiet bounded environment and for any number of turns: the specification's main-poll clause
holds with one sweep `= sweepBound n D E`, and every polled parameter is refreshed within `slowBound` — no further
hypothesis about the state. -/
theorem bounds_from_thread_start (c : Consts) (env : Env) (hq : Quiet env) (D E : Nat) (hb : Bounded env D E)
    (clock : Nat) (decl : List (Bool × Nat × List Nat × Nat)) (stamp : Nat → Nat → Nat) (pending : Nat → List Nat)
    (hiv : ∀ d ∈ decl, d.2.2.2 < clock) (hslow : ∀ d ∈ decl, 0 < d.2.1) (k : Nat) :
    let σ := startState clock (decl.map fun d => startMod d.1 d.2.1 d.2.2.1 d.2.2.2) stamp pending
    MainGapBoundS (sweepBound σ.mods.length D E)
      (traceOf σ (thread c env k σ).evs (prologue c env σ).σ.clock (thread c env k σ).σ.clock E) ∧
    ∀ (i p : Nat) (m : Mod), σ.mods[i]? = some m → m.enabled = true → p ∈ m.polled →
      (thread c env k σ).σ.clock ≤
        max ((thread c env k σ).σ.refreshed i p) (prologue c env σ).σ.clock +
          slowBound m.slow (allEntries 0 σ.mods).length σ.mods.length D E := by
  intro σ
  have hget : ∀ (i : Nat) (m : Mod), σ.mods[i]? = some m →
      ∃ d ∈ decl, m = startMod d.1 d.2.1 d.2.2.1 d.2.2.2 := by
    intro i m hm
    simp only [σ, startState, List.getElem?_map, Option.map_eq_some_iff] at hm
    obtain ⟨d, hd, rfl⟩ := hm
    exact ⟨d, List.mem_of_getElem? hd, rfl⟩
  constructor
  · apply main_gap_bound_spec c env hq D E hb σ
    intro i m hm _
    obtain ⟨d, hd, rfl⟩ := hget i m hm
    exact ⟨Nat.le_refl _, by simpa [startMod, σ, startState] using hiv d hd⟩
  · intro i p m hm he hp
    obtain ⟨d, hd, rfl⟩ := hget i m hm
    exact slow_refresh_bound_thread c env hq D E hb σ i p _ hm he hp (hslow d hd) (Nat.zero_le _) (Nat.le_refl _) rfl k

/-- **the ghost means what it says.**  `refreshed i p` changes in two places only, and each time to the moment of a
genuine refresh: at the start of a call it becomes the clock iff the call is `read_p` of module `i`; a time stamp
given to `(i, p)` makes it that stamp; in both cases only if that is later than what it was.  Clock reads, waits,
actions of other threads and the bookkeeping of the loop leave it alone (`Step`/`doWait_ghost` in the lemmas). -/
theorem refreshed_is_a_refresh (σ : PollState) (i p : Nat) :
    (∀ (m : Nat) (f : Fn), (noteRead σ m f).refreshed i p = σ.refreshed i p ∨
      (f = Fn.read p ∧ m = i ∧ (noteRead σ m f).refreshed i p = σ.clock)) ∧
    (∀ t : Touch, (applyTouch σ t).refreshed i p = σ.refreshed i p ∨
      (t.m = i ∧ t.p = p ∧ (applyTouch σ t).refreshed i p = t.stamp)) ∧
    (∀ env : Env, (readClock env σ).refreshed i p = σ.refreshed i p) ∧
    (∀ e : Ext, (applyExt σ e).refreshed i p = σ.refreshed i p) := by
  refine ⟨?_, ?_, fun _ => rfl, fun _ => rfl⟩
  · intro m f
    simp only [noteRead]
    by_cases h : f = Fn.read p ∧ i = m
    · rw [if_pos h]
      by_cases hle : σ.refreshed i p ≤ σ.clock
      · exact Or.inr ⟨h.1, h.2.symm, Nat.max_eq_right hle⟩
      · exact Or.inl (Nat.max_eq_left (by omega))
    · rw [if_neg h]; exact Or.inl rfl
  · intro t
    simp only [applyTouch, bump]
    by_cases h : i = t.m ∧ p = t.p
    · rw [if_pos h]
      by_cases hle : σ.refreshed i p ≤ t.stamp
      · exact Or.inr ⟨h.1.symm, h.2.symm, Nat.max_eq_right hle⟩
      · exact Or.inl (Nat.max_eq_left (by omega))
    · rw [if_neg h]; exact Or.inl rfl

/-- **slow-poll progress** (every environment, no hypotheses): the loop never sleeps beyond a slow due time
`last_slow + slowinterval` of a polled module; a turn that finds the iterator alive does not wait (it is the sweep
followed by the slow phase); a slow phase that finds a stale entry calls exactly that parameter's read function and
leaves a shorter iterator. -/
theorem slow_poll_progress (c : Consts) (env : Env) (σ : PollState) :
    (∀ (i : Nat) (m : Mod), σ.mods[i]? = some m → m.enabled = true →
      (readClock env σ).clock < wakeAt c (readClock env σ).clock σ.mods ∧ σ.toPoll.isNone = true →
      (turn c env σ).σ.clock ≤ m.lastSlow + m.slow) ∧
    (σ.toPoll.isSome = true →
      turn c env σ =
        ⟨(slowPhase env (sweep env (List.range σ.mods.length) (readClock env σ) (readClock env σ).clock []).σ
            (sweep env (List.range σ.mods.length) (readClock env σ) (readClock env σ).clock []).now).σ,
         (sweep env (List.range σ.mods.length) (readClock env σ) (readClock env σ).clock []).evs ++
          (slowPhase env (sweep env (List.range σ.mods.length) (readClock env σ) (readClock env σ).clock []).σ
            (sweep env (List.range σ.mods.length) (readClock env σ) (readClock env σ).clock []).now).evs⟩) ∧
    (∀ (now : Nat) (l : List Entry) (e : Entry) (rest : List Entry), σ.toPoll = some l → scan σ now l = some (e, rest) →
      (slowPhase env σ now).σ.toPoll = some rest ∧ rest.length < l.length ∧
      (slowPhase env σ now).evs = [⟨σ.clock, e.1, .read e.2, env.dur σ.nCall⟩]) := by
  refine ⟨fun i m hm he hw => (interval_change_next_wakeup c env σ i m hm he hw).2.2, ?_, ?_⟩
  · intro hsome
    unfold turn
    simp only [readClock_toPoll]
    have : ¬ ((readClock env σ).clock < wakeAt c (readClock env σ).clock (readClock env σ).mods ∧ σ.toPoll.isNone = true) := by
      intro h; cases hp : σ.toPoll <;> simp [hp] at hsome h
    exact if_neg this
  · intro now l e rest hl hscan
    have hlen := scan_length σ now l e rest hscan
    unfold slowPhase
    simp only [hl, Option.getD_some, hscan]
    exact ⟨rfl, hlen, rfl⟩

end Frappy.Props.C13

namespace Frappy.Props.C13
open Frappy.Poller Frappy.Spec.C13

/-! ## non-vacuity: the hypotheses are met by a concrete thread, and the conclusions say something there -/

/-- quiet, bounded environments exist (every call fails with an arbitrary exception in this one) -/
example : Quiet exEnv ∧ Bounded exEnv 3 1 ∧ exEnv.out 0 = Outcome.exc := ⟨exEnv_quiet, exEnv_bounded, rfl⟩

/-- the example thread really polls: 30 turns after start-up contain several main polls of both modules, all calls
failing, and slow polls of all three polled parameters; the unpolled module is never called except `initialReads` -/
example : (startsOf (thread exConsts exEnv 30 exState).evs 0).length ≥ 5 ∧
    (startsOf (thread exConsts exEnv 30 exState).evs 1).length ≥ 3 ∧
    (readsOf (thread exConsts exEnv 30 exState).evs 1 2).length ≥ 2 ∧
    startsOf (thread exConsts exEnv 30 exState).evs 2 = [] := by decide

/-- `errors_contained` on it: replacing every exception by success changes nothing -/
example : (run exConsts (exEnv.setOut fun _ => .ok) 30 exState []).evs = (run exConsts exEnv 30 exState []).evs := by
  rw [errors_contained_run]

/-- `main_gap_bound` on it: module 0 (interval 10, three modules, D = 3, E = 1) is started again within
`max 10 3 + 2·4 + 3 + 2 = 23 ≤ 10 + 16` ticks, and the bound is not slack by much: a gap of 11 occurs -/
example : GapsLe (startsOf (thread exConsts exEnv 30 exState).evs 0) 23 ∧
    ¬ GapsLe (startsOf (thread exConsts exEnv 30 exState).evs 0) 10 :=
  ⟨(main_gap_bound exConsts exEnv exEnv_quiet 3 1 exEnv_bounded exState 0 (exMod 10 40 [0, 1]) rfl rfl
      (Nat.le_refl _) 30).1, by decide⟩

/-- `main_gap_bound_spec` on it: the specification's clause, the one the monitor runs, holds with one sweep = 16 ticks
for 30 turns of the example thread — and the monitor agrees; with a sweep of 0 ticks it does not (the bound is not vacuous) -/
example : MainGapBoundS (sweepBound 3 3 1)
    (traceOf exState (thread exConsts exEnv 30 exState).evs (prologue exConsts exEnv exState).σ.clock
      (thread exConsts exEnv 30 exState).σ.clock 1) :=
  main_gap_bound_spec exConsts exEnv exEnv_quiet 3 1 exEnv_bounded exState
    (by intro i m hm he
        match i, hm with
        | 0, hm => cases hm; decide
        | 1, hm => cases hm; decide
        | 2, hm => cases hm; simp at he
        | n + 3, hm => simp [exState] at hm) 30

example : ¬ MainGapBoundS 0
    (traceOf exState (thread exConsts exEnv 30 exState).evs (prologue exConsts exEnv exState).σ.clock
      (thread exConsts exEnv 30 exState).σ.clock 1) := by decide

/-- `bounds_from_thread_start` on a thread of two polled modules and one that is only written, started at clock 1000 -/
example :
    let σ := startState 1000 ([(true, 40, [0, 1], 10), (true, 60, [2], 25), (false, 50, [], 7)].map
      fun d => startMod d.1 d.2.1 d.2.2.1 d.2.2.2) (fun _ _ => 0) (fun i => if i = 2 then [0, 4] else [3])
    MainGapBoundS (sweepBound σ.mods.length 3 1)
      (traceOf σ (thread exConsts exEnv 30 σ).evs (prologue exConsts exEnv σ).σ.clock (thread exConsts exEnv 30 σ).σ.clock 1) :=
  (bounds_from_thread_start exConsts exEnv exEnv_quiet 3 1 exEnv_bounded 1000 _ (fun _ _ => 0) _
    (by decide) (by decide) 30).1

/-- `interval_change_takes_effect` on the example thread: after 7 turns another thread switches fast polling on for
module 0 (interval 10 so far) with interval 2 and triggers module 1; from then on module 0 is started every
`≤ 2 + 16` ticks -/
example : ∃ m, (applyExts [.setFastPoll 0 true 2, .trigger 1 true] (thread exConsts exEnv 7 exState).σ).mods[0]? = some m ∧
    m.interval = 2 ∧
    GapsLe (startsOf (run exConsts exEnv 20 (applyExts [.setFastPoll 0 true 2, .trigger 1 true]
      (thread exConsts exEnv 7 exState).σ) []).evs 0) (2 + 16) := by
  obtain ⟨m, hm, hg, _, _⟩ := interval_change_takes_effect exConsts exEnv exEnv_quiet 3 1 exEnv_bounded
    (thread exConsts exEnv 7 exState).σ [.setFastPoll 0 true 2, .trigger 1 true] 0
    ((thread exConsts exEnv 7 exState).σ.mods[0]?.getD default) (by decide +kernel) (by decide +kernel) (by decide +kernel) 20
  refine ⟨m, hm, ?_, ?_⟩
  · have h2 : ((applyExts [.setFastPoll 0 true 2, .trigger 1 true] (thread exConsts exEnv 7 exState).σ).mods[0]?.map (·.interval)) = some 2 := by
      decide +kernel
    rw [hm] at h2; simpa using h2
  · have h2 : ((applyExts [.setFastPoll 0 true 2, .trigger 1 true] (thread exConsts exEnv 7 exState).σ).mods[0]?.map (·.interval)) = some 2 := by
      decide +kernel
    rw [hm] at h2
    have h3 : m.interval = 2 := by simpa using h2
    have h4 : (thread exConsts exEnv 7 exState).σ.mods.length = 3 := by decide +kernel
    rw [h3, h4] at hg
    exact hg

/-- and the starts after the change really are that dense (several of them, 3 ticks apart — each `doPoll` lasts 3) -/
example : (startsOf (run exConsts exEnv 20 (applyExts [.setFastPoll 0 true 2, .trigger 1 true]
      (thread exConsts exEnv 7 exState).σ) []).evs 0).length ≥ 5 := by decide +kernel

/-- `due_polled_this_turn` / `not_due_not_polled` on the first turn after start-up: module 1 is due and polled -/
example : ∃ t, startsOf (turn exConsts exEnv (prologue exConsts exEnv exState).σ).evs 1 = [t] :=
  due_polled_this_turn exConsts exEnv exEnv_quiet 3 1 exEnv_bounded _ 1 (exMod 25 60 [2]) (by decide) rfl (by decide)

/-- the late path on the example thread: `initialReads` of module 0 ends with a communication error (call 1) and every
other call — the write of its start value before it included — with an arbitrary exception: the round is broken off at
once, then `writeInitParams` of all three modules is called: nothing is left for module 0, module 1 has no start values,
the two start values of the module that is only written are written now; the loop polls as if nothing had happened -/
example :
    (prologue exConsts (exEnv.setOut (fun k => if k = 1 then .comm else .exc)) exState).aborted = true ∧
    (prologue exConsts (exEnv.setOut (fun k => if k = 1 then .comm else .exc)) exState).evs.map evKey =
      [(0, .write 3), (0, .init), (2, .write 0), (2, .write 4)] ∧
    (startsOf (thread exConsts (exEnv.setOut (fun k => if k = 1 then .comm else .exc)) 30 exState).evs 0).length ≥ 5 := by
  decide +kernel

/-- the regular path: every start value is written in the round, before `initialReads` of its module; the late
`writeInitParams` calls find nothing left -/
example : ((prologue exConsts exEnv exState).evs.map evKey).take 6 =
      [(0, .write 3), (0, .init), (1, .init), (2, .write 0), (2, .write 4), (2, .init)] ∧
    (∀ i, i < 3 → (prologue exConsts exEnv exState).σ.pending i = []) ∧
    ((prologue exConsts exEnv exState).evs.filter (fun e => match e.f with | .write _ => true | _ => false)).length = 3 := by
  decide +kernel

/-- `startup_writes_call_no_read` on it: `writeInitParams` of the module that is only written makes two calls, both write
functions, and leaves nothing; parameter 3 of module 0 — which has a start value but is not polled — is written, never read -/
example : (writeInit exEnv exState 2 []).evs.map evKey = [(2, .write 0), (2, .write 4)] ∧
    (writeInit exEnv exState 2 []).σ.pending 2 = [] ∧ (writeInit exEnv exState 2 []).σ.pending 0 = [3] ∧
    readsOf (thread exConsts exEnv 30 exState).evs 0 3 = [] :=
  ⟨startup_writes_all_written exEnv (fun _ => rfl) exState 2 (by decide), (startup_writes_call_no_read exEnv exEnv.out exState 2).2.2.2.1,
   (startup_writes_call_no_read exEnv exEnv.out exState 2).2.2.2.2.2 0 (by decide), by decide +kernel⟩

/-- `start_values_written_once`: parameters 1 and 3 of module 0 are given -/
example : (writeInit exEnv (startState 1000 exState.mods (fun _ _ => 0) (fun m => givenIdx 0 (if m = 0 then [false, true, false, true] else []))) 0 []).evs.map evKey =
    [(0, .write 1), (0, .write 3)] :=
  start_values_written_once exEnv (fun _ => rfl) 1000 exState.mods (fun _ _ => 0) (fun m => if m = 0 then [false, true, false, true] else []) 0

/-- a common write handler: the write function of parameter 0 of the module that is only written also takes parameter 4
out of `writeDict` (it has written both): `writeInitParams` then passes parameter 4 over — one call, nothing left -/
example : (writeInit { exEnv with takes := fun k => if k = 0 then [4] else [] } exState 2 []).evs.map evKey = [(2, .write 0)] ∧
    (writeInit { exEnv with takes := fun k => if k = 0 then [4] else [] } exState 2 []).σ.pending 2 = [] := by
  decide +kernel

/-- `late_writes_contained` on the state the broken-off round leaves: the two start values of the third module -/
example : (lateAll exEnv [0, 1, 2] (startupRound exConsts (exEnv.setOut (fun k => if k = 1 then .comm else .exc)) exState).σ []).evs.map evKey =
    [(2, .write 0), (2, .write 4)] ∧
    ∀ j ∈ [0, 1, 2], (lateAll exEnv [0, 1, 2]
      (startupRound exConsts (exEnv.setOut (fun k => if k = 1 then .comm else .exc)) exState).σ []).σ.pending j = [] :=
  ⟨by decide +kernel, (late_writes_contained exEnv exEnv.out [0, 1, 2] _ []).2.2⟩

/-- a trace in which the poll thread reads a parameter marked as not polled right after writing its start value
(inside `writeInitParams`) is flagged by the monitor, wherever in the trace it is -/
example : noPollB (traceOf exState [⟨1000, 0, .write 3, 3⟩, ⟨1003, 0, .read 3, 3⟩, ⟨1006, 0, .init, 3⟩] 1010 2000 1) = false ∧
    noPollB (traceOf exState [⟨1000, 0, .write 3, 3⟩, ⟨1003, 0, .init, 3⟩] 1010 2000 1) = true := by decide

/-- `nopoll_never_read` on it, and the monitor agrees -/
example : noPollB (traceOf exState (thread exConsts exEnv 30 exState).evs 1000 2000 1) = true :=
  (noPollB_iff _).2 (nopoll_never_read exConsts exEnv 30 exState rfl 1000 2000 1)

/-- the monitor is not trivially true: a read of a parameter that is not polled is flagged -/
example : noPollB (traceOf exState [⟨1001, 0, .read 5, 1⟩] 1000 2000 1) = false := by decide

/-- `marked_not_polled_never_read` on a thread of one polled module declaring `read_0` plain, `read_1` with `@nopoll`, parameter 2
without read function, parameter 3 a read handler key with `nopoll` outside, all four with start values: parameters 0 is
read (several times), 1, 2 and 3 are written but never read -/
example :
    let σ := startState 1000 ([(true, 40, [⟨.plain, false, false⟩, ⟨.plain, true, false⟩, ⟨.none, false, false⟩,
      ⟨.handler, false, true⟩], 10)].map fun d => startMod d.1 d.2.1 (if d.1 then PollFlags.polledIdx 0 d.2.2.1 else []) d.2.2.2)
      (fun _ _ => 0) (fun _ => [0, 1, 2, 3])
    (readsOf (thread exConsts exEnv 30 σ).evs 0 0).length ≥ 3 ∧
    (∀ p ∈ [1, 2, 3], readsOf (thread exConsts exEnv 30 σ).evs 0 p = []) ∧
    ((thread exConsts exEnv 30 σ).evs.map evKey).take 5 = [(0, .write 0), (0, .write 1), (0, .write 2), (0, .write 3), (0, .init)] := by
  decide +kernel

/-- `interval_change_next_wakeup`: switching fast polling on (interval 2) sets the event and the new interval -/
example : (applyExt exState (.setFastPoll 0 true 2)).trig = true ∧
    ((applyExt exState (.setFastPoll 0 true 2)).mods[0]?.map (·.interval)) = some 2 := by decide

/-- `slow_refresh_bound` on it: parameter 2 of module 1 (slow interval 60; N = 3 polled parameters, n = 3 modules,
D = 3, E = 1, one sweep = 16) is never staler than `60 + 30 + 8·16 + 2 = 220` ticks, and it really is refreshed -/
example : (run exConsts exEnv 40 exState []).σ.clock ≤
      max ((run exConsts exEnv 40 exState []).σ.refreshed 1 2) exState.clock +
        slowBound (exMod 25 60 [2]).slow (allEntries 0 exState.mods).length exState.mods.length 3 1 :=
  slow_refresh_bound exConsts exEnv exEnv_quiet 3 1 exEnv_bounded exState 1 2 (exMod 25 60 [2]) rfl rfl
    (by decide) (by decide) (by decide) (Nat.le_refl _) rfl 40

example : slowBound (exMod 25 60 [2]).slow (allEntries 0 exState.mods).length exState.mods.length 3 1 = 220 ∧
    1000 < (run exConsts exEnv 40 exState []).σ.refreshed 1 2 := by decide +kernel

/-- an environment in which another thread switches fast polling (interval 2) on for module 0 in the window between
the return of the first wait of the loop and the `clear` that follows it -/
def exEnvGap : Env := { exEnv with gap := fun k => if k = 0 then [.setFastPoll 0 true 2] else [] }

/-- `interval_change_not_lost` / `interval_change_in_window` on it: the wait (time-out 5, nothing else happens) ends
at 1005, the action of the window is installed although its trigger is wiped out, the clock has not moved, and the
next turn — module 0 was last polled at 1000 — is over by `1000 + 2`, not by `1000 + 10` -/
example : ((doWait exEnvGap { exState with mods := exState.mods.map (fun m => { m with lastMain := 1000, lastSlow := 1000 }) } 5).mods[0]?.map (·.interval)) = some 2 ∧
    (doWait exEnvGap exState 5).clock = 1005 ∧ (doWait exEnvGap exState 5).trig = false := by decide

example : (doWait exEnvGap exState 5).mods[0]? = some { exMod 10 40 [0, 1] with fast := true, interval := 2 } :=
  interval_change_in_window exEnvGap exState 5 0 (exMod 10 40 [0, 1]) rfl true 2 rfl

example : (doWait exEnvGap exState 5).mods = (applyExts (exEnvGap.gap 0) (waitEvent exEnvGap exState 5)).mods :=
  (interval_change_not_lost exConsts exEnvGap exState 5).1

/-- `interval_follows_commands` on the sequence "fast polling on (interval 2) at 5, `pollinterval := 7` at 6 (while
fast), reconnect at 7, fast polling off at 8": the loop's interval ends up as 7 — the value set *during* fast
polling — and the intervals the monitor derives from the same commands are 2, 2, 7 -/
example : ∃ m', ([(5, Ext.setFastPoll 0 true 2), (6, .updateInterval 0 7), (7, .triggerAll), (8, .setFastPoll 0 false 3)].foldl
      (fun ms te => applyExtMods ms te.2) exState.mods)[0]? = some m' ∧
    Tracks m' ⟨7, false, 3⟩ ∧ m'.enabled = true :=
  interval_follows_commands 0 _ exState.mods (exMod 10 40 [0, 1]) ⟨10, false, 0⟩ rfl ⟨rfl, rfl, rfl⟩

example : (ModInfo.intervals ⟨true, 40, [0, 1], 10, [.setFast 5 true 2, .setInterval 6 7, .setFast 8 false 3]⟩) =
    [(0, 10), (5, 2), (6, 2), (8, 7)] := by decide

/-- `poll_flags_mark` / `polled_is_mayPoll` on a class with a plain read function, a `@nopoll` one, a parameter
without read function, a read handler with two keys, a common handler with two keys, and a `nopoll`ed common handler:
positions 0, 3, 4, 5 are polled -/
example : PollFlags.polledIdx 0 [⟨.plain, false, false⟩, ⟨.plain, true, false⟩, ⟨.none, false, false⟩,
      ⟨.handler, false, false⟩, ⟨.handler, false, false⟩, ⟨.commonFirst, false, false⟩, ⟨.commonRest, false, false⟩,
      ⟨.commonFirst, false, true⟩, ⟨.commonRest, false, true⟩] = [0, 3, 4, 5] ∧
    MarkedNotPolled ⟨.commonFirst, false, true⟩ ∧ ¬ MarkedNotPolled ⟨.handler, false, false⟩ := by decide

/-- the generated limits exclude `slowinterval = 0` (hypothesis of the refresh bound) -/
example : 0 < Generated.C13.slowMin := by decide

end Frappy.Props.C13
