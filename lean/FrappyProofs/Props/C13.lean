import FrappyProofs.Lemmas.Poller
import FrappyModel.Generated.C13
/-
C13 — property theorems (nothing but property theorems and their non-vacuity examples).
-/
namespace Frappy.Props.C13
open Frappy.Poller Frappy.Spec.C13

/-- **errors_contained.**  A turn of the poll loop is a total function of the state and the environment (it
"returns": there is no outcome of any poll function for which it has no successor state), and neither the
successor state nor the list of calls it makes depends on how any of the called functions ended — SECoP error,
silent error, communication failure or arbitrary exception.  For every state, every environment and every
reassignment `o` of all outcomes. -/
theorem errors_contained (c : Consts) (env : Env) (o : Nat → Outcome) (σ : PollState) :
    turn c (env.setOut o) σ = turn c env σ :=
  turn_setOut c env o σ

/-- the same for any number of turns -/
theorem errors_contained_run (c : Consts) (env : Env) (o : Nat → Outcome) (n : Nat) (σ : PollState) :
    run c (env.setOut o) n σ [] = run c env n σ [] :=
  run_setOut c env o n σ []

end Frappy.Props.C13
