import FrappyProofs.Lemmas.ReqLoop
import FrappyProofs.Lemmas.Codec
import FrappyProofs.Lemmas.NoEol
import FrappyProofs.Lemmas.Senders
import FrappyProofs.Lemmas.Indep
import FrappyProofs.Lemmas.PeerGone
import FrappyModel.Wire.ErrText
import FrappyModel.Generated.C07
/-
C07 — property theorems (nothing but property theorems and their non-vacuity examples).
-/
namespace Frappy.Props.C07
open Frappy.Wire Frappy.Spec.C07

/-- the tables generated from the working tree of the repository -/
def tables : Tables where
  request2reply := Generated.C07.request2reply
  identRequest := Generated.C07.identRequest
  identReply := Generated.C07.identReply
  errorPrefix := Generated.C07.errorPrefix
  helpRequest := Generated.C07.helpRequest
  helpReply := Generated.C07.helpReply
  eventReply := Generated.C07.eventReply
  logEvent := Generated.C07.logEvent
  describeRequest := Generated.C07.describeRequest
  helpLineCount := Generated.C07.helpLineCount
  helpLineAction := Generated.C07.helpLineAction
  handlerErrorClass := Generated.C07.handlerErrorClass
  errorClasses := Generated.C07.errorClasses
  asyncActions := Generated.C07.asyncActions
  stateActions := Generated.C07.stateActions

/-- the constants of the dispatcher, generated from the working tree of the repository -/
def dtables : DTables where
  readRequest := Generated.C07.readRequest
  writeRequest := Generated.C07.writeRequest
  commandRequest := Generated.C07.commandRequest
  pingRequest := Generated.C07.pingRequest
  activateRequest := Generated.C07.activateRequest
  deactivateRequest := Generated.C07.deactivateRequest
  loggingRequest := Generated.C07.loggingRequest
  protocolError := Generated.C07.protocolError
  valueName := Generated.C07.valueName
  targetName := Generated.C07.targetName

/-- what the theorems need of the constant tables -/
structure TableFacts (T : Tables) : Prop where
  help_reply : expectedReply T T.helpRequest = some T.helpReply
  handler_class : T.handlerErrorClass ∈ T.errorClasses

/-! ## Facts about the generated tables (re-checked whenever the source tables change) -/

theorem generated_table_facts : TableFacts tables := ⟨by decide, by decide⟩

theorem generated_table_noEol : TableNoEol tables := ⟨by decide, by decide, by decide⟩

/-- no two requests share a reply action, and no request action is listed twice -/
theorem request2reply_injective :
    (tables.request2reply.map Prod.fst).Nodup ∧ (tables.request2reply.map Prod.snd).Nodup := by decide

/-- a positive reply can never be taken for an error reply, a help text line or an event -/
theorem reply_actions_distinct :
    ∀ p ∈ (tables.identRequest, tables.identReply) :: tables.request2reply,
      (tables.errorPrefix.isPrefixOf p.2) = false ∧ isReplyAction tables p.2 = true := by decide

/-- the generated list of non-reply actions is what the model and the dispatcher use: the event
reply, the error event (`error_` + event reply), the log event and the help text line action -/
theorem async_actions_generated :
    tables.asyncActions = [tables.eventReply, tables.errorPrefix ++ tables.eventReply, tables.logEvent,
      tables.helpLineAction] := by decide

/-- the identification request is not in the table (it is treated separately), and the
eleven `handle_*` names of the dispatcher are the nine table actions, `_ident` and `request` -/
theorem ident_not_in_table : tables.request2reply.lookup tables.identRequest = none := by decide

/-! ## Framing -/

/-- **feed_chunks_eq_concat** — for every list of chunks, the lines produced and the residual buffer
are those of the concatenation delivered at once -/
theorem feed_chunks_eq_concat (chunks : List Bytes) (buf : Bytes) (hbuf : EOL ∉ buf) :
    feedAll buf chunks = feed buf chunks.flatten := by
  have h1 := feedAll_isFraming chunks buf hbuf
  have h2 := feed_isFraming buf chunks.flatten
  obtain ⟨hl, hr⟩ := isFraming_unique h1 h2
  cases h : feedAll buf chunks; cases h' : feed buf chunks.flatten
  rw [h] at hl hr; rw [h'] at hl hr
  simp only at hl hr
  rw [hl, hr]

/-- the model's lines are the newline-terminated lines of the stream -/
theorem feed_lines_are_the_lines (chunks : List Bytes) (ls : List Bytes) (tail : Bytes)
    (h : IsFraming chunks.flatten ls tail) :
    (feedAll [] chunks).lines = ls ∧ (feedAll [] chunks).rest = tail := by
  have h1 := feedAll_isFraming chunks [] (by simp)
  simp only [List.nil_append] at h1
  exact isFraming_unique h1 h

example : feedAll [] [[112, 105], [110, 103, 10, 10, 120], [10, 121]] = ⟨[[112, 105, 110, 103], [], [120]], [121]⟩ := by
  decide

section loop
variable {J σ : Type}

theorem replies_req (T : Tables) (L : Lib J) (d : Disp σ J) :
    ∀ (ls : List Bytes) (st : σ), (replies (serveLines T L d st ls).1).map (·.req) = ls
  | [], _ => by simp [serveLines, replies]
  | l :: ls, st => by
    simp [serveLines, replies_append, replies_handleLine, replies_req T L d ls]

/-- **one_reply_per_line** — whatever the bytes and however they are cut into chunks: the replies
(help text lines and events are not replies) answer exactly the newline-terminated lines of the
stream, one each, in order; what follows the last newline stays in the buffer unanswered -/
theorem one_reply_per_line (T : Tables) (L : Lib J) (d : Disp σ J) (st : σ) (chunks : List Bytes)
    (ls : List Bytes) (tail : Bytes) (h : IsFraming chunks.flatten ls tail) :
    (replies (serve T L d [] st chunks).outs).map (·.req) = ls ∧ (serve T L d [] st chunks).buf = tail := by
  obtain ⟨h1, h2, _⟩ := serve_eq_serveLines T L d chunks [] st
  obtain ⟨hl, ht⟩ := feed_lines_are_the_lines chunks ls tail h
  rw [h1, h2, hl, ht]
  exact ⟨replies_req T L d ls st, rfl⟩

/-- **serve_total** — the loop never stops before the end of the input, whatever the dispatcher
returns or raises (no hypothesis on `d`): as many replies as lines, every line reaches the
dispatcher state machine (`stateAfter` runs over all lines), nothing but the unterminated tail is left -/
theorem serve_total (T : Tables) (L : Lib J) (d : Disp σ J) (st : σ) (chunks : List Bytes) :
    (replies (serve T L d [] st chunks).outs).length = (splitLines chunks.flatten).lines.length
    ∧ (serve T L d [] st chunks).buf = (splitLines chunks.flatten).rest
    ∧ (serve T L d [] st chunks).st = stateAfter T L d st (splitLines chunks.flatten).lines := by
  have hf := splitLines_isFraming chunks.flatten
  obtain ⟨h1, h2⟩ := one_reply_per_line T L d st chunks _ _ hf
  obtain ⟨_, _, h3⟩ := serve_eq_serveLines T L d chunks [] st
  obtain ⟨hl, _⟩ := feed_lines_are_the_lines chunks _ _ hf
  refine ⟨?_, h2, by rw [h3, hl]⟩
  rw [← h1]; simp

/-- **independent_lines** — the reply to a line is a function of that line and of the dispatcher
state reached after the lines before it; the lines before and after contribute their own replies
and nothing else -/
theorem independent_lines (T : Tables) (L : Lib J) (d : Disp σ J) (st : σ) (pre post : List Bytes) (x : Bytes) :
    replies (serveLines T L d st (pre ++ x :: post)).1 =
      replies (serveLines T L d st pre).1
        ++ ⟨.reply, x, lineReply T L d (stateAfter T L d st pre) x⟩
        :: replies (serveLines T L d (stateAfter T L d st (pre ++ [x])) post).1 := by
  rw [serveLines_append]
  simp only [serveLines, replies_append, replies_handleLine, stateAfter_append, stateAfter]
  simp

/-- with a dispatcher whose answers do not depend on its state, the reply to a line does not
depend on any other line -/
theorem independent_of_other_lines (T : Tables) (L : Lib J) (d : Disp σ J)
    (hd : ∀ s s' t, (d s t).1 = (d s' t).1) (s s' : σ) (x : Bytes) :
    lineReply T L d s x = lineReply T L d s' x := by
  unfold lineReply
  cases nextMessage T L x with
  | bad raw => rfl
  | msg t => simp only [hd s s' t]

/-- every reply of a run is `lineReply` of its own request line in some dispatcher state -/
theorem reply_is_lineReply (T : Tables) (L : Lib J) (d : Disp σ J) :
    ∀ (ls : List Bytes) (st : σ), ∀ o ∈ replies (serveLines T L d st ls).1,
      ∃ st', o = ⟨.reply, o.req, lineReply T L d st' o.req⟩
  | [], _, o, h => by simp [serveLines, replies] at h
  | l :: ls, st, o, h => by
    simp only [serveLines, replies_append, replies_handleLine, List.cons_append, List.nil_append,
      List.mem_cons] at h
    rcases h with rfl | h
    · exact ⟨st, rfl⟩
    · exact reply_is_lineReply T L d ls _ o h

/-- the reply to one line belongs to it -/
theorem lineReply_fits (T : Tables) (L : Lib J) (d : Disp σ J) (facts : TableFacts T) (hd : DispAnswers T d)
    (st : σ) (line : Bytes) :
    let m := lineReply T L d st line
    FitsOk T (reqOf T line) m.action (m.spec.getD [])
    ∨ ∃ c, m.data = some (L.errReport c) ∧ FitsErr T (reqOf T line) m.action (m.spec.getD []) c := by
  intro m
  have hm : m = lineReply T L d st line := rfl
  unfold lineReply nextMessage at hm
  by_cases hblank : strip line = []
  · -- blank line: help
    simp only [hblank, ↓reduceIte] at hm
    left
    rw [hm]
    simp only [reqOf, hblank, ↓reduceIte, Option.getD_none]
    exact ⟨facts.help_reply, Or.inl rfl⟩
  · simp only [hblank, ↓reduceIte] at hm
    have hreq : reqOf T line = ⟨(parts (strip line)).action, (parts (strip line)).spec⟩ := by
      simp [reqOf, hblank]
    cases hdec : decodeMsg L line with
    | none =>
      -- undecodable: error reply built from the raw line
      simp only [hdec] at hm
      right
      refine ⟨T.handlerErrorClass, by rw [hm]; rfl, ?_⟩
      rw [hm, hreq]
      simp only [decodeErrorReply, errorReply, cut_latin1]
      refine ⟨⟨latin1 (cut (strip line)).1, ?_, rfl⟩, ?_, facts.handler_class⟩
      · rw [parts_action]; exact echo_latin1 _
      · rw [parts_spec]
        cases (cut (strip line)).2 with
        | none => simp [Echo]
        | some r => simp only [Option.map_some, cut_latin1, Option.getD_some]; exact echo_latin1 _
    | some t =>
      simp only [hdec] at hm
      -- what the decoder hands on is the request
      have ht : t.action = (parts (strip line)).action ∧ t.spec.getD [] = (parts (strip line)).spec := by
        unfold decodeMsg at hdec
        simp only at hdec
        split at hdec
        · split at hdec
          · cases hdec; exact ⟨rfl, orNone_getD _⟩
          · split at hdec
            · cases hdec; exact ⟨rfl, orNone_getD _⟩
            · cases hdec
        · cases hdec
      by_cases hhelp : t.action = T.helpRequest
      · simp only [hhelp, ↓reduceIte] at hm
        left
        rw [hm, hreq]
        refine ⟨by rw [← ht.1, hhelp]; exact facts.help_reply, Or.inr (Or.inl ⟨Or.inr (by rw [← ht.1, hhelp]), rfl⟩)⟩
      · simp only [hhelp, ↓reduceIte] at hm
        have hres := hd st t
        have hecho : ∀ cls, cls ∈ T.errorClasses →
            FitsErr T (reqOf T line) (T.errorPrefix ++ t.action) (t.spec.getD []) cls := by
          intro cls hc
          rw [hreq]
          exact ⟨⟨t.action, Or.inl ht.1, rfl⟩, Or.inl ht.2, hc⟩
        cases hr : (d st t).1.res with
        | ok r =>
          rw [hr] at hres hm
          left
          rw [hm, hreq]
          simp only [resultReply]
          have := hres
          rw [ht.1, ht.2] at this
          exact this
        | secop cls =>
          rw [hr] at hres hm
          right
          exact ⟨cls, by rw [hm]; rfl, by rw [hm]; exact hecho cls hres⟩
        | exc =>
          rw [hr] at hm
          right
          exact ⟨T.handlerErrorClass, by rw [hm]; rfl, by rw [hm]; exact hecho _ facts.handler_class⟩
        | garbage =>
          rw [hr] at hm
          right
          exact ⟨T.handlerErrorClass, by rw [hm]; rfl, by rw [hm]; exact hecho _ facts.handler_class⟩

/-- **reply_action_fits** — for every byte stream and segmentation, with a dispatcher that does its
part (`DispAnswers`: positive replies belong to the request, raised SECoP classes are classes of errors.py; implied by
`DispFits` — `dispFits_answers` — and proved for the dispatcher model — `dispatcher_reply_action_fits`): every reply carries the reply action `REQUEST2REPLY` gives for its request line
(or the identification reply) with the request's specifier, or it is `error_` + the request's action
with the request's specifier echoed and … -/
theorem reply_action_fits (T : Tables) (L : Lib J) (d : Disp σ J) (facts : TableFacts T) (hd : DispAnswers T d)
    (st : σ) (chunks : List Bytes) :
    ∀ o ∈ replies (serve T L d [] st chunks).outs,
      FitsOk T (reqOf T o.req) o.msg.action (o.msg.spec.getD [])
      ∨ ∃ c, o.msg.data = some (L.errReport c) ∧ FitsErr T (reqOf T o.req) o.msg.action (o.msg.spec.getD []) c := by
  intro o ho
  rw [(serve_eq_serveLines T L d chunks [] st).1] at ho
  obtain ⟨st', hst⟩ := reply_is_lineReply T L d _ st o ho
  have := lineReply_fits T L d facts hd st' o.req
  rw [hst]
  exact this

/-- **error_class_is_secop** — … every error reply names an error class of errors.py: the class of
the SECoP error the dispatcher raised, or the handler's own `InternalError` -/
theorem error_class_is_secop (T : Tables) (L : Lib J) (d : Disp σ J) (facts : TableFacts T) (hd : DispAnswers T d)
    (st : σ) (chunks : List Bytes) :
    ∀ o ∈ replies (serve T L d [] st chunks).outs,
      ¬ FitsOk T (reqOf T o.req) o.msg.action (o.msg.spec.getD []) →
      ∃ c, c ∈ T.errorClasses ∧ o.msg.data = some (L.errReport c) := by
  intro o ho hnot
  rcases reply_action_fits T L d facts hd st chunks o ho with h | ⟨c, hc, hf⟩
  · exact absurd h hnot
  · exact ⟨c, hf.2.2, hc⟩

/-- **dispatcher_reply_action_fits** — `reply_action_fits` with no hypothesis on the dispatcher left: the handler with the
dispatcher model behind it, over any node whose SECoP errors carry class names of errors.py (`NodeClasses`), on any byte
stream in any segmentation — every reply is the reply action of its request line with the request's specifier, or
`error_` + action with the specifier echoed and a SECoP error class.  Requests with specifiers of any characters included. -/
theorem dispatcher_reply_action_fits {ν κ : Type} (L : Lib J) (N : NodeIf ν κ J) (hN : NodeClasses tables.errorClasses N)
    (st : ν × κ) (chunks : List Bytes) :
    ∀ o ∈ replies (serve tables L (dispatch tables dtables N) [] st chunks).outs,
      FitsOk tables (reqOf tables o.req) o.msg.action (o.msg.spec.getD [])
      ∨ ∃ c, o.msg.data = some (L.errReport c) ∧ FitsErr tables (reqOf tables o.req) o.msg.action (o.msg.spec.getD []) c :=
  reply_action_fits tables L _ generated_table_facts
    (dispatch_answers tables dtables N hN (by decide)) st chunks


end loop

/-! ## No input changes the answers given to other lines -/

/-- the requests a module carries out are exactly the generated state actions, all of them have a
reply action, and the dispatcher's own error class is a SECoP class -/
theorem generated_dispatcher_facts :
    DTableFacts tables dtables ∧ tables.stateActions = [dtables.readRequest, dtables.writeRequest, dtables.commandRequest]
    ∧ (∀ a ∈ tables.stateActions, (tables.request2reply.lookup a).isSome = true)
    ∧ dtables.protocolError ∈ tables.errorClasses
    ∧ (∀ p ∈ tables.request2reply, p.1 ∈ Generated.C07.dispatcherHandlers) :=
  ⟨⟨by decide, by decide, by decide⟩, by decide, by decide, by decide, by decide⟩

section indep
variable {J σ : Type}

/-- **neutral_lines_removable** — "no input changes the answers given to other lines": take any byte
stream in any segmentation, and the stream without some of its neutral request lines (anything but
`read` / `change` / `do`: describe, ping, activate, …, blank lines, unknown actions, undecodable
bytes) in any other segmentation.  With a dispatcher that does its part (`DispNeutral`), started in
states that answer alike, the replies to the lines that stay are the same in both runs, and the
dispatcher ends in states that answer alike. -/
theorem neutral_lines_removable (T : Tables) (L : Lib J) (d : Disp σ J) (R : σ → σ → Prop) (hd : DispNeutral T d R)
    (st st' : σ) (hst : R st st') (m : Marked) (hm : OnlyNeutralDropped T L m)
    (chunks chunks' : List Bytes) (tail tail' : Bytes)
    (h : IsFraming chunks.flatten (allLines m) tail) (h' : IsFraming chunks'.flatten (keptLines m) tail') :
    keptOf m ((replies (serve T L d [] st chunks).outs).map (·.msg))
      = (replies (serve T L d [] st' chunks').outs).map (·.msg)
    ∧ R (serve T L d [] st chunks).st (serve T L d [] st' chunks').st := by
  obtain ⟨h1, _, h3⟩ := serve_eq_serveLines T L d chunks [] st
  obtain ⟨h1', _, h3'⟩ := serve_eq_serveLines T L d chunks' [] st'
  obtain ⟨hl, _⟩ := feed_lines_are_the_lines chunks _ _ h
  obtain ⟨hl', _⟩ := feed_lines_are_the_lines chunks' _ _ h'
  rw [h1, h1', h3, h3', hl, hl', replies_msg_eq_answers, replies_msg_eq_answers]
  exact answers_neutral_removed T L d R hd m st st' hm hst

/-- **other_connections_unaffected** — two connections served one after the other by one dispatcher
(the dispatcher is shared by all connections of a node): whatever neutral lines are left out on the
first connection (and on the second), every line that stays on the second connection gets the
same reply -/
theorem other_connections_unaffected (T : Tables) (L : Lib J) (d : Disp σ J) (R : σ → σ → Prop) (hd : DispNeutral T d R)
    (st : σ) (mA mB : Marked) (hA : OnlyNeutralDropped T L mA) (hB : OnlyNeutralDropped T L mB)
    (a a' b b' : List Bytes) (ta ta' tb tb' : Bytes)
    (ha : IsFraming a.flatten (allLines mA) ta) (ha' : IsFraming a'.flatten (keptLines mA) ta')
    (hb : IsFraming b.flatten (allLines mB) tb) (hb' : IsFraming b'.flatten (keptLines mB) tb') :
    keptOf mB ((replies (serve T L d [] (serve T L d [] st a).st b).outs).map (·.msg))
      = (replies (serve T L d [] (serve T L d [] st a').st b').outs).map (·.msg) := by
  obtain ⟨_, hs⟩ := neutral_lines_removable T L d R hd st st (hd.refl st) mA hA a a' ta ta' ha ha'
  exact (neutral_lines_removable T L d R hd _ _ hs mB hB b b' tb tb' hb hb').1

variable {ν κ : Type}

/-- **dispatcher_answers_independent** — the same for the model of `Dispatcher.handle_request` over any
node (`NodeIf`: any modules, any descriptive data, any event bookkeeping) and any two subscription
states: no hypothesis on the dispatcher is left -/
theorem dispatcher_answers_independent (L : Lib J) (N : NodeIf ν κ J) (nu : ν) (k k' : κ)
    (m : Marked) (hm : OnlyNeutralDropped tables L m) (chunks chunks' : List Bytes) (tail tail' : Bytes)
    (h : IsFraming chunks.flatten (allLines m) tail) (h' : IsFraming chunks'.flatten (keptLines m) tail') :
    keptOf m ((replies (serve tables L (dispatch tables dtables N) [] (nu, k) chunks).outs).map (·.msg))
      = (replies (serve tables L (dispatch tables dtables N) [] (nu, k') chunks').outs).map (·.msg) :=
  (neutral_lines_removable tables L _ _ (dispatch_neutral tables dtables N generated_dispatcher_facts.1)
    (nu, k) (nu, k') rfl m hm chunks chunks' tail tail' h h').1

/-- **dispatcher_reply_fits** — the `FitsOk` half of `DispFits` is a property of the dispatcher model,
not an assumption: every triple it returns carries the reply action of the request and its specifier -/
theorem dispatcher_reply_fits (N : NodeIf ν κ J) (st : ν × κ) (t r : Triple J)
    (h : (dispatch tables dtables N st t).1.res = .ok r) :
    FitsOk tables ⟨t.action, t.spec.getD []⟩ r.action (r.spec.getD []) :=
  dispatch_reply_fits tables dtables N st t r h

end indep

/-! ## Codec -/

section codec
variable {J : Type}

/-- **codec_inverse** — decoding an encoded well-formed triple gives the triple back, for every JSON
layer satisfying `LibLaws` -/
theorem codec_inverse (L : Lib J) (laws : LibLaws L) (t : Triple J) (wf : WFTriple L t) :
    decodeMsg L (encodeFrame L t) = some t := by
  obtain ⟨a, s, dat⟩ := t
  obtain ⟨⟨hae, hasp, _, hau⟩, hs⟩ := wf
  simp only at hae hasp hau hs
  obtain ⟨⟨a0, at', ha0, hsol0⟩, ⟨al, at'', harev, hal⟩⟩ := solidEnds_cases hae
  -- the text that is framed, after removal of the joining blanks
  have key : ∀ (body : Bytes), solidEnds body = true → L.utf8ok body = true →
      rstripSp (joined L ⟨a, s, dat⟩) = body →
      parts body = ⟨a, s.getD [], match dat with | none => [] | some j => L.dumps j⟩ →
      decodeMsg L (encodeFrame L ⟨a, s, dat⟩) = some ⟨a, s, dat⟩ := by
    intro body hsolid hutf hbody hparts
    unfold decodeMsg encodeFrame
    rw [hbody, strip_solid_eol hsolid]
    simp only [hutf, ↓reduceIte, hparts]
    have hspec : orNone (s.getD []) = s := by
      cases s with
      | none => simp [orNone]
      | some s' =>
        obtain ⟨hse, _⟩ := hs s' rfl
        obtain ⟨⟨x, xs, hx, _⟩, _⟩ := solidEnds_cases hse
        simp [orNone, hx]
    cases dat with
    | none => simp [hspec]
    | some j =>
      obtain ⟨⟨x, xs, hx, _⟩, _⟩ := solidEnds_cases (laws.dumps_ends j)
      have hne : L.dumps j ≠ [] := by rw [hx]; simp
      simp [hne, laws.loads_dumps, hspec]
  -- the specifier text and its properties
  have hsp : SP ∉ s.getD [] ∧ L.utf8ok (s.getD []) = true := by
    cases s with
    | none => exact ⟨by simp, by simpa using laws.utf8_nil⟩
    | some s' => obtain ⟨_, h1, _, h2⟩ := hs s' rfl; exact ⟨by simpa using h1, by simpa using h2⟩
  cases dat with
  | some j =>
    obtain ⟨_, ⟨b, t', hrev, hb⟩⟩ := solidEnds_cases (laws.dumps_ends j)
    have hjrev : (joined L ⟨a, s, some j⟩).reverse = b :: (t' ++ SP :: ((s.getD []).reverse ++ SP :: a.reverse)) := by
      simp [joined, List.reverse_append, hrev]
    have hjhead : joined L ⟨a, s, some j⟩ = a0 :: (at' ++ SP :: (s.getD [] ++ SP :: L.dumps j)) := by
      simp [joined, ha0]
    apply key (joined L ⟨a, s, some j⟩) (solidEnds_of hjhead hjrev hsol0 hb)
    · simp only [joined]
      rw [laws.utf8_join, laws.utf8_join, hau, hsp.2, laws.dumps_utf8]; rfl
    · exact rstripSp_last hjrev (solid_ne_sp hb)
    · simp only [joined, parts, cut_append_sp hasp, cut_append_sp hsp.1]
  | none =>
    cases s with
    | none =>
      have hj : joined L ⟨a, none, none⟩ = (a ++ [SP]) ++ [SP] := by simp [joined]
      apply key a hae hau
      · rw [hj, rstripSp_snoc, rstripSp_snoc]; exact rstripSp_last harev (solid_ne_sp hal)
      · simp [parts, cut_no_sp hasp]
    | some s' =>
      obtain ⟨hse, hssp, _, hsu⟩ := hs s' rfl
      obtain ⟨_, ⟨b, t', hrev, hb⟩⟩ := solidEnds_cases hse
      have hj : joined L ⟨a, some s', none⟩ = (a ++ SP :: s') ++ [SP] := by simp [joined]
      have hbrev : (a ++ SP :: s').reverse = b :: (t' ++ SP :: a.reverse) := by
        simp [List.reverse_append, hrev]
      have hbhead : a ++ SP :: s' = a0 :: (at' ++ SP :: s') := by simp [ha0]
      apply key (a ++ SP :: s') (solidEnds_of hbhead hbrev hsol0 hb)
      · rw [laws.utf8_join, hau, hsu]; rfl
      · rw [hj, rstripSp_snoc]; exact rstripSp_last hbrev (solid_ne_sp hb)
      · simp [parts, cut_append_sp hasp, cut_no_sp hssp]

/-- the encoded frame followed by further bytes is de-framed and decoded to the triple again -/
theorem codec_inverse_framed (L : Lib J) (laws : LibLaws L) (t : Triple J) (wf : WFTriple L t)
    (hnl : EOL ∉ joined L t) (more : Bytes) :
    ∃ body, getMsg (encodeFrame L t ++ more) = some (body, more) ∧ decodeMsg L (body ++ [EOL]) = some t := by
  have hb : EOL ∉ rstripSp (joined L t) := by
    intro h
    apply hnl
    unfold rstripSp at h
    have := List.mem_reverse.1 h
    exact List.mem_reverse.1 ((List.dropWhile_sublist _).subset this)
  refine ⟨rstripSp (joined L t), ?_, codec_inverse L laws t wf⟩
  have hframe : IsFraming (encodeFrame L t ++ more) [rstripSp (joined L t)] more → True := fun _ => trivial
  cases h : getMsg (encodeFrame L t ++ more) with
  | none =>
    exfalso
    exact (getMsg_none.1 h) (by simp [encodeFrame])
  | some p =>
    obtain ⟨m, r⟩ := p
    obtain ⟨heq, hm⟩ := getMsg_some h
    -- both decompositions split at the first EOL
    have f1 : IsFraming (encodeFrame L t ++ more ++ [EOL]) [m] (r ++ [EOL]) → True := fun _ => trivial
    have : m = rstripSp (joined L t) ∧ r = more := by
      have e : rstripSp (joined L t) ++ EOL :: more = m ++ EOL :: r := by
        rw [← heq]; simp [encodeFrame]
      clear h heq f1 hframe
      generalize rstripSp (joined L t) = x at hb e
      induction x generalizing m with
      | nil =>
        cases m with
        | nil => simpa using e.symm
        | cons y ys => simp at e; exact absurd (by simp [e.1]) hm
      | cons c cs ih =>
        cases m with
        | nil => simp at e; exact absurd (by simp [e.1]) hb
        | cons y ys =>
          simp only [List.cons_append, List.cons.injEq] at e
          obtain ⟨rfl, e⟩ := e
          have := ih ys (fun hh => hm (List.mem_cons_of_mem _ hh)) (fun hh => hb (List.mem_cons_of_mem _ hh)) e
          exact ⟨by rw [this.1], this.2⟩
    rw [this.1, this.2]

end codec

/-! ## Whole lines -/

section whole
variable {J : Type}

/-- frames without a newline of their own, concatenated, are cut at the newlines into exactly these frames -/
theorem lines_whole_of_noEol (L : Lib J) (outs : List (Out J))
    (h : ∀ o ∈ outs, EOL ∉ rstripSp (joined L o.msg)) :
    IsFraming (wire L outs).flatten (outs.map (fun o => rstripSp (joined L o.msg))) [] := by
  refine ⟨?_, ?_, by simp⟩
  · simp [wire, encodeFrame, List.map_map, Function.comp_def]
  · intro l hl
    obtain ⟨o, ho, rfl⟩ := List.mem_map.1 hl
    exact h o ho

variable {σ : Type}

/-- no frame the request loop sends contains a newline of its own: action and specifier of a reply are
cut out of a request line (which has none) or come from the dispatcher, of which only `DispNoEol` is assumed
(`dispFits_noEol`: a dispatcher satisfying `DispFits` does; `dispatcher_no_newline`: the dispatcher model does),
`json.dumps` emits none (`LibLaws.dumps_noEol`), the help line numbers are digits -/
theorem frames_no_newline (T : Tables) (L : Lib J) (d : Disp σ J) (laws : LibLaws L) (tf : TableNoEol T)
    (hd : DispNoEol d) (st : σ) (chunks : List Bytes) :
    ∀ o ∈ (serve T L d [] st chunks).outs, EOL ∉ rstripSp (joined L o.msg) := by
  intro o ho hmem
  rw [(serve_eq_serveLines T L d chunks [] st).1] at ho
  have hlines := (feedAll_isFraming chunks [] (by simp)).2.1
  exact eol_serveLines T L d laws tf hd _ st hlines o ho (mem_rstripSp hmem)

/-- **lines_whole**, one sender — what the handler thread sends for any stream and segmentation, cut at
its newlines, is exactly the sequence of its frames -/
theorem lines_whole_sequential (T : Tables) (L : Lib J) (d : Disp σ J) (laws : LibLaws L) (tf : TableNoEol T)
    (hd : DispNoEol d) (st : σ) (chunks : List Bytes) :
    IsFraming (wire L (serve T L d [] st chunks).outs).flatten
      ((serve T L d [] st chunks).outs.map (fun o => rstripSp (joined L o.msg))) [] :=
  lines_whole_of_noEol L _ (frames_no_newline T L d laws tf hd st chunks)

/-- what the node sends to a connection while a request is handled (updates, log messages) carries module, parameter and
level names without newline -/
def NodeEventsNoEol {ν κ : Type} (N : NodeIf ν κ J) : Prop := ∀ nu k t, ∀ m ∈ N.events nu k t, NoEolTriple m

/-- the reply actions contain no newline (generated tables: `generated_reply_noEol`) -/
def TableReplyNoEol (T : Tables) : Prop := EOL ∉ T.identReply ∧ ∀ p ∈ T.request2reply, EOL ∉ p.2

theorem generated_reply_noEol : TableReplyNoEol tables := ⟨by decide, by decide⟩

/-- **dispatcher_no_newline** — the `DispNoEol` hypothesis of `frames_no_newline`, `lines_whole`, `peer_gone_sound`,
`peer_gone_partial` is a property of the dispatcher model, for every node: the reply action comes from the table, the
specifier is the request's (or `.`), whatever characters it consists of -/
theorem dispatcher_no_newline {ν κ : Type} (T : Tables) (D : DTables) (N : NodeIf ν κ J) (tr : TableReplyNoEol T)
    (hN : NodeEventsNoEol N) : DispNoEol (dispatch T D N) := by
  intro st t ht
  refine ⟨fun m hm => hN st.1 st.2 t m hm, fun r hr => ?_⟩
  simp only [dispatch] at hr
  by_cases hid : t.action = T.identRequest
  · simp only [hid, ↓reduceIte, DispResult.ok.injEq] at hr
    subst hr
    exact ⟨tr.1, by simp⟩
  · simp only [hid, ↓reduceIte] at hr
    cases hl : T.request2reply.lookup t.action with
    | none => simp [hl] at hr
    | some reply =>
      simp only [hl] at hr
      obtain ⟨h1, h2⟩ := handleAction_ok T D N reply st.1 t r hr
      have hmem : (t.action, reply) ∈ T.request2reply := by
        have : ∀ (l : List (Bytes × Bytes)), l.lookup t.action = some reply → (t.action, reply) ∈ l := by
          intro l
          induction l with
          | nil => simp
          | cons p ps ih =>
            obtain ⟨a, b⟩ := p
            simp only [List.lookup_cons]
            split
            · rename_i heq
              intro hb
              simp only [Option.some.injEq] at hb
              have ha : t.action = a := by simpa using heq
              simp [ha, hb]
            · intro hb
              exact List.mem_cons_of_mem _ (ih hb)
        exact this _ hl
      refine ⟨by rw [h1]; exact tr.2 _ hmem, ?_⟩
      rcases h2 with h2 | ⟨_, _, h2⟩
      · rw [h2]; exact ht.2
      · rw [h2]; decide

/-- **dispatcher_lines_whole** — the handler thread with the dispatcher model behind it, over any node whose events carry
names without newline, on any byte stream in any segmentation: what it sends, cut at the newlines, is exactly its frames —
no hypothesis on the dispatcher left, and no assumption on the characters of echoed specifiers -/
theorem dispatcher_lines_whole {ν κ : Type} (L : Lib J) (N : NodeIf ν κ J) (laws : LibLaws L) (hN : NodeEventsNoEol N)
    (st : ν × κ) (chunks : List Bytes) :
    IsFraming (wire L (serve tables L (dispatch tables dtables N) [] st chunks).outs).flatten
      ((serve tables L (dispatch tables dtables N) [] st chunks).outs.map (fun o => rstripSp (joined L o.msg))) [] :=
  lines_whole_sequential tables L _ laws generated_table_noEol
    (dispatcher_no_newline tables dtables N generated_reply_noEol hN) st chunks

/-- a frame: a body without newline, then the newline -/
def IsFrame (f : Bytes) : Prop := ∃ body, f = body ++ [EOL] ∧ EOL ∉ body

theorem frames_flatten_isFraming : ∀ (done : List Bytes), (∀ f ∈ done, IsFrame f) →
    ∃ bodies, done = bodies.map (· ++ [EOL]) ∧ IsFraming done.flatten bodies []
  | [], _ => ⟨[], rfl, by simp [IsFraming]⟩
  | f :: fs, h => by
    obtain ⟨body, rfl, hb⟩ := h f (List.mem_cons_self ..)
    obtain ⟨bodies, rfl, hfr⟩ := frames_flatten_isFraming fs (fun g hg => h g (List.mem_cons_of_mem _ hg))
    refine ⟨body :: bodies, rfl, ?_⟩
    obtain ⟨e, m, n⟩ := hfr
    refine ⟨by simp, ?_, n⟩
    intro l hl
    rcases List.mem_cons.1 hl with rfl | hl
    · exact hb
    · exact m l hl

/-- **lines_whole** — any number of senders on one connection, each doing `send_lock.acquire();
if self.running: sendall(frame); release()` with `sendall` writing the frame in pieces of any size, in any
interleaving, and any `sendall` possibly raising after any number of its pieces (after which `self.running`
is false and every sender drops its frames): sender 0 is the handler thread answering an arbitrary byte
stream, the others send well-formed events.  Whenever nobody is inside `sendall`, what the peer has
received, cut at its newlines, is exactly the frames completed so far — each of them one of the senders'
frames — followed by a rest without newline, which is empty as long as no send has failed (afterwards it is
the written part of the torn frame, and nothing is ever appended to it); while a sender is inside `sendall`, it
is the completed frames followed by a part of one frame.  No line is split by another. -/
theorem lines_whole (T : Tables) (L : Lib J) (d : Disp σ J) (laws : LibLaws L) (tf : TableNoEol T)
    (hd : DispNoEol d) (st : σ) (chunks : List Bytes)
    (others : Nat → List (Triple J)) (hothers : ∀ i, ∀ m ∈ others i, WFTriple L m)
    (s : SockState)
    (hreach : SendReach (sockInit (fun i => if i = 0 then wire L (serve T L d [] st chunks).outs
                                              else (others i).map (encodeFrame L))) s) :
    (∀ f ∈ s.done, IsFrame f) ∧
    match s.lock with
    | none => (∃ bodies, s.done = bodies.map (· ++ [EOL]) ∧ IsFraming s.out bodies s.tail)
        ∧ (s.running = true → s.tail = [])
    | some i => ∃ w r, s.cur i = some (w, r) ∧ IsFrame (w ++ r) ∧ s.out = s.done.flatten ++ w := by
  have hq : ∀ i, ∀ f ∈ (fun i => if i = 0 then wire L (serve T L d [] st chunks).outs
      else (others i).map (encodeFrame L)) i, IsFrame f := by
    intro i f hf
    by_cases hi : i = 0
    · simp only [hi, ↓reduceIte, wire, List.mem_map] at hf
      obtain ⟨o, ho, rfl⟩ := hf
      exact ⟨_, rfl, frames_no_newline T L d laws tf hd st chunks o ho⟩
    · simp only [hi, ↓reduceIte, List.mem_map] at hf
      obtain ⟨m, hm, rfl⟩ := hf
      have hwf := hothers i m hm
      refine ⟨_, rfl, fun h => ?_⟩
      refine eol_joined L m hwf.1.2.2.1 ?_ (fun j _ => laws.dumps_noEol j) (mem_rstripSp h)
      cases hs : m.spec with
      | none => simp
      | some sp => simpa using (hwf.2 sp hs).2.2.1
  obtain ⟨_, hdone, hl⟩ := sendInv_reach IsFrame _ hq hreach
  refine ⟨hdone, ?_⟩
  cases hlock : s.lock with
  | none =>
    rw [hlock] at hl
    obtain ⟨_, hout, hrun, hfail⟩ := hl
    obtain ⟨bodies, hb, hfr⟩ := frames_flatten_isFraming s.done hdone
    refine ⟨⟨bodies, hb, by rw [hout, hfr.1]; simp, hfr.2.1, ?_⟩, hrun⟩
    cases hr : s.running with
    | true => rw [hrun hr]; simp
    | false =>
      obtain ⟨r, hr0, body, hbody, hno⟩ := hfail hr
      exact not_mem_of_proper_prefix hbody hr0 hno
  | some i =>
    rw [hlock] at hl
    obtain ⟨_, _, _, w, r, hc, hp, hout⟩ := hl
    exact ⟨w, r, hc, hp, hout⟩

/-- **senders_keep_order** — in every reachable state of any number of senders (any queues, any
interleaving of acquire / partial writes / release / a `sendall` that raises / sends dropped after that): the
frames completed so far are `doneBy` without the sender numbers, and for every sender what it has completely
sent (in the order the peer got it), the frame it is writing, the frames that were not delivered and what
it still has to send are, in this order, exactly the frames it set out to send — nothing duplicated or
overtaken, and nothing lost as long as no send has failed -/
theorem senders_keep_order (queue : Nat → List Bytes) (s : SockState) (hreach : SendReach (sockInit queue) s) :
    s.done = s.doneBy.map Prod.snd ∧ (∀ i, sentBy s i ++ inFlight s i ++ s.lost i ++ s.queue i = queue i)
    ∧ (s.running = true → ∀ i, s.lost i = []) :=
  orderInv_reach (fun _ => True) queue (fun _ _ _ => trivial) hreach

/-- **replies_in_order_among_events** — the handler thread (sender 0) answering any byte stream in any
segmentation, any other senders on the same connection: the frames of the handler thread reach the
peer in the order of `serve` (so the replies are in request order, `one_reply_per_line`), however the
events of the other threads are interleaved and also when a send of any thread fails in the middle: what the
peer has got of them is always a prefix; as long as no send has failed, once the handler thread has
nothing left to send the peer has got all of them -/
theorem replies_in_order_among_events (T : Tables) (L : Lib J) (d : Disp σ J) (st : σ) (chunks : List Bytes)
    (others : Nat → List (Triple J)) (s : SockState)
    (hreach : SendReach (sockInit (fun i => if i = 0 then wire L (serve T L d [] st chunks).outs
                                              else (others i).map (encodeFrame L))) s) :
    sentBy s 0 ++ inFlight s 0 ++ s.lost 0 ++ s.queue 0 = wire L (serve T L d [] st chunks).outs
    ∧ sentBy s 0 <+: wire L (serve T L d [] st chunks).outs
    ∧ (s.running = true → s.queue 0 = [] → s.cur 0 = none → sentBy s 0 = wire L (serve T L d [] st chunks).outs) := by
  obtain ⟨_, hall, hlost⟩ := senders_keep_order _ s hreach
  have h := hall 0
  simp only [↓reduceIte] at h
  refine ⟨h, ⟨inFlight s 0 ++ s.lost 0 ++ s.queue 0, by rw [← h]; simp [List.append_assoc]⟩, fun hr hq hc => ?_⟩
  rw [← h, hq, hlost hr 0]
  simp [inFlight, hc]

/-- non-vacuity of the step relation: two senders, the second acquires while the first has not
started; a state with the lock held and half a frame written is reachable -/
example : ∃ s, SendReach (sockInit (fun i => if i = 0 then [[97, 10]] else if i = 1 then [[98, 99, 10]] else [])) s
    ∧ s.lock = some 1 ∧ s.out = [98] := by
  refine ⟨_, .step _ _ (.step _ _ .start (.acquire _ 1 [98, 99, 10] [] rfl rfl rfl)) (.write _ 1 [] [98, 99, 10] 1 (by simp [upd])), rfl, rfl⟩

/-- … and a state in which the second sender's frame has overtaken the first sender's: `doneBy` records who sent what -/
example : ∃ s, SendReach (sockInit (fun i => if i = 0 then [[97, 10]] else if i = 1 then [[98, 10]] else [])) s
    ∧ s.doneBy = [(1, [98, 10]), (0, [97, 10])] ∧ s.out = [98, 10, 97, 10] ∧ sentBy s 0 = [[97, 10]] := by
  refine ⟨_, .step _ _ (.step _ _ (.step _ _ (.step _ _ (.step _ _ (.step _ _ .start
    (.acquire _ 1 [98, 10] [] rfl rfl rfl)) (.write _ 1 [] [98, 10] 2 (by simp [upd]))) (.release _ 1 [98, 10] (by simp [upd])))
    (.acquire _ 0 [97, 10] [] rfl rfl rfl)) (.write _ 0 [] [97, 10] 2 (by simp [upd]))) (.release _ 0 [97, 10] (by simp [upd])),
    by simp [sockInit], by simp [sockInit], by simp [sentBy, sockInit]⟩

/-- … and a state after a failed send: sender 1 has written `b` of its frame `bc\n` when `sendall` raises; sender 0 then
drops its frame.  The peer has the rest `b` and will never get anything else; both frames are recorded as lost. -/
example : ∃ s, SendReach (sockInit (fun i => if i = 0 then [[97, 10]] else if i = 1 then [[98, 99, 10]] else [])) s
    ∧ s.running = false ∧ s.lock = none ∧ s.out = [98] ∧ s.tail = [98] ∧ s.done = [] ∧ s.lost 0 = [[97, 10]]
    ∧ s.lost 1 = [[98, 99, 10]] ∧ s.queue 0 = [] := by
  refine ⟨_, .step _ _ (.step _ _ (.step _ _ (.step _ _ .start
    (.acquire _ 1 [98, 99, 10] [] rfl rfl rfl)) (.write _ 1 [] [98, 99, 10] 1 (by simp [upd])))
    (.fail _ 1 [98] [99, 10] (by simp [upd]) (by simp))) (.skip _ 0 [97, 10] [] rfl rfl rfl),
    rfl, rfl, by simp [sockInit], rfl, by simp [sockInit], by simp [sockInit, upd], by simp [sockInit, upd], by simp [upd]⟩

end whole

/-! ## The peer goes away -/

section gone
variable {J σ : Type}

/-- **peer_gone_prefix** — a socket on which only the first `n` calls of `sendall` succeed (any `n`), any
stream, any segmentation, any dispatcher: the peer gets exactly the first `n` frames of the run in
which no send fails; the lines processed are a prefix of the request lines (the line during which
the send failed is finished, no later one is touched) and the dispatcher is left in the state after
exactly these; if the frames suffice the run is the run without failure, otherwise the loop has stopped. -/
theorem peer_gone_prefix (T : Tables) (L : Lib J) (d : Disp σ J) (st : σ) (chunks : List Bytes) (n : Nat) :
    let r := serveF T L d ⟨n, true⟩ [] st chunks
    let full := serve T L d [] st chunks
    let ls := (splitLines chunks.flatten).lines
    r.outs = full.outs.take n
    ∧ r.done ≤ ls.length
    ∧ r.st = stateAfter T L d st (ls.take r.done)
    ∧ (full.outs.length ≤ n → r.done = ls.length ∧ r.st = full.st ∧ r.sock.running = true)
    ∧ (n < full.outs.length → r.sock.running = false) := by
  intro r full ls
  have hf := splitLines_isFraming chunks.flatten
  obtain ⟨hl, _⟩ := feed_lines_are_the_lines chunks _ _ hf
  obtain ⟨h1, _, h3⟩ := serve_eq_serveLines T L d chunks [] st
  have hr : r = serveLinesF T L d ⟨n, true⟩ st ls := by
    simp only [r, ls, serveF_eq_serveLinesF, hl]
  obtain ⟨a, b, c, e, f, _⟩ := serveLinesF_spec T L d ls n st
  have hfull : full.outs = (serveLines T L d st ls).1 := by simp only [full, ls, h1, hl]
  have hfst : full.st = stateAfter T L d st ls := by simp only [full, ls, h3, hl]
  rw [hr, hfull]
  refine ⟨a, b, c, ?_, ?_⟩
  · intro hle
    obtain ⟨e1, e2⟩ := e hle
    refine ⟨e1, ?_, by rw [e2]⟩
    rw [c, e1, hfst, List.take_length]
  · intro hlt
    rw [f hlt]

/-- what the peer got before it went away is sound: whole frames without a newline of their own, and
the replies among them answer the first request lines, one each, in order -/
theorem peer_gone_sound (T : Tables) (L : Lib J) (d : Disp σ J) (laws : LibLaws L) (tf : TableNoEol T)
    (hd : DispNoEol d) (st : σ) (chunks : List Bytes) (n : Nat) :
    (∀ o ∈ (serveF T L d ⟨n, true⟩ [] st chunks).outs, EOL ∉ rstripSp (joined L o.msg))
    ∧ (replies (serveF T L d ⟨n, true⟩ [] st chunks).outs).map (·.req) <+: (splitLines chunks.flatten).lines := by
  obtain ⟨h, _⟩ := peer_gone_prefix T L d st chunks n
  rw [h]
  refine ⟨fun o ho => frames_no_newline T L d laws tf hd st chunks o (List.mem_of_mem_take ho), ?_⟩
  have h1 := (one_reply_per_line T L d st chunks _ _ (splitLines_isFraming chunks.flatten)).1
  rw [← h1]
  exact ((List.take_prefix n _).filter _).map _


/-- **peer_gone_partial** — the `sendall` call number `n` (counted from 0; any `n`) raises after `k` bytes of
its frame have gone out (a time-out with the output buffer full, a reset in the middle of a frame; any `k`
short of the whole frame), any stream, segmentation and dispatcher: the torn frame is frame `n` of the run in
which no send fails, and what the peer has received, cut at its newlines, is exactly the `n` frames delivered
before — whole lines — followed by an unterminated rest without newline (the head of the torn frame).  Nothing
follows the torn frame: `send_reply` does not touch the socket once a send has failed, whether or not the
socket would accept data again. -/
theorem peer_gone_partial (T : Tables) (L : Lib J) (d : Disp σ J) (laws : LibLaws L) (tf : TableNoEol T)
    (hd : DispNoEol d) (st : σ) (chunks : List Bytes) (n k : Nat)
    (hk : ∀ o, (serveF T L d ⟨n, true⟩ [] st chunks).torn = some o → k < (encodeFrame L o.msg).length) :
    let r := serveF T L d ⟨n, true⟩ [] st chunks
    let full := serve T L d [] st chunks
    r.torn = full.outs[n]?
    ∧ r.outs = full.outs.take n
    ∧ IsFraming (received L r k) (r.outs.map (fun o => rstripSp (joined L o.msg)))
        (match r.torn with
          | some o => (encodeFrame L o.msg).take k
          | none => []) := by
  intro r full
  have hf := splitLines_isFraming chunks.flatten
  obtain ⟨hl, _⟩ := feed_lines_are_the_lines chunks _ _ hf
  obtain ⟨h1, _, _⟩ := serve_eq_serveLines T L d chunks [] st
  have hr : r = serveLinesF T L d ⟨n, true⟩ st (splitLines chunks.flatten).lines := by
    simp only [r, serveF_eq_serveLinesF, hl]
  have hfull : full.outs = (serveLines T L d st (splitLines chunks.flatten).lines).1 := by simp only [full, h1, hl]
  obtain ⟨a, _, _, _, _, t⟩ := serveLinesF_spec T L d (splitLines chunks.flatten).lines n st
  have htorn : r.torn = full.outs[n]? := by rw [hr, hfull]; exact t
  have houts : r.outs = full.outs.take n := by rw [hr, hfull]; exact a
  have hno := frames_no_newline T L d laws tf hd st chunks
  refine ⟨htorn, houts, ?_, ?_, ?_⟩
  · simp only [received, wire, encodeFrame, List.map_map, Function.comp_def]
    cases r.torn <;> rfl
  · intro l hlm
    obtain ⟨o, ho, rfl⟩ := List.mem_map.1 hlm
    rw [houts] at ho
    exact hno o (List.mem_of_mem_take ho)
  · cases ht : r.torn with
    | none => simp
    | some o =>
      have hmem : o ∈ full.outs := by
        rw [htorn] at ht
        exact List.mem_of_getElem? ht
      have hklt := hk o ht
      simp only [encodeFrame, List.length_append, List.length_singleton] at hklt
      simp only [encodeFrame]
      rw [List.take_append_of_le_length (by omega)]
      exact fun hm => hno o hmem (List.mem_of_mem_take hm)

end gone

/-! ## The text of an error report (`str(err)` in the `except` clauses of the request loop) -/

section errtext

/-- the usual error — a class registered for its SECoP name, raised with one argument, having passed at most
one read / write wrapper: the text is the text of the argument alone -/
theorem error_text_usual (e : ErrInfo) (a : ErrArg) (hr : e.registered = true) (hm : e.methods.length ≤ 1)
    (ha : e.args = [a]) : errText e = a.str := by
  have hd : e.methods.dropLast = [] := by
    match hme : e.methods, hm with
    | [], _ => rfl
    | [_], _ => rfl
    | _ :: _ :: _, h => simp at h
  simp [errText, formatError, errPrefix, shownMethods, hr, hd, inMethods, strip, lstrip, rstrip, ha, excStr]

/-- **error_text_any_args** — an error raised with any arguments (none, one, several; of any kind — only `str()` and
`repr()` of the objects are used): the text is defined, it ends with `BaseException.__str__` of the arguments
(nothing, the argument's own text, or the text of the tuple), and in front of that stands nothing or a prefix
ending in `": "` that does not depend on the arguments -/
theorem error_text_any_args (s : Bool) (e : ErrInfo) :
    formatError s e = excStr e.args
    ∨ ∃ p, p ≠ [] ∧ (∀ args, formatError s { e with args := args } = p ++ [58, 32] ++ excStr args) := by
  by_cases h : errPrefix s e = []
  · exact .inl (by simp [formatError, h])
  · refine .inr ⟨errPrefix s e, h, fun args => ?_⟩
    have : errPrefix s { e with args := args } = errPrefix s e := rfl
    simp [formatError, this, h]

/-- the three shapes of `BaseException.__str__` -/
theorem exc_str_shapes :
    excStr [] = []
    ∧ (∀ a, excStr [a] = a.str)
    ∧ (∀ a b rest, excStr (a :: b :: rest) = [40] ++ joinComma ((a :: b :: rest).map (·.repr)) ++ [41]) :=
  ⟨rfl, fun _ => rfl, fun _ _ _ => rfl⟩

/-- a class that is not the registered one for its name (`ProgrammingError`, `ConfigError`, a subclass defined by a driver)
shows its Python class name in front -/
theorem error_text_unregistered (s : Bool) (e : ErrInfo) (hr : e.registered = false) (hn : e.typeName ≠ []) :
    e.typeName <+: formatError s e := by
  have hp : errPrefix s e ≠ [] := by
    simp only [errPrefix, hr]
    intro h
    exact hn (List.append_eq_nil_iff.1 h).1
  simp only [formatError, hp, ↓reduceIte]
  simp only [errPrefix, hr, Bool.false_eq_true, ↓reduceIte, List.append_assoc]
  exact List.prefix_append _ _

-- `CommunicationFailedError(OSError(5, 'x'))` raised in `write_target` of module `m`: the text of the OSError
example : errText ⟨true, [67], [[109, 46, 119]], [⟨[91, 53, 93, 32, 120], [79, 40, 53, 41]⟩]⟩ = [91, 53, 93, 32, 120] := by
  decide
-- `HardwareError('a', 7)`: the text of the tuple `('a', 7)`
example : errText ⟨true, [72], [], [⟨[97], [39, 97, 39]⟩, ⟨[55], [55]⟩]⟩ = [40, 39, 97, 39, 44, 32, 55, 41] := by decide
-- `HardwareError()`: empty text
example : errText ⟨true, [72], [], []⟩ = [] := by decide
-- `ProgrammingError(3)` that has passed `m.read_v` and `n.read_w`: `ProgrammingErrorin m.read_v: 3` (the quirk)
example : errText ⟨false, [80], [[109], [110]], [⟨[51], [51]⟩]⟩ = [80, 105, 110, 32, 109, 58, 32, 51] := by decide
example : ∃ (e : ErrInfo) (a : ErrArg), e.registered = true ∧ e.methods.length ≤ 1 ∧ e.args = [a] :=
  ⟨⟨true, [72], [[109]], [⟨[120], [39, 120, 39]⟩]⟩, ⟨[120], [39, 120, 39]⟩, rfl, by decide, rfl⟩
example : ∃ e : ErrInfo, e.registered = false ∧ e.typeName ≠ [] := ⟨⟨false, [80], [], []⟩, rfl, by decide⟩

end errtext

/-! ## Strict JSON (recorded finding `C07:strict_json:nan-token`) -/

section strict
variable {J σ : Type}

/-- every data part sent is accepted by a strict JSON parser -/
def EmittedStrict (L : Lib J) (strict : Bytes → Bool) (outs : List (Out J)) : Prop :=
  ∀ o ∈ outs, ∀ j, o.msg.data = some j → strict (L.dumps j) = true

/-- the data the dispatcher hands to the wire layer satisfies `fin` (contains no NaN, no ±Infinity) -/
def DispFinite (fin : J → Bool) (d : Disp σ J) : Prop :=
  ∀ st t, (∀ m ∈ (d st t).1.async, ∀ j, m.data = some j → fin j = true) ∧
    ∀ r, (d st t).1.res = .ok r → ∀ j, r.data = some j → fin j = true

/-- the full statement: strict JSON whatever the dispatcher hands over — **false**, see `emitted_strict_fails` -/
def emitted_strict_statement : Prop :=
  ∀ (J σ : Type) (T : Tables) (L : Lib J) (d : Disp σ J) (st : σ) (chunks : List Bytes)
    (strict : Bytes → Bool) (fin : J → Bool),
    (∀ j, fin j = true → strict (L.dumps j) = true) → (∀ c, fin (L.errReport c) = true) →
    (∀ i, fin (L.helpText i) = true) →
    EmittedStrict L strict (serve T L d [] st chunks).outs

theorem handleLine_strict (T : Tables) (L : Lib J) (d : Disp σ J) (strict : Bytes → Bool) (fin : J → Bool)
    (hdumps : ∀ j, fin j = true → strict (L.dumps j) = true) (herr : ∀ c, fin (L.errReport c) = true)
    (hhelp : ∀ i, fin (L.helpText i) = true) (hd : DispFinite fin d) (st : σ) (line : Bytes) :
    EmittedStrict L strict (handleLine T L d st line).1 := by
  intro o ho j hj
  apply hdumps
  unfold handleLine at ho
  cases hn : nextMessage T L line with
  | bad raw =>
    simp only [hn, List.mem_singleton] at ho
    subst ho
    simp only [decodeErrorReply, errorReply, Option.some.injEq] at hj
    rw [← hj]; exact herr _
  | msg t =>
    simp only [hn] at ho
    by_cases hh : t.action = T.helpRequest
    · simp only [hh, ↓reduceIte, List.mem_append, List.mem_singleton] at ho
      rcases ho with ho | rfl
      · simp only [helpLines, List.mem_map] at ho
        obtain ⟨i, _, rfl⟩ := ho
        simp only [Option.some.injEq] at hj
        rw [← hj]; exact hhelp _
      · simp at hj
    · simp only [hh, ↓reduceIte, List.mem_append, List.mem_map, List.mem_singleton] at ho
      obtain ⟨hasync, hok⟩ := hd st t
      rcases ho with ⟨m, hm, rfl⟩ | rfl
      · exact hasync m hm j hj
      · cases hr : (d st t).1.res with
        | ok r => simp only [hr, resultReply] at hj; exact hok r hr j hj
        | secop c => simp only [hr, resultReply, errorReply, Option.some.injEq] at hj; rw [← hj]; exact herr _
        | exc => simp only [hr, resultReply, errorReply, Option.some.injEq] at hj; rw [← hj]; exact herr _
        | garbage => simp only [hr, resultReply, errorReply, Option.some.injEq] at hj; rw [← hj]; exact herr _

/-- **emitted_strict_partial** — proved part: if the dispatcher hands over only finite data, every
data part sent is strict JSON (for all streams and segmentations).  Missing: the wire layer does
nothing about a NaN/±Infinity it is handed (`json.dumps` with `allow_nan`), see `emitted_strict_fails`. -/
theorem emitted_strict_partial (T : Tables) (L : Lib J) (d : Disp σ J) (strict : Bytes → Bool) (fin : J → Bool)
    (hdumps : ∀ j, fin j = true → strict (L.dumps j) = true) (herr : ∀ c, fin (L.errReport c) = true)
    (hhelp : ∀ i, fin (L.helpText i) = true) (hd : DispFinite fin d) (st : σ) (chunks : List Bytes) :
    EmittedStrict L strict (serve T L d [] st chunks).outs := by
  rw [(serve_eq_serveLines T L d chunks [] st).1]
  generalize (feedAll [] chunks).lines = ls
  induction ls generalizing st with
  | nil => intro o ho; simp [serveLines] at ho
  | cons l ls ih =>
    intro o ho
    simp only [serveLines, List.mem_append] at ho
    rcases ho with ho | ho
    · exact handleLine_strict T L d strict fin hdumps herr hhelp hd st l o ho
    · exact ih _ o ho

/-- **dispatcher_emitted_strict** — `emitted_strict_partial` with the hypothesis moved from the dispatcher
to the node: over the dispatcher model, if the node (descriptive data, module results, events) hands
over only finite data and `logging` accepts only finite levels, every data part sent is strict JSON —
for all streams and segmentations.  What remains assumed is `NodeFinite` (on the real node: the
datatypes refuse NaN and clamp ±inf, `announceUpdate` replaces a time stamp that is not finite). -/
theorem dispatcher_emitted_strict {ν κ : Type} (L : Lib J) (N : NodeIf ν κ J) (strict : Bytes → Bool) (fin : J → Bool)
    (hdumps : ∀ j, fin j = true → strict (L.dumps j) = true) (herr : ∀ c, fin (L.errReport c) = true)
    (hhelp : ∀ i, fin (L.helpText i) = true) (hN : NodeFinite fin N) (st : ν × κ) (chunks : List Bytes) :
    EmittedStrict L strict (serve tables L (dispatch tables dtables N) [] st chunks).outs :=
  emitted_strict_partial tables L _ strict fin hdumps herr hhelp (dispatch_finite tables dtables N fin hN) st chunks

end strict

/-! ## Non-vacuity: a lawful JSON layer and a dispatcher that does its part -/

/-- a two-valued JSON layer: `true`/`false` written `t`/`f` -/
def L0 : Lib Bool where
  utf8ok := fun _ => true
  loads := fun d => if d = [116] then some true else if d = [102] then some false else none
  dumps := fun j => if j then [116] else [102]
  errReport := fun _ => false
  helpText := fun _ => false

theorem L0_laws : LibLaws L0 where
  loads_dumps := by intro j; cases j <;> decide
  dumps_ends := by intro j; cases j <;> decide
  dumps_noEol := by intro j; cases j <;> decide
  dumps_utf8 := fun _ => rfl
  utf8_join := fun _ _ => rfl
  utf8_nil := rfl

/-- a dispatcher that refuses everything with a ProtocolError -/
def d0 : Disp Unit Bool := fun st _ => (⟨[], .secop [80, 114, 111, 116, 111, 99, 111, 108, 69, 114, 114, 111, 114]⟩, st)

theorem d0_fits : DispFits tables L0 d0 := by
  intro st t
  exact ⟨by simp [d0], by simp only [d0]; decide⟩

/-- `WFTriple` is inhabited, with and without specifier and data -/
example : WFTriple L0 ⟨[112, 111, 110, 103], some [120], some true⟩ :=
  ⟨by unfold Token; decide, fun s hs => by cases hs; unfold Token; decide⟩

example : decodeMsg L0 (encodeFrame L0 ⟨[112, 111, 110, 103], some [120], some true⟩)
    = some ⟨[112, 111, 110, 103], some [120], some true⟩ :=
  codec_inverse L0 L0_laws _ ⟨by unfold Token; decide, fun s hs => by cases hs; unfold Token; decide⟩

/-- a concrete run: `"ping x\n\n*ID"`, `"N?\n r {"`, `"\nrest"` — four lines, four replies with the
expected actions (`error_ping`, `helping`, `error_*IDN?`, `error_r` — the last one for an undecodable
line with leading blank), the tail `rest` unanswered -/
example :
    ((replies (serve tables L0 d0 [] () [[112, 105, 110, 103, 32, 120, 10, 10, 42, 73, 68], [78, 63, 10, 32, 114, 32, 123],
        [10, 114, 101, 115, 116]]).outs).map (fun o => o.msg.action),
      (serve tables L0 d0 [] () [[112, 105, 110, 103, 32, 120, 10, 10, 42, 73, 68], [78, 63, 10, 32, 114, 32, 123],
        [10, 114, 101, 115, 116]]).buf)
    = ([[101, 114, 114, 111, 114, 95, 112, 105, 110, 103], [104, 101, 108, 112, 105, 110, 103],
        [101, 114, 114, 111, 114, 95, 42, 73, 68, 78, 63], [101, 114, 114, 111, 114, 95, 114]], [114, 101, 115, 116]) := by
  decide

/-- a dispatcher that answers every request with the value `true` (read: NaN) as data -/
def dNaN : Disp Unit Bool := fun st t => (⟨[], .ok ⟨[114], t.spec, some true⟩⟩, st)

/-- **emitted_strict_fails** — the counterexample to `emitted_strict_statement`: JSON layer `L0` with
`true` standing for NaN (`fin true = false`, its text `t` not strict), request `x\n` -/
theorem emitted_strict_fails : ¬ emitted_strict_statement := by
  intro h
  have := h Bool Unit tables L0 dNaN () [[120, 10]] (fun b => b != [116]) (fun j => !j)
    (by intro j hj; cases j <;> simp_all [L0]) (fun _ => rfl) (fun _ => rfl)
  revert this
  simp only [EmittedStrict]
  intro hall
  have := hall ⟨.reply, [120], ⟨[114], none, some true⟩⟩ (by decide) true rfl
  revert this
  decide

/-- the monitor accepts what the repaired handler sends and rejects what the pinned one sent:
request ` read x {` answered `error_read x ["InternalError"…` / `error_ read ["InternalError"…` -/
example : judge tables [32, 114, 101, 97, 100, 32, 120, 32, 123, 10]
    [[101, 114, 114, 111, 114, 95, 114, 101, 97, 100, 32, 120, 32, 91, 34, 73, 110, 116, 101, 114, 110, 97, 108, 69, 114, 114, 111, 114, 34, 93, 10]]
    = .ok := by decide

example : judge tables [32, 114, 101, 97, 100, 32, 120, 32, 123, 10]
    [[101, 114, 114, 111, 114, 95, 32, 114, 101, 97, 100, 32, 91, 34, 73, 110, 116, 101, 114, 110, 97, 108, 69, 114, 114, 111, 114, 34, 93, 10]]
    = .misfit 0 := by decide

/-- a dead handler (no reply to the second line) is rejected -/
example : judge tables [120, 10, 121, 10]
    [[101, 114, 114, 111, 114, 95, 120, 32, 32, 91, 34, 80, 114, 111, 116, 111, 99, 111, 108, 69, 114, 114, 111, 114, 34, 93, 10]]
    = .count 2 1 := by decide

/-! ## Non-vacuity: a node, neutral lines left out, and what the monitor rejects -/

/-- a node with one module `m` whose state is a number: `change` sets it to 1, `read` tells whether
it is 0; the node description is `true`, that of `m` is `false`, nothing else exists -/
def N0 : NodeIf Nat Unit Bool where
  describe := fun s => if s = [] ∨ s = [46] then .ok true else if s = [109] then .ok false
    else .secop [78, 111, 83, 117, 99, 104, 77, 111, 100, 117, 108, 101]
  activateCheck := fun s => if s = [109] then none else some [78, 111, 83, 117, 99, 104, 77, 111, 100, 117, 108, 101]
  logging := fun _ _ => .ok ()
  truthy := fun j => j
  pong := false
  read := fun nu _ _ => (.ok (decide (nu = 0)), nu)
  change := fun _ _ _ _ => (.ok true, 1)
  exec := fun nu _ _ _ => (.exc, nu)
  events := fun _ _ _ => []
  book := fun k _ => k

/-- `NodeFinite` is satisfiable: with `false` standing for the one value that is not finite, `N0` hands
over `false` only as description of `m` — so it is finite for `fin := fun _ => true`, and not for `fin := id` -/
example : NodeFinite (fun _ => true) N0 :=
  ⟨fun _ _ _ => rfl, rfl, fun _ _ _ _ _ => rfl, fun _ _ _ _ _ _ => rfl, fun _ _ _ _ _ _ => rfl,
    fun _ _ _ _ h => by simp [N0] at h, fun _ _ _ => rfl⟩

example : ¬ NodeFinite (fun j => j) N0 := fun h => by
  have := h.describe [109] false (by simp [N0])
  exact absurd this (by decide)

/-- `describe`, `read m`, `change m t`, `describe m`, a blank line, `describe x`, `read m`;
the three `describe` lines and the blank line are left out -/
def m0 : Marked :=
  [([100, 101, 115, 99, 114, 105, 98, 101], false), ([114, 101, 97, 100, 32, 109], true), ([99, 104, 97, 110, 103, 101, 32, 109, 32, 116], true), ([100, 101, 115, 99, 114, 105, 98, 101, 32, 109], false),
   ([], false), ([100, 101, 115, 99, 114, 105, 98, 101, 32, 120], false), ([114, 101, 97, 100, 32, 109], true)]

example : OnlyNeutralDropped tables L0 m0 := by decide

/-- leaving out a `change` is not covered: it is not neutral -/
example : ¬ OnlyNeutralDropped tables L0 [([99, 104, 97, 110, 103, 101, 32, 109, 32, 116], false)] := by decide

/-- the two runs of `dispatcher_answers_independent` on `m0`, evaluated: the three lines that stay get
`reply m true`, `changed m true`, `reply m false` in both (the answer to `read m` does depend on the
`change` before it, so the dispatcher state matters), and the `describe` lines are answered each by
its own description -/
example :
    (replies (serve tables L0 (dispatch tables dtables N0) [] (0, ()) [(allLines m0).flatMap (· ++ [EOL])]).outs).map
        (fun o => (o.msg.action, o.msg.data))
      = [([100, 101, 115, 99, 114, 105, 98, 105, 110, 103], some true), ([114, 101, 112, 108, 121], some true), ([99, 104, 97, 110, 103, 101, 100], some true),
         ([100, 101, 115, 99, 114, 105, 98, 105, 110, 103], some false), ([104, 101, 108, 112, 105, 110, 103], none), ([101, 114, 114, 111, 114, 95, 100, 101, 115, 99, 114, 105, 98, 101], some false),
         ([114, 101, 112, 108, 121], some false)]
    ∧ (replies (serve tables L0 (dispatch tables dtables N0) [] (0, ()) [(keptLines m0).flatMap (· ++ [EOL])]).outs).map
        (fun o => (o.msg.action, o.msg.data))
      = [([114, 101, 112, 108, 121], some true), ([99, 104, 97, 110, 103, 101, 100], some true), ([114, 101, 112, 108, 121], some false)] := by
  decide

/-- the monitor accepts answers that stay and rejects an answer that changes when an earlier
`describe` is left out (what a dispatcher does that keeps the first description it built) -/
example : judgeIndep tables L0 [([100, 101, 115, 99, 114, 105, 98, 101], false), ([100, 101, 115, 99, 114, 105, 98, 101, 32, 109], true)]
    [[100, 101, 115, 99, 114, 105, 98, 105, 110, 103, 32, 46, 32, 123, 34, 109, 111, 100, 117, 108, 101, 115, 34, 58, 32, 49, 125] ++ [10], [100, 101, 115, 99, 114, 105, 98, 105, 110, 103, 32, 109, 32, 123, 34, 97, 99, 99, 101, 115, 115, 105, 98, 108, 101, 115, 34, 58, 32, 50, 125] ++ [10]]
    [[100, 101, 115, 99, 114, 105, 98, 105, 110, 103, 32, 109, 32, 123, 34, 97, 99, 99, 101, 115, 115, 105, 98, 108, 101, 115, 34, 58, 32, 50, 125] ++ [10]] = .ok := by decide

example : judgeIndep tables L0 [([100, 101, 115, 99, 114, 105, 98, 101], false), ([100, 101, 115, 99, 114, 105, 98, 101, 32, 109], true)]
    [[100, 101, 115, 99, 114, 105, 98, 105, 110, 103, 32, 46, 32, 123, 34, 109, 111, 100, 117, 108, 101, 115, 34, 58, 32, 49, 125] ++ [10], [100, 101, 115, 99, 114, 105, 98, 105, 110, 103, 32, 109, 32, 123, 34, 109, 111, 100, 117, 108, 101, 115, 34, 58, 32, 49, 125] ++ [10]]
    [[100, 101, 115, 99, 114, 105, 98, 105, 110, 103, 32, 109, 32, 123, 34, 97, 99, 99, 101, 115, 115, 105, 98, 108, 101, 115, 34, 58, 32, 50, 125] ++ [10]] = .changed 0 := by decide

/-- leaving out `change m t` is a defect of the case; `change m 1` is not a message for `L0` (its JSON
layer knows `t` and `f` only) and may be left out -/
example : judgeIndep tables L0 [([99, 104, 97, 110, 103, 101, 32, 109, 32, 116], false), ([114, 101, 97, 100, 32, 109], true)] [] []
    = .notNeutral 0 := by decide

example : Removable tables L0 [99, 104, 97, 110, 103, 101, 32, 109, 32, 49] = true
    ∧ Neutral tables [99, 104, 97, 110, 103, 101, 32, 109, 32, 49] = false := by decide

/-- non-vacuity: the stream `x\n\ny\n` with a dispatcher that refuses everything sends 1 + 12 + 1
frames; with a socket that fails at the fifth `sendall` the peer has four of them, two lines were
processed, the third never reached the dispatcher -/
example :
    ((serve tables L0 d0 [] () [[120, 10, 10, 121, 10]]).outs.length,
     (serveF tables L0 d0 ⟨4, true⟩ [] () [[120, 10, 10, 121, 10]]).outs.length,
     (serveF tables L0 d0 ⟨4, true⟩ [] () [[120, 10, 10, 121, 10]]).done,
     (serveF tables L0 d0 ⟨4, true⟩ [] () [[120, 10, 10, 121, 10]]).sock) = (14, 4, 2, ⟨0, false⟩) := by decide

/-- non-vacuity of `peer_gone_partial`: the same run when the fifth `sendall` writes 3 bytes of its frame `_ 4 f`
and raises: the peer has four whole lines and the rest `_ 4`; the monitor accepts that, and rejects what a peer
receives when the loop goes on sending after the torn frame (`_ 4` directly followed by the next frames) -/
example :
    ((serveF tables L0 d0 ⟨4, true⟩ [] () [[120, 10, 10, 121, 10]]).torn.map (fun o => encodeFrame L0 o.msg),
     (splitLines (received L0 (serveF tables L0 d0 ⟨4, true⟩ [] () [[120, 10, 10, 121, 10]]) 3)).lines.length,
     (splitLines (received L0 (serveF tables L0 d0 ⟨4, true⟩ [] () [[120, 10, 10, 121, 10]]) 3)).rest)
    = (some [95, 32, 52, 32, 102, 10], 4, [95, 32, 52]) := by decide

example : ∀ o, (serveF tables L0 d0 ⟨4, true⟩ [] () [[120, 10, 10, 121, 10]]).torn = some o
    → 3 < (encodeFrame L0 o.msg).length := by decide

-- requests `ping a`, `ping b`; received `pong a\n` and the head `pon` of the second reply: accepted
example : judgeReceived tables [112, 105, 110, 103, 32, 97, 10, 112, 105, 110, 103, 32, 98, 10] [112, 111, 110, 103, 32, 97, 10, 112, 111, 110] [(true, true)] = .ok := by decide
-- the loop went on after the torn frame: `pon` directly followed by the reply that was sent next
example : judgeReceived tables [112, 105, 110, 103, 32, 97, 10, 112, 105, 110, 103, 32, 98, 10, 112, 105, 110, 103, 32, 99, 10] [112, 111, 110, 103, 32, 97, 10, 112, 111, 110, 112, 111, 110, 103, 32, 99, 10] [(true, true), (true, true)]
    = .misfit 1 := by decide
-- torn inside the data part: the line fits by action and specifier, its data part is no JSON (flag of the harness)
example : judgeReceived tables [112, 105, 110, 103, 32, 97, 10, 112, 105, 110, 103, 32, 98, 10] [112, 111, 110, 103, 32, 97, 32, 91, 110, 117, 112, 111, 110, 103, 32, 98, 32, 91, 110, 117, 108, 108, 93, 10] [(true, false)]
    = .notStrict 0 := by decide

/-! ## Non-vacuity: `DispNoEol`, and why it replaces `DispFits` in the whole-line theorems -/

example : DispNoEol d0 := dispFits_noEol d0_fits

/-- a node that sends one update of `m` during every request -/
def N1 : NodeIf Nat Unit Bool := { N0 with events := fun _ _ _ => [⟨[117, 112, 100, 97, 116, 101], some [109], some true⟩] }

example : NodeEventsNoEol N1 := by
  intro nu k t m hm
  simp only [N1, List.mem_singleton] at hm
  subst hm
  exact ⟨by decide, by decide⟩

/-- `ping <DEL>` is answered `pong <DEL>` by the dispatcher (model and real one): a specifier that is no `Token`, so the
reply is no `WFTriple` and the dispatcher does not satisfy `DispFits` on this request — `DispNoEol` covers it -/
example :
    (match (dispatch tables dtables N1 (0, ()) ⟨[112, 105, 110, 103], some [127], none⟩).1.res with
      | .ok r => r.action == [112, 111, 110, 103] && r.spec == some [127]
      | _ => false) = true
    ∧ ¬ WFTriple L0 ⟨[112, 111, 110, 103], some [127], some false⟩
    ∧ NoEolTriple (⟨[112, 111, 110, 103], some [127], some false⟩ : Triple Bool) := by
  refine ⟨by decide, fun h => ?_, by decide, by decide⟩
  have := (h.2 [127] rfl).1
  revert this
  decide

/-- the stream `ping <DEL>\nread m\n` in two chunks with the dispatcher model over `N1`: four frames (each request
preceded by the update), cut at the newlines exactly these -/
example : (wire L0 (serve tables L0 (dispatch tables dtables N1) [] (0, ()) [[112, 105, 110, 103, 32, 127, 10, 114, 101], [97, 100, 32, 109, 10]]).outs)
    = [[117, 112, 100, 97, 116, 101, 32, 109, 32, 116, 10], [112, 111, 110, 103, 32, 127, 32, 102, 10],
       [117, 112, 100, 97, 116, 101, 32, 109, 32, 116, 10], [114, 101, 112, 108, 121, 32, 109, 32, 116, 10]] := by decide

/-- `DispAnswers` / `NodeClasses` are satisfiable: the refusing dispatcher, and the node `N1` (its only error class is `NoSuchModule`) -/
example : DispAnswers tables d0 := dispFits_answers d0_fits

example : NodeClasses tables.errorClasses N1 where
  describe := by
    intro s c h
    simp only [N1, N0] at h
    split at h
    · cases h
    · split at h
      · cases h
      · cases h; decide
  activate := by
    intro s c h
    simp only [N1, N0] at h
    split at h
    · cases h
    · cases h; decide
  logging := by intro s d c h; simp [N1, N0] at h
  read := by intro nu m p c h; simp [N1, N0] at h
  change := by intro nu m p v c h; simp [N1, N0] at h
  exec := by intro nu m p v c h; simp [N1, N0] at h

end Frappy.Props.C07
