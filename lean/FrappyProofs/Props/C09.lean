import FrappyProofs.Lemmas.Klass
/-
C09 — property theorems (nothing but property theorems and their non-vacuity examples).
-/
namespace Frappy.Props.C09
open Frappy.Klass Frappy.Spec.C09

/-- **frame**: every operation writes only to fresh objects (beyond the old heap) or to objects
reachable from its target owner — for every world, every operation. -/
theorem frame (T : Tables) (w : World) (op : Op) (r : Ref) (hr : r < w.heap.length)
    (hnot : r ∉ reach w op.target) : (step T w op).heap[r]? = w.heap[r]? :=
  frame_step T w op r hr hnot

/-- **isolated**: in a world where no instance shares an object with another owner, an operation
changes neither the description nor the validation behaviour (for any validation function of datatypes)
of any owner other than its target: base classes, sibling classes, other instances. -/
theorem isolated (T : Tables) (w : World) (op : Op) (hb : Bounded w) (hs : Separated w)
    (o : Owner) (ho : o ≠ op.target) :
    describeH (step T w op) o = describeH w o ∧
    ∀ {V O : Type} (val : DTree → V → O) (v : V), validateH val (step T w op) o v = validateH val w o v := by
  have hdesc : describeH (step T w op) o = describeH w o := by
    obtain ⟨hacc, _⟩ := records_step T w op o ho
    unfold describeH
    rw [hacc]
    apply List.map_congr_left
    intro nr hnr
    have hroot := accessible_mem_roots hnr
    congr 1
    apply viewAt_congr
    intro x hx
    have hxo : x ∈ reach w o := root_reach hroot hx
    cases op with
    | define d => exact (extends_define T w d).get (hb o x hxo)
    | inst n c cfg => exact (extends_instantiate T w n c cfg).get (hb o x hxo)
    | setprop i p k v => exact frame_step T w _ x (hb o x hxo) (fun hc => hs i o ho x hc hxo)
    | addEnum i p m => exact frame_step T w _ x (hb o x hxo) (fun hc => hs i o ho x hc hxo)
  refine ⟨hdesc, ?_⟩
  intro V O val v
  unfold validateH
  rw [hdesc]

/-- the full preservation statement: every admissible operation keeps `Bounded` and `Separated` -/
def separated_preserved_statement : Prop :=
  ∀ (T : Tables) (w : World) (op : Op), Admissible w op → Bounded w → Separated w →
    Bounded (step T w op) ∧ Separated (step T w op)

/-- proved part of `separated_preserved_statement`: creating an instance (with any configuration) keeps
the invariants — the new instance reaches only objects created for it.  Missing: the same for
`define` (needs: every object a new class reaches is new or belongs to an existing class) and for the two
mutations (they write only inside the target instance: `frame`); these are covered by the correspondence
run (sharing partition after every operation) only. -/
theorem separated_preserved_partial (T : Tables) (w : World) (n c : Name) (cfg : List (Name × PropMap))
    (hadm : Admissible w (.inst n c cfg)) (hb : Bounded w) (hs : Separated w) :
    Bounded (step T w (.inst n c cfg)) ∧ Separated (step T w (.inst n c cfg)) :=
  preserve_instantiate T w n c cfg hadm hb hs

/-- a run all of whose intermediate worlds satisfy the invariants -/
inductive InvRun (T : Tables) : World → List Op → Prop
  | nil (w) : Bounded w → Separated w → InvRun T w []
  | cons (w op ops) : Bounded w → Separated w → InvRun T (step T w op) ops → InvRun T w (op :: ops)

/-- the description of a class is not changed by any sequence of later operations (none of which is the
definition of that class itself): subclasses, siblings, instances, configurations, mutations -/
theorem class_description_stable (T : Tables) (c : Name) (ops : List Op) (w : World) (hrun : InvRun T w ops)
    (hops : ∀ op ∈ ops, op.target ≠ .cls c) : describeH (run T w ops) (.cls c) = describeH w (.cls c) := by
  induction hrun with
  | nil w _ _ => rfl
  | cons w op ops hb hs _ ih =>
    have h1 := (isolated T w op hb hs (.cls c) (fun h => hops op List.mem_cons_self h.symm)).1
    have h2 := ih (fun op' h => hops op' (List.mem_cons_of_mem _ h))
    simp only [run, List.foldl_cons] at h2 ⊢
    rw [h2, h1]

/-- **later_instances_fresh**: an instance created after any sequence of operations on other owners
(mutations of other instances included) shows exactly what an instance of the same class with the same
configuration would have shown before them: the class description, copied, with the configuration applied. -/
theorem later_instances_fresh (T : Tables) (c n : Name) (cfg : List (Name × PropMap)) (ops : List Op) (w : World)
    (hrun : InvRun T w ops) (hops : ∀ op ∈ ops, op.target ≠ .cls c)
    (h1 : w.findInst n = none) (h2 : (run T w ops).findInst n = none) :
    describeH (instantiate T (run T w ops) n c cfg) (.inst n) = describeH (instantiate T w n c cfg) (.inst n) ∧
    describeH (instantiate T (run T w ops) n c cfg) (.inst n) =
      (instViews T (describeH w (.cls c)) cfg).map (fun nv => (nv.1, some nv.2)) := by
  rw [describe_instantiate T _ n c cfg h2, describe_instantiate T w n c cfg h1,
    class_description_stable T c ops w hrun hops]
  exact ⟨rfl, rfl⟩

/-- the full statement: the description of a class in the heap is the same in any two reachable worlds in which
the classes along its MRO were declared alike -/
def order_independent_statement : Prop :=
  ∀ (T : Tables) (ops1 ops2 : List Op) (c : Name),
    (∀ m d, m ∈ (match (run T {} ops1).findClass c with | some r => r.pure.decl.mro | none => []) →
      (Op.define d ∈ ops1 ∧ d.name = m ↔ Op.define d ∈ ops2 ∧ d.name = m)) →
    describeH (run T {} ops1) (.cls c) = describeH (run T {} ops2) (.cls c)

/-- proved part of `order_independent_statement`, at value level: what `__init_subclass__` computes for a
class (all its accessibles with their merged properties and datatypes, `ClassRec.pure`) is the same whether
or not an unrelated class `d2` (not on its MRO) was defined first — it is a function of the classes along
its own MRO and its own declarations.  Missing: that the heap layout shows exactly these values
(`describeH` = views of `pure`), which is covered by the correspondence run only. -/
theorem order_independent_partial (T : Tables) (w : World) (d1 d2 : ClassDecl)
    (hne : d1.name ≠ d2.name) (hmro : d2.name ∉ d1.mro.tail) (hnew : w.findClass d1.name = none) :
    ((defineClass T (defineClass T w d2) d1).findClass d1.name).map (·.pure) =
      ((defineClass T w d1).findClass d1.name).map (·.pure) := by
  have hd2 : (pureDefine T (chainOf w d2) d2).decl.name = d2.name := by rw [pureDefine_decl]
  have hchain : chainOf (defineClass T w d2) d1 = chainOf w d1 :=
    chainOf_layout w _ d1 (by rw [hd2]; exact hmro)
  have hnew2 : (defineClass T w d2).findClass d1.name = none := by
    unfold defineClass
    rw [findClass_layout_ne w _ d1.name (by rw [hd2]; exact hne)]
    exact hnew
  have key : ∀ (w' : World), w'.findClass d1.name = none →
      ((defineClass T w' d1).findClass d1.name).map (·.pure) = some (pureDefine T (chainOf w' d1) d1) := by
    intro w' h'
    have hn : (pureDefine T (chainOf w' d1) d1).decl.name = d1.name := by rw [pureDefine_decl]
    unfold defineClass
    have := findClass_layout_new w' (pureDefine T (chainOf w' d1) d1) (by rw [hn]; exact h')
    rw [hn] at this
    rw [this]
    rfl
  rw [key _ hnew2, key _ hnew, hchain]

/-! ## non-vacuity -/

/-- the empty world satisfies the invariants -/
example : Bounded ({} : World) ∧ Separated ({} : World) := by
  constructor
  · intro o r hr
    cases o <;> simp [reach, World.roots, World.findClass, World.findInst] at hr
  · intro i o _ r hr
    simp [reach, World.roots, World.findInst] at hr

/-- a run with two instantiations from the empty world is an `InvRun` (hypothesis of `later_instances_fresh`
and `class_description_stable`), for any tables -/
example (T : Tables) : InvRun T {} [.inst "a" "C" [], .inst "b" "C" [("p", [("max", "3")])]] := by
  have h0 : Bounded ({} : World) ∧ Separated ({} : World) := by
    constructor
    · intro o r hr
      cases o <;> simp [reach, World.roots, World.findClass, World.findInst] at hr
    · intro i o _ r hr
      simp [reach, World.roots, World.findInst] at hr
  have h1 := separated_preserved_partial T {} "a" "C" [] (by simp [Admissible, World.findInst]) h0.1 h0.2
  have h2 := separated_preserved_partial T _ "b" "C" [("p", [("max", "3")])]
    (by simp [Admissible, World.findInst, step, instantiate]) h1.1 h1.2
  exact .cons _ _ _ h0.1 h0.2 (.cons _ _ _ h1.1 h1.2 (.nil _ h2.1 h2.2))

end Frappy.Props.C09
