import FrappyProofs.Lemmas.Klass
/-
C09 — property theorems (nothing but property theorems and their non-vacuity examples).
-/
namespace Frappy.Props.C09
open Frappy.Klass Frappy.Spec.C09

/-- **frame**: every operation writes only to fresh objects (beyond the old heap) or to objects
reachable from its target owner — for every world, every operation. -/
theorem frame (T : Tables) (w : World) (op : Op) (r : Ref) (hr : r < w.heap.length)
    (hnot : r ∉ reach w op.target) : (step T w op).heap[r]? = w.heap[r]? :=
  frame_step T w op r hr hnot

/-- **isolated**: in a world where no instance shares an object with another owner, an operation
changes neither the description nor the validation behaviour (for any validation function of datatypes)
of any owner other than its target: base classes, sibling classes, other instances. -/
theorem isolated (T : Tables) (w : World) (op : Op) (hb : Bounded w) (hs : Separated w)
    (o : Owner) (ho : o ≠ op.target) :
    describeH (step T w op) o = describeH w o ∧
    ∀ {V O : Type} (val : DTree → V → O) (v : V), validateH val (step T w op) o v = validateH val w o v := by
  have hdesc : describeH (step T w op) o = describeH w o := by
    obtain ⟨hacc, _⟩ := records_step T w op o ho
    unfold describeH
    rw [hacc]
    apply List.map_congr_left
    intro nr hnr
    have hroot := accessible_mem_roots hnr
    congr 1
    apply viewAt_congr
    intro x hx
    have hxo : x ∈ reach w o := root_reach hroot hx
    cases op with
    | define d => exact (extends_define T w d).get (hb o x hxo)
    | inst n c cfg => exact (extends_instantiate T w n c cfg).get (hb o x hxo)
    | setprop i p k v => exact frame_step T w _ x (hb o x hxo) (fun hc => hs i o ho x hc hxo)
    | addEnum i p m => exact frame_step T w _ x (hb o x hxo) (fun hc => hs i o ho x hc hxo)
  refine ⟨hdesc, ?_⟩
  intro V O val v
  unfold validateH
  rw [hdesc]

end Frappy.Props.C09
