import FrappyProofs.Lemmas.KlassViews
import FrappyProofs.Lemmas.KlassSession
/-
C09 — property theorems (nothing but property theorems and their non-vacuity examples).
-/
namespace Frappy.Props.C09
open Frappy.Klass Frappy.Spec.C09

/-- **frame**: every operation writes only to fresh objects (beyond the old heap) or to objects
reachable from its target owner — for every world, every operation. -/
theorem frame (T : Tables) (w : World) (op : Op) (r : Ref) (hr : r < w.heap.length)
    (hnot : r ∉ reach w op.target) : (step T w op).heap[r]? = w.heap[r]? :=
  frame_step T w op r hr hnot

/-- **isolated**: in a world where no instance shares an object with another owner, an operation
changes neither the description nor the validation behaviour (for any validation function of datatypes)
of any owner other than its target: base classes, sibling classes, other instances. -/
theorem isolated (T : Tables) (w : World) (op : Op) (hb : Bounded w) (hs : Separated w)
    (o : Owner) (ho : o ≠ op.target) :
    describeH (step T w op) o = describeH w o ∧
    ∀ {V O : Type} (val : DTree → V → O) (v : V), validateH val (step T w op) o v = validateH val w o v := by
  have hdesc : describeH (step T w op) o = describeH w o := by
    obtain ⟨hacc, _⟩ := records_step T w op o ho
    unfold describeH
    rw [hacc]
    apply List.map_congr_left
    intro nr hnr
    have hroot := accessible_mem_roots hnr
    congr 1
    apply viewAt_congr
    intro x hx
    have hxo : x ∈ reach w o := root_reach hroot hx
    cases op with
    | define d => exact (extends_define T w d).get (hb o x hxo)
    | inst n c cfg => exact (extends_instantiate T w n c cfg).get (hb o x hxo)
    | setprop i p pa k v => exact frame_step T w _ x (hb o x hxo) (fun hc => hs i o ho x hc hxo)
    | addEnum i p m => exact frame_step T w _ x (hb o x hxo) (fun hc => hs i o ho x hc hxo)
  refine ⟨hdesc, ?_⟩
  intro V O val v
  unfold validateH
  rw [hdesc]

/-- **separated_preserved**: every admissible operation — class definition (accessibles and module properties),
instantiation with any configuration, `setProperty` on a parameter of an instance or on a member datatype of its
datatype at any path, replacement of an enum datatype — keeps the invariants: no
object reachable from an instance is reachable from any other owner, all references point into the heap. -/
theorem separated_preserved (T : Tables) (w : World) (op : Op) (hadm : Admissible w op) (hb : Bounded w)
    (hs : Separated w) : Bounded (step T w op) ∧ Separated (step T w op) := by
  cases op with
  | define d => exact preserve_define T w d hadm hb hs
  | inst n c cfg => exact preserve_instantiate T w n c cfg hadm hb hs
  | setprop i p pa k v => exact preserve_setprop T w i p pa k v hb hs
  | addEnum i p m => exact preserve_addEnum T w i p m hb hs

/-- a run all of whose intermediate worlds satisfy the invariants -/
inductive InvRun (T : Tables) : World → List Op → Prop
  | nil (w) : Bounded w → Separated w → InvRun T w []
  | cons (w op ops) : Bounded w → Separated w → InvRun T (step T w op) ops → InvRun T w (op :: ops)

/-- every admissible run from a world satisfying the invariants is an `InvRun` — in particular every
admissible run from the empty world -/
theorem invRun_of_admissible (T : Tables) (ops : List Op) (w : World) (hb : Bounded w) (hs : Separated w)
    (hrun : AdmissibleRun T w ops) : InvRun T w ops := by
  induction ops generalizing w with
  | nil => exact .nil w hb hs
  | cons op ops ih =>
    have h := separated_preserved T w op hrun.1 hb hs
    exact .cons w op ops hb hs (ih _ h.1 h.2 hrun.2)

theorem empty_world_ok : Bounded ({} : World) ∧ Separated ({} : World) := by
  constructor
  · intro o r hr
    cases o <;> simp [reach, World.roots, World.findClass, World.findInst] at hr
  · intro i o _ r hr
    simp [reach, World.roots, World.findInst] at hr

/-- **isolated**, for whole programs: after any admissible run from the empty world, one more operation
changes neither description nor validation behaviour of any owner other than its target. -/
theorem isolated_reachable (T : Tables) (ops : List Op) (hrun : AdmissibleRun T {} ops) (op : Op)
    (o : Owner) (ho : o ≠ op.target) :
    describeH (step T (run T {} ops) op) o = describeH (run T {} ops) o := by
  have key : ∀ (ops : List Op) (w : World), InvRun T w ops → Bounded (run T w ops) ∧ Separated (run T w ops) := by
    intro ops w h
    induction h with
    | nil w hb hs => exact ⟨hb, hs⟩
    | cons w op ops _ _ _ ih => simpa [run] using ih
  have h := key ops {} (invRun_of_admissible T ops {} empty_world_ok.1 empty_world_ok.2 hrun)
  exact (isolated T _ op h.1 h.2 o ho).1

/-- the description of a class is not changed by any sequence of later operations (none of which is the
definition of that class itself): subclasses, siblings, instances, configurations, mutations -/
theorem class_description_stable (T : Tables) (c : Name) (ops : List Op) (w : World) (hrun : InvRun T w ops)
    (hops : ∀ op ∈ ops, op.target ≠ .cls c) : describeH (run T w ops) (.cls c) = describeH w (.cls c) := by
  induction hrun with
  | nil w _ _ => rfl
  | cons w op ops hb hs _ ih =>
    have h1 := (isolated T w op hb hs (.cls c) (fun h => hops op List.mem_cons_self h.symm)).1
    have h2 := ih (fun op' h => hops op' (List.mem_cons_of_mem _ h))
    simp only [run, List.foldl_cons] at h2 ⊢
    rw [h2, h1]

/-- **later_instances_fresh**: an instance created after any admissible sequence of operations on other
owners (definitions of other classes, other instances, mutations of other instances) shows exactly what an
instance of the same class with the same configuration would have shown before them: the class description,
copied, with the configuration applied. -/
theorem later_instances_fresh (T : Tables) (c n : Name) (cfg : List (Name × PropMap)) (ops : List Op) (w : World)
    (hb : Bounded w) (hs : Separated w) (hrun : AdmissibleRun T w ops) (hops : ∀ op ∈ ops, op.target ≠ .cls c)
    (h1 : w.findInst n = none) (h2 : (run T w ops).findInst n = none) :
    describeH (instantiate T (run T w ops) n c cfg) (.inst n) = describeH (instantiate T w n c cfg) (.inst n) ∧
    describeH (instantiate T (run T w ops) n c cfg) (.inst n) =
      (instViews T (describeH w (.cls c)) cfg).map (fun nv => (nv.1, some nv.2)) := by
  rw [describe_instantiate T _ n c cfg h2, describe_instantiate T w n c cfg h1,
    class_description_stable T c ops w (invRun_of_admissible T ops w hb hs hrun) hops]
  exact ⟨rfl, rfl⟩

/-! ## module-level properties (`group`, `visibility`, custom `Property(...)`, …) -/

/-- **isolated**, module-level part: an admissible operation changes the module properties (the Property objects a
class is described with, the property values of an instance) of no owner other than its target — defining a subclass
that overrides a property by a bare value (on any level) or by a new `Property`, instantiating with configured
property values.  (`hcls`: the class of an instance exists, as in Python.) -/
theorem isolated_mprops (T : Tables) (w : World) (op : Op) (hadm : Admissible w op) (hb : Bounded w) (hs : Separated w)
    (o : Owner) (ho : o ≠ op.target)
    (hcls : ∀ i ir, o = .inst i → w.findInst i = some ir → w.findClass ir.cls ≠ none) :
    describeM (step T w op) o = describeM w o := by
  cases o with
  | cls n =>
    simp only [describeM, findClass_step_ne T w op n ho]
    cases hc : w.findClass n with
    | none => rfl
    | some cr => exact propDict_views_step T w op hb hs hc (fun _ => none)
  | inst m =>
    simp only [describeM, findInst_step_ne T w op m ho]
    cases hi : w.findInst m with
    | none => rfl
    | some ir =>
      have hex := hcls m ir rfl hi
      have hfc : (step T w op).findClass ir.cls = w.findClass ir.cls := by
        apply findClass_step_ne
        intro h
        cases op with
        | define d =>
          simp only [Op.target, Owner.cls.injEq] at h
          exact hex (h ▸ hadm)
        | inst n c cfg => simp [Op.target] at h
        | setprop i p pa k v => simp [Op.target] at h
        | addEnum i p m' => simp [Op.target] at h
      simp only [hfc]
      cases hc : w.findClass ir.cls with
      | none => rfl
      | some cr => exact propDict_views_step T w op hb hs hc (fun n => aget? ir.mvals n)

/-- the module properties of a class are not changed by any admissible sequence of later operations (none of which
is the definition of that class itself): subclasses overriding them on any level, siblings, instances, mutations -/
theorem class_mprops_stable (T : Tables) (c : Name) (ops : List Op) (w : World) (hb : Bounded w) (hs : Separated w)
    (hrun : AdmissibleRun T w ops) (hops : ∀ op ∈ ops, op.target ≠ .cls c) :
    describeM (run T w ops) (.cls c) = describeM w (.cls c) := by
  induction ops generalizing w with
  | nil => rfl
  | cons op ops ih =>
    have h1 := isolated_mprops T w op hrun.1 hb hs (.cls c) (fun h => hops op List.mem_cons_self h.symm)
      (fun i ir h => by cases h)
    have hp := separated_preserved T w op hrun.1 hb hs
    have h2 := ih (step T w op) hp.1 hp.2 hrun.2 (fun op' h => hops op' (List.mem_cons_of_mem _ h))
    simp only [run, List.foldl_cons] at h2 ⊢
    rw [h2, h1]

/-- what a new instance shows of its module properties: the Property objects of its class, with the values they
carry overridden by the configured ones — a function of the class and the configuration only -/
theorem describeM_instantiate (T : Tables) (w : World) (n c : Name) (cfg : List (Name × PropMap)) (hb : Bounded w)
    (hadm : w.findInst n = none) :
    describeM (instantiate T w n c cfg) (.inst n) =
      (describeM w (.cls c)).map (fun nv => (nv.1, ⟨nv.2.prop, aget? (instMVals (describeM w (.cls c)) cfg) nv.1⟩)) := by
  have hfind : (instantiate T w n c cfg).findInst n =
      some ⟨n, c, ((instViews T (describeH w (.cls c)) cfg).foldl allocView (w.heap, [])).2,
        instMVals (describeM w (.cls c)) cfg⟩ := by
    unfold World.findInst instantiate
    exact find?_append_new _ _ _ hadm (by simp)
  simp only [describeM, hfind, findClass_instantiate]
  cases hc : w.findClass c with
  | none => rfl
  | some cr =>
    simp only [List.map_map]
    apply List.map_congr_left
    intro nr hnr
    have hlt := hb (.cls c) nr.2 (root_reach (propDict_root hc hnr) (self_mem_reachAcc _ _))
    simp only [Function.comp]
    rw [propAt_congr ((extends_instantiate T w n c cfg).get hlt)]

/-- **later_instances_fresh**, module-level part: an instance created after any admissible sequence of operations on
other owners shows the module properties an instance of the same class with the same configuration would have shown
before them. -/
theorem later_instances_mprops (T : Tables) (c n : Name) (cfg : List (Name × PropMap)) (ops : List Op) (w : World)
    (hb : Bounded w) (hs : Separated w) (hrun : AdmissibleRun T w ops) (hops : ∀ op ∈ ops, op.target ≠ .cls c)
    (h1 : w.findInst n = none) (h2 : (run T w ops).findInst n = none) :
    describeM (instantiate T (run T w ops) n c cfg) (.inst n) = describeM (instantiate T w n c cfg) (.inst n) := by
  have hb' : Bounded (run T w ops) := by
    have key : ∀ (ops : List Op) (w : World), InvRun T w ops → Bounded (run T w ops) := by
      intro ops w h
      induction h with
      | nil w hb _ => exact hb
      | cons w op ops _ _ _ ih => simpa [run] using ih
    exact key ops w (invRun_of_admissible T ops w hb hs hrun)
  rw [describeM_instantiate T _ n c cfg hb' h2, describeM_instantiate T w n c cfg hb h1,
    class_mprops_stable T c ops w hb hs hrun hops]

/-- the full statement: in any two programs that define their classes with the same bodies (`env`), each in an
order consistent with inheritance, a class defined by both has the same description in the heap -/
def order_independent_statement : Prop :=
  ∀ (T : Tables) (env : Name → Option ClassDecl) (ops1 ops2 : List Op),
    AdmissibleRun T {} ops1 → ConsistentRun T env {} ops1 → AdmissibleRun T {} ops2 → ConsistentRun T env {} ops2 →
    ∀ n, (run T {} ops1).findClass n ≠ none → (run T {} ops2).findClass n ≠ none →
      describeH (run T {} ops1) (.cls n) = describeH (run T {} ops2) (.cls n)

/-- the value-level half of order independence, for whole programs: what `__init_subclass__` computed for a class (all
accessibles with merged properties, datatypes, export names, order, and `propertyDict` — every module property with its
value, default, external name, export flag and the class whose `__dict__` holds the Property object: `ClassRec.pure`, the
value the heap layout is made from) is `pureOf env` — a function of the class bodies along its MRO only — whatever else
was defined or instantiated or mutated, in whatever order consistent with inheritance.  Hence any two such programs
agree on it.  (The name is historical: the full statement is `order_independent` below, which needs in addition that
the heap layout shows a function of this value and of what the classes along the MRO show: `vInv_run`.) -/
theorem order_independent_partial (T : Tables) (env : Name → Option ClassDecl) (ops1 ops2 : List Op)
    (ha1 : AdmissibleRun T {} ops1) (hc1 : ConsistentRun T env {} ops1)
    (ha2 : AdmissibleRun T {} ops2) (hc2 : ConsistentRun T env {} ops2)
    (n : Name) (cr1 cr2 : ClassRec) (h1 : (run T {} ops1).findClass n = some cr1)
    (h2 : (run T {} ops2).findClass n = some cr2) :
    cr1.pure = cr2.pure ∧ ∃ f, pureOf T env f n = some cr1.pure := by
  have hempty : PureInv T env {} := fun m cr h => by simp [World.findClass] at h
  obtain ⟨f1, hf1⟩ := pureInv_run T env ops1 {} ha1 hc1 hempty n cr1 h1
  obtain ⟨f2, hf2⟩ := pureInv_run T env ops2 {} ha2 hc2 hempty n cr2 h2
  have e1 := hf1 (max f1 f2) (Nat.le_max_left _ _)
  have e2 := hf2 (max f1 f2) (Nat.le_max_right _ _)
  rw [e1] at e2
  exact ⟨Option.some.inj e2, _, e1⟩

/-- every class of an admissible, inheritance-consistent program shows in the heap what `viewsOf env` says -/
theorem vInv_run (T : Tables) (env : Name → Option ClassDecl) (ops : List Op) (w : World) (hb : Bounded w)
    (hs : Separated w) (hadm : AdmissibleRun T w ops) (hcons : ConsistentRun T env w ops) (hp : PureInv T env w)
    (hv : VInv T env w) : VInv T env (run T w ops) := by
  induction ops generalizing w with
  | nil => exact hv
  | cons op ops ih =>
    have hsp := separated_preserved T w op hadm.1 hb hs
    simp only [run, List.foldl_cons]
    exact ih (step T w op) hsp.1 hsp.2 hadm.2 hcons.2 (pureInv_step T env w op hadm.1 hcons.1 hp)
      (vInv_step T env w op hadm.1 hcons.1 hb hs hp hv)

/-- **order independence (full)** — "a module's description is a function of its own class chain … only, independent
of which other classes were defined or modules created before or after it": in any two programs that define their
classes with the same bodies (`env`), each in an order consistent with inheritance, whatever else they define,
instantiate, configure or mutate in between, a class defined by both has the same description in the heap — namely
`(viewsOf T env f n).accessibles`, a function of the class bodies along its MRO. -/
theorem order_independent : order_independent_statement := by
  intro T env ops1 ops2 ha1 hc1 ha2 hc2 n h1 h2
  have hpe : PureInv T env {} := fun m cr h => by simp [World.findClass] at h
  have hve : VInv T env {} := fun m cr h => by simp [World.findClass] at h
  have hv1 := vInv_run T env ops1 {} empty_world_ok.1 empty_world_ok.2 ha1 hc1 hpe hve
  have hv2 := vInv_run T env ops2 {} empty_world_ok.1 empty_world_ok.2 ha2 hc2 hpe hve
  cases hf1 : (run T {} ops1).findClass n with
  | none => exact absurd hf1 h1
  | some cr1 =>
    cases hf2 : (run T {} ops2).findClass n with
    | none => exact absurd hf2 h2
    | some cr2 =>
      obtain ⟨V1, hs1, F1, hF1⟩ := hv1 n cr1 hf1
      obtain ⟨V2, hs2, F2, hF2⟩ := hv2 n cr2 hf2
      have e1 := hF1 (max F1 F2) (Nat.le_max_left _ _)
      have e2 := hF2 (max F1 F2) (Nat.le_max_right _ _)
      rw [e1] at e2
      cases e2
      simp only [describeH, World.accessiblesOf, hf1, hf2]
      rw [hs1.accessibles, hs2.accessibles]

/-- the heap shows of the module properties of every class exactly what was computed at value level, after every
admissible program whose class bodies are Python dicts -/
theorem mInv_run (T : Tables) (ops : List Op) (w : World) (hb : Bounded w) (hs : Separated w)
    (hrun : AdmissibleRun T w ops) (hwf : ∀ op ∈ ops, WellFormed op) (h : MInv w) : MInv (run T w ops) := by
  induction ops generalizing w with
  | nil => exact h
  | cons op ops ih =>
    have hp := separated_preserved T w op hrun.1 hb hs
    simp only [run, List.foldl_cons]
    exact ih (step T w op) hp.1 hp.2 hrun.2 (fun op' h' => hwf op' (List.mem_cons_of_mem _ h'))
      (mInv_step T w op hrun.1 (hwf op List.mem_cons_self) hb hs h)

/-- **faithfulness of the heap layout, module-level part**: after any admissible program, what a class shows of its
module properties (`describeM`: the Property objects its `propertyDict` points to, as they are in the heap) is exactly
`ClassRec.pure.props`, the value computed by `HasProperties.__init_subclass__` at value level -/
theorem class_mprops_faithful (T : Tables) (ops : List Op) (hrun : AdmissibleRun T {} ops)
    (hwf : ∀ op ∈ ops, WellFormed op) (n : Name) (cr : ClassRec) (h : (run T {} ops).findClass n = some cr) :
    describeM (run T {} ops) (.cls n) = cr.pure.props.map (fun ks => (ks.1, ⟨some ks.2.val, none⟩)) := by
  have hempty : MInv {} := fun c cr h => by simp [World.findClass] at h
  have hinv := mInv_run T ops {} empty_world_ok.1 empty_world_ok.2 hrun hwf hempty n cr h
  simp only [describeM, h]
  have := congrArg (List.map (fun kv : Name × Option PropV => (kv.1, (⟨kv.2, none⟩ : MView)))) hinv.2.2
  rw [List.map_map, List.map_map] at this
  exact this

/-- **order independence, module-level part (full)**: in any two programs that define their classes with the same
bodies (`env`), each in an order consistent with inheritance — whatever else they define, instantiate, configure or
mutate in between — a class defined by both shows the same module properties in the heap: a function of its own class
chain only -/
theorem order_independent_mprops (T : Tables) (env : Name → Option ClassDecl) (ops1 ops2 : List Op)
    (ha1 : AdmissibleRun T {} ops1) (hc1 : ConsistentRun T env {} ops1) (hw1 : ∀ op ∈ ops1, WellFormed op)
    (ha2 : AdmissibleRun T {} ops2) (hc2 : ConsistentRun T env {} ops2) (hw2 : ∀ op ∈ ops2, WellFormed op)
    (n : Name) (h1 : (run T {} ops1).findClass n ≠ none) (h2 : (run T {} ops2).findClass n ≠ none) :
    describeM (run T {} ops1) (.cls n) = describeM (run T {} ops2) (.cls n) := by
  cases hf1 : (run T {} ops1).findClass n with
  | none => exact absurd hf1 h1
  | some cr1 =>
    cases hf2 : (run T {} ops2).findClass n with
    | none => exact absurd hf2 h2
    | some cr2 =>
      rw [class_mprops_faithful T ops1 ha1 hw1 n cr1 hf1, class_mprops_faithful T ops2 ha2 hw2 n cr2 hf2,
        (order_independent_partial T env ops1 ops2 ha1 hc1 ha2 hc2 n cr1 cr2 hf1 hf2).1]

/-! ### instances: the module-level description is a function of the class chain and the configuration -/

theorem run_append (T : Tables) (w : World) (a b : List Op) : run T w (a ++ b) = run T (run T w a) b := by
  simp [run, List.foldl_append]

theorem run_cons (T : Tables) (w : World) (op : Op) (ops : List Op) : run T w (op :: ops) = run T (step T w op) ops := rfl

theorem admissibleRun_append (T : Tables) (a b : List Op) (w : World) (h : AdmissibleRun T w (a ++ b)) :
    AdmissibleRun T w a ∧ AdmissibleRun T (run T w a) b := by
  induction a generalizing w with
  | nil => exact ⟨trivial, h⟩
  | cons op a ih =>
    obtain ⟨h1, h2⟩ := ih (step T w op) h.2
    exact ⟨⟨h.1, h1⟩, by simpa [run] using h2⟩

/-- a class that exists is not touched by any admissible operation -/
theorem findClass_persist (T : Tables) (w : World) (op : Op) (hadm : Admissible w op) (c : Name)
    (hc : w.findClass c ≠ none) : (step T w op).findClass c = w.findClass c := by
  apply findClass_step_ne
  intro h
  cases op with
  | define d =>
    simp only [Op.target, Owner.cls.injEq] at h
    exact hc (h ▸ hadm)
  | inst n c' cfg => simp [Op.target] at h
  | setprop i p pa k v => simp [Op.target] at h
  | addEnum i p m' => simp [Op.target] at h

/-- the module properties of an instance are not changed by any admissible sequence of operations on other owners -/
theorem inst_mprops_stable (T : Tables) (n : Name) (ops : List Op) (w : World) (hb : Bounded w) (hs : Separated w)
    (hrun : AdmissibleRun T w ops) (hops : ∀ op ∈ ops, op.target ≠ .inst n)
    (hex : ∀ ir, w.findInst n = some ir → w.findClass ir.cls ≠ none) :
    describeM (run T w ops) (.inst n) = describeM w (.inst n) := by
  induction ops generalizing w with
  | nil => rfl
  | cons op ops ih =>
    have hne : Owner.inst n ≠ op.target := fun h => hops op List.mem_cons_self h.symm
    have h1 := isolated_mprops T w op hrun.1 hb hs (.inst n) hne
      (fun i ir hi hf => by cases hi; exact hex ir hf)
    have hp := separated_preserved T w op hrun.1 hb hs
    have hex' : ∀ ir, (step T w op).findInst n = some ir → (step T w op).findClass ir.cls ≠ none := by
      intro ir hf
      rw [findInst_step_ne T w op n hne] at hf
      rw [findClass_persist T w op hrun.1 ir.cls (hex ir hf)]
      exact hex ir hf
    have h2 := ih (step T w op) hp.1 hp.2 hrun.2 (fun op' h => hops op' (List.mem_cons_of_mem _ h)) hex'
    simp only [run, List.foldl_cons] at h2 ⊢
    rw [h2, h1]

/-- the invariants hold after every admissible program -/
theorem invariants_reachable (T : Tables) (ops : List Op) (hrun : AdmissibleRun T {} ops) :
    Bounded (run T {} ops) ∧ Separated (run T {} ops) := by
  have key : ∀ (ops : List Op) (w : World), InvRun T w ops → Bounded (run T w ops) ∧ Separated (run T w ops) := by
    intro ops w h
    induction h with
    | nil w hb hs => exact ⟨hb, hs⟩
    | cons w op ops _ _ _ ih => simpa [run] using ih
  exact key ops {} (invRun_of_admissible T ops {} empty_world_ok.1 empty_world_ok.2 hrun)

/-- the description of an instance is not changed by any sequence of operations on other owners: other instances of
its class with other configurations, their mutations, new classes -/
theorem inst_description_stable (T : Tables) (n : Name) (ops : List Op) (w : World) (hrun : InvRun T w ops)
    (hops : ∀ op ∈ ops, op.target ≠ .inst n) : describeH (run T w ops) (.inst n) = describeH w (.inst n) := by
  induction hrun with
  | nil w _ _ => rfl
  | cons w op ops hb hs _ ih =>
    have h1 := (isolated T w op hb hs (.inst n) (fun h => hops op List.mem_cons_self h.symm)).1
    have h2 := ih (fun op' h => hops op' (List.mem_cons_of_mem _ h))
    simp only [run, List.foldl_cons] at h2 ⊢
    rw [h2, h1]

/-- an admissible operation never targets a class that exists (Python would rebind the name: a new class) -/
theorem target_ne_existing_class {w : World} {op : Op} {c : Name} (hadm : Admissible w op) (hc : w.findClass c ≠ none) :
    op.target ≠ .cls c := by
  cases op with
  | define d =>
    intro h
    simp only [Op.target, Owner.cls.injEq] at h
    exact hc (h ▸ hadm)
  | inst n c' cfg => simp [Op.target]
  | setprop i p pa k v => simp [Op.target]
  | addEnum i p m' => simp [Op.target]

/-- **once defined, a class never changes**: neither its description (accessibles with their datatypes) nor its module
properties, whatever admissible operations follow — subclasses overriding anything on any level, sibling classes, mixin
users, instances with any configuration, run-time mutations of instances -/
theorem class_never_changes (T : Tables) (c : Name) (ops : List Op) (w : World) (hb : Bounded w) (hs : Separated w)
    (hrun : AdmissibleRun T w ops) (hc : w.findClass c ≠ none) :
    describeH (run T w ops) (.cls c) = describeH w (.cls c) ∧ describeM (run T w ops) (.cls c) = describeM w (.cls c) := by
  induction ops generalizing w with
  | nil => exact ⟨rfl, rfl⟩
  | cons op ops ih =>
    have hne : Owner.cls c ≠ op.target := fun h => target_ne_existing_class hrun.1 hc h.symm
    have h1 := (isolated T w op hb hs (.cls c) hne).1
    have h1m := isolated_mprops T w op hrun.1 hb hs (.cls c) hne (fun i ir h => by cases h)
    have hp := separated_preserved T w op hrun.1 hb hs
    have hc' : (step T w op).findClass c ≠ none := by rw [findClass_persist T w op hrun.1 c hc]; exact hc
    obtain ⟨h2, h2m⟩ := ih (step T w op) hp.1 hp.2 hrun.2 hc'
    simp only [run, List.foldl_cons] at h2 h2m ⊢
    exact ⟨by rw [h2, h1], by rw [h2m, h1m]⟩

/-- the two run-time mutations change the module properties of nobody, their target included -/
theorem mutation_keeps_mprops (T : Tables) (w : World) (op : Op) (hb : Bounded w) (hs : Separated w)
    (hmut : (∃ i p pa k v, op = .setprop i p pa k v) ∨ ∃ i p m, op = .addEnum i p m) (o : Owner) :
    describeM (step T w op) o = describeM w o := by
  have hrec := records_mutation T w op hmut
  cases o with
  | cls n =>
    simp only [describeM, World.findClass, hrec.1]
    cases hc : w.classes.find? (fun c => c.pure.decl.name == n) with
    | none => rfl
    | some cr => exact propDict_views_step T w op hb hs (c := n) hc (fun _ => none)
  | inst m =>
    simp only [describeM, World.findClass, World.findInst, hrec.1, hrec.2]
    cases hi : w.insts.find? (fun i => i.name == m) with
    | none => rfl
    | some ir =>
      simp only
      cases hc : w.classes.find? (fun c => c.pure.decl.name == ir.cls) with
      | none => rfl
      | some cr => exact propDict_views_step T w op hb hs (c := ir.cls) hc (fun n => aget? ir.mvals n)

/-- **once created, an instance keeps its module properties**, whatever admissible operations follow (its own run-time
mutations included) -/
theorem inst_never_changes_mprops (T : Tables) (n : Name) (ops : List Op) (w : World) (hb : Bounded w) (hs : Separated w)
    (hrun : AdmissibleRun T w ops) (ir : InstRec) (hi : w.findInst n = some ir) (hex : w.findClass ir.cls ≠ none) :
    describeM (run T w ops) (.inst n) = describeM w (.inst n) := by
  induction ops generalizing w with
  | nil => rfl
  | cons op ops ih =>
    have hp := separated_preserved T w op hrun.1 hb hs
    have hstep : describeM (step T w op) (.inst n) = describeM w (.inst n) ∧ (step T w op).findInst n = some ir := by
      cases op with
      | define d =>
        have hne : Owner.inst n ≠ (Op.define d).target := by simp [Op.target]
        exact ⟨isolated_mprops T w _ hrun.1 hb hs (.inst n) hne (fun i ir' h hf => by
          cases h; rw [hi] at hf; cases hf; exact hex), by rw [findInst_step_ne T w _ n hne]; exact hi⟩
      | inst n' c cfg =>
        have hnn : n ≠ n' := fun e => by
          have h0 : w.findInst n' = none := hrun.1
          rw [← e, hi] at h0; cases h0
        have hne : Owner.inst n ≠ (Op.inst n' c cfg).target := by simp [Op.target, hnn]
        exact ⟨isolated_mprops T w _ hrun.1 hb hs (.inst n) hne (fun i ir' h hf => by
          cases h; rw [hi] at hf; cases hf; exact hex), by rw [findInst_step_ne T w _ n hne]; exact hi⟩
      | setprop i p pa k v =>
        have hm : (∃ i' p' pa' k' v', Op.setprop i p pa k v = .setprop i' p' pa' k' v') ∨
            ∃ i' p' m', Op.setprop i p pa k v = .addEnum i' p' m' := Or.inl ⟨i, p, pa, k, v, rfl⟩
        exact ⟨mutation_keeps_mprops T w _ hb hs hm _, by
          simp only [World.findInst, (records_mutation T w _ hm).2]; exact hi⟩
      | addEnum i p m =>
        have hm : (∃ i' p' pa' k' v', Op.addEnum i p m = .setprop i' p' pa' k' v') ∨
            ∃ i' p' m', Op.addEnum i p m = .addEnum i' p' m' := Or.inr ⟨i, p, m, rfl⟩
        exact ⟨mutation_keeps_mprops T w _ hb hs hm _, by
          simp only [World.findInst, (records_mutation T w _ hm).2]; exact hi⟩
    have hex' : (step T w op).findClass ir.cls ≠ none := by rw [findClass_persist T w op hrun.1 ir.cls hex]; exact hex
    have h2 := ih (step T w op) hp.1 hp.2 hrun.2 hstep.2 hex'
    simp only [run, List.foldl_cons] at h2 ⊢
    rw [h2, hstep.1]

/-- **a module's description is a function of its own class chain and its own configuration only** (accessibles):
in any admissible program that defines its classes consistently with `env`, creates the instance `n` of class `c` with
configuration `cfg` at some point and afterwards operates on other owners only, the instance shows `instViews` of what
`viewsOf env` says about `c` (a function of the class bodies along the MRO of `c`) and of `cfg`. -/
theorem inst_description_function (T : Tables) (env : Name → Option ClassDecl) (pre post : List Op) (n c : Name)
    (cfg : List (Name × PropMap)) (hrun : AdmissibleRun T {} (pre ++ Op.inst n c cfg :: post))
    (hcons : ConsistentRun T env {} pre) (cr : ClassRec) (hc : (run T {} pre).findClass c = some cr)
    (hpost : ∀ op ∈ post, op.target ≠ .inst n) :
    ∃ V F, (∀ f, F ≤ f → viewsOf T env f c = some V) ∧
      describeH (run T {} (pre ++ Op.inst n c cfg :: post)) (.inst n) =
        (instViews T V.accessibles cfg).map (fun nv => (nv.1, some nv.2)) := by
  obtain ⟨hpre, hrest⟩ := admissibleRun_append T pre _ {} hrun
  have hpe : PureInv T env {} := fun m cr h => by simp [World.findClass] at h
  have hve : VInv T env {} := fun m cr h => by simp [World.findClass] at h
  obtain ⟨V, hs, F, hF⟩ := vInv_run T env pre {} empty_world_ok.1 empty_world_ok.2 hpre hcons hpe hve c cr hc
  have hinv := invariants_reachable T pre hpre
  have hnone : (run T {} pre).findInst n = none := hrest.1
  have hp := separated_preserved T (run T {} pre) (.inst n c cfg) hrest.1 hinv.1 hinv.2
  refine ⟨V, F, hF, ?_⟩
  rw [run_append, run_cons,
    inst_description_stable T n post _ (invRun_of_admissible T post _ hp.1 hp.2 hrest.2) hpost]
  show describeH (instantiate T (run T {} pre) n c cfg) (.inst n) = _
  rw [describe_instantiate T _ n c cfg hnone]
  have hcls : describeH (run T {} pre) (.cls c) = V.accessibles := by
    simp only [describeH, World.accessiblesOf, hc]
    exact hs.accessibles
  rw [hcls]

/-- what an instance of a class with module properties `props` (value level) configured with `cfg` shows -/
def instMSpec (props : List (Name × PSlot)) (cfg : List (Name × PropMap)) : List (Name × MView) :=
  (props.map (fun ks => (ks.1, (⟨some ks.2.val, none⟩ : MView)))).map (fun nv =>
    (nv.1, ⟨nv.2.prop, aget? (instMVals (props.map (fun ks => (ks.1, (⟨some ks.2.val, none⟩ : MView)))) cfg) nv.1⟩))

/-- **a module's (module-level) description is a function of its own class chain and its own configuration only**:
in any admissible program that creates the instance `n` of class `c` with configuration `cfg` at some point, and whatever
it does before (`pre`) and afterwards (`post`: any admissible operations, its own mutations included), the instance shows
`instMSpec` of the value `HasProperties.__init_subclass__` computed for `c` — which is `pureOf env` of the class bodies
(`order_independent_partial`) — and of `cfg`. -/
theorem inst_mprops_function (T : Tables) (pre post : List Op) (n c : Name) (cfg : List (Name × PropMap))
    (hrun : AdmissibleRun T {} (pre ++ Op.inst n c cfg :: post)) (hwf : ∀ op ∈ pre, WellFormed op)
    (cr : ClassRec) (hc : (run T {} pre).findClass c = some cr) :
    describeM (run T {} (pre ++ Op.inst n c cfg :: post)) (.inst n) = instMSpec cr.pure.props cfg := by
  obtain ⟨hpre, hrest⟩ := admissibleRun_append T pre _ {} hrun
  have hinv : Bounded (run T {} pre) ∧ Separated (run T {} pre) := by
    have key : ∀ (ops : List Op) (w : World), InvRun T w ops → Bounded (run T w ops) ∧ Separated (run T w ops) := by
      intro ops w h
      induction h with
      | nil w hb hs => exact ⟨hb, hs⟩
      | cons w op ops _ _ _ ih => simpa [run] using ih
    exact key pre {} (invRun_of_admissible T pre {} empty_world_ok.1 empty_world_ok.2 hpre)
  have hnone : (run T {} pre).findInst n = none := hrest.1
  have hp := separated_preserved T (run T {} pre) (.inst n c cfg) hrest.1 hinv.1 hinv.2
  have hfind : (instantiate T (run T {} pre) n c cfg).findInst n =
      some ⟨n, c, ((instViews T (describeH (run T {} pre) (.cls c)) cfg).foldl allocView ((run T {} pre).heap, [])).2,
        instMVals (describeM (run T {} pre) (.cls c)) cfg⟩ := by
    unfold World.findInst instantiate
    exact find?_append_new _ _ _ hnone (by simp)
  rw [run_append, run_cons]
  have hstable := inst_never_changes_mprops T n post (step T (run T {} pre) (.inst n c cfg)) hp.1 hp.2 hrest.2 _ hfind
    (by
      show (run T {} pre).findClass c ≠ none
      rw [hc]; exact fun h => by cases h)
  rw [hstable]
  show describeM (instantiate T (run T {} pre) n c cfg) (.inst n) = _
  rw [describeM_instantiate T _ n c cfg hinv.1 hnone, class_mprops_faithful T pre hpre hwf c cr hc]
  rfl

/-! ## non-vacuity -/

/-- a small table set for the examples -/
def exT : Tables :=
  ⟨[("description", "\"\""), ("readonly", "true"), ("export", "true")], [("double", ["min", "max", "unit"])],
   ["value", "target"], [("description", "description", "\"\"", true, true), ("readonly", "readonly", "true", true, true)],
   [("description", "description", "\"\"", true, true)]⟩

def dA : ClassDecl := ⟨"A", ["A"], true, [("p", .param (some "\"d\"") (some (.node "double" [("max", "10")] [] [])) [] true)]⟩
def dB : ClassDecl := ⟨"B", ["B", "A"], true, [("p", .param none none [("max", "5")] true)]⟩
def dC : ClassDecl := ⟨"C", ["C", "A"], true, [("p", .value "1" false none)]⟩

/-- a base class with a parameter, a subclass narrowing it, two instances of the subclass with different
configuration, a mutation of one of them, and a late sibling class -/
def exOps : List Op :=
  [.define dA, .define dB, .inst "i1" "B" [("p", [("max", "3")])], .inst "i2" "B" [], .setprop "i1" "p" [] "max" "2", .define dC]

/-- the example program is admissible from the empty world (hypothesis of `invRun_of_admissible`,
`isolated_reachable`, `later_instances_fresh`) … -/
example : AdmissibleRun exT {} exOps := by
  refine ⟨rfl, ?_, ?_, ?_, trivial, ?_, trivial⟩ <;>
    exact Option.isNone_iff_eq_none.1 (by decide +kernel)

/-- the class bodies of the example program -/
def exEnv (n : Name) : Option ClassDecl :=
  if n = "A" then some dA else if n = "B" then some dB else if n = "C" then some dC else none

/-- … consistent with inheritance w.r.t. its own class bodies (hypothesis of `order_independent_partial`) … -/
example : ConsistentRun exT exEnv {} exOps := by
  refine ⟨⟨by simp [exEnv, dA], fun m hm => ?_⟩, ⟨by simp [exEnv, dB], fun m hm => ?_⟩, trivial, trivial, trivial,
    ⟨by simp [exEnv, dC], fun m hm => ?_⟩, trivial⟩
  · simp [dA] at hm
  · simp only [dB, List.tail_cons, List.mem_singleton] at hm
    subst hm
    intro _ h
    have : ((step exT {} (.define dA)).findClass "A").isSome = true := by decide +kernel
    rw [h] at this
    cases this
  · simp only [dC, List.tail_cons, List.mem_singleton] at hm
    subst hm
    intro _ h
    have : ((run exT {} (exOps.take 5)).findClass "A").isSome = true := by decide +kernel
    have h' : (run exT {} (exOps.take 5)).findClass "A" = none := h
    rw [h'] at this
    cases this

/-- the same class bodies in another order consistent with inheritance (`C` before `B`), without the instances -/
def exOpsR : List Op := [.define dA, .define dC, .define dB]

example : AdmissibleRun exT {} exOpsR := by
  refine ⟨rfl, ?_, ?_, trivial⟩ <;> exact Option.isNone_iff_eq_none.1 (by decide +kernel)

example : ConsistentRun exT exEnv {} exOpsR := by
  refine ⟨⟨by simp [exEnv, dA], fun m hm => ?_⟩, ⟨by simp [exEnv, dC], fun m hm => ?_⟩,
    ⟨by simp [exEnv, dB], fun m hm => ?_⟩, trivial⟩
  · simp [dA] at hm
  · simp only [dC, List.tail_cons, List.mem_singleton] at hm
    subst hm
    intro _ h
    have : ((step exT {} (.define dA)).findClass "A").isSome = true := by decide +kernel
    rw [h] at this
    cases this
  · simp only [dB, List.tail_cons, List.mem_singleton] at hm
    subst hm
    intro _ h
    have : ((run exT {} (exOpsR.take 2)).findClass "A").isSome = true := by decide +kernel
    have h' : (run exT {} (exOpsR.take 2)).findClass "A" = none := h
    rw [h'] at this
    cases this

/-- what `order_independent` says about the two orders, seen on the concrete heaps (which differ: 11 and 6 objects):
`B` shows the same properties and datatype properties of `p` -/
example : (run exT {} exOps).heap.length ≠ (run exT {} exOpsR).heap.length ∧
    ((describeH (run exT {} exOps) (.cls "B")).map (fun nv => nv.2.map (fun v => (v.props, v.tree.map (·.props))))) =
    ((describeH (run exT {} exOpsR) (.cls "B")).map (fun nv => nv.2.map (fun v => (v.props, v.tree.map (·.props))))) := by
  decide +kernel

/-- … and it is not trivial: it builds 3 classes and 2 instances out of 11 heap objects, and the mutation of
`i1` is visible in `i1` (max 2) while `i2` shows the class value (max 5) -/
example : (run exT {} exOps).heap.length = 11 ∧ (run exT {} exOps).classes.length = 3 ∧
    (run exT {} exOps).insts.length = 2 := by decide +kernel

example : ((describeH (run exT {} exOps) (.inst "i1")).map (fun nv => nv.2.bind (·.tree) |>.map (·.props))) = [some [("max", "2")]] ∧
    ((describeH (run exT {} exOps) (.inst "i2")).map (fun nv => nv.2.bind (·.tree) |>.map (·.props))) = [some [("max", "5")]] := by
  decide +kernel

/-! ### module properties on two levels, a limits parameter, a member mutation -/

def pGroup : PropV := ⟨none, "\"\"", "group", "true"⟩
def limTree : DTree := .node "limits" [] [.node "double" [("min", "-1000"), ("max", "1000")] [] []] []
def dM : ClassDecl := ⟨"M", ["M"], true, [("group", .prop pGroup)]⟩
def dP : ClassDecl := ⟨"P", ["P", "M"], true,
  [("group", .value "\"cryo\"" false none), ("lim", .param (some "\"l\"") (some limTree) [] true)]⟩
def dQ : ClassDecl := ⟨"Q", ["Q", "P", "M"], true, [("group", .value "\"magnet\"" false none)]⟩

/-- a root class with the property `group`, a class setting it by a bare value, an instance, a subclass setting it by
a bare value again (the second level), an instance configured with a value of its own, a run-time change of the element
datatype of the limits of the first instance, an instance of the subclass -/
def exOps2 : List Op :=
  [.define dM, .define dP, .inst "j1" "P" [], .define dQ, .inst "j2" "P" [("group", [("value", "\"x\"")])],
   .setprop "j1" "lim" [1] "max" "25", .inst "j3" "Q" []]

/-- the program is admissible (hypothesis of `isolated_mprops`, `class_mprops_stable`, `later_instances_mprops`;
`Bounded`/`Separated` hold in the empty world: `empty_world_ok`) … -/
theorem exOps2_admissible : AdmissibleRun exT {} exOps2 := by
  refine ⟨?_, ?_, ?_, ?_, ?_, trivial, ?_, trivial⟩ <;>
    exact Option.isNone_iff_eq_none.1 (by decide +kernel)

/-- `class_never_changes` applied: `P`, defined by the first two operations, is after the whole program (subclass `Q`
overriding `group` on the second level, three instances, a member mutation) what it was when it was defined -/
example : describeH (run exT {} exOps2) (.cls "P") = describeH (run exT {} (exOps2.take 2)) (.cls "P") ∧
    describeM (run exT {} exOps2) (.cls "P") = describeM (run exT {} (exOps2.take 2)) (.cls "P") := by
  have h := admissibleRun_append exT (exOps2.take 2) (exOps2.drop 2) {} exOps2_admissible
  have hi := invariants_reachable exT (exOps2.take 2) h.1
  have hc : (run exT {} (exOps2.take 2)).findClass "P" ≠ none := by
    intro e
    have : ((run exT {} (exOps2.take 2)).findClass "P").isSome = true := by decide +kernel
    rw [e] at this; cases this
  have := class_never_changes exT "P" (exOps2.drop 2) _ hi.1 hi.2 h.2 hc
  rwa [← run_append] at this

/-- … every instance has a class (hypothesis `hcls` of `isolated_mprops`) … -/
example : ∀ ir ∈ (run exT {} exOps2).insts, ((run exT {} exOps2).findClass ir.cls).isSome = true := by decide +kernel

/-- … and it shows what it should: the class `P` still carries `cryo` after `Q(P)` was defined with `magnet`, and so do
its instances created before and after; the configured value is seen in `j2` only; three distinct Property objects -/
example :
    ((describeM (run exT {} exOps2) (.cls "M")).map (fun nv => nv.2.prop.bind (·.value))) = [none] ∧
    ((describeM (run exT {} exOps2) (.cls "P")).map (fun nv => nv.2.prop.bind (·.value))) = [some "\"cryo\""] ∧
    ((describeM (run exT {} exOps2) (.cls "Q")).map (fun nv => nv.2.prop.bind (·.value))) = [some "\"magnet\""] ∧
    ((describeM (run exT {} exOps2) (.inst "j1")).map (fun nv => nv.2.value)) = [some "\"cryo\""] ∧
    ((describeM (run exT {} exOps2) (.inst "j2")).map (fun nv => nv.2.value)) = [some "\"x\""] ∧
    ((describeM (run exT {} exOps2) (.inst "j3")).map (fun nv => nv.2.value)) = [some "\"magnet\""] ∧
    ((describeM (run exT {} exOps2) (.inst "j2")).filterMap exportM) = [("group", "\"x\"")] ∧
    (((run exT {} exOps2).classes.flatMap (fun c => c.propDict.map (·.2))).eraseDups.length = 3) := by
  decide +kernel

/-- the class bodies of this program are Python dicts (hypothesis `WellFormed` of `class_mprops_faithful` and
`order_independent_mprops`) … -/
example : ∀ op ∈ exOps2, WellFormed op := by
  intro op hop
  simp only [exOps2, List.mem_cons, List.not_mem_nil, or_false] at hop
  rcases hop with rfl | rfl | rfl | rfl | rfl | rfl | rfl <;>
    first | trivial | (simp only [WellFormed, KeysNodup]; decide +kernel)

def exEnv2 (n : Name) : Option ClassDecl :=
  if n = "M" then some dM else if n = "P" then some dP else if n = "Q" then some dQ else none

/-- … and it is consistent with inheritance w.r.t. its own class bodies (hypothesis of `order_independent_mprops`);
so is every other inheritance-respecting arrangement of these definitions among other operations -/
example : ConsistentRun exT exEnv2 {} exOps2 := by
  refine ⟨⟨by simp [exEnv2, dM], fun m hm => ?_⟩, ⟨by simp [exEnv2, dP], fun m hm => ?_⟩, trivial,
    ⟨by simp [exEnv2, dQ], fun m hm => ?_⟩, trivial, trivial, trivial, trivial⟩
  · simp [dM] at hm
  · simp only [dP, List.tail_cons, List.mem_singleton] at hm
    subst hm
    intro _ h
    have : ((step exT {} (.define dM)).findClass "M").isSome = true := by decide +kernel
    rw [h] at this
    cases this
  · simp only [dQ, List.tail_cons, List.mem_cons, List.not_mem_nil, or_false] at hm
    rcases hm with rfl | rfl
    · intro _ h
      have : ((run exT {} (exOps2.take 3)).findClass "P").isSome = true := by decide +kernel
      have h' : (run exT {} (exOps2.take 3)).findClass "P" = none := h
      rw [h'] at this
      cases this
    · intro _ h
      have : ((run exT {} (exOps2.take 3)).findClass "M").isSome = true := by decide +kernel
      have h' : (run exT {} (exOps2.take 3)).findClass "M" = none := h
      rw [h'] at this
      cases this

/-- `inst_mprops_function` on this program: `exOps2 = pre ++ .inst "j2" "P" cfg :: post` with `pre` defining `P`, `post`
the rest; `j2` shows `instMSpec` of the properties of `P` (group = cryo, held by the Property object
in the `__dict__` of `P`) and of its configuration (group = x) -/
example : exOps2 = exOps2.take 4 ++ Op.inst "j2" "P" [("group", [("value", "\"x\"")])] :: exOps2.drop 5 := rfl

example : ((run exT {} (exOps2.take 4)).findClass "P").isSome = true := by decide +kernel

example : describeM (run exT {} exOps2) (.inst "j2") =
    instMSpec [("group", ⟨"P", { pGroup with value := some "\"cryo\"" }⟩)] [("group", [("value", "\"x\"")])] := by
  decide +kernel

/-- kind and the properties of the members, as far as the example needs them -/
def shape (t : DTree) : String × List PropMap := (t.kind, t.children.map (·.props))

/-- the member mutation (path `[1]` of a limits datatype: its one, doubly used member) is seen in `j1` only, in both
exported members; `j2` and the class keep the declared limits -/
example :
    ((describeH (run exT {} exOps2) (.inst "j1")).map (fun nv => nv.2.bind (·.tree) |>.map (fun t => shape t.exported))) =
      [some ("tuple", [[("min", "-1000"), ("max", "25")], [("min", "-1000"), ("max", "25")]])] ∧
    ((describeH (run exT {} exOps2) (.inst "j2")).map (fun nv => nv.2.bind (·.tree) |>.map shape)) =
      [some ("limits", [[("min", "-1000"), ("max", "1000")]])] ∧
    ((describeH (run exT {} exOps2) (.cls "P")).map (fun nv => nv.2.bind (·.tree) |>.map shape)) =
      [some ("limits", [[("min", "-1000"), ("max", "1000")]])] := by
  refine ⟨?_, ?_, ?_⟩ <;> decide +kernel

/-! ## around classes and instances: the loaded configuration, module properties from the class chain, input tables
(`Klass/Session.lean`) -/

/-- **config_isolated**: no operation — creating a module from a section, from this one or from one that shares a `Param`
object with it, loading further sections, anything on classes and instances — changes what a loaded section shows. -/
theorem config_isolated (T : STables) (s : Session) (op : SOp) (hb : CfgBounded s) : ConfigIsolated T s op :=
  fun sec hsec => readSection_step T s op hb sec hsec

/-- … for whole programs: after any sequence of operations a loaded section shows what it showed when it was loaded -/
theorem config_isolated_run (T : STables) (ops : List SOp) (s : Session) (hb : CfgBounded s) (sec : Name)
    (hsec : s.findSection sec ≠ none) : describeCfg (srun T s ops) sec = describeCfg s sec :=
  readSection_run T ops s hb sec hsec

/-- the invariant of `config_isolated` holds in every session reached from the empty one -/
theorem cfgBounded_reachable (T : STables) (ops : List SOp) : CfgBounded (srun T {} ops) :=
  cfgBounded_run T ops {} cfgBounded_empty

/-- `Bounded` and `Separated` after an admissible run from any world that has them -/
theorem invariants_run (T : Tables) (ops : List Op) (w : World) (hb : Bounded w) (hs : Separated w)
    (hrun : AdmissibleRun T w ops) : Bounded (run T w ops) ∧ Separated (run T w ops) := by
  have key : ∀ (ops : List Op) (w : World), InvRun T w ops → Bounded (run T w ops) ∧ Separated (run T w ops) := by
    intro ops w h
    induction h with
    | nil w hb hs => exact ⟨hb, hs⟩
    | cons w op ops _ _ _ ih => simpa [run] using ih
  exact key ops w (invRun_of_admissible T ops w hb hs hrun)

/-- **recreate_same** ("… or of instances created later", for the configuration): a module created from a loaded section
after any admissible sequence of operations (other modules created from this section or from sections sharing `Param`
objects with it, further sections loaded, other classes defined, other instances mutated, inputs registered) shows exactly
what a module created from that section *now* shows — accessibles and module properties.  This is what a restart relies on:
`Server._processCfg` creates all modules again from the same `srv.module_cfg`. -/
theorem recreate_same (T : STables) (s : Session) (ops : List SOp) (i j c sec : Name)
    (hb : Bounded s.world) (hs : Separated s.world) (hc : CfgBounded s) (hsec : s.findSection sec ≠ none)
    (hrun : SAdmissibleRun T s ops) (hops : ∀ op ∈ worldOps T s ops, op.target ≠ .cls c)
    (hi : s.world.findInst i = none) (hj : (srun T s ops).world.findInst j = none) :
    describeH (sstep T (srun T s ops) (.create j c sec)).world (.inst j) =
      describeH (sstep T s (.create i c sec)).world (.inst i) ∧
    describeM (sstep T (srun T s ops) (.create j c sec)).world (.inst j) =
      describeM (sstep T s (.create i c sec)).world (.inst i) := by
  have hcfg : readSection (srun T s ops) sec = readSection s sec := readSection_run T ops s hc sec hsec
  have hw := srun_world T ops s
  have e1 : (sstep T (srun T s ops) (.create j c sec)).world =
      instantiate T.base (run T.base s.world (worldOps T s ops)) j c (readSection s sec) := by
    rw [sstep_world, stepWorld_some T _ _ (.inst j c (readSection (srun T s ops) sec)) rfl, hcfg, hw]
    rfl
  have e2 : (sstep T s (.create i c sec)).world = instantiate T.base s.world i c (readSection s sec) := by
    rw [sstep_world, stepWorld_some T _ _ (.inst i c (readSection s sec)) rfl]
    rfl
  have hj' : (run T.base s.world (worldOps T s ops)).findInst j = none := by rw [← hw]; exact hj
  have hinv := invariants_run T.base (worldOps T s ops) s.world hb hs hrun
  have hH : describeH (instantiate T.base (run T.base s.world (worldOps T s ops)) j c (readSection s sec)) (.inst j) =
      describeH (instantiate T.base s.world i c (readSection s sec)) (.inst i) := by
    rw [describe_instantiate T.base _ j c _ hj', describe_instantiate T.base s.world i c _ hi,
      class_description_stable T.base c _ s.world (invRun_of_admissible T.base _ s.world hb hs hrun) hops]
  have hM : describeM (instantiate T.base (run T.base s.world (worldOps T s ops)) j c (readSection s sec)) (.inst j) =
      describeM (instantiate T.base s.world i c (readSection s sec)) (.inst i) := by
    rw [describeM_instantiate T.base _ j c _ hinv.1 hj', describeM_instantiate T.base s.world i c _ hb hi,
      class_mprops_stable T.base c _ s.world hb hs hrun hops]
  rw [e1, e2, hH, hM]
  exact ⟨rfl, rfl⟩

/-- **a module's description is a function of its own class chain and its own configuration only**, with the configuration
as an object: a module created from section `sec` — whenever that happens after the section was loaded, whatever modules
were created before from it or from sections sharing `Param` objects with it (`mid`), and whatever is done to other owners
afterwards (`post`) — shows `instViews` of what `viewsOf env` says about its class and of the items the section had WHEN IT
WAS LOADED. -/
theorem module_description_function (T : STables) (env : Name → Option ClassDecl) (pre0 mid post : List SOp)
    (sec n c : Name) (es : List (Name × EntrySpec)) (gs : List (PVal × List Name))
    (hrun : SAdmissibleRun T {} ((pre0 ++ .load sec es gs :: mid) ++ .create n c sec :: post))
    (hcons : ConsistentRun T.base env {} (worldOps T {} (pre0 ++ .load sec es gs :: mid)))
    (cr : ClassRec) (hc : (srun T {} (pre0 ++ .load sec es gs :: mid)).world.findClass c = some cr)
    (hpost : ∀ op ∈ worldOps T (srun T {} ((pre0 ++ .load sec es gs :: mid) ++ [.create n c sec])) post, op.target ≠ .inst n) :
    ∃ V F, (∀ f, F ≤ f → viewsOf T.base env f c = some V) ∧
      describeH (srun T {} ((pre0 ++ .load sec es gs :: mid) ++ .create n c sec :: post)).world (.inst n) =
        (instViews T.base V.accessibles (describeCfg (srun T {} (pre0 ++ [.load sec es gs])) sec)).map
          (fun nv => (nv.1, some nv.2)) := by
  obtain ⟨hcfg, hw⟩ := create_after_load T pre0 mid post sec n c es gs
  unfold SAdmissibleRun at hrun
  rw [hw] at hrun
  have hc' : (run T.base {} (worldOps T {} (pre0 ++ .load sec es gs :: mid))).findClass c = some cr := by
    have e := srun_world T (pre0 ++ .load sec es gs :: mid) {}
    rw [e] at hc
    exact hc
  obtain ⟨V, F, hF, hd⟩ := inst_description_function T.base env _ _ n c _ hrun hcons cr hc' hpost
  refine ⟨V, F, hF, ?_⟩
  have e2 := srun_world T ((pre0 ++ .load sec es gs :: mid) ++ .create n c sec :: post) {}
  rw [e2, hw]
  show describeH (run T.base {} _) (.inst n) = _
  rw [hd, hcfg]

/-- … and so is the module-level part: the module shows `instMSpec` of the value `HasProperties.__init_subclass__` computed
for its class and of the items its section had when it was loaded — whatever happened to the section's `Param` objects'
other users in between, and whatever is done afterwards (its own mutations included) -/
theorem module_mprops_function (T : STables) (pre0 mid post : List SOp) (sec n c : Name) (es : List (Name × EntrySpec))
    (gs : List (PVal × List Name))
    (hrun : SAdmissibleRun T {} ((pre0 ++ .load sec es gs :: mid) ++ .create n c sec :: post))
    (hwf : ∀ op ∈ worldOps T {} (pre0 ++ .load sec es gs :: mid), WellFormed op)
    (cr : ClassRec) (hc : (srun T {} (pre0 ++ .load sec es gs :: mid)).world.findClass c = some cr) :
    describeM (srun T {} ((pre0 ++ .load sec es gs :: mid) ++ .create n c sec :: post)).world (.inst n) =
      instMSpec cr.pure.props (describeCfg (srun T {} (pre0 ++ [.load sec es gs])) sec) := by
  obtain ⟨hcfg, hw⟩ := create_after_load T pre0 mid post sec n c es gs
  unfold SAdmissibleRun at hrun
  rw [hw] at hrun
  have hc' : (run T.base {} (worldOps T {} (pre0 ++ .load sec es gs :: mid))).findClass c = some cr := by
    have e := srun_world T (pre0 ++ .load sec es gs :: mid) {}
    rw [e] at hc
    exact hc
  have hd := inst_mprops_function T.base _ _ n c _ hrun hwf cr hc'
  have e2 := srun_world T ((pre0 ++ .load sec es gs :: mid) ++ .create n c sec :: post) {}
  rw [e2, hw]
  show describeM (run T.base {} _) (.inst n) = _
  rw [hd, hcfg]

/-- **features_function**: the module property `features` is a function of the class chain only — of the MRO of the class
and of the direct bases of the classes along it — whatever else was defined -/
theorem features_function (b1 b2 : List (Name × List Name)) (mro : List Name) (h : ∀ b ∈ mro, aget? b1 b = aget? b2 b) :
    featuresOf b1 mro = featuresOf b2 mro := featuresOf_congr b1 b2 mro h

/-- what `create` records for the new module: `features` and `interface_classes` computed from the MRO of its class as it
is at that moment (nothing is cached on a class) -/
theorem create_auto (T : STables) (s : Session) (i c sec : Name) :
    (sstep T s (.create i c sec)).autos =
      s.autos ++ [⟨i, sec, featuresOf s.bases (mroOf s.world c), interfaceOf T (mroOf s.world c)⟩] := rfl

/-- one admissible operation changes neither the MRO of an existing class nor the bases on record along it -/
theorem features_step (T : STables) (s : Session) (op : SOp) (c : Name)
    (hadm : ∀ o, op.worldOp s = some o → Admissible s.world o) (hc : s.world.findClass c ≠ none) (hk : BasesKnown s c) :
    mroOf (sstep T s op).world c = mroOf s.world c ∧ (sstep T s op).world.findClass c ≠ none ∧
    BasesKnown (sstep T s op) c ∧ ∀ b ∈ mroOf s.world c, aget? (sstep T s op).bases b = aget? s.bases b := by
  have hfc : (sstep T s op).world.findClass c = s.world.findClass c := by
    rw [sstep_world]
    cases hw : op.worldOp s with
    | none => rw [stepWorld_none T s op hw]
    | some o => rw [stepWorld_some T s op o hw]; exact findClass_persist T.base s.world o (hadm o hw) c hc
  have hmro : mroOf (sstep T s op).world c = mroOf s.world c := by simp only [mroOf, hfc]
  have hbases : ∀ b ∈ mroOf s.world c, aget? (sstep T s op).bases b = aget? s.bases b ∧ ahas (sstep T s op).bases b = true := by
    intro b hb
    have hkb := hk b hb
    cases op with
    | define d bs => exact ⟨aget?_append_known _ _ _ hkb, ahas_append_left _ _ _ hkb⟩
    | load n es gs => exact ⟨rfl, hkb⟩
    | create i c' sec => exact ⟨rfl, hkb⟩
    | setprop i p pa k v => exact ⟨rfl, hkb⟩
    | addEnum i p m => exact ⟨rfl, hkb⟩
    | register i m => exact ⟨rfl, hkb⟩
    | registerFailed i m => exact ⟨rfl, hkb⟩
  refine ⟨hmro, by rw [hfc]; exact hc, ?_, fun b hb => (hbases b hb).1⟩
  intro b hb
  rw [hmro] at hb
  exact (hbases b hb).2

/-- **later_instances_same_features** (creation-order independence of the properties computed from the class chain):
after any admissible sequence of operations — modules of base classes, of subclasses, of unrelated classes created, classes
defined — a module of class `c` gets the `features` and `interface_classes` a module of `c` created now gets. -/
theorem later_instances_same_features (T : STables) (ops : List SOp) (s : Session) (c : Name) (hrun : SAdmissibleRun T s ops)
    (hc : s.world.findClass c ≠ none) (hk : BasesKnown s c) :
    featuresOf (srun T s ops).bases (mroOf (srun T s ops).world c) = featuresOf s.bases (mroOf s.world c) ∧
    interfaceOf T (mroOf (srun T s ops).world c) = interfaceOf T (mroOf s.world c) := by
  induction ops generalizing s with
  | nil => exact ⟨rfl, rfl⟩
  | cons op ops ih =>
    obtain ⟨hadm, hrest⟩ := sadmissible_cons T s op ops hrun
    obtain ⟨hmro, hc', hk', hb⟩ := features_step T s op c hadm hc hk
    obtain ⟨h1, h2⟩ := ih (sstep T s op) hrest hc' hk'
    rw [srun_cons, h1, h2, hmro]
    exact ⟨features_function _ _ _ hb, rfl⟩

/-- **control_isolated**: an operation that is not a registration with module `j` leaves the table of input callbacks of
`j` as it is — in particular `register_input` on another module (of the same class, of a sibling class: the table is the
module's own) -/
theorem control_isolated (T : STables) (s : Session) (op : SOp) (j : Name) (h : op.registersOn j = false) :
    inputsOf (sstep T s op) j = inputsOf s j := by
  cases op with
  | register i m =>
    have hij : i ≠ j := by simpa [SOp.registersOn] using h
    exact inputsOf_enterInput_ne s i j m hij
  | registerFailed i m =>
    have hij : i ≠ j := by simpa [SOp.registersOn] using h
    exact inputsOf_enterInput_ne s i j m hij
  | load n es gs => rfl
  | define d bs => rfl
  | create i c sec => rfl
  | setprop i p pa k v => rfl
  | addEnum i p m => rfl

theorem control_isolated_run (T : STables) (ops : List SOp) (s : Session) (j : Name)
    (h : ∀ op ∈ ops, op.registersOn j = false) : inputsOf (srun T s ops) j = inputsOf s j := by
  induction ops generalizing s with
  | nil => rfl
  | cons op ops ih =>
    rw [srun_cons, ih _ (fun o ho => h o (List.mem_cons_of_mem _ ho)), control_isolated T s op j (h op List.mem_cons_self)]

/-- **inputs_only_by_own_registration** ("… or of instances created later"): whatever a program does, a module that no
operation registered an input with has an empty table — registrations with other modules, before or after it was created,
do not show in it -/
theorem inputs_only_by_own_registration (T : STables) (ops : List SOp) (j : Name)
    (h : ∀ op ∈ ops, op.registersOn j = false) : inputsOf (srun T {} ops) j = [] :=
  control_isolated_run T ops {} j h

/-- … and so is the behaviour: the callbacks `self_controlled()` of module `j` calls are not changed by an operation that
neither registers an input with `j` nor creates `j` -/
theorem control_calls_isolated (T : STables) (s : Session) (op : SOp) (j : Name) (vals : List Int) (v : Int)
    (h : op.registersOn j = false) (hc : op.creates j = false) :
    selfControlledCalls (sstep T s op) j vals v = selfControlledCalls s j vals v := by
  simp only [selfControlledCalls, control_isolated T s op j h, findAuto_step_ne T s op j hc]

/-- a registration enters the name in the table of the module it is made with -/
theorem register_own (T : STables) (s : Session) (i m : Name) :
    inputsOf (sstep T s (.register i m)) i = addKey (inputsOf s i) m := by
  simp only [sstep, inputsOf, enterInput, aget?_aput_self, Option.getD_some]


/-! ### non-vacuity: a session with a Feature class, a control mixin, a shared `Param` object and a restart -/

def exT2 : Tables := { exT with paramProps := exT.paramProps ++ [("constant", "null"), ("group", "\"\"")] }
def exST : STables := ⟨exT2, ["Readable", "Writable", "Drivable", "Communicator"]⟩

def dFeature : ClassDecl := ⟨"Feature", ["Feature"], true, []⟩
def dF : ClassDecl := ⟨"F", ["F", "Feature"], true, [("q", .param (some "\"d\"") (some (.node "double" [] [] [])) [] true)]⟩
def dBF : ClassDecl := ⟨"BF", ["BF", "F", "Feature", "B", "A"], true, []⟩
def dH : ClassDecl := ⟨"H", ["H", "HasControlledBy", "A"], true,
  [("controlled_by", .param (some "\"s\"") (some (.node "enum" [] [] [("self", 0)])) [] true)]⟩

/-- classes (a feature `F`, `BF` using it, `H` with `controlled_by`), and a configuration in which the sections `m1` and
`m2` are given one `Param` object (`calibrated = Param(constant=2, max=3)` used for both); `m2` puts it into a `Group` -/
def exPre : List SOp :=
  [.define dFeature [], .define dA [], .define dB ["A"], .define dF ["Feature"], .define dBF ["F", "B"],
   .define dH ["HasControlledBy", "A"],
   .load "m1" [("p", .new [("constant", "2"), ("max", "3")])] [],
   .load "m2" [("p", .shared "m1" "p")] [("\"grp\"", ["p"])], .load "h1" [] [], .load "h2" [] []]

/-- the modules are created, inputs are registered with one of the two `H` modules -/
def exPost : List SOp :=
  [.create "m1" "B" "m1", .create "m2" "BF" "m2", .create "h1" "H" "h1", .create "h2" "H" "h2",
   .register "h1" "loop1", .register "h1" "loop2"]

def exS0 : Session := srun exST {} exPre

theorem exPre_admissible : SAdmissibleRun exST {} exPre := by
  unfold SAdmissibleRun
  refine ⟨rfl, ?_, ?_, ?_, ?_, ?_, trivial⟩ <;> exact Option.isNone_iff_eq_none.1 (by decide +kernel)

theorem exPost_admissible : SAdmissibleRun exST exS0 exPost := by
  unfold SAdmissibleRun
  refine ⟨?_, ?_, ?_, ?_, trivial, trivial, trivial⟩ <;> exact Option.isNone_iff_eq_none.1 (by decide +kernel)

/-- the hypotheses of `config_isolated` / `config_isolated_run` hold in the example; the section `m2` shows the items of
the `Param` object it was given plus its group, `m1` shows the object without — still after both modules were created -/
example : CfgBounded exS0 ∧ exS0.findSection "m2" ≠ none ∧
    describeCfg (srun exST exS0 exPost) "m2" = [("p", [("constant", "2"), ("max", "3"), ("group", "\"grp\"")])] ∧
    describeCfg (srun exST exS0 exPost) "m1" = [("p", [("constant", "2"), ("max", "3")])] := by
  refine ⟨cfgBounded_reachable exST exPre, ?_, ?_, ?_⟩
  · intro h
    have : (exS0.findSection "m2").isSome = true := by decide +kernel
    rw [h] at this
    cases this
  · decide +kernel
  · decide +kernel

theorem exS0_invariants : Bounded exS0.world ∧ Separated exS0.world := by
  have h := invariants_run exT2 (worldOps exST {} exPre) {} empty_world_ok.1 empty_world_ok.2 exPre_admissible
  have e : exS0.world = run exT2 {} (worldOps exST {} exPre) := srun_world exST exPre {}
  rw [e]
  exact h

/-- **recreate_same** applied: the restart.  `m1r` created from section `m1` after everything else (`m1` itself, `m2` from
the section sharing the `Param` object, the `H` modules, the registrations) shows what `m1` showed — the constant and the
narrowed limit included -/
example :
    describeH (sstep exST (srun exST exS0 exPost) (.create "m1r" "B" "m1")).world (.inst "m1r") =
      describeH (sstep exST exS0 (.create "m1" "B" "m1")).world (.inst "m1") ∧
    ((describeH (sstep exST exS0 (.create "m1" "B" "m1")).world (.inst "m1")).map (fun nv => nv.2.map (·.props))) =
      [some [("description", "\"d\""), ("export", "\"_p\""), ("constant", "2"), ("readonly", "true")]] := by
  constructor
  · refine (recreate_same exST exS0 exPost "m1" "m1r" "B" "m1" exS0_invariants.1 exS0_invariants.2
      (cfgBounded_reachable exST exPre) ?_ exPost_admissible ?_ ?_ ?_).1
    · intro h
      have : (exS0.findSection "m1").isSome = true := by decide +kernel
      rw [h] at this
      cases this
    · intro op hop
      have : ∀ op ∈ worldOps exST exS0 exPost, (match op.target with | .cls _ => false | .inst _ => true) = true := by
        intro op hop
        simp only [worldOps, exPost, SOp.worldOp, Option.toList_some, List.singleton_append, List.append_nil, List.mem_cons,
          List.not_mem_nil, or_false] at hop
        rcases hop with h | h | h | h | h | h <;> subst h <;> rfl
      intro heq
      have := this op hop
      rw [heq] at this
      cases this
    · exact Option.isNone_iff_eq_none.1 (by decide +kernel)
    · exact Option.isNone_iff_eq_none.1 (by decide +kernel)
  · decide +kernel

/-- **module_description_function** applied.  Two classes; the section `m1` is loaded; then `m2` is loaded with the same
`Param` object (put into a group there) and a module is created from it; only then the module `m1` is created; afterwards
`m2` is mutated.  All hypotheses hold, and `m1` shows the class description with the items of its section as loaded. -/
def exMdPre0 : List SOp := [.define dA [], .define dB ["A"]]
def exMdMid : List SOp := [.load "m2" [("p", .shared "m1" "p")] [("\"grp\"", ["p"])], .create "m2" "B" "m2"]
def exMdPost : List SOp := [.setprop "m2" "p" [] "max" "1"]

theorem ne_none_of_isSome {α : Type} {o : Option α} (h : o.isSome = true) : o ≠ none := by
  intro e
  rw [e] at h
  cases h

example :
    SAdmissibleRun exST {} ((exMdPre0 ++ .load "m1" [("p", .new [("max", "3")])] [] :: exMdMid) ++ .create "m1" "B" "m1" :: exMdPost) ∧
    ConsistentRun exT2 exEnv {} (worldOps exST {} (exMdPre0 ++ .load "m1" [("p", .new [("max", "3")])] [] :: exMdMid)) ∧
    ((srun exST {} (exMdPre0 ++ .load "m1" [("p", .new [("max", "3")])] [] :: exMdMid)).world.findClass "B").isSome = true ∧
    (∀ op ∈ worldOps exST (srun exST {} ((exMdPre0 ++ .load "m1" [("p", .new [("max", "3")])] [] :: exMdMid) ++
        [.create "m1" "B" "m1"])) exMdPost, op.target ≠ .inst "m1") ∧
    describeCfg (srun exST {} (exMdPre0 ++ [.load "m1" [("p", .new [("max", "3")])] []])) "m1" = [("p", [("max", "3")])] ∧
    ((describeH (srun exST {} ((exMdPre0 ++ .load "m1" [("p", .new [("max", "3")])] [] :: exMdMid) ++
        .create "m1" "B" "m1" :: exMdPost)).world (.inst "m1")).map (fun nv => nv.2.bind (·.tree) |>.map (·.props))) =
      [some [("max", "3")]] ∧
    ((describeH (srun exST {} ((exMdPre0 ++ .load "m1" [("p", .new [("max", "3")])] [] :: exMdMid) ++
        .create "m1" "B" "m1" :: exMdPost)).world (.inst "m2")).map (fun nv => nv.2.map (fun v => (v.props.get? "group", v.tree.map (·.props))))) =
      [some (some "\"grp\"", some [("max", "1")])] := by
  refine ⟨?_, ?_, by decide +kernel, ?_, by decide +kernel, by decide +kernel, by decide +kernel⟩
  · unfold SAdmissibleRun
    refine ⟨rfl, ?_, ?_, ?_, trivial, trivial⟩ <;> exact Option.isNone_iff_eq_none.1 (by decide +kernel)
  · refine ⟨⟨by simp [exEnv, dA], fun m hm => ?_⟩, ⟨by simp [exEnv, dB], fun m hm => ?_⟩, trivial, trivial⟩
    · simp [dA] at hm
    · simp only [dB, List.tail_cons, List.mem_singleton] at hm
      subst hm
      intro _
      exact ne_none_of_isSome (by decide +kernel)
  · intro op hop
    simp only [worldOps, exMdPost, SOp.worldOp, Option.toList_some, List.singleton_append, List.mem_cons, List.not_mem_nil,
      or_false] at hop
    subst hop
    intro h
    simp [Op.target] at h

/-- the additional hypothesis of `module_mprops_function` (class bodies are dicts) holds in the same example, and the module
shows the module properties of its class (none declared here: the empty list, as `instMSpec` says) -/
example : (∀ op ∈ worldOps exST {} (exMdPre0 ++ .load "m1" [("p", .new [("max", "3")])] [] :: exMdMid), WellFormed op) ∧
    describeM (srun exST {} ((exMdPre0 ++ .load "m1" [("p", .new [("max", "3")])] [] :: exMdMid) ++
      .create "m1" "B" "m1" :: exMdPost)).world (.inst "m1") = [] := by
  constructor
  · intro op hop
    simp only [worldOps, exMdPre0, exMdMid, SOp.worldOp, Option.toList_some, Option.toList_none,
      List.cons_append, List.nil_append, List.append_nil, List.mem_cons, List.not_mem_nil, or_false] at hop
    rcases hop with h | h | h <;> subst h
    · simp [WellFormed, KeysNodup, dA]
    · simp [WellFormed, KeysNodup, dB]
    · trivial
  · decide +kernel

/-- **later_instances_same_features** applied: `BF` has the feature `F` whatever was created before (a module of its base
class `B` first, or not); its hypotheses hold in `exS0` -/
example : exS0.world.findClass "BF" ≠ none ∧ BasesKnown exS0 "BF" ∧
    featuresOf exS0.bases (mroOf exS0.world "BF") = ["F"] ∧
    featuresOf (srun exST exS0 exPost).bases (mroOf (srun exST exS0 exPost).world "BF") = ["F"] ∧
    (srun exST exS0 exPost).autos.map (fun a => (a.inst, a.features)) = [("m1", []), ("m2", ["F"]), ("h1", []), ("h2", [])] := by
  refine ⟨?_, ?_, ?_, ?_, ?_⟩
  · intro h
    have : (exS0.world.findClass "BF").isSome = true := by decide +kernel
    rw [h] at this
    cases this
  · intro b hb
    have hm : mroOf exS0.world "BF" = ["BF", "F", "Feature", "B", "A"] := by decide +kernel
    rw [hm] at hb
    simp only [List.mem_cons, List.not_mem_nil, or_false] at hb
    rcases hb with h | h | h | h | h <;> subst h <;> decide +kernel
  · decide +kernel
  · decide +kernel
  · decide +kernel

/-- **control_isolated** / **inputs_only_by_own_registration** / **control_calls_isolated** in the example: the inputs
registered with `h1` are in the table of `h1` only; `h2` (same class) has none, and `self_controlled()` of `h1` under control
of `loop1` calls the two callbacks of `h1` -/
example : inputsOf (srun exST exS0 exPost) "h1" = ["loop1", "loop2"] ∧ inputsOf (srun exST exS0 exPost) "h2" = [] ∧
    (∀ op ∈ exPre ++ exPost, op.registersOn "h2" = false) ∧
    controlMembers (srun exST exS0 exPost) "h1" = some [("self", 0), ("loop1", 1), ("loop2", 2)] ∧
    controlMembers (srun exST exS0 exPost) "h2" = some [("self", 0)] ∧
    selfControlledCalls (srun exST exS0 exPost) "h1" [0, 1, 2] 1 = [("h1", "loop1", "h1"), ("h1", "loop2", "h1")] ∧
    selfControlledCalls (srun exST exS0 exPost) "h2" [0] 0 = [] := by
  refine ⟨?_, ?_, ?_, ?_, ?_, ?_, ?_⟩ <;> decide +kernel

/-! ## status codes, struct parameters, behaviour under access to another module (round 5) -/

/-- **status codes come from the own chain**: the enum `StatusType(<class>, *standard, **custom)` builds has exactly the codes
of the class it extends and the codes given - no name, no number from anywhere else -/
theorem status_codes_own_chain (base more : List (String × Int)) (m : String × Int) :
    m ∈ addCodes base more ↔ m ∈ base ∨ m ∈ more := by
  induction more generalizing base with
  | nil => simp [addCodes]
  | cons x rest ih =>
    simp only [addCodes]
    rw [ih]
    by_cases h : x ∈ base
    · simp only [h, if_true, List.mem_cons]
      constructor
      · rintro (h1 | h1)
        · exact Or.inl h1
        · exact Or.inr (Or.inr h1)
      · rintro (h1 | h1 | h1)
        · exact Or.inl h1
        · exact Or.inl (h1 ▸ h)
        · exact Or.inr h1
    · simp only [h, if_false, List.mem_append, List.mem_cons, List.not_mem_nil, or_false]
      constructor
      · rintro ((h1 | h1) | h1)
        · exact Or.inl h1
        · exact Or.inr (Or.inl h1)
        · exact Or.inr (Or.inr h1)
      · rintro (h1 | h1 | h1)
        · exact Or.inl (Or.inl h1)
        · exact Or.inl (Or.inr h1)
        · exact Or.inr h1

/-- the codes of the enum inside the datatype object `statusTree` builds -/
theorem status_tree_codes (parent more : List (String × Int)) :
    (statusTree parent more).children.head?.map DTree.members = some (addCodes parent more) := rfl

/-- **the status of a class never changes**: whatever admissible operations follow its definition (other families
extending their status by the same numbers under other names, subclasses, instances, mutations) -/
theorem status_of_class_stable (T : Tables) (c : Name) (ops : List Op) (w : World) (hb : Bounded w) (hs : Separated w)
    (hrun : AdmissibleRun T w ops) (hc : w.findClass c ≠ none) :
    statusCodesOf (run T w ops) c = statusCodesOf w c := by
  unfold statusCodesOf
  rw [(class_never_changes T c ops w hb hs hrun hc).1]

/-- **a status declaration means the same whenever it is evaluated**: the datatype worked out for
`StatusType(<class>, …)` after any admissible run is the one worked out before it - it depends on the class named in the
declaration only, not on what was defined in between -/
theorem status_elab_stable (T : Tables) (ops : List Op) (w : World) (hb : Bounded w) (hs : Separated w)
    (hrun : AdmissibleRun T w ops) (t : DTree)
    (hp : ∀ c, t.kind = "status?" → aget? t.props "parent" = some c → w.findClass c ≠ none) :
    elabTree (run T w ops) t = elabTree w t := by
  unfold elabTree
  split
  · next p _ more =>
    cases hpar : aget? p "parent" with
    | none => rfl
    | some c =>
      have hc := hp c rfl hpar
      simp only [status_of_class_stable T c ops w hb hs hrun hc]
  · rfl

/-- a class body with struct parameters: every declaration keeps its place and name, the member parameters follow behind -/
theorem expandStructs_names (decls : List (Name × (Decl ⊕ StructDecl))) :
    (expandStructs decls).map (·.1) = decls.map (·.1) ++
      decls.flatMap (fun nd => match nd.2 with | .inl _ => [] | .inr s => s.members.map (fun m => s.pfx ++ m.1)) := by
  unfold expandStructs
  rw [List.map_append]
  congr 1
  · rw [List.map_map]
    apply List.map_congr_left
    intro nd _
    rcases nd with ⟨n, d | s⟩ <;> rfl
  · rw [List.map_flatMap]
    congr 1
    funext nd
    rcases nd with ⟨n, d | s⟩
    · rfl
    · simp [StructDecl.memberParams, List.map_map, Function.comp_def]

open StructRW in
theorem amod_cons {α : Type} (k0 : Name) (v : α) (rest : List (Name × α)) (k : Name) (f : α → α) :
    amod ((k0, v) :: rest) k f = (if k0 == k then (k0, f v) else (k0, v)) :: amod rest k f := rfl

open StructRW in
theorem aget?_amod_self {α : Type} (l : List (Name × α)) (k : Name) (f : α → α) :
    aget? (amod l k f) k = (aget? l k).map f := by
  induction l with
  | nil => rfl
  | cons kv rest ih =>
    obtain ⟨k', v⟩ := kv
    rw [amod_cons]
    by_cases h : k' = k
    · subst h
      simp [aget?]
    · simp [aget?, h, ih]

open StructRW in
theorem aget?_amod_other {α : Type} (l : List (Name × α)) (k k' : Name) (f : α → α) (hne : k ≠ k') :
    aget? (amod l k f) k' = aget? l k' := by
  induction l with
  | nil => rfl
  | cons kv rest ih =>
    obtain ⟨k0, v⟩ := kv
    rw [amod_cons]
    by_cases h : k0 = k
    · subst h
      simp [aget?, hne, ih]
    · by_cases h2 : k0 = k'
      · subst h2
        simp [aget?, h]
      · simp [aget?, h, h2, ih]

open StructRW in
/-- **a member update reaches its struct whatever other module is being accessed**: with one nesting counter per struct
parameter object, what module `y` shows after `y.<m> = v` is the same inside a struct access of any other module `x` as on
its own -/
theorem member_update_context_free {V : Type} (w : Mods V) (x y m : Name) (v : V) (hxy : x ≠ y) :
    aget? (memberUpdate (enter w x) y m v) y = aget? (memberUpdate w y m v) y ∧
    aget? (leave (memberUpdate (enter w x) y m v) x) y = aget? (memberUpdate w y m v) y := by
  unfold memberUpdate enter leave
  rw [aget?_amod_other _ x y _ hxy, aget?_amod_self, aget?_amod_other _ x y _ hxy, aget?_amod_self]
  exact ⟨rfl, rfl⟩

open StructRW in
/-- … and outside of an access to its own struct, the struct follows the member -/
theorem member_update_reaches_struct {V : Type} (w : Mods V) (y m : Name) (v : V) (s : SP V)
    (hs : aget? w y = some s) (hd : s.depth = 0) :
    (aget? (memberUpdate w y m v) y).map (fun s' => (aget? s'.struct m, aget? s'.members m)) = some (some v, some v) := by
  unfold memberUpdate
  rw [aget?_amod_self, hs]
  simp [updSP, hd, aget?_aput_self]

open StructRW in
/-- non-vacuity, and why the counter has to be per parameter object: two modules, the struct of `outer` being read; the
update of `inner.kp` reaches `inner`'s struct - with ONE counter for all struct parameters it does not -/
example :
    let w : Mods Nat := [("outer", ⟨0, [("kp", 1)], [("kp", 1)]⟩), ("inner", ⟨0, [("kp", 1)], [("kp", 1)]⟩)]
    (aget? (memberUpdate (enter w "outer") "inner" "kp" 2) "inner").map (·.struct) = some [("kp", 2)] ∧
    (aget? (memberUpdate w "inner" "kp" 2) "inner").map (·.struct) = some [("kp", 2)] ∧
    (aget? (memberUpdateShared (enter w "outer") "inner" "kp" 2) "inner").map (·.struct) = some [("kp", 1)] := by
  decide +kernel

/-- the monitor `contextOffenders` is sound: no offender ⇒ every action has one outcome, in whatever context it was done -/
theorem contextOffenders_sound {α β : Type} [DecidableEq α] [DecidableEq β] (l : List (α × β))
    (h : contextOffenders l = []) : ContextFree l := by
  intro k b b' hb hb'
  by_cases hne : b = b'
  · exact hne
  exfalso
  have hmem : (k, b) ∈ l.filter (fun p => l.any (fun q => p.1 == q.1 && decide (q.2 ≠ p.2))) := by
    rw [List.mem_filter]
    refine ⟨hb, ?_⟩
    rw [List.any_eq_true]
    exact ⟨(k, b'), hb', by simp [Ne.symm hne]⟩
  have : k ∈ contextOffenders l := by
    unfold contextOffenders
    rw [List.mem_eraseDups]
    exact List.mem_map.2 ⟨(k, b), hmem, rfl⟩
  rw [h] at this
  cases this

example : contextOffenders [("0:i1:ctrl.kp:assign", "[2,{kp:2}]"), ("0:i1:ctrl.kp:assign", "[2,{kp:2}]")] = [] ∧
    contextOffenders [("0:i1:ctrl.kp:assign", "[2,{kp:2}]"), ("0:i1:ctrl.kp:assign", "[2,{kp:1}]")] = ["0:i1:ctrl.kp:assign"] := by
  decide +kernel

/-- the example for the status theorems: two families extend the status of `S` by the code 410 under different names, a
subclass of each adds RAMPING; every status declaration is worked out in the world the class is defined in -/
def stS : ClassDecl := ⟨"S", ["S"], true, [("status", .param (some "\"st\"") (some (statusTree [("IDLE", 100), ("ERROR", 400)] [])) [] true)]⟩
def stDecl (n p : Name) (more : List (String × Int)) : ClassDecl :=
  ⟨n, [n, p, "S"].eraseDups, true, [("status", .param none (some (pendingStatus (some p) more)) [] true)]⟩
def stDefine (w : World) (d : ClassDecl) : World := step exT w (.define (elabClass w d))
def stWorld : World :=
  [stDecl "A1" "S" [("TRIPPED", 410)], stDecl "B1" "S" [("INTERLOCK", 410)], stDecl "A2" "A1" [("RAMPING", 370)],
   stDecl "B2" "B1" [("RAMPING", 370)]].foldl stDefine (step exT {} (.define stS))

/-- each family has its own name for 410, whichever was defined first; and (hypotheses of `status_elab_stable`) the run is
admissible, the parent of a further declaration exists -/
example : statusCodesOf stWorld "A2" = [("IDLE", 100), ("ERROR", 400), ("TRIPPED", 410), ("RAMPING", 370)] ∧
    statusCodesOf stWorld "B2" = [("IDLE", 100), ("ERROR", 400), ("INTERLOCK", 410), ("RAMPING", 370)] ∧
    (stWorld.findClass "B1").isSome = true ∧
    (elabTree stWorld (pendingStatus (some "B1") [("BUSY", 300)])).children.head?.map DTree.members =
      some [("IDLE", 100), ("ERROR", 400), ("INTERLOCK", 410), ("BUSY", 300)] := by
  refine ⟨?_, ?_, ?_, ?_⟩ <;> decide +kernel

/-- the hypotheses of `status_of_class_stable` / `status_elab_stable` are satisfiable: from the world with `S`, an admissible run
defining a family on top of it and creating a module -/
def stW0 : World := step exT {} (.define stS)
def stOps : List Op := [.define (elabClass stW0 (stDecl "A1" "S" [("TRIPPED", 410)])), .inst "i" "A1" []]

example : statusCodesOf (run exT stW0 stOps) "S" = statusCodesOf stW0 "S" ∧
    elabTree (run exT stW0 stOps) (pendingStatus (some "S") [("INTERLOCK", 410)]) =
      elabTree stW0 (pendingStatus (some "S") [("INTERLOCK", 410)]) := by
  have h0 := separated_preserved exT {} (.define stS) rfl empty_world_ok.1 empty_world_ok.2
  have hrun : AdmissibleRun exT stW0 stOps := by
    refine ⟨?_, ?_, trivial⟩ <;> exact Option.isNone_iff_eq_none.1 (by decide +kernel)
  have hc : stW0.findClass "S" ≠ none := by
    intro h
    have : (stW0.findClass "S").isSome = true := by decide +kernel
    rw [h] at this
    cases this
  refine ⟨status_of_class_stable exT "S" stOps stW0 h0.1 h0.2 hrun hc,
    status_elab_stable exT stOps stW0 h0.1 h0.2 hrun _ (fun c _ hp => ?_)⟩
  have : c = "S" := by
    have : aget? (pendingStatus (some "S") [("INTERLOCK", 410)]).props "parent" = some "S" := by decide +kernel
    rw [this] at hp
    exact (Option.some.inj hp).symm
  rw [this]
  exact hc

/-- **what a status declaration means does not depend on the definition order**: in any two programs that define their
classes with the same (elaborated) bodies, each in an order consistent with inheritance, whatever else they do, a declaration
`StatusType(<c>, …)` written after them is worked out to the same datatype - the codes of `c` are the same in both (`c` may have
been defined before or after any other family using the same numbers under other names) -/
theorem status_elab_order_independent (T : Tables) (env : Name → Option ClassDecl) (ops1 ops2 : List Op)
    (ha1 : AdmissibleRun T {} ops1) (hc1 : ConsistentRun T env {} ops1)
    (ha2 : AdmissibleRun T {} ops2) (hc2 : ConsistentRun T env {} ops2) (t : DTree)
    (hp : ∀ c, t.kind = "status?" → aget? t.props "parent" = some c →
      (run T {} ops1).findClass c ≠ none ∧ (run T {} ops2).findClass c ≠ none) :
    elabTree (run T {} ops1) t = elabTree (run T {} ops2) t := by
  unfold elabTree
  split
  · next p _ more =>
    cases hpar : aget? p "parent" with
    | none => rfl
    | some c =>
      obtain ⟨h1, h2⟩ := hp c rfl hpar
      simp only [statusCodesOf, order_independent T env ops1 ops2 ha1 hc1 ha2 hc2 c h1 h2]
  · rfl

/-- … and the monitor is complete: one outcome per action ⇒ no offender -/
theorem contextOffenders_complete {α β : Type} [DecidableEq α] [DecidableEq β] (l : List (α × β))
    (h : ContextFree l) : contextOffenders l = [] := by
  unfold contextOffenders
  have hf : l.filter (fun p => l.any (fun q => p.1 == q.1 && decide (q.2 ≠ p.2))) = [] := by
    rw [List.filter_eq_nil_iff]
    intro p hp hany
    rw [List.any_eq_true] at hany
    obtain ⟨q, hq, hcond⟩ := hany
    simp only [Bool.and_eq_true, beq_iff_eq, decide_eq_true_eq] at hcond
    obtain ⟨hk, hne⟩ := hcond
    have hq' : (p.1, q.2) ∈ l := by rw [hk]; exact hq
    exact hne (h p.1 q.2 p.2 hq' hp)
  rw [hf]
  rfl

/-- the two families of the example, their status worked out on top of `S`, defined in either order -/
def stA : ClassDecl := ⟨"A1", ["A1", "S"], true, [("status", .param none (some (statusTree [("IDLE", 100), ("ERROR", 400)] [("TRIPPED", 410)])) [] true)]⟩
def stB : ClassDecl := ⟨"B1", ["B1", "S"], true, [("status", .param none (some (statusTree [("IDLE", 100), ("ERROR", 400)] [("INTERLOCK", 410)])) [] true)]⟩
def stEnv (n : Name) : Option ClassDecl :=
  if n = "S" then some stS else if n = "A1" then some stA else if n = "B1" then some stB else none
def stOps1 : List Op := [.define stS, .define stA, .define stB]
def stOps2 : List Op := [.define stS, .define stB, .define stA]

/-- the hypotheses of `status_elab_order_independent` are satisfiable (both orders admissible and consistent, the class named
in the declaration defined by both), and what it gives on the concrete worlds: a subclass of `B1` adding RAMPING gets
INTERLOCK - never TRIPPED - in either order -/
example : elabTree (run exT {} stOps1) (pendingStatus (some "B1") [("RAMPING", 370)]) =
      elabTree (run exT {} stOps2) (pendingStatus (some "B1") [("RAMPING", 370)]) ∧
    (elabTree (run exT {} stOps1) (pendingStatus (some "B1") [("RAMPING", 370)])).children.head?.map DTree.members =
      some [("IDLE", 100), ("ERROR", 400), ("INTERLOCK", 410), ("RAMPING", 370)] := by
  have ha1 : AdmissibleRun exT {} stOps1 := by
    refine ⟨rfl, ?_, ?_, trivial⟩ <;> exact Option.isNone_iff_eq_none.1 (by decide +kernel)
  have ha2 : AdmissibleRun exT {} stOps2 := by
    refine ⟨rfl, ?_, ?_, trivial⟩ <;> exact Option.isNone_iff_eq_none.1 (by decide +kernel)
  have hS : ∀ ops : List Op, ((run exT {} ops).findClass "S").isSome = true → (run exT {} ops).findClass "S" ≠ none := by
    intro ops h h'
    rw [h'] at h
    cases h
  have hc1 : ConsistentRun exT stEnv {} stOps1 := by
    refine ⟨⟨by simp [stEnv, stS], fun m hm => ?_⟩, ⟨by simp [stEnv, stA], fun m hm => ?_⟩,
      ⟨by simp [stEnv, stB], fun m hm => ?_⟩, trivial⟩
    · simp [stS] at hm
    · simp only [stA, List.tail_cons, List.mem_singleton] at hm
      subst hm
      intro _
      exact hS (stOps1.take 1) (by decide +kernel)
    · simp only [stB, List.tail_cons, List.mem_singleton] at hm
      subst hm
      intro _
      exact hS (stOps1.take 2) (by decide +kernel)
  have hc2 : ConsistentRun exT stEnv {} stOps2 := by
    refine ⟨⟨by simp [stEnv, stS], fun m hm => ?_⟩, ⟨by simp [stEnv, stB], fun m hm => ?_⟩,
      ⟨by simp [stEnv, stA], fun m hm => ?_⟩, trivial⟩
    · simp [stS] at hm
    · simp only [stB, List.tail_cons, List.mem_singleton] at hm
      subst hm
      intro _
      exact hS (stOps2.take 1) (by decide +kernel)
    · simp only [stA, List.tail_cons, List.mem_singleton] at hm
      subst hm
      intro _
      exact hS (stOps2.take 2) (by decide +kernel)
  refine ⟨status_elab_order_independent exT stEnv stOps1 stOps2 ha1 hc1 ha2 hc2 _ (fun c _ hp => ?_), by decide +kernel⟩
  have hcB : c = "B1" := by
    have : aget? (pendingStatus (some "B1") [("RAMPING", 370)]).props "parent" = some "B1" := by decide +kernel
    rw [this] at hp
    exact (Option.some.inj hp).symm
  subst hcB
  constructor
  · intro h
    have : ((run exT {} stOps1).findClass "B1").isSome = true := by decide +kernel
    rw [h] at this
    cases this
  · intro h
    have : ((run exT {} stOps2).findClass "B1").isSome = true := by decide +kernel
    rw [h] at this
    cases this

end Frappy.Props.C09
