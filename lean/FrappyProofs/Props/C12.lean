import FrappyProofs.Lemmas.Cache
import FrappyProofs.Lemmas.WireCore
import FrappyProofs.Lemmas.ClientOf
import FrappyProofs.Lemmas.RatWireLaws
import FrappyModel.Client.CacheDT
import FrappyModel.Generated.C12
/-
C12 — property theorems (nothing but property theorems and their non-vacuity examples).

All theorems are for every description (`mp : Maps`), every import oracle `imp`, every callback behaviour `behave`,
every starting state and every history; the tables enter through `TablesOk`, which is proved for the tables
generated from the source (`tables_ok`).
-/
namespace Frappy.Props.C12
open Frappy.Client.Cache Frappy.Spec.C12 Frappy.Lemmas.Cache

/-- the tables of the source tree -/
def srcTables : Tables :=
  { updateMessages := Generated.C12.updateMessages, errorPrefix := Generated.C12.errorPrefix,
    writeReply := Generated.C12.writeReply, name2class := Generated.C12.name2class,
    clsname2name := Generated.C12.clsname2name, predefined := Generated.C12.predefined,
    internalError := Generated.C12.internalError }

/-- table facts: `UPDATE_MESSAGES` are exactly the five kinds of the statement, the `error_` prefix singles out the
two error kinds, `changed` is the write reply, and the two class tables of `errors.py` are consistent -/
theorem tables_ok : TablesOk srcTables := by decide +kernel

/-- the error classes of the SECoP standard -/
def secopErrorClasses : List Str :=
  ["ProtocolError", "NoSuchModule", "NoSuchParameter", "NoSuchCommand", "CommandFailed", "CommandRunning",
   "ReadOnly", "WrongType", "RangeError", "BadJSON", "NotImplemented", "HardwareError", "IsBusy", "IsError",
   "Disabled", "Impossible", "ReadFailed", "OutOfRange", "InternalError", "CommunicationFailed",
   "TimeoutError"].map String.toList

/-- every error class of the standard comes back as itself -/
theorem standard_classes_kept : ∀ n ∈ secopErrorClasses, canonName srcTables (some n) = n := by decide +kernel

section
variable {J V : Type}

/-- the rebuilt error of a report carries the reported error class (the generic `InternalError` when the tables do
not know it) and the reported text — every class, every text -/
theorem rebuilt_error {t : Tables} (ht : TablesOk t) (cls : Option Str) (text : Str) :
    Rebuilt t cls text (makeSecopError t cls text) :=
  makeSecopError_rebuilt ht cls text

/-- what the loop writes for a line is the import of that line's message for the parameter it denotes -/
theorem accepted_is_import {t : Tables} (ht : TablesOk t) {mp : Maps} {imp : Str → Str → J → Option V} {now : Int}
    {msg : Msg J} {a : Accepted V} (h : classify t mp imp now msg = .accepted a) :
    Effective t mp imp now msg a.m a.p a.item :=
  classify_accepted ht h

/-- every cached time stamp is ≤ the clock at the arrival of its message -/
theorem timestamp_not_future {t : Tables} (ht : TablesOk t) {mp : Maps} {imp : Str → Str → J → Option V} {now : Int}
    {msg : Msg J} {a : Accepted V} (h : classify t mp imp now msg = .accepted a) : NotFuture now a.item := by
  obtain ⟨_, _, _, hi⟩ := classify_accepted ht h
  unfold Imports at hi
  unfold NotFuture
  cases hd : msg.data with
  | malformed => simp [hd] at hi
  | value j tq =>
    cases hc : a.item.content with
    | error e => simp [hd, hc] at hi
    | value v => simp only [hd, hc] at hi; exact stamp_le hi.2.2
  | report cls text tq =>
    cases hc : a.item.content with
    | value v => simp [hd, hc] at hi
    | error e => simp only [hd, hc] at hi; exact stamp_le hi.2.2

/-- a line that is garbage, not one of the five kinds, for an unknown identifier, for a command, or not importable
changes neither the cache nor the registry and calls nobody -/
theorem ineffective_changes_nothing {t : Tables} (ht : TablesOk t) (mp : Maps) (imp : Str → Str → J → Option V)
    (behave : Call V → Outcome) (s : State V) (now : Int) (l : Line J) (h : effectiveFor mp imp l = none) :
    (rxStep t mp imp behave s now l).cache = s.cache ∧ (rxStep t mp imp behave s now l).regs = s.regs ∧
    (rxStep t mp imp behave s now l).calls = s.calls := by
  cases l with
  | garbage => simp [rxStep]
  | msg msg =>
    unfold rxStep
    cases hc : classify t mp imp now msg with
    | ignored => simp [hc]
    | dropped => simp [hc]
    | accepted a =>
      have he := classify_accepted ht hc
      have := (effectiveFor_some ht mp imp now msg a.m a.p).2 ⟨_, he⟩
      rw [h] at this; cases this

/-- **cache_eq_last_message**: after any history (lines of every kind, registrations and unregistrations in between)
the cache entry of every parameter is the import of the last message for it — value or rebuilt error, time stamp not in
the future — and is untouched when no such message came -/
theorem cache_eq_last_message {t : Tables} (ht : TablesOk t) (mp : Maps) (imp : Str → Str → J → Option V)
    (behave : Call V → Outcome) (s : State V) (evs : List (Ev J)) :
    CacheMirrors t mp imp evs s.cache (run t mp imp behave s evs).cache := by
  induction evs generalizing s with
  | nil =>
    intro m p
    exact Or.inl ⟨fun _ _ h => by simp at h, rfl⟩
  | cons ev rest ih =>
    intro m p
    have hrun : run t mp imp behave s (ev :: rest) = run t mp imp behave (step t mp imp behave s ev) rest := rfl
    rw [hrun]
    rcases ih (step t mp imp behave s ev) m p with ⟨hno, hget⟩ | ⟨pre, now, msg, post, item, hsplit, heff, hno, hget⟩
    · -- nothing for (m, p) in the rest: look at `ev`
      have hcache := step_cache t mp imp behave s ev
      by_cases hev : ∃ now msg item, ev = Ev.line now (.msg msg) ∧ Effective t mp imp now msg m p (item : Item V)
      · obtain ⟨now, msg, item, hev, heff⟩ := hev
        obtain ⟨a, ha, hm, hp⟩ := classify_effective ht heff
        right
        refine ⟨[], now, msg, rest, a.item, by simp [hev], ?_, hno, ?_⟩
        · have := classify_accepted ht ha
          rw [hm, hp] at this; exact this
        · rw [hget, hcache, hev]
          simp only [ha, hm, hp]
          exact dictGet_dictSet_self _ _ _
      · left
        refine ⟨?_, ?_⟩
        · intro now msg hmem item heff
          simp only [List.mem_cons] at hmem
          rcases hmem with hmem | hmem
          · exact hev ⟨now, msg, item, hmem.symm, heff⟩
          · exact hno now msg hmem item heff
        · rw [hget, hcache]
          cases ev with
          | register r => rfl
          | unregister r => rfl
          | line now l =>
            cases l with
            | garbage => rfl
            | msg msg =>
              simp only
              cases hc : classify t mp imp now msg with
              | ignored => rfl
              | dropped => rfl
              | accepted a =>
                simp only
                have he := classify_accepted ht hc
                apply dictGet_dictSet_ne
                intro hk
                simp only [Prod.mk.injEq] at hk
                exact hev ⟨now, msg, a.item, rfl, by rw [hk.1, hk.2]; exact he⟩
    · right
      exact ⟨ev :: pre, now, msg, post, item, by simp [hsplit], heff, hno, hget⟩

/-- **callbacks_once_in_order**: the calls a run makes are the concatenation, in arrival order, of one block per event;
the history of blocks satisfies `Mirrors`: a block of an effective line calls every live registration of the three
levels exactly once with the message's parameter and imported item (one that a callback of the same block unregisters:
at most once) and changes exactly that cache entry, a line that is not effective calls nobody, a registration is called
back at once for exactly the cached entries it concerns, and "live" follows registrations, unregistrations from outside
and from inside callbacks, and `UnregisterCallback` -/
theorem callbacks_once_in_order [DecidableEq V] {t : Tables} (ht : TablesOk t) (mp : Maps) (imp : Str → Str → J → Option V)
    (behave : Call V → Outcome) (s : State V) (evs : List (Ev J)) (hk : KeysNodup s.cache) :
    Mirrors t mp imp behave s.cache s.regs (history t mp imp behave s evs) ∧
    (run t mp imp behave s evs).calls = s.calls ++ (history t mp imp behave s evs).flatMap (·.2.1) := by
  induction evs generalizing s with
  | nil => exact ⟨Mirrors.nil _ _, by simp [run, history]⟩
  | cons ev rest ih =>
    have hrun : run t mp imp behave s (ev :: rest) = run t mp imp behave (step t mp imp behave s ev) rest := rfl
    obtain ⟨h1, h2⟩ := ih (step t mp imp behave s ev) (step_keysNodup t mp imp behave s ev hk)
    constructor
    · simp only [history]
      refine Mirrors.cons _ _ _ _ _ _ (step_ok ht mp imp behave s ev hk) ?_
      rw [← step_regs]; exact h1
    · rw [hrun, h2, step_calls]
      simp [history, List.append_assoc]

/-- the monitor the driver runs on recorded histories of the implementation decides the specification: it answers
`none` exactly when the recorded history satisfies `Mirrors` from the empty cache and registry -/
theorem judge_iff [DecidableEq V] (t : Tables) (mp : Maps) (imp : Str → Str → J → Option V) (behave : Call V → Outcome)
    (steps : List (Ev J × List (Call V) × Cache V)) :
    judge t mp imp behave steps = none ↔ Mirrors t mp imp behave [] [] steps :=
  judgeFrom_iff t mp imp behave 0 [] [] steps

/-! ## End to end -/

/-- **e2e_read**: a value the driver returned (`r`), exported by the node, sent in a `reply`, `changed` or `update`
message and imported by the client with a result equal to `r` (round-trip law of C02, hypothesis `hrd`) is what the
cache holds afterwards, stamped not later than the clock -/
theorem e2e_read {t : Tables} (ht : TablesOk t) (mp : Maps) (imp : Str → Str → J → Option V)
    (behave : Call V → Outcome) (c : Codecs V J) (eqv : V → V → Prop)
    (action ident m p : Str) (s : State V) (now : Int) (tnode : TQ) (r : V)
    (hact : action ∈ cacheActions) (hnoerr : action ∉ errorActions)
    (hident : denoted mp action (some ident) = some (m, p)) (hparam : mp.isParam m p = true) (htq : tnode ≠ .bad)
    (hrd : ∃ r', imp m p (c.wire (c.nodeExport r)) = some r' ∧ eqv r' r) :
    ∃ r' ts, dictGet (rxStep t mp imp behave s now (.msg ⟨action, some ident, .value (c.wire (c.nodeExport r)) tnode⟩)).cache
        (m, p) = some ⟨.value r', ts⟩ ∧ eqv r' r ∧ ts ≤ now := by
  obtain ⟨r', hr', heqr⟩ := hrd
  obtain ⟨ts, hts⟩ : ∃ ts, clip now tnode = some ts := by cases tnode <;> simp_all [clip]
  have heff : Effective t mp imp now ⟨action, some ident, .value (c.wire (c.nodeExport r)) tnode⟩ m p
      ⟨.value r', ts⟩ := ⟨hact, hident, hparam, by simp only [Imports]; exact ⟨hnoerr, hr', clip_stamp hts⟩⟩
  obtain ⟨a, ha, hm, hp⟩ := classify_effective ht heff
  have hacc := classify_accepted ht ha
  -- the accepted item is the import of the same data: value r', stamp ts
  have hitem : a.item = ⟨.value r', ts⟩ := by
    obtain ⟨_, _, _, hi⟩ := hacc
    simp only [Imports] at hi
    cases hcont : a.item.content with
    | error e => simp [hcont] at hi
    | value x =>
      simp only [hcont] at hi
      obtain ⟨_, hx, hst⟩ := hi
      rw [hm, hp, hr'] at hx
      have hts' := stamp_clip hst
      rw [hts] at hts'
      cases hai : a.item with
      | mk content ts0 =>
        rw [hai] at hcont hts'
        simp only at hcont hts'
        simp only [Option.some.injEq] at hx hts'
        rw [hcont, ← hx, ← hts']
  simp only [rxStep, ha]
  have hcache := (updateValue_spec behave a.m a.p a.item s).1
  rw [hcache, hm, hp, dictGet_dictSet_self, hitem]
  exact ⟨r', ts, rfl, heqr, stamp_le (clip_stamp hts)⟩

/-- **e2e_write**: if the client's export, the wire and the node's import hand the driver a value equal to the caller's
(round-trip law of C02, hypothesis `hwr`), and the way back satisfies the law of `e2e_read` for what the driver answers (`hrd`), then after
`setParameter` the driver has received a value equal to the caller's and the cache holds a value equal to the driver's
answer, stamped not later than the clock — for every datatype, as far as it satisfies the two laws -/
theorem e2e_write {t : Tables} (ht : TablesOk t) (mp : Maps) (imp : Str → Str → J → Option V)
    (behave : Call V → Outcome) (c : Codecs V J) (drv : V → V) (eqv : V → V → Prop)
    (ident m p : Str) (s : State V) (now : Int) (tnode : TQ) (v : V)
    (hident : denoted mp t.writeReply (some ident) = some (m, p)) (hparam : mp.isParam m p = true)
    (htq : tnode ≠ .bad)
    (hwr : ∃ j v', c.clientExport v = some j ∧ c.nodeImport (c.wire j) = some v' ∧ eqv v' v)
    (hrd : ∀ x, ∃ r', imp m p (c.wire (c.nodeExport (drv x))) = some r' ∧ eqv r' (drv x)) :
    let res := e2eWrite t mp imp behave c drv ident s now tnode v
    WriteMirrors eqv drv v res.driverGot (dictGet res.state.cache (m, p)) ∧
      ∀ it, dictGet res.state.cache (m, p) = some it → NotFuture now it := by
  obtain ⟨j, v', hj, hv', heq⟩ := hwr
  have hchanged : t.writeReply ∈ cacheActions := by rw [ht.2.2.2.1]; decide
  have hnoerr : t.writeReply ∉ errorActions := by rw [ht.2.2.2.1]; decide
  obtain ⟨r', ts, hget, heqr, hle⟩ := e2e_read ht mp imp behave c eqv t.writeReply ident m p s now tnode (drv v')
    hchanged hnoerr hident hparam htq (hrd v')
  simp only [e2eWrite, hj, hv']
  rw [hget]
  refine ⟨⟨v', rfl, heq, r', ts, rfl, heqr⟩, ?_⟩
  intro it hit
  simp only [Option.some.injEq] at hit
  subst hit
  exact hle

end

/-! ## An error raised on a frappy node comes back as the same error

What a node writes into a report for an error `e` is `[e.name, str(e)]` (`dispatcher.py:50`, `handler.py:150`), where `str`
is `SECoPError.format` (`formatErr`: the class name in front of the text unless the class is the one registered for its
error name).  `make_secop_error` inverts this. -/

/-- **error_roundtrip**: an error object of a class of `errors.py`, with a text free of line breaks, formatted by the
node and rebuilt by the client is the same object — same Python class, same error name, same text.  For the class
registered for its error name the text must not itself start with `<another class of the same error name>: ` (these two
errors are reported with the same words; see `NoRefinementPrefix`). -/
theorem error_roundtrip {t : Tables} (e : ErrObj) (hok : ErrOk t e) (hword : e.pycls.all isWordChar = true)
    (hnl : '\n' ∉ e.arg) (hpre : dictGet t.name2class e.name = some e.pycls → NoRefinementPrefix t e) :
    makeSecopError t (some e.name) (formatErr t e) = e :=
  makeSecopError_format e hok hword hnl hpre

/-- table fact: every class of `errors.py` is an identifier, carries an error name some class is registered for, and that
class carries the same name -/
theorem source_classes_ok :
    ∀ c ∈ srcTables.clsname2name, ErrOk srcTables ⟨c.1, c.2, []⟩ ∧ c.1.all isWordChar = true := by decide +kernel

/-- … hence the round trip holds for every class of `errors.py` and every such text -/
theorem source_error_roundtrip (c : Str × Str) (hc : c ∈ srcTables.clsname2name) (arg : Str) (hnl : '\n' ∉ arg)
    (hpre : dictGet srcTables.name2class c.2 = some c.1 → NoRefinementPrefix srcTables ⟨c.1, c.2, arg⟩) :
    makeSecopError srcTables (some c.2) (formatErr srcTables ⟨c.1, c.2, arg⟩) = ⟨c.1, c.2, arg⟩ :=
  error_roundtrip ⟨c.1, c.2, arg⟩ (source_classes_ok c hc).1 (source_classes_ok c hc).2 hnl hpre

/-! ## End to end with the datatype model in place of the oracles

The hypotheses `hwr`/`hrd` of `e2e_write`/`e2e_read` are discharged from the C02 development for the concrete codec
functions `dtCodecs` (export with the client's rebuilt datatype, import with the node's, export of the driver's answer,
import with the client's datatype `dtImp`), for every float carrier satisfying `Spec.C02.WireLaws`, every well-formed
datatype tree and every valid value — in particular integers travel exactly whatever their size (`.int i` for every
`i` inside the declared limits, up to ±2^64). -/

section datatypes
open Frappy.Datatypes Frappy.Spec.C02 Frappy.Lemmas.C02
open PVal (pyEq)
variable {F : Type} [FloatOps F] [WireLaws F]

/-- value equality of the statement: Python's `==` -/
def PyEq (a b : PVal F) : Prop := pyEq a b = true

/-- the way out: what `setParameter` exports with the client's datatype, sent over a wire that keeps strict JSON,
imports on the node to a value equal to the caller's -/
theorem datatypes_write_law (wire : JVal F → JVal F) (hwire : ∀ j, StrictJ j → wire j = j) (hb : B64Law)
    (dt cdt : DType F) (hwf : dt.WF) (hc : clientOf dt = some cdt) (v : PVal F) (hv : Valid dt v) :
    ∃ j v', (dtCodecs wire dt cdt).clientExport v = some j ∧
      (dtCodecs wire dt cdt).nodeImport ((dtCodecs wire dt cdt).wire j) = some v' ∧ PyEq v' v := by
  obtain ⟨j, v', h1, _, h3, _, h4, h5⟩ := wire_core dt v hwf hv hb
  refine ⟨j, v', ?_, ?_, h5.1⟩
  · simp [dtCodecs, export_clientOf dt cdt v hc, h1]
  · simp [dtCodecs, hwire j h3, h4]

/-- the way back: a valid value the driver returned, exported by the node and sent over such a wire, imports with the
client's datatype to a value equal to it -/
theorem datatypes_read_law (wire : JVal F → JVal F) (hwire : ∀ j, StrictJ j → wire j = j) (hb : B64Law)
    (dts : DtTable F) (dt cdt : DType F) (hwf : dt.WF) (hc : clientOf dt = some cdt) (m p : Str)
    (hdts : dictGet dts (m, p) = some cdt) (r : PVal F) (hr : Valid dt r) :
    ∃ r', dtImp dts m p ((dtCodecs wire dt cdt).wire ((dtCodecs wire dt cdt).nodeExport r)) = some r' ∧ PyEq r' r := by
  obtain ⟨j, r', h1, _, h3, _, h4, h5⟩ := wire_core dt r hwf hr hb
  refine ⟨r', ?_, h5.1⟩
  simp [dtCodecs, dtImp, hdts, h1, hwire j h3, import_clientOf dt cdt j hc, h4]

/-- **e2e_write_datatypes**: second sentence of C12 with the datatype model as codec — for every well-formed datatype
(all ten kinds, nested), every valid value `v` and every driver answering valid values, after `setParameter` the driver
has received a value equal to `v` and the cache holds a value equal to the driver's answer, stamped not later than the
clock.  Missing towards the code: the node-side `validate(value, previous)` between import and driver (C01/C04). -/
theorem e2e_write_datatypes {t : Tables} (ht : TablesOk t) (mp : Maps) (dts : DtTable F)
    (behave : Call (PVal F) → Outcome) (wire : JVal F → JVal F) (hwire : ∀ j, StrictJ j → wire j = j) (hb : B64Law)
    (dt cdt : DType F) (hwf : dt.WF) (hc : clientOf dt = some cdt) (drv : PVal F → PVal F)
    (ident m p : Str) (s : State (PVal F)) (now : Int) (tnode : TQ) (v : PVal F)
    (hident : denoted mp t.writeReply (some ident) = some (m, p)) (hparam : mp.isParam m p = true)
    (htq : tnode ≠ .bad) (hdts : dictGet dts (m, p) = some cdt)
    (hv : Valid dt v) (hdrv : ∀ x, Valid dt (drv x)) :
    let res := e2eWrite t mp (dtImp dts) behave (dtCodecs wire dt cdt) drv ident s now tnode v
    WriteMirrors PyEq drv v res.driverGot (dictGet res.state.cache (m, p)) ∧
      ∀ it, dictGet res.state.cache (m, p) = some it → NotFuture now it :=
  e2e_write ht mp (dtImp dts) behave (dtCodecs wire dt cdt) drv PyEq ident m p s now tnode v hident hparam htq
    (datatypes_write_law wire hwire hb dt cdt hwf hc v hv)
    (fun x => datatypes_read_law wire hwire hb dts dt cdt hwf hc m p hdts (drv x) (hdrv x))

/-- **e2e_read_datatypes**: a valid value the driver returned or announced arrives in the cache equal to it, through
`update`, `reply` or `changed` -/
theorem e2e_read_datatypes {t : Tables} (ht : TablesOk t) (mp : Maps) (dts : DtTable F)
    (behave : Call (PVal F) → Outcome) (wire : JVal F → JVal F) (hwire : ∀ j, StrictJ j → wire j = j) (hb : B64Law)
    (dt cdt : DType F) (hwf : dt.WF) (hc : clientOf dt = some cdt)
    (action ident m p : Str) (s : State (PVal F)) (now : Int) (tnode : TQ) (r : PVal F)
    (hact : action ∈ cacheActions) (hnoerr : action ∉ errorActions)
    (hident : denoted mp action (some ident) = some (m, p)) (hparam : mp.isParam m p = true) (htq : tnode ≠ .bad)
    (hdts : dictGet dts (m, p) = some cdt) (hr : Valid dt r) :
    ∃ r' ts, dictGet (rxStep t mp (dtImp dts) behave s now
        (.msg ⟨action, some ident, .value (wire ((dtCodecs wire dt cdt).nodeExport r)) tnode⟩)).cache (m, p)
          = some ⟨.value r', ts⟩ ∧ PyEq r' r ∧ ts ≤ now :=
  e2e_read ht mp (dtImp dts) behave (dtCodecs wire dt cdt) PyEq action ident m p s now tnode r hact hnoerr hident hparam htq
    (datatypes_read_law wire hwire hb dts dt cdt hwf hc m p hdts r hr)

/-- integers are not touched at all on the way: an integer parameter's value arrives as the same integer, whatever its
size inside the declared limits (the case a conversion through a double would break beyond 2^53) -/
theorem int_import_exact (min max i : Int) (hwf : (DType.int (F := F) min max).WF) (h : min ≤ i ∧ i ≤ max) :
    importValue (.int min max : DType F) (.int i) = .ok (.int i) ∧
    exportValue (.int min max : DType F) (.int i) = .ok (.int i) := by
  have hv : Valid (.int min max : DType F) (.int i) := by simpa [Valid, Spec.C01.InSetG] using h
  exact ⟨(int_rt (F := F) hwf hv).1, rfl⟩

/-- the whole `change` of an integer parameter in the model that the correspondence run compares with the code
(`writeTrace`: client export, node import, `validate(value, previous)`, the write wrapper's validation, the driver — echoing
its argument or answering `r` inside the limits —, validation and export of the answer, the client's import): the driver
gets the caller's integer itself and the cache holds the answer itself, whatever their size and whatever the parameter
held before -/
theorem int_write_validated (min max i : Int) (hwf : (DType.int (F := F) min max).WF) (h : min ≤ i ∧ i ≤ max)
    (prev : Option (PVal F)) (ret : Option Int) (hret : ∀ r, ret = some r → min ≤ r ∧ r ≤ max) :
    writeTrace (.int min max : DType F) (.int min max) prev (.int i) (ret.map .int) =
      some ⟨.int i, .int (ret.getD i)⟩ := by
  have hwf' := hwf
  simp only [DType.WF] at hwf'
  obtain ⟨y, hy⟩ := WireLaws.ofInt_inRange (F := F) i (by omega) (by omega)
  cases ret with
  | none =>
    simp [writeTrace, exportValue, intExport, nodeAccept, acceptWire, importValue, call, validate, conv, PVal.ofJVal,
      intCall, intValidate, hy, Except.map, nodeAnswer, h]
  | some r =>
    have hr := hret r rfl
    obtain ⟨z, hz⟩ := WireLaws.ofInt_inRange (F := F) r (by omega) (by omega)
    simp [writeTrace, exportValue, intExport, nodeAccept, acceptWire, importValue, call, validate, conv, PVal.ofJVal,
      intCall, intValidate, hy, hz, Except.map, nodeAnswer, h, hr]

/-- the monitor of the second sentence decides `WriteMirrors` for the observed driver call and answer -/
theorem writeOkB_iff {V : Type} (eqb : V → V → Bool) (drv : V → V) (v v' : V) (entry : Option (Item V)) :
    writeOkB eqb v [v'] (drv v') entry = true ↔
      WriteMirrors (fun a b => eqb a b = true) drv v (some v') entry := by
  constructor
  · intro h
    cases entry with
    | none => simp [writeOkB] at h
    | some it =>
      obtain ⟨c, ts⟩ := it
      cases c with
      | error e => simp [writeOkB] at h
      | value r =>
        simp only [writeOkB, Bool.and_eq_true] at h
        exact ⟨v', rfl, h.1, r, ts, rfl, h.2⟩
  · rintro ⟨w, hw, h1, r, ts, he, h2⟩
    simp only [Option.some.injEq] at hw
    subst hw he
    simp [writeOkB, h1, h2]

end datatypes

section
variable {J V : Type}

/-- time stamps over a whole history: if the clock readings of the lines never exceed `T` and no entry of the starting
cache is stamped later than `T`, no entry of the final cache is -/
theorem timestamps_not_future_run {t : Tables} (ht : TablesOk t) (mp : Maps) (imp : Str → Str → J → Option V)
    (behave : Call V → Outcome) (T : Int) (s : State V) (evs : List (Ev J))
    (hclock : ∀ now l, Ev.line now l ∈ evs → now ≤ T)
    (h0 : ∀ k it, dictGet s.cache k = some it → it.ts ≤ T) :
    ∀ k it, dictGet (run t mp imp behave s evs).cache k = some it → it.ts ≤ T := by
  induction evs generalizing s with
  | nil => exact h0
  | cons ev rest ih =>
    have hrun : run t mp imp behave s (ev :: rest) = run t mp imp behave (step t mp imp behave s ev) rest := rfl
    rw [hrun]
    apply ih
    · intro now l hm; exact hclock now l (List.mem_cons_of_mem _ hm)
    · intro k it hk
      rw [step_cache] at hk
      cases ev with
      | register r => exact h0 k it hk
      | unregister r => exact h0 k it hk
      | line now l =>
        cases l with
        | garbage => exact h0 k it hk
        | msg msg =>
          simp only at hk
          cases hc : classify t mp imp now msg with
          | ignored => rw [hc] at hk; exact h0 k it hk
          | dropped => rw [hc] at hk; exact h0 k it hk
          | accepted a =>
            rw [hc] at hk
            simp only at hk
            by_cases hka : k = (a.m, a.p)
            · rw [hka, dictGet_dictSet_self] at hk
              simp only [Option.some.injEq] at hk
              subst hk
              have := timestamp_not_future ht hc
              unfold NotFuture at this
              exact Int.le_trans this (hclock now _ (List.mem_cons_self))
            · rw [dictGet_dictSet_ne _ _ _ _ hka] at hk
              exact h0 k it hk

end

/-! ## Non-vacuity: a concrete description, history and run -/

section example_
def exMaps : Maps := initDescription srcTables
  [⟨"m".toList, [⟨"value".toList, false⟩, ⟨"_p".toList, false⟩, ⟨"stop".toList, true⟩]⟩]

def exImp : Str → Str → Nat → Option Nat := fun _ _ j => if j < 100 then some (j + 1) else none

def exBehave : Call Nat → Outcome := fun c => if c.reg.cb = 3 then .unregister else if c.reg.cb = 4 then .raises else .ok

def exEvs : List (Ev Nat) :=
  [.register ⟨.event, .node, 1⟩, .register ⟨.item, .param "m".toList "p".toList, 2⟩, .register ⟨.event, .module "m".toList, 3⟩,
   .register ⟨.item, .node, 4⟩,
   .line 40 (.msg ⟨"update".toList, some "m:_p".toList, .value 7 (.num 50)⟩),          -- future stamp: clipped to 40
   .line 41 .garbage,
   .line 42 (.msg ⟨"update".toList, some "m".toList, .value 5 (.num 30)⟩),             -- shorthand for m:value
   .line 43 (.msg ⟨"update".toList, some "m:stop".toList, .value 5 .absent⟩),          -- a command: dropped
   .line 44 (.msg ⟨"error_update".toList, some "m:_p".toList, .report (some "HardwareError".toList) "ConfigError: x".toList .absent⟩),
   .line 45 (.msg ⟨"update".toList, some "m:_p".toList, .value 500 .absent⟩),          -- not importable
   .unregister ⟨.event, .node, 1⟩,
   .line 46 (.msg ⟨"reply".toList, some ".".toList, .value 1 .absent⟩),
   .register ⟨.event, .node, 5⟩]

/-- the run of the example: the hypotheses of the theorems are met (`tables_ok`, unique keys of the empty cache) and
the result is not trivial — two cache entries, the first with the clipped stamp replaced by the rebuilt error of class
`HardwareError` (the class named in the text is not taken), eleven calls, the self-unregistering callback gone -/
example : (run srcTables exMaps exImp exBehave {} exEvs).cache =
      [(("m".toList, "p".toList), ⟨.error ⟨"HardwareError".toList, "HardwareError".toList, "ConfigError: x".toList⟩, 44⟩),
       (("m".toList, "value".toList), ⟨.value 6, 30⟩)] ∧
    (run srcTables exMaps exImp exBehave {} exEvs).calls.length = 11 ∧
    (run srcTables exMaps exImp exBehave {} exEvs).regs.map (·.cb) = [2, 4, 5] ∧
    (run srcTables exMaps exImp exBehave {} exEvs).reported = 6 := by decide +kernel

example : CacheMirrors srcTables exMaps exImp exEvs [] (run srcTables exMaps exImp exBehave {} exEvs).cache :=
  cache_eq_last_message tables_ok exMaps exImp exBehave {} exEvs

example : Mirrors srcTables exMaps exImp exBehave [] [] (history srcTables exMaps exImp exBehave {} exEvs) :=
  (callbacks_once_in_order tables_ok exMaps exImp exBehave {} exEvs (by simp [KeysNodup])).1

/-- the monitor accepts the model's own history of the example and rejects it when one call is dropped -/
example : judge srcTables exMaps exImp exBehave (history srcTables exMaps exImp exBehave {} exEvs) = none ∧
    judge srcTables exMaps exImp exBehave
      ((history srcTables exMaps exImp exBehave {} exEvs).map fun st =>
        (st.1, st.2.1.filter (fun c => c.reg.cb != 2), st.2.2)) = some 4 := by decide +kernel

/-- the hypotheses of `e2e_write` are satisfiable: a codec that doubles on export and halves on import, a driver that
answers `v + 1`; writing 7 hands the driver 7 and leaves 8 in the cache, stamped with the clipped time 10 -/
example :
    let res := e2eWrite srcTables exMaps (fun _ _ (j : Nat) => some (j / 2)) (fun _ => Outcome.ok)
      ⟨fun v => some (v * 2), id, fun j => some (j / 2), fun r => r * 2⟩ (· + 1) "m:_p".toList {} 10 (.num 20) 7
    WriteMirrors Eq (· + 1) 7 res.driverGot (dictGet res.state.cache ("m".toList, "p".toList)) ∧
      ∀ it, dictGet res.state.cache ("m".toList, "p".toList) = some it → NotFuture 10 it :=
  e2e_write tables_ok exMaps _ _ _ _ Eq "m:_p".toList "m".toList "p".toList {} 10 (.num 20) 7
    (by decide +kernel) (by decide +kernel) (by decide)
    ⟨14, 7, rfl, rfl, rfl⟩ (fun x => ⟨x + 1, by simp, rfl⟩)

example : (e2eWrite srcTables exMaps (fun _ _ (j : Nat) => some (j / 2)) (fun _ => Outcome.ok)
      ⟨fun v => some (v * 2), id, fun j => some (j / 2), fun r => r * 2⟩ (· + 1) "m:_p".toList {} 10 (.num 20) 7).state.cache
    = [(("m".toList, "p".toList), ⟨.value 8, 10⟩)] := by decide +kernel

/-! ### the datatype instance: a 64 bit counter, a value and an answer beyond 2^53 -/

open Frappy.Datatypes Frappy.Spec.C02 in
def exIntDt : DType Rat := .int 0 18446744073709551615

def exDts : DtTable Rat := [(("m".toList, "p".toList), exIntDt)]

def exDrv : PVal Rat → PVal Rat := fun _ => .int 9223372036854775809

theorem exIntDt_wf : exIntDt.WF := by simp [exIntDt, DType.WF, DType.intLimit]

open Frappy.Datatypes Frappy.Spec.C02 in
/-- the hypotheses of `e2e_write_datatypes` are satisfiable (well-formed type, `clientOf`, valid value, valid answers) -/
example (hb : B64Law) :
    let res := e2eWrite srcTables exMaps (dtImp exDts) (fun _ => Outcome.ok) (dtCodecs id exIntDt exIntDt) exDrv
      "m:_p".toList {} 10 (.num 20) (.int 9007199254740993)
    WriteMirrors PyEq exDrv (.int 9007199254740993) res.driverGot (dictGet res.state.cache ("m".toList, "p".toList)) ∧
      ∀ it, dictGet res.state.cache ("m".toList, "p".toList) = some it → NotFuture 10 it :=
  e2e_write_datatypes tables_ok exMaps exDts _ id (fun _ _ => rfl) hb exIntDt exIntDt exIntDt_wf rfl exDrv
    "m:_p".toList "m".toList "p".toList {} 10 (.num 20) (.int 9007199254740993)
    (by decide +kernel) (by decide +kernel) (by decide) rfl
    (by simp [Valid, Spec.C01.InSetG, exIntDt]) (fun _ => by simp [Valid, Spec.C01.InSetG, exIntDt, exDrv])

def exIsInt (v : Option (PVal Rat)) (i : Int) : Bool :=
  match v with
  | some (.int k) => k == i
  | _ => false

def exEntryIs (c : Cache (PVal Rat)) (i ts : Int) : Bool :=
  match c with
  | [(_, ⟨.value (.int k), ts'⟩)] => k == i && ts' == ts
  | _ => false

/-- … and what the model computes for it: the driver gets 2^53+1 itself, the cache holds 2^63+1 itself, stamped 10 -/
example :
    exIsInt (e2eWrite srcTables exMaps (dtImp exDts) (fun _ => Outcome.ok) (dtCodecs id exIntDt exIntDt) exDrv
        "m:_p".toList {} 10 (.num 20) (.int 9007199254740993)).driverGot 9007199254740993 = true ∧
    exEntryIs (e2eWrite srcTables exMaps (dtImp exDts) (fun _ => Outcome.ok) (dtCodecs id exIntDt exIntDt) exDrv
        "m:_p".toList {} 10 (.num 20) (.int 9007199254740993)).state.cache 9223372036854775809 10 = true := by
  decide +kernel

/-- the monitor of the second sentence accepts an observation that satisfies it and rejects a driver value that lost
its low bits -/
example : writeOkB (fun a b : Int => a == b) 9007199254740993 [9007199254740993] 5 (some ⟨.value 5, 0⟩) = true ∧
    writeOkB (fun a b : Int => a == b) 9007199254740993 [9007199254740992] 5 (some ⟨.value 5, 0⟩) = false := by decide

/-- `error_roundtrip` is not vacuous: a refinement class (`ConfigError`, error name `InternalError`) is written in front
of the text and found again; the class registered for its name travels with the bare text -/
example : formatErr srcTables ⟨"ConfigError".toList, "InternalError".toList, "bad cfg: x".toList⟩ = "ConfigError: bad cfg: x".toList ∧
    makeSecopError srcTables (some "InternalError".toList) "ConfigError: bad cfg: x".toList =
      ⟨"ConfigError".toList, "InternalError".toList, "bad cfg: x".toList⟩ ∧
    makeSecopError srcTables (some "HardwareError".toList) (formatErr srcTables ⟨"HardwareError".toList, "HardwareError".toList, "boom".toList⟩) =
      ⟨"HardwareError".toList, "HardwareError".toList, "boom".toList⟩ := by decide +kernel

example : makeSecopError srcTables (some "InternalError".toList)
      (formatErr srcTables ⟨"ConfigError".toList, "InternalError".toList, "bad cfg: x".toList⟩) =
    ⟨"ConfigError".toList, "InternalError".toList, "bad cfg: x".toList⟩ :=
  source_error_roundtrip ("ConfigError".toList, "InternalError".toList) (by decide +kernel) "bad cfg: x".toList (by decide)
    (fun h => absurd h (by decide +kernel))

/-- the excluded case is real: these two different errors are reported with the same words -/
example : formatErr srcTables ⟨"InternalError".toList, "InternalError".toList, "ConfigError: x".toList⟩ =
    formatErr srcTables ⟨"ConfigError".toList, "InternalError".toList, "x".toList⟩ := by decide +kernel

/-! ### callbacks that unregister other callbacks while a message is dispatched -/

/-- callback 1 (all events of the node) unregisters callback 3 (events of module `m`) and callback 4 (items of the node)
when it is called -/
def exBehave2 : Call Nat → Outcome := fun c =>
  if c.reg.cb = 1 then ⟨[⟨.event, .module "m".toList, 3⟩, ⟨.item, .node, 4⟩], .ok⟩ else .ok

def exEvs2 : List (Ev Nat) :=
  [.register ⟨.item, .node, 4⟩, .register ⟨.event, .node, 1⟩, .register ⟨.event, .module "m".toList, 3⟩,
   .register ⟨.item, .param "m".toList "p".toList, 2⟩,
   .line 40 (.msg ⟨"update".toList, some "m:_p".toList, .value 7 .absent⟩),
   .line 41 (.msg ⟨"update".toList, some "m:_p".toList, .value 8 .absent⟩)]

/-- the first message reaches 4 and 2 (the `updateItem` fan-outs come first), then 1, which removes 3 before the module
fan-out of `updateEvent` begins: 3 misses the message, as the specification allows for a registration removed during
the dispatch; the second message reaches the two that are left.  The monitor accepts this history and rejects it when
callback 2 — which nobody removed — is not called for the first message -/
example : (run srcTables exMaps exImp exBehave2 {} exEvs2).calls.map (·.reg.cb) = [4, 2, 1, 2, 1] ∧
    (run srcTables exMaps exImp exBehave2 {} exEvs2).regs.map (·.cb) = [1, 2] ∧
    judge srcTables exMaps exImp exBehave2 (history srcTables exMaps exImp exBehave2 {} exEvs2) = none ∧
    judge srcTables exMaps exImp exBehave2
      ((history srcTables exMaps exImp exBehave2 {} exEvs2).map fun st =>
        (st.1, st.2.1.filter (fun c => c.reg.cb != 2 || c.item.ts != 40), st.2.2)) = some 4 := by decide +kernel

example : Mirrors srcTables exMaps exImp exBehave2 [] [] (history srcTables exMaps exImp exBehave2 {} exEvs2) :=
  (callbacks_once_in_order tables_ok exMaps exImp exBehave2 {} exEvs2 (by simp [KeysNodup])).1

/-- `int_write_validated` on the 64 bit counter: 2^53+1 written over a stored 5, the driver answering 2^63+1 -/
example : writeTrace exIntDt exIntDt (some (.int 5)) (.int 9007199254740993) ((some 9223372036854775809).map .int) =
    some ⟨.int 9007199254740993, .int 9223372036854775809⟩ :=
  int_write_validated 0 18446744073709551615 9007199254740993 exIntDt_wf (by decide) _ (some 9223372036854775809)
    (fun r hr => by cases hr; decide)

end example_

end Frappy.Props.C12
