import FrappyProofs.Lemmas.StateMachineInv
import FrappyProofs.Lemmas.StateMachineBusy
import FrappyProofs.Lemmas.StateMachineFollow
import FrappyProofs.Lemmas.StatusCache
import FrappyModel.Spec.C14
import FrappyModel.Generated.C14
/-
C14 — property theorems (nothing but property theorems, statements and their non-vacuity examples).

Proved for every configuration, every program (arbitrary functions of the history), every oracle of
concurrent requests (at every read of `next_task`) and every operation sequence; the clauses over histories come
from one coupling invariant between the machine and the observer (`Lemmas/StateMachineInv.lean`).
`busy_until_finished` holds for requests that are atomic with respect to the transitions of the machine (what the lock
of the repaired code provides) and is refuted, by a proved counterexample, for a `start_machine` preempted by a
transition (the code before the repair).
-/
namespace Frappy.Props.C14
open Frappy.SM Frappy.States Frappy.Spec.C14

/-- One cycle makes at most `2·maxloops` state function calls — every configuration, every program, every
placement of concurrent requests, every machine state. -/
theorem cycle_calls_bounded (cfg : Cfg) (P : Prog) (σ : SM) :
    cnt isCall (cycle cfg P σ) ≤ cnt isCall σ + 2 * cfg.maxloops := by
  simpa using cnt_cycle onlyCalls_isCall cfg P σ

/-- … with the loop limit the source sets in `StateMachine.__init__` (regenerated from the repository). -/
theorem cycle_calls_bounded_default (cfg : Cfg) (P : Prog) (σ : SM)
    (h : cfg.maxloops = Frappy.Generated.C14.maxloopsDefault) :
    cnt isCall (cycle cfg P σ) ≤ cnt isCall σ + 20 := by
  have := cycle_calls_bounded cfg P σ
  rw [h] at this
  exact this

/-- `cycle` never raises: the model's `cycle` is a total function to machine states (there is no error
outcome), and no operation sequence ever puts a `raised` event into the history.  The places where the
Python code can still raise are assumptions about the environment: attribute names colliding with class
attributes, a raising transition hook, state functions without `__name__`. -/
theorem cycle_never_raises (cfg : Cfg) (P : Prog) (σ : SM) (ops : List Op) (h : Ev.raised ∉ σ.trace) :
    Ev.raised ∉ (run cfg P σ ops).trace := by
  have h0 : cnt isRaised σ = 0 := by
    unfold cnt
    rw [List.length_eq_zero_iff, List.filter_eq_nil_iff]
    intro e he
    cases e <;> simp_all [isRaised]
  have h1 := cnt_run_zero onlyCalls_isRaised cfg P ops σ
  intro hm
  have : 0 < cnt isRaised (run cfg P σ ops) := by
    unfold cnt
    apply List.length_pos_of_mem (a := Ev.raised)
    simp [List.mem_filter, hm, isRaised]
  omega

/-! ### the clauses over histories: every configuration, program, oracle of concurrent requests, operation sequence -/

/-- histories of the model: any configuration, program, oracle, operation sequence from the initial machine -/
def history (cfg : Cfg) (P : Prog) (idle : Status) (ops : List Op) : List Ev := (run cfg P (SM.initial idle) ops).trace

theorem okAll_parts {ml : Nat} {o : Obs} {e : Ev} (h : okAll ml o e = true) :
    okInit o e = true ∧ okCleanupOnce o e = true ∧ okCleanupNotInterrupted o e = true ∧ okStopInactive o e = true ∧
    okLastStart o e = true ∧ okPickedUp o e = true ∧ okBound ml o e = true ∧ okNoRaise o e = true ∧
    okStopPosted o e = true ∧ okStartPosted o e = true := by
  simp only [okAll, Bool.and_eq_true] at h
  obtain ⟨⟨⟨⟨⟨⟨⟨⟨⟨a, b⟩, c⟩, d⟩, e'⟩, f⟩, g⟩, i⟩, j⟩, k⟩ := h
  exact ⟨a, b, c, d, e', f, g, i, j, k⟩

/-- positional form of the call bound: at every call of a state function, fewer than `2·maxloops` calls were made
since the cycle began -/
theorem cycle_calls_bounded_positional (cfg : Cfg) (P : Prog) (idle : Status) (ops : List Op) :
    CycleBounded idle cfg.maxloops (history cfg P idle ops) :=
  (run_good cfg P idle ops).mono fun _ _ h => (okAll_parts h).2.2.2.2.2.2.1

/-- `raised` never occurs, as a clause over histories -/
theorem cycle_never_raises_positional (cfg : Cfg) (P : Prog) (idle : Status) (ops : List Op) :
    NeverRaises idle (history cfg P idle ops) :=
  (run_good cfg P idle ops).mono fun _ _ h => (okAll_parts h).2.2.2.2.2.2.2.1

/-- The first call of a state after a transition — and only that — sees the init flag, and the function called is
the state entered most recently. -/
theorem init_flag_exact (cfg : Cfg) (P : Prog) (idle : Status) (ops : List Op) :
    InitFlagExact idle (history cfg P idle ops) :=
  (run_good cfg P idle ops).mono fun _ _ h => (okAll_parts h).1

/-- A run interrupted by stop, restart or error calls its cleanup exactly once, at once; a cleanup function is
never called otherwise (not in an uninterrupted run, not twice, not another run's). -/
theorem cleanup_exactly_once (cfg : Cfg) (P : Prog) (idle : Status) (ops : List Op) :
    CleanupExactlyOnce idle (history cfg P idle ops) :=
  (run_good cfg P idle ops).mono fun _ _ h => (okAll_parts h).2.1

/-- A cleanup sequence in progress is cut short only by an error, never by stop or start, and requests are taken
only by the inactive machine; and every sequence of states is executed as its functions direct: a state handed over by
a state function or by a cleanup function — whatever interrupted the run: stop, restart, an exception, a non-callable
return value, too many chained states — is entered as the next thing the cycle thread does, a state is entered only
so (or as the start just taken), and the machine becomes inactive only right after an interruption without cleanup or
after a function returned something that ends the run. -/
theorem cleanup_not_interrupted (cfg : Cfg) (P : Prog) (idle : Status) (ops : List Op) :
    CleanupNotInterrupted idle (history cfg P idle ops) :=
  ⟨(run_good cfg P idle ops).mono fun _ _ h => (okAll_parts h).2.2.1,
   (run_follow cfg P idle ops).mono fun _ _ h => by simp only [okT, Bool.and_eq_true] at h; exact h.1,
   (run_follow cfg P idle ops).mono fun _ _ h => by simp only [okT, Bool.and_eq_true] at h; exact h.2⟩

/-- After stop the machine is inactive at the end of the first cycle that saw no further request and leaves no
cleanup sequence in progress; and a stop request to a module (`stop_machine`) that finds a state function active —
of a normal run or of a cleanup sequence in progress, with or without a start waiting behind it — has posted its
stop to the machine when it returns. -/
theorem stop_makes_inactive (cfg : Cfg) (P : Prog) (idle : Status) (ops : List Op) :
    StopMakesInactive idle (history cfg P idle ops) :=
  ⟨(run_good cfg P idle ops).mono fun _ _ h => (okAll_parts h).2.2.2.1,
   (run_good cfg P idle ops).mono fun _ _ h => (okAll_parts h).2.2.2.2.2.2.2.2.1⟩

/-- What the machine takes is the most recent request; a start taken is entered next, before any state call, with
the requested cleanup and exactly the requested attribute update; no request is left waiting at the end of a cycle
that saw no further request and leaves no cleanup sequence in progress; a start request to a module
(`start_machine`) has posted its start to the machine when it returns. -/
theorem last_start_wins (cfg : Cfg) (P : Prog) (idle : Status) (ops : List Op) :
    LastStartWins idle (history cfg P idle ops) :=
  ⟨(run_good cfg P idle ops).mono fun _ _ h => (okAll_parts h).2.2.2.2.1,
   (run_good cfg P idle ops).mono fun _ _ h => (okAll_parts h).2.2.2.2.2.1,
   (run_good cfg P idle ops).mono fun _ _ h => (okAll_parts h).2.2.2.2.2.2.2.2.2⟩

/-- **A module built on the machine reports a busy status from the start request until the machine has finished, and
its final or stopped status afterwards** — for every configuration of the mixin with `BUSY < ERROR`, every program, every
oracle of concurrent requests (atomic with respect to the transitions of the machine: in the code `start_machine`,
`stop_machine`, `final_status` and `StateMachine._new_state` run under one lock), every operation sequence — no
assumption about the status codes the author attaches or passes.  Every status report in the history is busy while a
state function is active or a start is waiting or being entered, unless a status that is not busy was declared for
this very engagement (`Obs.lax`: the override of the start request in force, the status attached to its start state,
to the state active when it was issued or to a state entered since — never anything from an earlier engagement); and it
is the final / stopped status declared most recently when the module is not engaged. -/
theorem busy_until_finished (cfg : Cfg) (P : Prog) (idle : Status) (ops : List Op) (hs : cfg.hasStates = true)
    (hb : cfg.rules.busy < cfg.rules.error) :
    BusyUntilFinished idle cfg.rules (history cfg P idle ops) :=
  ⟨(run_busy cfg hs hb P idle ops).mono fun _ _ h => by
      simp only [okB, Bool.and_eq_true] at h; exact h.1,
   (run_busy cfg hs hb P idle ops).mono fun _ _ h => by
      simp only [okB, Bool.and_eq_true] at h; exact h.2⟩

/-- … and without the exception when the status codes attached to state functions are busy codes (`BusyRules`) and so
are the `status=` overrides of all start requests in the history: then every status report is busy while the module is
engaged. -/
theorem busy_until_finished_strict (cfg : Cfg) (P : Prog) (idle : Status) (ops : List Op) (hs : cfg.hasStates = true)
    (hr : BusyRules cfg.rules) (hp : postsBusy cfg.rules (history cfg P idle ops) = true) :
    BusyUntilFinishedStrict idle cfg.rules (history cfg P idle ops) :=
  ⟨strict_of_busy hr idle _ hp (busy_until_finished cfg P idle ops hs hr.busy).1,
   (busy_until_finished cfg P idle ops hs hr.busy).2⟩

/-- **The status a module derives for a state function does not depend on the history of the module instance**: whatever
sequence of `get_status` lookups (any state functions, any default codes — those of `start_machine`, `stop_machine`, the
transition hook, in any engagement) went through the `statusMap` cache before, a lookup returns what the lookup without
cache returns: the attached status, else the default made up from *its own* default code.  (This is what lets the
machine model use the pure `getStatus` / `statusOf`.) -/
theorem status_independent_of_history (r : Rules) (before : List (Sid × Option Nat)) (s : Sid) (d : Option Nat) :
    (getStatusCached r (lookups r [] before).2 s d).1 = getStatusOpt r s d ∧
    (lookups r [] before).1 = before.map (fun q => getStatusOpt r q.1 q.2) :=
  ⟨(getStatusCached_coherent (lookups_coherent before (coherent_nil r)).2 s d).1,
   (lookups_coherent before (coherent_nil r)).1⟩

/-! ### non-vacuity / concrete scenarios -/


def rules0 : Rules :=
  { statusOf := fun s => if s = 1 then some (340, "state 1") else none,
    label := fun s => if s = 0 then "st 0" else "st x",
    busy := Frappy.Generated.C14.busyCode, error := Frappy.Generated.C14.errorCode }

def cfg0 (hs : Bool) : Cfg := { maxloops := 2, hasStates := hs, rules := rules0 }

/-- the hypotheses of `busy_until_finished` are met by rules with an attached busy status and states without one … -/
theorem busyRules0 : BusyRules rules0 := by
  refine ⟨?_, by decide⟩
  intro s st h
  simp only [rules0] at h
  split at h
  · cases h; decide
  · cases h

/-- the model's busy predicate is the one the specification names, for every status (so the monitor of the recorded
`Drivable.isBusy` table accepts exactly the tables that agree with the predicate the busy clause is proved for) -/
theorem busy_predicate_spec (r : Rules) (table : List (Nat × Bool)) :
    busyPredicateBad r table = [] ↔ ∀ p, p ∈ table → p.2 = isBusy r (p.1, "") := by
  unfold busyPredicateBad isBusy
  rw [List.map_eq_nil_iff, List.filter_eq_nil_iff]
  constructor
  · intro h p hp; simpa using h p hp
  · intro h p hp; simpa using h p hp

example : busyPredicateBad rules0 [(299, false), (300, true), (399, true), (400, false)] = [] ∧
    busyPredicateBad rules0 [(300, false), (400, true)] = [300, 400] := by decide

/-- a program that retries once and then chains states for ever, with a cleanup that returns a state: the second
cycle hits the loop limit twice -/
def chainProg : Prog :=
  { state := fun tr s => { posts := [], fin := none,
                           ret := if cnt isCall { SM.initial (100, "") with trace := tr } ≤ 1 then .retry else .next (1 - s) },
    clean := fun _ _ => { posts := [], fin := none, ret := .next 1 },
    env := fun _ => [] }

/-- the bound is attained: one call in the first cycle, `2·maxloops` calls in the second (so
`cycle_calls_bounded` is tight and is about machines that really run) -/
example : cnt isCall (run (cfg0 false) chainProg (SM.initial (100, ""))
    [.req (.start 0 (some 0) [(1, 5)] none), .cycle, .cycle]) = 2 * 2 + 1 := by decide +kernel

/-- the monitors accept that history, and it contains exactly one cleanup call -/
example : judge (100, "") 2 false rules0 (run (cfg0 false) chainProg (SM.initial (100, ""))
    [.req (.start 0 (some 0) [(1, 5)] none), .cycle, .cycle]).trace = [] := by decide +kernel

/-- the monitor is not vacuous on this path: the same history cut after the cleanup function (called for "too many
states chained") has handed over state 1, and continued as if the machine had ended the run there, is rejected at that
transition — the state returned was not entered, and nothing called for the machine to become inactive -/
example : (judge (100, "") 2 false rules0
      ((run (cfg0 false) chainProg (SM.initial (100, "")) [.req (.start 0 (some 0) [(1, 5)] none), .cycle, .cycle]).trace.take 18
        ++ [.enter none, .cycleEnd false false])).map (fun v => (v.1, v.2.name)) =
    [(18, "cleanup_not_interrupted:returned-state-not-entered"), (18, "cleanup_not_interrupted:transition-not-called-for")] := by
  decide +kernel

/-- … and in the uncut history the cleanup sequence does go on: after the cleanup function state 1 is entered and called -/
example : ((run (cfg0 false) chainProg (SM.initial (100, "")) [.req (.start 0 (some 0) [(1, 5)] none), .cycle, .cycle]).trace.drop 15).take 5 =
    [.interrupt .error, .cleanup 0, .ret (.next 1) none, .enter (some 1), .call 1 true] := by decide +kernel

/-! ### a stop request while a cleanup sequence with a start waiting behind it is in progress -/

/-- state 0 retries for ever; the cleanup returns state 2, which retries and finishes in its third call -/
def cleanupProg : Prog :=
  { state := fun tr s => { posts := [], fin := none,
                           ret := if s = 2 ∧ 4 ≤ cnt isCall { SM.initial (100, "") with trace := tr } then .finish else .retry },
    clean := fun _ _ => { posts := [], fin := none, ret := .next 2 },
    env := fun _ => [] }

/-- `start_machine(st_0, cleanup=cl_0)`, a cycle, `start_machine(st_3)` (restart: the cleanup sequence begins), a cycle -/
def restartOps : List Op := [.req (.start 0 (some 0) [] none), .cycle, .req (.start 3 none [(1, 5)] none), .cycle]

/-- … now the cleanup sequence is in progress (state 2 active, reason set) with the start of state 3 waiting behind it -/
example : let σ := run (cfg0 true) cleanupProg (SM.initial (100, "")) restartOps;
    (σ.statefunc, σ.reason, σ.nextTask) = (some 2, some .restart, some (.start 3 none [(1, 5)] none)) := by decide +kernel

/-- `stop_machine` now, then three cycles: the stop is posted, the cleanup sequence is finished (not restarted), the
superseded start is never entered, the machine ends inactive with the stopped status — and the monitors accept the
history (`stop_makes_inactive` and `last_start_wins` are about histories in which this really happens) -/
example : let σ := run (cfg0 true) cleanupProg (SM.initial (100, "")) (restartOps ++ [.req (.stop (100, "stopped")), .cycle, .cycle, .cycle]);
    (σ.statefunc, σ.status, σ.nextTask, cnt (· == .cleanup 0) σ, cnt (· == .enter (some 3)) σ) =
      (none, (100, "stopped"), none, 1, 0) ∧ judge (100, "") 2 true rules0 σ.trace = [] := by decide +kernel

/-- the monitor is not vacuous either: the same history with a `stop_machine` that returns without having posted its
stop is rejected, at the return of the request, by the clause `stop_makes_inactive` -/
example : (judge (100, "") 2 true rules0
      ((run (cfg0 true) cleanupProg (SM.initial (100, "")) restartOps).trace ++ [.reqStop, .reqDone false])).map
        (fun v => (v.1, v.2.name)) = [(28, "stop_makes_inactive:stop-request-not-posted")] := by decide +kernel

/-- … and a `start_machine` that returns without having posted its start is rejected by `last_start_wins` -/
example : (judge (100, "") 2 true rules0 [.reqStart, .status (300, "st 0"), .reqDone true]).map
        (fun v => (v.1, v.2.name)) = [(2, "last_start_wins:start-request-not-posted")] := by decide +kernel

/-- a stop request that finds the machine inactive (here: a start is waiting, not yet taken) owes nothing -/
example : judge (100, "") 2 true rules0
      (run (cfg0 true) cleanupProg (SM.initial (100, "")) [.req (.start 0 none [] none), .req (.stop (100, "stopped"))]).trace = [] := by
  decide +kernel

/-! ### the busy clause: a history with restarts, a concurrent stop, `final_status` and status overrides -/

/-- state 0 requests a restart with state 1 and a busy status override from inside its call; state 1 declares a final
status and finishes; "another thread" requests a stop in the slot just before the transition to inactive -/
def busyProg : Prog :=
  { state := fun _ s => { posts := if s = 0 then [.start 1 none [] (some (370, "x"))] else [],
                          fin := if s = 1 then some (200, "done") else none,
                          ret := if s = 1 then .finish else .retry },
    clean := fun _ _ => { posts := [], fin := none, ret := .bad },
    env := fun n => if n = 9 then [.stop (100, "stopped")] else [] }

def busyOps : List Op :=
  [.req (.start 0 (some 0) [] none), .cycle, .cycle, .cycle, .req (.start 3 none [] (some (380, "y"))), .cycle, .cycle, .cycle]

/-- `busy_until_finished_strict` applies to this history (all declared status codes are busy) … -/
example : BusyUntilFinishedStrict (100, "") rules0 (history (cfg0 true) busyProg (100, "") busyOps) :=
  busy_until_finished_strict (cfg0 true) busyProg (100, "") busyOps rfl busyRules0 (by decide +kernel)

/-- … in which the module reports: busy from the start request on, through the restart requested from inside a state
function (override), the stop of another thread arriving after `final_status` ("stopping"), then the stopped status
while idle, then busy again from the next start request on -/
example : (history (cfg0 true) busyProg (100, "") busyOps).filterMap (fun e => match e with | .status st => some st | _ => none) =
    [(300, "st 0"), (300, "st 0"), (370, "x"), (370, "x"), (340, "state 1"), (340, "state 1"), (340, "stopping"),
     (100, "stopped"), (100, "stopped"), (100, "stopped"), (380, "y"), (380, "y"), (380, "y"), (380, "y"), (380, "y")] := by
  decide +kernel

/-! ### a status that is not busy, declared for one engagement, does not count for the next -/

/-- like `rules0`, and state 4 declares a status that is not busy (`WARN`: the module waits for a go) -/
def rules1 : Rules :=
  { statusOf := fun s => if s = 1 then some (340, "state 1") else if s = 4 then some (200, "waiting") else none,
    label := fun s => if s = 0 then "st 0" else if s = 3 then "st 3" else "st x",
    busy := Frappy.Generated.C14.busyCode, error := Frappy.Generated.C14.errorCode }

def cfg1 : Cfg := { maxloops := 2, hasStates := true, rules := rules1 }

/-- states 4 and 3 hand over to state 0 (nothing attached); state 0 retries, and finishes in the sixth call overall -/
def waitProg : Prog :=
  { state := fun tr s =>
      { posts := [],
        fin := if s = 0 ∧ 6 ≤ cnt isCall { SM.initial (100, "") with trace := tr } then some (100, "done") else none,
        ret := if s = 0 then (if 6 ≤ cnt isCall { SM.initial (100, "") with trace := tr } then .finish else .retry) else .next 0 },
    clean := fun _ _ => { posts := [], fin := none, ret := .bad },
    env := fun _ => [] }

/-- first engagement: start at state 4, on to state 0, stopped there; second engagement: start at state 3, on to state 0 -/
def waitOps : List Op :=
  [.req (.start 4 none [] none), .cycle, .cycle, .req (.stop (100, "stopped")), .cycle,
   .req (.start 3 none [] none), .cycle, .cycle, .cycle]

/-- `busy_until_finished` applies (no assumption about the declared status codes) … -/
example : BusyUntilFinished (100, "") rules1 (history cfg1 waitProg (100, "") waitOps) :=
  busy_until_finished cfg1 waitProg (100, "") waitOps rfl (by decide)

/-- … the module reports what its author declared in the first engagement — also in state 0 and while stopping there —
and a busy status all through the second one, in the same state 0 -/
example : (history cfg1 waitProg (100, "") waitOps).filterMap (fun e => match e with | .status st => some st | _ => none) =
    [(200, "waiting"), (200, "waiting"), (200, "waiting"), (200, "waiting"), (200, "waiting"), (200, "stopping"),
     (100, "stopped"), (100, "stopped"), (300, "st 3"), (300, "st 3"), (300, "st 3"), (300, "st 3"),
     (100, "done"), (100, "done"), (100, "done")] := by decide +kernel

/-- the monitor accepts this history, and rejects the one in which the second engagement, on entering state 0, reports
the status code that state 0 happened to have in the first engagement -/
example : judge (100, "") 2 true rules1 (history cfg1 waitProg (100, "") waitOps) = [] ∧
    (judge (100, "") 2 true rules1 ((history cfg1 waitProg (100, "") waitOps).set 45 (.status (200, "st 0")))).map
      (fun v => (v.1, v.2.name)) = [(45, "busy_until_finished")] := by decide +kernel

/-- the cache at work: state 0 (nothing attached) is first asked for with the code of a status that is not busy (as
`stop_machine` does while the module shows `WARN`), then with `BUSY`, then without default; state 4 twice — the second
and third lookup of state 0 and the second of state 4 are answered from the cache, and still each gets its own default -/
example : lookups rules1 [] [(0, some 200), (0, some 300), (0, none), (4, some 300), (4, none)] =
    ([some (200, "st 0"), some (300, "st 0"), none, some (200, "waiting"), some (200, "waiting")],
     [(4, some (200, "waiting")), (0, none)]) := by decide +kernel

/-! ### `start_machine` preempted by a cycle: the busy clause fails -/

/-- state 0 retries once, then finishes; state 3 (no status attached) retries -/
def raceProg : Prog :=
  { state := fun tr s => { posts := [], fin := none,
                           ret := if s = 0 ∧ 2 ≤ cnt isCall { SM.initial (100, "") with trace := tr } then .finish else .retry },
    clean := fun _ _ => { posts := [], fin := none, ret := .bad },
    env := fun _ => [] }

/-- `start_machine(st_0)`; a cycle; then a second `start_machine(st_3)` is preempted after it has assigned
`sm.status` and before it posts its task; meanwhile a cycle finishes the first run; the request resumes; a
cycle enters `st_3`. -/
def raceHistory : List Ev :=
  let c := cfg0 true
  let σ := run c raceProg (SM.initial (100, "")) [.req (.start 0 none [] none), .cycle]
  let σ := startMachineA c (σ.log .reqStart) 3 none
  let σ := cycleMachine c raceProg σ
  let σ := startMachineB σ (.start 3 none [] none)
  (cycleMachine c raceProg σ).trace

/-- the counterexample: with `start_machine` not atomic with respect to `cycle`, the module reports a
non-busy status while a state function is active -/
theorem busy_until_finished_fails_when_preempted :
    ¬ BusyUntilFinished (100, "") rules0 raceHistory := by
  intro h
  have hv : (judge (100, "") 2 true rules0 raceHistory).map (·.2) = [.busy, .busy, .busy] := by decide +kernel
  have hsplit : raceHistory = raceHistory.take 22 ++ Ev.status (100, "") :: raceHistory.drop 23 := by decide +kernel
  have := h.1 _ _ _ hsplit
  revert this
  decide +kernel

end Frappy.Props.C14
