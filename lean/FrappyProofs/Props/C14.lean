import FrappyProofs.Lemmas.StateMachineInv
import FrappyModel.Spec.C14
import FrappyModel.Generated.C14
/-
C14 — property theorems (nothing but property theorems, statements and their non-vacuity examples).

Proved for every configuration, every program (arbitrary functions of the history), every oracle of
concurrent requests (at every read of `next_task`) and every operation sequence; the clauses over histories come
from one coupling invariant between the machine and the observer (`Lemmas/StateMachineInv.lean`).
`busy_until_finished` holds for requests that are atomic with respect to `cycle` and is refuted for a preempted
`start_machine` by a proved counterexample.
-/
namespace Frappy.Props.C14
open Frappy.SM Frappy.States Frappy.Spec.C14

/-- One cycle makes at most `2·maxloops` state function calls — every configuration, every program, every
placement of concurrent requests, every machine state. -/
theorem cycle_calls_bounded (cfg : Cfg) (P : Prog) (σ : SM) :
    cnt isCall (cycle cfg P σ) ≤ cnt isCall σ + 2 * cfg.maxloops := by
  simpa using cnt_cycle onlyCalls_isCall cfg P σ

/-- … with the loop limit the source sets in `StateMachine.__init__` (regenerated from the repository). -/
theorem cycle_calls_bounded_default (cfg : Cfg) (P : Prog) (σ : SM)
    (h : cfg.maxloops = Frappy.Generated.C14.maxloopsDefault) :
    cnt isCall (cycle cfg P σ) ≤ cnt isCall σ + 20 := by
  have := cycle_calls_bounded cfg P σ
  rw [h] at this
  exact this

/-- `cycle` never raises: the model's `cycle` is a total function to machine states (there is no error
outcome), and no operation sequence ever puts a `raised` event into the history.  The places where the
Python code can still raise are assumptions about the environment: attribute names colliding with class
attributes, a raising transition hook, state functions without `__name__`. -/
theorem cycle_never_raises (cfg : Cfg) (P : Prog) (σ : SM) (ops : List Op) (h : Ev.raised ∉ σ.trace) :
    Ev.raised ∉ (run cfg P σ ops).trace := by
  have h0 : cnt isRaised σ = 0 := by
    unfold cnt
    rw [List.length_eq_zero_iff, List.filter_eq_nil_iff]
    intro e he
    cases e <;> simp_all [isRaised]
  have h1 := cnt_run_zero onlyCalls_isRaised cfg P ops σ
  intro hm
  have : 0 < cnt isRaised (run cfg P σ ops) := by
    unfold cnt
    apply List.length_pos_of_mem (a := Ev.raised)
    simp [List.mem_filter, hm, isRaised]
  omega

/-! ### the clauses over histories: every configuration, program, oracle of concurrent requests, operation sequence -/

/-- histories of the model: any configuration, program, oracle, operation sequence from the initial machine -/
def history (cfg : Cfg) (P : Prog) (idle : Status) (ops : List Op) : List Ev := (run cfg P (SM.initial idle) ops).trace

theorem okAll_parts {ml : Nat} {o : Obs} {e : Ev} (h : okAll ml o e = true) :
    okInit o e = true ∧ okCleanupOnce o e = true ∧ okCleanupNotInterrupted o e = true ∧ okStopInactive o e = true ∧
    okLastStart o e = true ∧ okPickedUp o e = true ∧ okBound ml o e = true ∧ okNoRaise o e = true ∧
    okStopPosted o e = true ∧ okStartPosted o e = true := by
  simp only [okAll, Bool.and_eq_true] at h
  obtain ⟨⟨⟨⟨⟨⟨⟨⟨⟨a, b⟩, c⟩, d⟩, e'⟩, f⟩, g⟩, i⟩, j⟩, k⟩ := h
  exact ⟨a, b, c, d, e', f, g, i, j, k⟩

/-- positional form of the call bound: at every call of a state function, fewer than `2·maxloops` calls were made
since the cycle began -/
theorem cycle_calls_bounded_positional (cfg : Cfg) (P : Prog) (idle : Status) (ops : List Op) :
    CycleBounded idle cfg.maxloops (history cfg P idle ops) :=
  (run_good cfg P idle ops).mono fun _ _ h => (okAll_parts h).2.2.2.2.2.2.1

/-- `raised` never occurs, as a clause over histories -/
theorem cycle_never_raises_positional (cfg : Cfg) (P : Prog) (idle : Status) (ops : List Op) :
    NeverRaises idle (history cfg P idle ops) :=
  (run_good cfg P idle ops).mono fun _ _ h => (okAll_parts h).2.2.2.2.2.2.2.1

/-- The first call of a state after a transition — and only that — sees the init flag, and the function called is
the state entered most recently. -/
theorem init_flag_exact (cfg : Cfg) (P : Prog) (idle : Status) (ops : List Op) :
    InitFlagExact idle (history cfg P idle ops) :=
  (run_good cfg P idle ops).mono fun _ _ h => (okAll_parts h).1

/-- A run interrupted by stop, restart or error calls its cleanup exactly once, at once; a cleanup function is
never called otherwise (not in an uninterrupted run, not twice, not another run's). -/
theorem cleanup_exactly_once (cfg : Cfg) (P : Prog) (idle : Status) (ops : List Op) :
    CleanupExactlyOnce idle (history cfg P idle ops) :=
  (run_good cfg P idle ops).mono fun _ _ h => (okAll_parts h).2.1

/-- A cleanup sequence in progress is cut short only by an error, never by stop or start, and requests are taken
only by the inactive machine. -/
theorem cleanup_not_interrupted (cfg : Cfg) (P : Prog) (idle : Status) (ops : List Op) :
    CleanupNotInterrupted idle (history cfg P idle ops) :=
  (run_good cfg P idle ops).mono fun _ _ h => (okAll_parts h).2.2.1

/-- After stop the machine is inactive at the end of the first cycle that saw no further request and leaves no
cleanup sequence in progress; and a stop request to a module (`stop_machine`) that finds a state function active —
of a normal run or of a cleanup sequence in progress, with or without a start waiting behind it — has posted its
stop to the machine when it returns. -/
theorem stop_makes_inactive (cfg : Cfg) (P : Prog) (idle : Status) (ops : List Op) :
    StopMakesInactive idle (history cfg P idle ops) :=
  ⟨(run_good cfg P idle ops).mono fun _ _ h => (okAll_parts h).2.2.2.1,
   (run_good cfg P idle ops).mono fun _ _ h => (okAll_parts h).2.2.2.2.2.2.2.2.1⟩

/-- What the machine takes is the most recent request; a start taken is entered next, before any state call, with
the requested cleanup and exactly the requested attribute update; no request is left waiting at the end of a cycle
that saw no further request and leaves no cleanup sequence in progress; a start request to a module
(`start_machine`) has posted its start to the machine when it returns. -/
theorem last_start_wins (cfg : Cfg) (P : Prog) (idle : Status) (ops : List Op) :
    LastStartWins idle (history cfg P idle ops) :=
  ⟨(run_good cfg P idle ops).mono fun _ _ h => (okAll_parts h).2.2.2.2.1,
   (run_good cfg P idle ops).mono fun _ _ h => (okAll_parts h).2.2.2.2.2.1,
   (run_good cfg P idle ops).mono fun _ _ h => (okAll_parts h).2.2.2.2.2.2.2.2.2⟩

/-- the requests a program / an operation sequence issues keep to busy status codes -/
def busyReq (r : Rules) : Req → Prop
  | .start _ _ _ (some st) => isBusy r st = true
  | _ => True

def busy_until_finished_statement : Prop :=
  ∀ (cfg : Cfg) (P : Prog) (idle : Status) (ops : List Op), cfg.hasStates = true →
    (∀ s st, cfg.rules.statusOf s = some st → isBusy cfg.rules st = true) →
    (∀ tr s, ∀ q ∈ (P.state tr s).posts, busyReq cfg.rules q) →
    (∀ tr c, ∀ q ∈ (P.clean tr c).posts, busyReq cfg.rules q) →
    (∀ n, ∀ q ∈ P.env n, busyReq cfg.rules q) →
    (∀ q, Op.req q ∈ ops → busyReq cfg.rules q) →
    BusyUntilFinished idle cfg.rules (history cfg P idle ops)

/-! ### `busy_until_finished`: the proved part

The clause over histories (`busy_until_finished_statement`, requests atomic with respect to `cycle`) is not proved:
it needs a second invariant (`engaged → busy status`, `not engaged → status = idle status`) carried through every
definition like the coupling above.  Proved here is its local content: every assignment to `sm.status` that
`start_machine`, `stop_machine` and `state_transition` make preserves that invariant — for all rules, states,
pending tasks and status values. -/

/-- the status rules keep to busy codes: attached status codes are busy, and `BUSY` itself is a busy code -/
structure BusyRules (r : Rules) : Prop where
  attached : ∀ s st, r.statusOf s = some st → isBusy r st = true
  busy : r.busy < r.error

theorem getStatus_busy {r : Rules} (hr : BusyRules r) (s : Sid) (d : Nat) (hd : r.busy ≤ d ∧ d < r.error) :
    isBusy r (getStatus r s d) = true := by
  unfold getStatus
  cases h : r.statusOf s with
  | some st => exact hr.attached s st h
  | none => simp [isBusy, hd.1, hd.2]

/-- `start_machine` assigns a busy status (any target state, machine active or not, a busy override or none) -/
theorem busy_until_finished_partial_start {r : Rules} (hr : BusyRules r) (active : Bool) (s : Sid) (ovr : Option Status)
    (hovr : ∀ st, ovr = some st → isBusy r st = true) : isBusy r (startStatus r active s ovr) = true := by
  have hg := getStatus_busy hr s r.busy ⟨Nat.le_refl _, hr.busy⟩
  unfold startStatus
  cases ovr with
  | some st => exact hovr st rfl
  | none =>
    cases active with
    | false => exact hg
    | true => simpa [isBusy] using hg

/-- `stop_machine` keeps the status busy while the machine is still active -/
theorem busy_until_finished_partial_stop {r : Rules} (hr : BusyRules r) (cur : Sid) (status : Status)
    (hs : isBusy r status = true) : isBusy r (stopStatus r cur status) = true := by
  have hd : r.busy ≤ status.1 ∧ status.1 < r.error := by simpa [isBusy] using hs
  have hg := getStatus_busy hr cur status.1 hd
  unfold stopStatus
  simpa [isBusy] using hg

/-- a transition after which the module is still engaged (a state is entered, or a start is waiting) assigns a busy
status or leaves the (busy) status alone -/
theorem busy_until_finished_partial_transition {r : Rules} (hr : BusyRules r) (status idle : Status) (p : Pending)
    (ns : Option Sid) (hs : isBusy r status = true) (heng : ns.isSome = true ∨ ∃ s, p = .start s) (st : Status)
    (h : transitionStatus r status idle p ns = some st) : isBusy r st = true := by
  have hd : r.busy ≤ status.1 ∧ status.1 < r.error := by simpa [isBusy] using hs
  unfold transitionStatus at h
  cases ns with
  | some s =>
    cases hso : r.statusOf s with
    | none => cases p <;> simp [hso] at h
    | some st0 =>
      have h0 := hr.attached s st0 hso
      have hd0 : r.busy ≤ st0.1 ∧ st0.1 < r.error := by simpa [isBusy] using h0
      cases p with
      | none => simp [hso] at h; rw [← h]; exact h0
      | stop => simp [hso] at h; rw [← h]; simp [isBusy, hd0.1, hd0.2]
      | start s' =>
        simp only [hso] at h
        split at h
        · simp at h; rw [← h]; exact hs
        · simp at h; rw [← h]; simp [isBusy, hd.1, hd.2]
  | none =>
    rcases heng with hh | ⟨s', rfl⟩
    · cases hh
    · simp at h; rw [← h]; exact getStatus_busy hr s' r.busy ⟨Nat.le_refl _, hr.busy⟩

/-- the transition that makes the module idle (machine inactive, no start waiting) assigns the final / stopped status -/
theorem busy_until_finished_partial_final (r : Rules) (status idle : Status) (p : Pending)
    (hp : ∀ s, p ≠ .start s) : transitionStatus r status idle p none = some idle := by
  unfold transitionStatus
  cases p with
  | none => rfl
  | stop => rfl
  | start s => exact absurd rfl (hp s)

/-! ### non-vacuity / concrete scenarios -/

def rules0 : Rules :=
  { statusOf := fun s => if s = 1 then some (340, "state 1") else none,
    label := fun s => if s = 0 then "st 0" else "st x",
    busy := Frappy.Generated.C14.busyCode, error := Frappy.Generated.C14.errorCode }

def cfg0 (hs : Bool) : Cfg := { maxloops := 2, hasStates := hs, rules := rules0 }

/-- the hypotheses of the busy lemmas are met by rules with an attached busy status and states without one -/
example : BusyRules rules0 := by
  refine ⟨?_, by decide⟩
  intro s st h
  simp only [rules0] at h
  split at h
  · cases h; decide
  · cases h

/-- a program that retries once and then chains states for ever, with a cleanup that returns a state: the second
cycle hits the loop limit twice -/
def chainProg : Prog :=
  { state := fun tr s => { posts := [], fin := none,
                           ret := if cnt isCall { SM.initial (100, "") with trace := tr } ≤ 1 then .retry else .next (1 - s) },
    clean := fun _ _ => { posts := [], fin := none, ret := .next 1 },
    env := fun _ => [] }

/-- the bound is attained: one call in the first cycle, `2·maxloops` calls in the second (so
`cycle_calls_bounded` is tight and is about machines that really run) -/
example : cnt isCall (run (cfg0 false) chainProg (SM.initial (100, ""))
    [.req (.start 0 (some 0) [(1, 5)] none), .cycle, .cycle]) = 2 * 2 + 1 := by decide +kernel

/-- the monitors accept that history, and it contains exactly one cleanup call -/
example : judge (100, "") 2 false rules0 (run (cfg0 false) chainProg (SM.initial (100, ""))
    [.req (.start 0 (some 0) [(1, 5)] none), .cycle, .cycle]).trace = [] := by decide +kernel

/-! ### a stop request while a cleanup sequence with a start waiting behind it is in progress -/

/-- state 0 retries for ever; the cleanup returns state 2, which retries and finishes in its third call -/
def cleanupProg : Prog :=
  { state := fun tr s => { posts := [], fin := none,
                           ret := if s = 2 ∧ 4 ≤ cnt isCall { SM.initial (100, "") with trace := tr } then .finish else .retry },
    clean := fun _ _ => { posts := [], fin := none, ret := .next 2 },
    env := fun _ => [] }

/-- `start_machine(st_0, cleanup=cl_0)`, a cycle, `start_machine(st_3)` (restart: the cleanup sequence begins), a cycle -/
def restartOps : List Op := [.req (.start 0 (some 0) [] none), .cycle, .req (.start 3 none [(1, 5)] none), .cycle]

/-- … now the cleanup sequence is in progress (state 2 active, reason set) with the start of state 3 waiting behind it -/
example : let σ := run (cfg0 true) cleanupProg (SM.initial (100, "")) restartOps;
    (σ.statefunc, σ.reason, σ.nextTask) = (some 2, some .restart, some (.start 3 none [(1, 5)] none)) := by decide +kernel

/-- `stop_machine` now, then three cycles: the stop is posted, the cleanup sequence is finished (not restarted), the
superseded start is never entered, the machine ends inactive with the stopped status — and the monitors accept the
history (`stop_makes_inactive` and `last_start_wins` are about histories in which this really happens) -/
example : let σ := run (cfg0 true) cleanupProg (SM.initial (100, "")) (restartOps ++ [.req (.stop (100, "stopped")), .cycle, .cycle, .cycle]);
    (σ.statefunc, σ.status, σ.nextTask, cnt (· == .cleanup 0) σ, cnt (· == .enter (some 3)) σ) =
      (none, (100, "stopped"), none, 1, 0) ∧ judge (100, "") 2 true rules0 σ.trace = [] := by decide +kernel

/-- the monitor is not vacuous either: the same history with a `stop_machine` that returns without having posted its
stop is rejected, at the return of the request, by the clause `stop_makes_inactive` -/
example : (judge (100, "") 2 true rules0
      ((run (cfg0 true) cleanupProg (SM.initial (100, "")) restartOps).trace ++ [.reqStop, .reqDone false])).map
        (fun v => (v.1, v.2.name)) = [(28, "stop_makes_inactive:stop-request-not-posted")] := by decide +kernel

/-- … and a `start_machine` that returns without having posted its start is rejected by `last_start_wins` -/
example : (judge (100, "") 2 true rules0 [.reqStart, .status (300, "st 0"), .reqDone true]).map
        (fun v => (v.1, v.2.name)) = [(2, "last_start_wins:start-request-not-posted")] := by decide +kernel

/-- a stop request that finds the machine inactive (here: a start is waiting, not yet taken) owes nothing -/
example : judge (100, "") 2 true rules0
      (run (cfg0 true) cleanupProg (SM.initial (100, "")) [.req (.start 0 none [] none), .req (.stop (100, "stopped"))]).trace = [] := by
  decide +kernel

/-! ### `start_machine` preempted by a cycle: the busy clause fails -/

/-- state 0 retries once, then finishes; state 3 (no status attached) retries -/
def raceProg : Prog :=
  { state := fun tr s => { posts := [], fin := none,
                           ret := if s = 0 ∧ 2 ≤ cnt isCall { SM.initial (100, "") with trace := tr } then .finish else .retry },
    clean := fun _ _ => { posts := [], fin := none, ret := .bad },
    env := fun _ => [] }

/-- `start_machine(st_0)`; a cycle; then a second `start_machine(st_3)` is preempted after it has assigned
`sm.status` and before it posts its task; meanwhile a cycle finishes the first run; the request resumes; a
cycle enters `st_3`. -/
def raceHistory : List Ev :=
  let c := cfg0 true
  let σ := run c raceProg (SM.initial (100, "")) [.req (.start 0 none [] none), .cycle]
  let σ := startMachineA c (σ.log .reqStart) 3 none
  let σ := cycleMachine c raceProg σ
  let σ := startMachineB σ (.start 3 none [] none)
  (cycleMachine c raceProg σ).trace

/-- the counterexample: with `start_machine` not atomic with respect to `cycle`, the module reports a
non-busy status while a state function is active -/
theorem busy_until_finished_fails_when_preempted :
    ¬ BusyUntilFinished (100, "") rules0 raceHistory := by
  intro h
  have hv : (judge (100, "") 2 true rules0 raceHistory).map (·.2) = [.busy, .busy, .busy] := by decide +kernel
  have hsplit : raceHistory = raceHistory.take 22 ++ Ev.status (100, "") :: raceHistory.drop 23 := by decide +kernel
  have := h.1 _ _ _ hsplit
  revert this
  decide +kernel

end Frappy.Props.C14
