import FrappyProofs.Lemmas.PersistReload
import FrappyProofs.Lemmas.PersistPlace
/-
C17 — property theorems (nothing but property theorems and their non-vacuity examples).
-/
namespace Frappy.Props.C17
open Frappy.Persist Frappy.Spec.C17
set_option linter.unusedSimpArgs false

section atomic
variable {P : Type} [DecidableEq P]

/-- For every crash point: whatever prefix of the operations of a save has been performed — with or
without an injected I/O error in it, for every way `new` is cut into `write` chunks, whatever a failing write
still wrote, whatever a stale temporary file held — the target file is the complete previous snapshot
(or still missing, if it was) or the complete new one.  Never partial, never empty. -/
theorem crash_atomic (tgt tmp : P) (htt : tgt ≠ tmp) (new : Bytes) (chunks : List Bytes)
    (hchunks : chunks.flatten = new) (fault : Option Fault) (fs : FS P) :
    CrashSafe fs tgt new (saveRun tgt tmp chunks fault).evs := by
  intro p hp
  subst hchunks
  exact saveRun_prefix htt chunks fault fs p hp

/-- For every I/O failure (at the open, at any write — with any partial effect, followed by whatever the file object
still writes or fails to write when it is closed —, at the close, the rename or the remove): when the call returns the
target is the complete previous or the complete new snapshot, and the temporary file is gone.  (`hcl`: the clean-up
itself does not fail on top of the first failure; for that case see `double_fault_target_complete`.) -/
theorem fault_atomic (tgt tmp : P) (htt : tgt ≠ tmp) (new : Bytes) (chunks : List Bytes)
    (hchunks : chunks.flatten = new) (fault : Option Fault) (fs : FS P)
    (hcl : ∀ f, fault = some f → f.cleanup = false) :
    FaultSafe fs tgt tmp new (saveRun tgt tmp chunks fault).evs := by
  subst hchunks
  obtain ⟨h1, h2, h3⟩ := saveRun_final htt chunks fault fs
  refine ⟨?_, h1 ?_⟩
  · cases hr : (saveRun tgt tmp chunks fault).renamed
    · exact Or.inl (h3 hr)
    · exact Or.inr (h2 hr)
  · cases fault with
    | none => rfl
    | some f => exact hcl f rfl

/-- A second fault in the clean-up path: something failed, and the `os.remove(tmpfile)` of the `finally` fails as well.
The target is still the complete previous or the complete new snapshot when the call returns (and at every crash point:
`crash_atomic` has no hypothesis on the fault); only the temporary file may stay behind.  It does no harm: the next save
truncates it (`failed_save_retried` and `believed_on_disk` hold for every initial content of the temporary file). -/
theorem double_fault_target_complete (tgt tmp : P) (htt : tgt ≠ tmp) (new : Bytes) (chunks : List Bytes)
    (hchunks : chunks.flatten = new) (fault : Option Fault) (fs : FS P) :
    CompleteSnapshot (applyEvs fs (saveRun tgt tmp chunks fault).evs tgt) (fs tgt) new :=
  crash_atomic tgt tmp htt new chunks hchunks fault fs _ (List.prefix_refl _)

/-- A call that returns normally has put the new snapshot in place; one that did not get the snapshot in
place raises (so the caller can never take a failed save for a successful one). -/
theorem save_outcome (tgt tmp : P) (htt : tgt ≠ tmp) (chunks : List Bytes) (fault : Option Fault) (fs : FS P) :
    ((saveRun tgt tmp chunks fault).raised = false →
      applyEvs fs (saveRun tgt tmp chunks fault).evs tgt = some chunks.flatten) ∧
    (applyEvs fs (saveRun tgt tmp chunks fault).evs tgt ≠ some chunks.flatten →
      (saveRun tgt tmp chunks fault).raised = true ∧
      applyEvs fs (saveRun tgt tmp chunks fault).evs tgt = fs tgt) := by
  obtain ⟨_, h2, h3⟩ := saveRun_final htt chunks fault fs
  have hnr := saveRun_not_renamed tgt tmp chunks fault
  cases hr : (saveRun tgt tmp chunks fault).renamed
  · refine ⟨fun h => ?_, fun _ => ⟨hnr hr, h3 hr⟩⟩
    rw [hnr hr] at h; cases h
  · exact ⟨fun _ => h2 hr, fun h => absurd (h2 hr) h⟩

/-- The fault-free call performs exactly `open tmp; write chunk*; close; rename tmp target; remove tmp`. -/
theorem save_ops_exact (tgt tmp : P) (chunks : List Bytes) :
    (saveRun tgt tmp chunks none).evs = (saveOps tgt tmp chunks).map okEv :=
  (saveRun_none tgt tmp chunks).1

/-- A save that failed is attempted again by the next save: if the values `data` differ from what is
believed to be on disk, the first call hits any fault and the second call runs on a healthy file system,
then either the first call had already put the snapshot in place, or the second call performs the complete
operation sequence again; in both cases the snapshot is on disk afterwards. -/
theorem failed_save_retried {D : Type} (same : D → D → Bool) (ser : D → List Bytes) (tgt tmp : P)
    (htt : tgt ≠ tmp) (believed data : D) (fault : Option Fault) (fs : FS P)
    (hrefl : same data data = true) (hdiff : same data believed = false) :
    let o1 := saveStep same ser tgt tmp believed data fault
    let fs1 := applyEvs fs o1.evs
    let o2 := saveStep same ser tgt tmp o1.believed data none
    let fs2 := applyEvs fs1 o2.evs
    Retried (ser data).flatten (fs1 tgt) (fs2 tgt) o2.evs.length ∧
    (fs1 tgt ≠ some (ser data).flatten → o2.evs = (saveOps tgt tmp (ser data)).map okEv) := by
  intro o1 fs1 o2 fs2
  obtain ⟨_, h2, h3⟩ := saveRun_final htt (ser data) fault fs
  have ho1e : o1.evs = (saveRun tgt tmp (ser data) fault).evs := by simp [o1, saveStep, hdiff]
  cases hr : (saveRun tgt tmp (ser data) fault).renamed
  · -- not renamed: believed unchanged, the second call runs
    have hb : o1.believed = believed := by simp [o1, saveStep, hdiff, hr]
    have ho2 : o2.evs = (saveRun tgt tmp (ser data) none).evs := by simp [o2, saveStep, hb, hdiff]
    have hfin := (saveRun_final htt (ser data) none fs1).2.1 (saveRun_none tgt tmp (ser data)).2.1
    refine ⟨⟨fun _ => ?_, ?_⟩, fun _ => ?_⟩
    · rw [ho2]; exact List.length_pos_iff.2 (saveRun_evs_ne_nil tgt tmp (ser data) none)
    · simp only [fs2]; rw [ho2]; exact hfin
    · rw [ho2]; exact (saveRun_none tgt tmp (ser data)).1
  · -- renamed: the snapshot is in place, the second call has nothing to do
    have hb : o1.believed = data := by simp [o1, saveStep, hdiff, hr]
    have ho2 : o2.evs = [] := by simp [o2, saveStep, hb, hrefl]
    have hmid : fs1 tgt = some (ser data).flatten := by simp only [fs1]; rw [ho1e]; exact h2 hr
    refine ⟨⟨fun h => absurd hmid h, ?_⟩, fun h => absurd hmid h⟩
    simp only [fs2]; rw [ho2]; exact hmid

end atomic

/-! ## the believed-saved snapshot over whole histories -/

section history
variable {P N : Type} [DecidableEq P]

/-- the save machine: what the module believes to be on disk, and the disk -/
structure SaveWorld (P N : Type) where
  believed : Dict N
  fs : FS P

def SaveWorld.step (same : Dict N → Dict N → Bool) (ser : Dict N → List Bytes) (tgt tmp : P)
    (w : SaveWorld P N) (a : Dict N × Option Fault) : SaveWorld P N :=
  let o := saveStep same ser tgt tmp w.believed a.1 a.2
  ⟨o.believed, applyEvs w.fs o.evs⟩

/-- For every history of saves (any values, any fault in any of them), started from what
`loadPersistentData` read: `persistentData` is always exactly what a restart would read from the file.
A failed save is therefore never "considered done". -/
theorem believed_on_disk (same : Dict N → Dict N → Bool) (ser : Dict N → List Bytes)
    (parse : Bytes → Option (JV N)) (tgt tmp : P) (htt : tgt ≠ tmp)
    (fs0 : FS P) (hist : List (Dict N × Option Fault))
    (hcodec : ∀ a ∈ hist, parse (ser a.1).flatten = some (.obj a.1)) :
    let w := hist.foldl (SaveWorld.step same ser tgt tmp) ⟨loadRaw parse (fs0 tgt), fs0⟩
    loadRaw parse (w.fs tgt) = w.believed := by
  have inv : ∀ (hist : List (Dict N × Option Fault)) (w : SaveWorld P N),
      (∀ a ∈ hist, parse (ser a.1).flatten = some (.obj a.1)) →
      loadRaw parse (w.fs tgt) = w.believed →
      loadRaw parse ((hist.foldl (SaveWorld.step same ser tgt tmp) w).fs tgt) =
        (hist.foldl (SaveWorld.step same ser tgt tmp) w).believed := by
    intro hist
    induction hist with
    | nil => intro w _ h; exact h
    | cons a rest ih =>
      intro w hc h
      rw [List.foldl_cons]
      apply ih _ (fun b hb => hc b (List.mem_cons_of_mem _ hb))
      have hcodec := hc a List.mem_cons_self
      unfold SaveWorld.step saveStep
      by_cases hs : same a.1 w.believed = true
      · simp [hs, h]
      · obtain ⟨_, h2, h3⟩ := saveRun_final htt (ser a.1) a.2 w.fs
        simp only [hs]
        cases hr : (saveRun tgt tmp (ser a.1) a.2).renamed
        · simp [hr, h3 hr, h]
        · simp [hr, h2 hr, loadRaw, hcodec]
  exact inv hist _ hcodec rfl

/-- Whenever a save call returns normally, the file holds a snapshot that reads back as the values just
saved (up to Python `==`, under which unchanged values are not rewritten) — whatever failed before. -/
theorem saved_when_done (same : Dict N → Dict N → Bool) (ser : Dict N → List Bytes)
    (parse : Bytes → Option (JV N)) (tgt tmp : P) (htt : tgt ≠ tmp)
    (fs0 : FS P) (hist : List (Dict N × Option Fault)) (data : Dict N) (fault : Option Fault)
    (hcodec : ∀ a ∈ hist, parse (ser a.1).flatten = some (.obj a.1))
    (hcodec' : parse (ser data).flatten = some (.obj data)) :
    let w := hist.foldl (SaveWorld.step same ser tgt tmp) ⟨loadRaw parse (fs0 tgt), fs0⟩
    let o := saveStep same ser tgt tmp w.believed data fault
    o.raised = false → same data (loadRaw parse (applyEvs w.fs o.evs tgt)) = true ∨
      loadRaw parse (applyEvs w.fs o.evs tgt) = data := by
  intro w o hraised
  have hinv := believed_on_disk same ser parse tgt tmp htt fs0 hist hcodec
  simp only at hinv
  by_cases hs : same data w.believed = true
  · left
    have : o.evs = [] := by simp [o, saveStep, hs]
    rw [this, applyEvs_nil, hinv]; exact hs
  · right
    have he : o.evs = (saveRun tgt tmp (ser data) fault).evs := by simp [o, saveStep, hs]
    have hr : (saveRun tgt tmp (ser data) fault).raised = false := by simpa [o, saveStep, hs] using hraised
    rw [he, (save_outcome tgt tmp htt (ser data) fault w.fs).1 hr]
    simp [loadRaw, hcodec']

end history

/-! ## loading: total, tolerant, entry by entry -/

section loading
variable {N V : Type}

/-- For every content of the file — missing, undecodable bytes, no JSON, JSON that is not an object
(`[1,2]`, `5`, `null`, …) — loading yields a dictionary: the decoded object if there is one, else the empty one. -/
theorem load_total (parse : Bytes → Option (JV N)) (file : Option Bytes) :
    (file = none → loadRaw parse file = []) ∧
    (∀ b, file = some b → parse b = none → loadRaw parse file = []) ∧
    (∀ b j, file = some b → parse b = some j → (∀ kv, j ≠ .obj kv) → loadRaw parse file = []) ∧
    (∀ b kv, file = some b → parse b = some (.obj kv) → loadRaw parse file = kv) := by
  refine ⟨fun h => by simp [h, loadRaw], fun b h hp => by simp [h, hp, loadRaw], ?_, fun b kv h hp => by simp [h, hp, loadRaw]⟩
  intro b j h hp hno
  cases j <;> simp_all [loadRaw]

/-- An unusable entry (unknown name, parameter not persistent, value the datatype rejects) removes only
itself; a usable entry is kept with its imported value, wherever it stands. -/
theorem unusable_entry_removes_only_itself (ps : List (Param V)) (imp : String → JV N → Option V)
    (pre post : Dict N) (e : String × JV N) :
    (importEntry ps imp e = none → loadEntries ps imp (pre ++ e :: post) = loadEntries ps imp (pre ++ post)) ∧
    (∀ r, importEntry ps imp e = some r →
      loadEntries ps imp (pre ++ e :: post) = loadEntries ps imp pre ++ r :: loadEntries ps imp post) := by
  unfold loadEntries
  constructor
  · intro h; simp [List.filterMap_append, List.filterMap_cons, h]
  · intro r h; simp [List.filterMap_append, List.filterMap_cons, h]

/-- Start-up proceeds whatever the file holds (`startUp` is a total function), and with nothing usable
in it every parameter keeps its configured value or default. -/
theorem defaults_apply (p : Param V) : startParam ([] : List (String × V)) p = p := by
  unfold startParam; split <;> simp

variable {P : Type} [DecidableEq P]

/-- Start-up precedence, every parameter: the configured value if one was given, else the stored value if
the file has a usable entry for it, else the default. -/
theorem cfg_precedence (env : Env P N V) (ps : List (Param V)) (wd0 : List (String × V))
    (file : Option Bytes) (fault : Option Fault)
    (hnames : (ps.map (·.name)).Nodup)
    (hkeys : ∀ b kv, env.parse b = some (.obj kv) → (kv.map Prod.fst).Nodup) :
    (startUp env ps wd0 file fault).ms.params =
      ps.map (fun p => { p with value := (expectedStart p.given p.value
        (storedValue env.parse env.imp (fun n => ps.any (fun q => q.name == n && q.persistent)) file p.name)) }) := by
  have hparams : (startUp env ps wd0 file fault).ms.params =
      ps.map (startParam (loadEntries ps env.imp (loadRaw env.parse file))) := by
    simp [startUp, doSave]
  rw [hparams]
  apply List.map_congr_left
  intro p hp
  have hrawkeys : ((loadRaw env.parse file).map Prod.fst).Nodup := by
    unfold loadRaw
    split
    · simp
    · split
      · rename_i b kv hkv; exact hkeys _ _ hkv
      · simp
  have hstored : ∀ n, storedValue env.parse env.imp (fun n => ps.any (fun q => q.name == n && q.persistent)) file n =
      if ps.any (fun q => q.name == n && q.persistent) then ((loadRaw env.parse file).lookup n).bind (env.imp n) else none := by
    intro n
    unfold storedValue loadRaw
    cases file with
    | none => simp
    | some b =>
      simp only [Option.bind_some]
      cases hpb : env.parse b with
      | none => simp
      | some j => cases j <;> simp
  have hfind := findParam_of_mem ps hnames p hp
  have hlook : p.persistent = true → (loadEntries ps env.imp (loadRaw env.parse file)).lookup p.name =
      ((loadRaw env.parse file).lookup p.name).bind (env.imp p.name) := by
    intro hpers
    rw [lookup_loadEntries ps env.imp _ hrawkeys]
    congr 1
    funext j
    simp [importEntry, hfind, hpers, Option.map_map, Function.comp_def]
  have hany : ps.any (fun q => q.name == p.name && q.persistent) = p.persistent := by
    cases hpers : p.persistent
    · rw [List.any_eq_false]
      intro q hq
      by_cases hqn : q.name = p.name
      · have h1 := findParam_of_mem ps hnames q hq
        rw [hqn, hfind] at h1
        cases h1
        simp [hpers]
      · simp [hqn]
    · rw [List.any_eq_true]
      exact ⟨p, hp, by simp [hpers]⟩
  rw [hstored, hany]
  unfold startParam expectedStart
  obtain ⟨nm, pers, au, gv, hw, dr, vl⟩ := p
  simp only at hlook ⊢
  cases pers <;> cases gv <;> simp
  rw [hlook rfl]
  cases ((loadRaw env.parse file).lookup nm).bind (env.imp nm) <;> simp

/-- Round trip: take the persistent parameters `ps` of a module with distinct names, whose values the
datatypes can re-import from their exported form.  The snapshot written for them, read by a freshly
created module of the same class (same names and flags, any defaults `dflt`, nothing configured), restores
every persistent parameter to the saved value. -/
theorem roundtrip (env : Env P N V) (ps : List (Param V)) (dflt : String → V)
    (hnames : (ps.map (·.name)).Nodup)
    (hlaw : ∀ p ∈ ps, p.persistent = true → env.imp p.name (env.exp p.name p.value) = some p.value)
    (hcodec : env.parse (env.ser (exportAll env ps)).flatten = some (.obj (exportAll env ps))) :
    let file := some (env.ser (exportAll env ps)).flatten
    let fresh := ps.map (fun p => { p with value := dflt p.name, given := false })
    let restarted := (startUp env fresh [] file none).ms.params
    Restores ((ps.filter (·.persistent)).map (fun p => (p.name, p.value)))
      (restarted.map (fun p => (p.name, p.value))) := by
  intro file fresh restarted
  have hfreshnames : (fresh.map (·.name)).Nodup := by
    simpa [fresh, List.map_map, Function.comp_def] using hnames
  have hraw : loadRaw env.parse file = exportAll env ps := by simp [file, loadRaw, hcodec]
  have hexpkeys : ((exportAll env ps).map Prod.fst).Nodup := by
    unfold exportAll
    rw [List.map_map]
    exact (List.Sublist.map _ List.filter_sublist).nodup hnames |> fun h => by simpa [Function.comp_def] using h
  have hparams : restarted = fresh.map (startParam (loadEntries fresh env.imp (exportAll env ps))) := by
    simp [restarted, startUp, doSave, hraw]
  intro n v hnv
  simp only [List.mem_map, List.mem_filter] at hnv
  obtain ⟨p, ⟨hp, hpers⟩, hpe⟩ := hnv
  cases hpe
  -- the fresh twin of p
  let p' : Param V := { p with value := dflt p.name, given := false }
  have hp' : p' ∈ fresh := List.mem_map.2 ⟨p, hp, rfl⟩
  have hfind := findParam_of_mem fresh hfreshnames p' hp'
  -- the entry of p in the exported dictionary
  have hexp : (exportAll env ps).lookup p.name = some (env.exp p.name p.value) := by
    have hmem : (p.name, env.exp p.name p.value) ∈ exportAll env ps := by
      unfold exportAll
      exact List.mem_map.2 ⟨p, List.mem_filter.2 ⟨hp, hpers⟩, rfl⟩
    clear hraw hparams
    generalize exportAll env ps = d at hexpkeys hmem
    induction d with
    | nil => cases hmem
    | cons e rest ih =>
      obtain ⟨k, j⟩ := e
      simp only [List.map_cons, List.nodup_cons] at hexpkeys
      rcases List.mem_cons.1 hmem with h | h
      · cases h; simp [List.lookup_cons]
      · have : (p.name == k) = false := by
          simp only [beq_eq_false_iff_ne, ne_eq]
          intro hk
          exact hexpkeys.1 (hk ▸ List.mem_map_of_mem (f := Prod.fst) h)
        simp only [List.lookup_cons, this]
        exact ih hexpkeys.2 h
  have hloaded : (loadEntries fresh env.imp (exportAll env ps)).lookup p.name = some p.value := by
    rw [lookup_loadEntries fresh env.imp _ hexpkeys, hexp]
    have : findParam fresh p.name = some p' := hfind
    simp [importEntry, this, p', hpers, hlaw p hp hpers]
  -- value of the twin after start-up
  have hstart : startParam (loadEntries fresh env.imp (exportAll env ps)) p' = { p' with value := p.value } := by
    unfold startParam
    simp [p', hpers, hloaded]
  rw [hparams, List.map_map]
  -- look the name up in the restarted module
  have hmem : (p.name, p.value) ∈ fresh.map ((fun q => (q.name, q.value)) ∘ startParam (loadEntries fresh env.imp (exportAll env ps))) := by
    refine List.mem_map.2 ⟨p', hp', ?_⟩
    simp [Function.comp, hstart, p']
  have hkeys2 : ((fresh.map ((fun q => (q.name, q.value)) ∘ startParam (loadEntries fresh env.imp (exportAll env ps)))).map Prod.fst).Nodup := by
    rw [List.map_map]
    have : (Prod.fst ∘ (fun q : Param V => (q.name, q.value)) ∘ startParam (loadEntries fresh env.imp (exportAll env ps))) = (·.name) := by
      funext q
      simp only [Function.comp]
      unfold startParam
      split
      · split <;> rfl
      · rfl
    rw [this]; exact hfreshnames
  generalize fresh.map ((fun q => (q.name, q.value)) ∘ startParam (loadEntries fresh env.imp (exportAll env ps))) = l at hmem hkeys2
  induction l with
  | nil => cases hmem
  | cons e rest ih =>
    obtain ⟨k, j⟩ := e
    simp only [List.map_cons, List.nodup_cons] at hkeys2
    rcases List.mem_cons.1 hmem with h | h
    · cases h; simp [List.lookup_cons]
    · have : (p.name == k) = false := by
        simp only [beq_eq_false_iff_ne, ne_eq]
        intro hk
        exact hkeys2.1 (hk ▸ List.mem_map_of_mem (f := Prod.fst) h)
      simp only [List.lookup_cons, this]
      exact ih h hkeys2.2

/-! ## reloading in a running module -/

/-- `loadParameters()` in any state of the module (any pending writes, any file content, with or without an I/O fault
in the save it may trigger): every persistent parameter with a usable stored value ends with that value — or, if its
write method refuses the value, keeps the one it had; entries that are unusable stop nothing.  Hypotheses: distinct
parameter names, `json.load` dictionaries have distinct keys, a write method hands back unchanged a value that an
import produced (or refuses it). -/
theorem reload_restores (env : Env P N V) (ms : MState N V) (file : Option Bytes) (fault : Option Fault)
    (held : String → List V)
    (hnames : (ms.params.map (·.name)).Nodup)
    (hkeys : ∀ b kv, env.parse b = some (.obj kv) → (kv.map Prod.fst).Nodup)
    (hidem : ∀ n j v v', env.imp n j = some v → env.wval n v = some v' → v' = v) :
    ReloadRestores env.parse env.imp env.wval file
      (ms.params.map (fun p => ⟨p.name, p.persistent, p.hasWrite, p.value, held p.name,
        (valueOf (loadParameters env ms file fault).ms.params p.name).getD p.value⟩)) := by
  intro o ho hpers
  obtain ⟨p, hp, rfl⟩ := List.mem_map.1 ho
  simp only at hpers ⊢
  have hfind := findParam_of_mem ms.params hnames p hp
  have hraw := loadRaw_keys_nodup env.parse file hkeys
  have hany : (ms.params.map (fun p => (⟨p.name, p.persistent, p.hasWrite, p.value, held p.name,
        (valueOf (loadParameters env ms file fault).ms.params p.name).getD p.value⟩ : ReloadObs V))).any
        (fun q => q.name == p.name && q.persistent) = true := by
    rw [List.any_map]
    have := any_persistent ms.params hnames p hp
    simpa [Function.comp_def, hpers] using this
  rw [storedValue_eq]
  simp only [hany, if_true]
  rw [← lookup_loaded ms.params env.imp _ hraw p hfind hpers]
  unfold ReloadedTo valueOf
  rw [loadParameters_find env ms file fault p.name p hfind hraw]
  cases hl : (loadEntries ms.params env.imp (loadRaw env.parse file)).lookup p.name with
  | none => trivial
  | some v =>
    obtain ⟨j, _, hj⟩ := Option.bind_eq_some_iff.1 ((lookup_loaded ms.params env.imp _ hraw p hfind hpers).symm.trans hl)
    simp only [Option.map_some, Option.getD_some]
    cases hw : p.hasWrite
    · left; simp
    · cases hv : env.wval p.name v with
      | none => right; simp
      | some v' => left; simp [hidem _ _ _ _ hj hv]

/-- `believed_on_disk` for the whole module machine: after start-up (from any file, with or without a fault in its
save) and any history of `set` / `saveParameters` / `writeInitParams` / `loadParameters` / `factory_reset` actions, each
with or without an I/O fault in whatever saves it triggers, `persistentData` is exactly what a restart would read from
the file.  (`Codec`: the snapshot of any value assignment of the class reads back as written.) -/
theorem believed_on_disk_world (env : Env P N V) (htt : env.tgt ≠ env.tmp) (ps : List (Param V))
    (wd0 : List (String × V)) (fs0 : FS P) (fault : Option Fault) (hist : List (Act V × Option Fault))
    (hc : Codec env ps) :
    let o := startUp env ps wd0 (fs0 env.tgt) fault
    let w := World.run env ⟨o.ms, applyEvs fs0 o.evs⟩ hist
    loadRaw env.parse (w.fs env.tgt) = w.ms.believed :=
  (world_run_good env ps htt hc hist _ (startUp_good env ps htt hc wd0 fs0 fault)).disk

/-- Start-up that returns normally leaves a file that is current: it reads back as the snapshot of the values start-up
decided (configured > stored > default) — or as something Python-`==` to it, in which case nothing was written. -/
theorem startup_file_current (env : Env P N V) (htt : env.tgt ≠ env.tmp) (ps : List (Param V))
    (wd0 : List (String × V)) (fs0 : FS P) (fault : Option Fault) (hc : Codec env ps) :
    let o := startUp env ps wd0 (fs0 env.tgt) fault
    o.raised = false →
      loadRaw env.parse (applyEvs fs0 o.evs env.tgt) = exportAll env o.ms.params ∨
      env.same (exportAll env o.ms.params) (loadRaw env.parse (applyEvs fs0 o.evs env.tgt)) = true := by
  intro o hraised
  have hgood := startUp_good env ps htt hc wd0 fs0 fault
  rw [hgood.disk]
  -- what start-up believes afterwards
  have hparams : o.ms.params = ps.map (startParam (loadEntries ps env.imp (loadRaw env.parse (fs0 env.tgt)))) :=
    startUp_params env ps wd0 _ fault
  rw [hparams]
  simp only [o, startUp, doSave, saveStep] at hraised ⊢
  split
  · right; assumption
  · rename_i hs
    simp only [hs] at hraised
    have hnr := saveRun_not_renamed env.tgt env.tmp
      (env.ser (exportAll env (ps.map (startParam (loadEntries ps env.imp (loadRaw env.parse (fs0 env.tgt))))))) fault
    cases hr : (saveRun env.tgt env.tmp
      (env.ser (exportAll env (ps.map (startParam (loadEntries ps env.imp (loadRaw env.parse (fs0 env.tgt))))))) fault).renamed
    · rw [hnr hr] at hraised; cases hraised
    · left; simp

/-- `saved_when_done` for the whole module machine: in any state reached from start-up by any history (faults
included), a `saveParameters()` that is not deferred (no write pending) and returns normally leaves a file that reads
back as the current values of the persistent parameters (or as something Python-`==` to them: then it wrote nothing). -/
theorem save_leaves_current_file (env : Env P N V) (htt : env.tgt ≠ env.tmp) (ps : List (Param V))
    (wd0 : List (String × V)) (fs0 : FS P) (f0 f : Option Fault) (hist : List (Act V × Option Fault))
    (hc : Codec env ps) :
    let o := startUp env ps wd0 (fs0 env.tgt) f0
    let w := World.run env ⟨o.ms, applyEvs fs0 o.evs⟩ hist
    let s := act env w.ms (w.fs env.tgt) .save f
    w.ms.writeDict = [] → s.raised = false →
      loadRaw env.parse (applyEvs w.fs s.evs env.tgt) = exportAll env w.ms.params ∨
      env.same (exportAll env w.ms.params) (loadRaw env.parse (applyEvs w.fs s.evs env.tgt)) = true := by
  intro o w s hwd hraised
  have hgood : Good env ps w.fs w.ms :=
    world_run_good env ps htt hc hist _ (startUp_good env ps htt hc wd0 fs0 f0)
  have hs : s = doSave env w.ms f := by simp [s, act, saveParameters, hwd]
  rw [hs] at hraised ⊢
  exact doSave_current env ps htt hc w.fs w.ms f hgood hraised

/-- The automatic save stays hooked to the parameter: after start-up and any history - I/O faults in any of the saves,
automatic ones included, whose exceptions `announceUpdate` swallows - `saveParameters` is registered for exactly the
parameters with `persistent='auto'`. -/
theorem auto_save_stays_registered (env : Env P N V) (ps : List (Param V)) (wd0 : List (String × V)) (fs0 : FS P)
    (f0 : Option Fault) (hist : List (Act V × Option Fault)) :
    let o := startUp env ps wd0 (fs0 env.tgt) f0
    let w := World.run env ⟨o.ms, applyEvs fs0 o.evs⟩ hist
    w.ms.hooks = autoNames ps := by
  intro o w
  show (World.run env ⟨o.ms, applyEvs fs0 o.evs⟩ hist).ms.hooks = autoNames ps
  rw [world_run_hooks]
  exact startUp_hooks env ps wd0 _ f0

/-- "a save that failed is attempted again by the next save", for the automatic saves: in any state reached from start-up
by any history (so after any number of automatic or explicit saves that failed at any operation), an undisturbed update
of a parameter with `persistent='auto'`, while no write is pending, leaves a file that reads back as the current values,
the new one included (or as something Python-`==` to them: then nothing had to be written). -/
theorem failed_auto_save_retried (env : Env P N V) (htt : env.tgt ≠ env.tmp) (ps : List (Param V))
    (wd0 : List (String × V)) (fs0 : FS P) (f0 : Option Fault) (hist : List (Act V × Option Fault))
    (hc : Codec env ps) (p : Param V) (hp : p ∈ ps) (hpers : p.persistent = true) (hauto : p.auto = true) (v : V) :
    let o := startUp env ps wd0 (fs0 env.tgt) f0
    let w := World.run env ⟨o.ms, applyEvs fs0 o.evs⟩ hist
    let s := act env w.ms (w.fs env.tgt) (.set p.name v) none
    w.ms.writeDict = [] →
      s.ms.params = setValue w.ms.params p.name v ∧
      (loadRaw env.parse (applyEvs w.fs s.evs env.tgt) = exportAll env s.ms.params ∨
       env.same (exportAll env s.ms.params) (loadRaw env.parse (applyEvs w.fs s.evs env.tgt)) = true) := by
  intro o w s hwd
  have hgood : Good env ps w.fs w.ms :=
    world_run_good env ps htt hc hist _ (startUp_good env ps htt hc wd0 fs0 f0)
  have hhooks : w.ms.hooks = autoNames ps := auto_save_stays_registered env ps wd0 fs0 f0 hist
  have hnames : w.ms.params.map (·.name) = ps.map (·.name) := by
    show (World.run env ⟨o.ms, applyEvs fs0 o.evs⟩ hist).ms.params.map (·.name) = ps.map (·.name)
    rw [world_run_names]
    exact startUp_names env ps wd0 _ f0
  have hsome : (findParam w.ms.params p.name).isSome = true :=
    findParam_isSome _ _ (by rw [hnames]; exact List.mem_map.mpr ⟨p, hp, rfl⟩)
  obtain ⟨q, hq⟩ := Option.isSome_iff_exists.mp hsome
  have hcont : w.ms.hooks.contains p.name = true := by rw [hhooks]; exact mem_autoNames hp hpers hauto
  have h1 : Good env ps w.fs { w.ms with params := setValue w.ms.params p.name v } :=
    ⟨hgood.disk, hgood.shape.trans (setValue_shape _ _ _)⟩
  have hs : s.evs = (doSave env { w.ms with params := setValue w.ms.params p.name v } none).evs ∧
      s.ms.params = setValue w.ms.params p.name v := by
    have hmem : p.name ∈ w.ms.hooks := by simpa using hcont
    simp [s, act, announce, hq, hmem, saveParameters, hwd, doSave]
  have hraised : (doSave env { w.ms with params := setValue w.ms.params p.name v } none).raised = false := by
    simp only [doSave, saveStep]
    split
    · rfl
    · exact (saveRun_none env.tgt env.tmp _).2.2
  rw [hs.1, hs.2]
  exact ⟨rfl, doSave_current env ps htt hc w.fs _ none h1 hraised⟩

/-- The reload that follows start-up directly (the first poll finds the hardware power-cycled).  Whatever the file of
the earlier run held and whatever the configuration gives now, a start-up that returned normally followed by
`loadParameters()` (with or without an I/O fault in the save it triggers) leaves every persistent parameter with the
value start-up decided; in particular a value given in the configuration is not overridden by the stored one.
Hypotheses: distinct names; `Codec`; `json.load` gives distinct keys; a write method returns what it was given; the
start values survive export + import; import respects Python `==` of decoded files (used only when start-up found
nothing to write). -/
theorem reload_after_startup_keeps_values (env : Env P N V) (htt : env.tgt ≠ env.tmp) (ps : List (Param V))
    (wd0 : List (String × V)) (fs0 : FS P) (f0 f1 : Option Fault)
    (hnames : (ps.map (·.name)).Nodup) (hc : Codec env ps)
    (hkeys : ∀ b kv, env.parse b = some (.obj kv) → (kv.map Prod.fst).Nodup)
    (hidem : ∀ n j v v', env.imp n j = some v → env.wval n v = some v' → v' = v)
    (hsame : ∀ d d', env.same d d' = true → ∀ n, (d'.lookup n).bind (env.imp n) = (d.lookup n).bind (env.imp n)) :
    let o := startUp env ps wd0 (fs0 env.tgt) f0
    let disk := applyEvs fs0 o.evs
    let out := (loadParameters env o.ms (disk env.tgt) f1).ms.params
    o.raised = false →
    (∀ p ∈ o.ms.params, p.persistent = true → env.imp p.name (env.exp p.name p.value) = some p.value) →
    (∀ p ∈ o.ms.params, p.persistent = true → valueOf out p.name = some p.value) ∧
    ReloadFromThisRun (o.ms.params.map (fun p => ⟨p.name, p.persistent, p.hasWrite, p.value, [p.value],
      (valueOf out p.name).getD p.value⟩)) := by
  intro o disk out hraised hlaw
  have hmain : ∀ p ∈ o.ms.params, p.persistent = true → valueOf out p.name = some p.value := by
    intro p hp hpers
    have hnames' : (o.ms.params.map (·.name)).Nodup := by rw [startUp_names]; exact hnames
    have hfind := findParam_of_mem o.ms.params hnames' p hp
    have hraw := loadRaw_keys_nodup env.parse (disk env.tgt) hkeys
    -- the stored entry of p imports to the value p has
    have hentry : ((loadRaw env.parse (disk env.tgt)).lookup p.name).bind (env.imp p.name) = some p.value := by
      rcases startup_file_current env htt ps wd0 fs0 f0 hc hraised with h | h
      · rw [h, lookup_exportAll env o.ms.params hnames' p hp hpers]
        exact hlaw p hp hpers
      · rw [hsame _ _ h, lookup_exportAll env o.ms.params hnames' p hp hpers]
        exact hlaw p hp hpers
    have hl : (loadEntries o.ms.params env.imp (loadRaw env.parse (disk env.tgt))).lookup p.name = some p.value := by
      rw [lookup_loaded o.ms.params env.imp _ hraw p hfind hpers]; exact hentry
    simp only [out, valueOf]
    rw [loadParameters_find env o.ms (disk env.tgt) f1 p.name p hfind hraw, hl]
    simp only [Option.map_some]
    cases hw : p.hasWrite
    · simp
    · cases hv : env.wval p.name p.value with
      | none => simp
      | some v' => simp [hidem _ _ _ _ (hlaw p hp hpers) hv]
  refine ⟨hmain, ?_⟩
  intro ob hob hpers
  obtain ⟨p, hp, rfl⟩ := List.mem_map.1 hob
  simp only at hpers ⊢
  rw [hmain p hp hpers]
  simp

/-- "Values given in the configuration take precedence over stored ones", for the whole run of a module: start-up
(from any file of an earlier run, any configuration) that returned normally, then ANY history of `set` /
`saveParameters` / `writeInitParams` / `loadParameters` / `factory_reset` actions, each with or without an I/O fault in
the saves it triggers, then `loadParameters()`: every persistent parameter ends with a value it has had in this run —
at the end of start-up (configured > stored > default) or after one of the actions.  A value that only the earlier
run had stored never comes back.  Hypotheses as for `reload_after_startup_keeps_values`, with the codec law for all
values. -/
theorem reload_from_this_run (env : Env P N V) (htt : env.tgt ≠ env.tmp) (ps : List (Param V))
    (wd0 : List (String × V)) (fs0 : FS P) (f0 f1 : Option Fault) (hist : List (Act V × Option Fault))
    (hnames : (ps.map (·.name)).Nodup) (hc : Codec env ps)
    (hkeys : ∀ b kv, env.parse b = some (.obj kv) → (kv.map Prod.fst).Nodup)
    (hidem : ∀ n j v v', env.imp n j = some v → env.wval n v = some v' → v' = v)
    (hlaw : ∀ n v, env.imp n (env.exp n v) = some v)
    (hsame : ∀ d d', env.same d d' = true → ∀ n, (d'.lookup n).bind (env.imp n) = (d.lookup n).bind (env.imp n)) :
    let o := startUp env ps wd0 (fs0 env.tgt) f0
    let w0 : World P N V := ⟨o.ms, applyEvs fs0 o.evs⟩
    let w := World.run env w0 hist
    let out := (loadParameters env w.ms (w.fs env.tgt) f1).ms.params
    o.raised = false →
    ReloadFromThisRun (w.ms.params.map (fun p => ⟨p.name, p.persistent, p.hasWrite, p.value,
      (List.range (hist.length + 1)).map (fun i => (valueOf (World.run env w0 (hist.take i)).ms.params p.name).getD p.value),
      (valueOf out p.name).getD p.value⟩)) := by
  intro o w0 w out hraised
  have hnames0 : (o.ms.params.map (·.name)).Nodup := by rw [startUp_names]; exact hnames
  have hgood0 : Good env ps w0.fs w0.ms := startUp_good env ps htt hc wd0 fs0 f0
  -- at the end of start-up the file holds the start values
  have hwithin0 : Within env (fun n v => valueOf o.ms.params n = some v) w0.ms := by
    have hval : ∀ n p, findParam w0.ms.params n = some p → valueOf o.ms.params n = some p.value := by
      intro n p hf
      unfold valueOf
      rw [show findParam o.ms.params n = some p from hf]; rfl
    refine ⟨fun n p hf _ => hval n p hf, fun n p hf hpers => ?_⟩
    obtain ⟨hmem, hname⟩ := mem_of_findParam hf
    refine ⟨p.value, ?_, hval n p hf⟩
    rw [← hgood0.disk, ← hname]
    rcases startup_file_current env htt ps wd0 fs0 f0 hc hraised with h | h
    · rw [h, lookup_exportAll env o.ms.params hnames0 p hmem hpers]; exact hlaw _ _
    · rw [hsame _ _ h, lookup_exportAll env o.ms.params hnames0 p hmem hpers]; exact hlaw _ _
  have hwithin := world_run_within env ps htt hc hlaw hist w0 _ hgood0 hnames0 hwithin0
  have hgood : Good env ps w.fs w.ms := world_run_good env ps htt hc hist w0 hgood0
  have hnamesw : (w.ms.params.map (·.name)).Nodup := by
    rw [world_run_names]; exact hnames0
  -- every value of this run is in the list of the observation
  have hheld : ∀ (p : Param V) (x : V),
      (valueOf o.ms.params p.name = some x ∨ Visited env w0 hist p.name x) →
      x ∈ (List.range (hist.length + 1)).map
        (fun i => (valueOf (World.run env w0 (hist.take i)).ms.params p.name).getD p.value) := by
    intro p x hx
    rcases hx with hx | ⟨i, hi, hx⟩
    · exact List.mem_map.2 ⟨0, by simp, by simp [World.run, w0, hx]⟩
    · exact List.mem_map.2 ⟨i, by simp; omega, by simp [hx]⟩
  intro ob hob hpers
  obtain ⟨p, hp, rfl⟩ := List.mem_map.1 hob
  simp only at hpers ⊢
  have hfind := findParam_of_mem w.ms.params hnamesw p hp
  have hraw := loadRaw_keys_nodup env.parse (w.fs env.tgt) hkeys
  obtain ⟨v, hv, hHv⟩ := hwithin.stored p.name p hfind hpers
  have hl : (loadEntries w.ms.params env.imp (loadRaw env.parse (w.fs env.tgt))).lookup p.name = some v := by
    rw [lookup_loaded w.ms.params env.imp _ hraw p hfind hpers, hgood.disk]; exact hv
  apply hheld p
  have hX : (valueOf out p.name).getD p.value =
      ((if p.hasWrite then env.wval p.name v else some v)).getD p.value := by
    simp only [out, valueOf]
    rw [loadParameters_find env w.ms (w.fs env.tgt) f1 p.name p hfind hraw, hl]
    simp
  rw [hX]
  have hcur := hwithin.cur p.name p hfind hpers
  cases hw : p.hasWrite
  · simp only [Bool.false_eq_true, if_false, Option.getD_some]; exact hHv
  · cases hwv : env.wval p.name v with
    | none => simp only [if_true, Option.getD_none]; exact hcur
    | some v' =>
      obtain ⟨j, _, hj⟩ := Option.bind_eq_some_iff.1 hv
      simp only [if_true, Option.getD_some, hidem _ _ _ _ hj hwv]; exact hHv

end loading

/-! ## where the file lives: subdirectories from the equipment id, directories missing or removed at run time -/

section place
variable {N V : Type}

/-- The directories never matter to `__save_params`: whatever directories exist when it is called - none at all, the
persistent directory without the subdirectory an equipment id like `lab/cryo7` asks for, everything - the call is the
call of the flat model (`saveStep`) at the file and its temporary neighbour, fault for fault.  So every theorem about
saves above (`crash_atomic`, `fault_atomic`, `failed_save_retried`, `believed_on_disk`, …) holds wherever the file
lives; the parent directory of the file exists after every call that had something to write, and no directory is ever
lost. -/
theorem save_same_wherever {D : Type} (same : D → D → Bool) (ser : D → List Bytes) (tgt : Path) (ds : List Path)
    (believed data : D) (fault : Option Fault) :
    let o := saveStepAt same ser tgt ds believed data fault
    o.1 = saveStep same ser tgt (tmpFile tgt) believed data fault ∧
    (same data believed = false → parentDir tgt ∈ o.2) ∧ (∀ d ∈ ds, d ∈ o.2) := by
  intro o
  simp only [o, saveStepAt, saveStep]
  split
  · rename_i h
    refine ⟨rfl, ?_, fun d hd => hd⟩
    intro h'
    rw [h] at h'; cases h'
  · rw [saveRunAt_of_mem (mem_ensureDir ds (parentDir tgt))]
    exact ⟨rfl, fun _ => mem_ensureDir ds _, subset_ensureDir ds _⟩

/-- A missing directory never prevents saving: for every equipment id and module name, every set of existing
directories (`ds`, possibly empty: even the log directory is gone), every content of the tree: a save that has
something to write and meets no I/O failure returns normally, the complete new snapshot is at the place derived from
equipment id and module name, nothing is left at the temporary name, the snapshot counts as saved, and the directory
of the file exists. -/
theorem missing_dir_never_prevents_saving {D : Type} (same : D → D → Bool) (ser : D → List Bytes) (eq mod : String)
    (ds : List Path) (fs : FS Path) (believed data : D) (hdiff : same data believed = false) :
    let tgt := persistentFile eq mod
    let o := saveStepAt same ser tgt ds believed data none
    o.1.raised = false ∧ applyEvs fs o.1.evs tgt = some (ser data).flatten ∧
      applyEvs fs o.1.evs (tmpFile tgt) = none ∧ o.1.believed = data ∧ parentDir tgt ∈ o.2 := by
  intro tgt o
  obtain ⟨h1, h2, _⟩ := save_same_wherever same ser tgt ds believed data none
  have htt : tgt ≠ tmpFile tgt := fun h => tmpFile_ne tgt h.symm
  obtain ⟨hev, hren, hra⟩ := saveRun_none tgt (tmpFile tgt) (ser data)
  obtain ⟨f1, f2, _⟩ := saveRun_final htt (ser data) none fs
  have ho : o.1 = ⟨data, (saveRun tgt (tmpFile tgt) (ser data) none).evs, false⟩ := by
    rw [show o.1 = _ from h1]; simp [saveStep, hdiff, hren, hra]
  rw [ho]
  exact ⟨rfl, f2 hren, f1 rfl, rfl, h2 hdiff⟩

/-- The model satisfies the clause `SavedWherever` of the specification: for every equipment id, module name, set of
existing directories and content of the tree, what can be seen of a call of `__save_params` that meets no I/O failure -
raised?, number of file operations, the listing of the two places it works on - is accepted: it does not raise, and if it
touched the file system the complete new snapshot is at the derived place and nothing else is listed. -/
theorem model_saved_wherever {D : Type} (same : D → D → Bool) (ser : D → List Bytes) (eq mod : String)
    (ds : List Path) (fs : FS Path) (believed data : D) :
    let tgt := persistentFile eq mod
    let o := saveStepAt same ser tgt ds believed data none
    SavedWherever eq mod (ser data).flatten
      ⟨o.1.raised, o.1.evs.length, treeOf (applyEvs fs o.1.evs) [tgt, tmpFile tgt]⟩ := by
  intro tgt o
  cases hs : same data believed
  · obtain ⟨h1, h2, h3, _, _⟩ := missing_dir_never_prevents_saving same ser eq mod ds fs believed data hs
    refine ⟨h1, fun _ => ?_⟩
    have ht : treeOf (applyEvs fs o.1.evs) [tgt, tmpFile tgt] = [(tgt, (ser data).flatten)] := by
      simp only [treeOf, List.filterMap_cons, List.filterMap_nil]
      rw [show applyEvs fs o.1.evs tgt = some (ser data).flatten from h2,
        show applyEvs fs o.1.evs (tmpFile tgt) = none from h3]
      rfl
    show InPlace eq mod (ser data).flatten (treeOf (applyEvs fs o.1.evs) [tgt, tmpFile tgt])
    rw [ht]
    refine ⟨by simp [List.lookup, tgt], ?_⟩
    intro e he
    simp only [List.mem_singleton] at he
    rw [he]
  · have ho : o.1 = ⟨believed, [], false⟩ := by simp [o, saveStepAt, hs]
    rw [ho]
    exact ⟨rfl, fun h => absurd h (by simp)⟩

/-- the monitor decides the clause -/
theorem savedWhereverB_iff (eq mod : String) (new : Bytes) (o : PlaceObs) :
    savedWhereverB eq mod new o = true ↔ SavedWherever eq mod new o := by
  simp [savedWhereverB]

/-- What the two lines 156-157 are there for: the same call *without* them, in a tree where the directory of the file
does not exist, raises and leaves nothing - for ever, since the next call meets the same tree. -/
theorem without_directory_nothing_is_saved (tgt : Path) (ds : List Path) (hmiss : parentDir tgt ∉ ds)
    (chunks : List Bytes) (fault : Option Fault) (fs : FS Path) :
    let r := saveRunAt ds tgt (tmpFile tgt) chunks fault
    r.raised = true ∧ r.renamed = false ∧ applyEvs fs r.evs tgt = fs tgt := by
  intro r
  have htt : tgt ≠ tmpFile tgt := fun h => tmpFile_ne tgt h.symm
  have hr : r = saveRun tgt (tmpFile tgt) chunks (some noDirFault) := saveRunAt_of_not_mem hmiss chunks fault
  obtain ⟨_, _, f3⟩ := saveRun_final htt chunks (some noDirFault) fs
  rw [hr]
  have hren : (saveRun tgt (tmpFile tgt) chunks (some noDirFault)).renamed = false := by simp [saveRun, noDirFault]
  exact ⟨saveRun_not_renamed _ _ _ _ hren, hren, f3 hren⟩

/-- A missing directory never prevents start-up: for every equipment id (subdirectories included), every set of
existing directories and every content of the tree - in particular no file, because its directory does not exist -
module creation on a healthy file system returns normally, `<logdir>/persistent` exists afterwards, and if there was
anything to save the complete snapshot of the start values is at its place, in an existing directory. -/
theorem missing_dir_never_prevents_startup {P : Type} (env0 : Env P N V) (eq mod : String) (ps : List (Param V))
    (wd0 : List (String × V)) (ds : List Path) (fs : FS Path) :
    let env := env0.placed eq mod
    let o := startUpAt env ds ps wd0 fs none
    o.1.raised = false ∧ persistentDir ∈ o.2 ∧
      (o.1.evs ≠ [] →
        applyEvs fs o.1.evs (persistentFile eq mod) = some (env.ser (exportAll env o.1.ms.params)).flatten ∧
        applyEvs fs o.1.evs (tmpFile (persistentFile eq mod)) = none ∧ parentDir (persistentFile eq mod) ∈ o.2) := by
  intro env o
  have htt : env.tgt ≠ env.tmp := fun h => tmpFile_ne (persistentFile eq mod) h.symm
  have hpd : persistentDir ∈ mkdirs ds persistentDir := List.mem_append_right _ (mem_prefixes_self _)
  have hparams := startUp_params env ps wd0 (fs env.tgt) none
  simp only [o, startUpAt, startUp, doSave, saveStep, dirsAfter] at hparams ⊢
  split
  · simp [hpd]
  · rename_i hs
    obtain ⟨hev, hren, hra⟩ := saveRun_none env.tgt env.tmp
      (env.ser (exportAll env (ps.map (startParam (loadEntries ps env.imp (loadRaw env.parse (fs env.tgt)))))))
    obtain ⟨f1, f2, _⟩ := saveRun_final htt
      (env.ser (exportAll env (ps.map (startParam (loadEntries ps env.imp (loadRaw env.parse (fs env.tgt))))))) none fs
    have hne := saveRun_evs_ne_nil env.tgt env.tmp
      (env.ser (exportAll env (ps.map (startParam (loadEntries ps env.imp (loadRaw env.parse (fs env.tgt))))))) none
    refine ⟨hra, ?_, fun _ => ⟨f2 hren, f1 rfl, ?_⟩⟩
    · simp only [List.isEmpty_iff, hne, if_false]
      exact subset_ensureDir _ _ _ hpd
    · simp only [List.isEmpty_iff, hne, if_false]
      exact mem_ensureDir _ _

/-- Directories removed while the module runs: in **any** state of module, files and directories, after the tree
below any directory `d` has been removed behind the module's back (the persistent file and its directory with it, or
the whole log directory), a `saveParameters()` that is not deferred, has something to write and meets no I/O failure
returns normally and leaves the complete snapshot of the current values at its place, in an existing directory.
(If it has nothing to write - the values are those it wrote last - it does nothing: the code does not notice that its
file was taken away; the statement does not ask for that.) -/
theorem saved_after_directory_removed {P : Type} (env0 : Env P N V) (eq mod : String) (w : PWorld N V) (d : Path)
    (hwd : w.ms.writeDict = []) :
    let env := env0.placed eq mod
    let w1 := (PWorld.step env w (.wipe d)).2
    let s := PWorld.step env w1 (.act .save none)
    s.1.raised = false ∧
      (env.same (exportAll env w.ms.params) w.ms.believed = false →
        s.2.fs (persistentFile eq mod) = some (env.ser (exportAll env w.ms.params)).flatten ∧
        s.2.fs (tmpFile (persistentFile eq mod)) = none ∧ parentDir (persistentFile eq mod) ∈ s.2.dirs ∧
        s.2.ms.believed = exportAll env w.ms.params) := by
  intro env w1 s
  have htt : env.tgt ≠ env.tmp := fun h => tmpFile_ne (persistentFile eq mod) h.symm
  obtain ⟨hev, hren, hra⟩ := saveRun_none env.tgt env.tmp (env.ser (exportAll env w.ms.params))
  obtain ⟨f1, f2, _⟩ := saveRun_final htt (env.ser (exportAll env w.ms.params)) none (wipeFiles w.fs d)
  have hne := saveRun_evs_ne_nil env.tgt env.tmp (env.ser (exportAll env w.ms.params)) none
  simp only [s, w1, PWorld.step, act, saveParameters, hwd, List.isEmpty_nil, if_true, doSave, saveStep, dirsAfter]
  by_cases hs : env.same (exportAll env w.ms.params) w.ms.believed = true
  · simp [hs]
  · simp only [hs, if_false]
    refine ⟨hra, fun _ => ⟨f2 hren, f1 rfl, ?_, ?_⟩⟩
    · simp only [List.isEmpty_iff, hne, if_false]
      exact mem_ensureDir _ _
    · simp [hren]

end place

/-! ## non-vacuity -/

/-- a concrete save: old snapshot `[1]`, new snapshot `[2,3,4]` written as chunks `[2] [3,4]`; the fault
hits the second write after one byte; the crash comes after 4 operations: the target still holds `[1]`,
the temporary file holds the partial text `[2,3]` -/
example :
    let fs : FS Nat := fun p => if p = 0 then some [1] else none
    let evs := (saveRun (P := Nat) 0 1 [[2], [3, 4]] (some ⟨2, [3], [], false⟩)).evs
    evs.length = 5 ∧ applyEvs fs (evs.take 3) 0 = some [1] ∧ applyEvs fs (evs.take 3) 1 = some [2, 3]
      ∧ applyEvs fs evs 0 = some [1] ∧ applyEvs fs evs 1 = none := by
  decide

/-- the same save without fault: 6 operations, new snapshot in place after the fifth -/
example :
    let fs : FS Nat := fun p => if p = 0 then some [1] else none
    let evs := (saveRun (P := Nat) 0 1 [[2], [3, 4]] none).evs
    evs.length = 6 ∧ applyEvs fs (evs.take 4) 0 = some [1] ∧ applyEvs fs (evs.take 5) 0 = some [2, 3, 4]
      ∧ applyEvs fs evs 1 = none := by
  decide

/-- `failed_save_retried` on a concrete instance: rename fails, next save performs all 5 operations -/
example :
    let same : Nat → Nat → Bool := fun a b => a == b
    let ser : Nat → List Bytes := fun d => [[d.toUInt8]]
    let o1 := saveStep (P := Nat) same ser 0 1 7 8 (some ⟨3, [], [], false⟩)
    let o2 := saveStep (P := Nat) same ser 0 1 o1.believed 8 none
    o1.raised = true ∧ o1.believed = 7 ∧ o2.evs.length = 5 ∧ o2.believed = 8 := by
  decide


/-- the hypotheses of `believed_on_disk` / `saved_when_done` are satisfiable on a non-trivial history: two different
dictionaries, the first save faulted at the rename, the second healthy; afterwards the second one is believed -/
example :
    let d1 : Dict Nat := [("a", .null)]
    let d2 : Dict Nat := [("a", .bool true)]
    let same : Dict Nat → Dict Nat → Bool := fun a b => a.length == b.length && (a.map Prod.fst == b.map Prod.fst) &&
      (match a, b with
        | [(_, .null)], [(_, .null)] => true
        | [(_, .bool x)], [(_, .bool y)] => x == y
        | _, _ => false)
    let ser : Dict Nat → List Bytes := fun d => match d with
      | [(_, .null)] => [[1]]
      | _ => [[2]]
    let parse : Bytes → Option (JV Nat) := fun b => if b = [1] then some (.obj d1) else if b = [2] then some (.obj d2) else none
    let hist : List (Dict Nat × Option Fault) := [(d1, some ⟨3, [], [], false⟩), (d2, none)]
    (∀ a ∈ hist, parse (ser a.1).flatten = some (.obj a.1)) ∧
    (hist.foldl (SaveWorld.step (P := Nat) same ser 0 1) ⟨loadRaw parse none, fun _ => none⟩).believed.length = 1 ∧
    (hist.foldl (SaveWorld.step (P := Nat) same ser 0 1) ⟨loadRaw parse none, fun _ => none⟩).fs 0 = some [2] := by
  refine ⟨?_, ?_, ?_⟩
  · intro a ha
    simp only [List.mem_cons, List.not_mem_nil, or_false] at ha
    rcases ha with rfl | rfl <;> simp
  · decide
  · decide

/-- the hypotheses of `roundtrip` and `cfg_precedence` are satisfiable: one persistent parameter "a" with value 5 -/
example :
    let env : Env Nat Nat Nat :=
      { tgt := 0, tmp := 1, parse := fun _ => some (.obj [("a", .num 5)]), ser := fun _ => [[1]],
        same := fun _ _ => false, imp := fun _ j => match j with | .num n => some n | _ => none,
        exp := fun _ v => .num v, wval := fun _ v => some v }
    let ps : List (Param Nat) := [⟨"a", true, true, false, true, true, 5⟩, ⟨"b", false, false, true, false, false, 7⟩]
    (ps.map (·.name)).Nodup ∧
    (∀ p ∈ ps, p.persistent = true → env.imp p.name (env.exp p.name p.value) = some p.value) ∧
    env.parse (env.ser (exportAll env ps)).flatten = some (.obj (exportAll env ps)) ∧
    (∀ b kv, env.parse b = some (.obj kv) → (kv.map Prod.fst).Nodup) ∧
    ((startUp env (ps.map (fun p => { p with value := 0, given := false })) [] (some [1]) none).ms.params.map (·.value)) = [5, 0] := by
  refine ⟨by decide, ?_, by simp [exportAll], ?_, by decide⟩
  · intro p hp hpers
    simp only [List.mem_cons, List.not_mem_nil, or_false] at hp
    rcases hp with rfl | rfl <;> simp_all
  · intro b kv h
    simp only [Option.some.injEq, JV.obj.injEq] at h
    subst h; decide

/-! ### non-vacuity of the reload theorems

One persistent parameter "a" (with a write method that refuses values above 100) and a plain parameter "b"; numbers
are written in unary, so every snapshot reads back (`Codec`): `exEnv`, `exParams`, `exCodec`, `exLaws` in
`Lemmas/PersistReload`. -/

/-- `reload_after_startup_keeps_values`, `reload_from_this_run`, `startup_file_current`, `believed_on_disk_world` on the scenario of the statement's
precedence clause: the earlier run stored a = 3, the configuration now gives a = 5.  Start-up replaces the file (the
save performs 5 operations), and the reload that follows leaves a = 5; all hypotheses of the theorems hold. -/
example :
    let fs0 : FS Nat := fun p => if p = 0 then some [1, 1, 1] else none
    let o := startUp exEnv exParams [("a", 5)] (fs0 exEnv.tgt) none
    let disk := applyEvs fs0 o.evs
    o.raised = false ∧ o.evs.length = 5 ∧ disk 0 = some [1, 1, 1, 1, 1] ∧
    (∀ p ∈ o.ms.params, p.persistent = true → exEnv.imp p.name (exEnv.exp p.name p.value) = some p.value) ∧
    valueOf (loadParameters exEnv o.ms (disk exEnv.tgt) none).ms.params "a" = some 5 ∧
    storedValue exEnv.parse exEnv.imp (fun n => n == "a") (fs0 0) "a" = some 3 := by
  refine ⟨by decide +kernel, by decide +kernel, by decide +kernel, ?_, by decide +kernel, by decide +kernel⟩
  intro p _ _
  exact exLaws.2.2.2.2.2 _ _

/-- `reload_restores` on two non-trivial states: the file holds a = 9: restored (through the write method); the file
holds a = 200, which the write method refuses: the parameter keeps 5 (and the module goes on) -/
example :
    let ms : MState Nat Nat := ⟨exParams, [("b", 1)], [], [], []⟩
    valueOf (loadParameters exEnv ms (some (List.replicate 9 1)) none).ms.params "a" = some 9 ∧
    valueOf (loadParameters exEnv ms (some (List.replicate 200 1)) (some ⟨2, [], [], false⟩)).ms.params "a" = some 5 ∧
    (loadParameters exEnv ms (some (List.replicate 9 1)) none).writes = [("a", 9)] := by
  refine ⟨by decide +kernel, by decide +kernel, by decide +kernel⟩

/-- all hypotheses of `reload_after_startup_keeps_values` (and with them those of `believed_on_disk_world` and
`startup_file_current`) hold in that scenario, so its conclusion is obtained from the theorem itself -/
example :
    let fs0 : FS Nat := fun p => if p = 0 then some [1, 1, 1] else none
    let o := startUp exEnv exParams [("a", 5)] (fs0 exEnv.tgt) none
    ∀ p ∈ o.ms.params, p.persistent = true →
      valueOf (loadParameters exEnv o.ms (applyEvs fs0 o.evs exEnv.tgt) (some ⟨1, [1], [], false⟩)).ms.params p.name = some p.value := by
  intro fs0 o
  exact (reload_after_startup_keeps_values exEnv exLaws.1 exParams [("a", 5)] fs0 none (some ⟨1, [1], [], false⟩) exLaws.2.1 exCodec
    exLaws.2.2.1 exLaws.2.2.2.1 exLaws.2.2.2.2.1 (by decide +kernel) (fun p _ _ => exLaws.2.2.2.2.2 _ _)).1

/-- `reload_from_this_run` applied in that scenario to an arbitrary history; and a concrete history in which the reload
does change the parameter — back to a value of this run (9 was assigned but never saved, the file holds 5), not to the
3 of the earlier run -/
example (hist : List (Act Nat × Option Fault)) (f1 : Option Fault) :
    let fs0 : FS Nat := fun p => if p = 0 then some [1, 1, 1] else none
    let o := startUp exEnv exParams [("a", 5)] (fs0 exEnv.tgt) none
    let w0 : World Nat Nat Nat := ⟨o.ms, applyEvs fs0 o.evs⟩
    ReloadFromThisRun ((World.run exEnv w0 hist).ms.params.map (fun p => ⟨p.name, p.persistent, p.hasWrite, p.value,
      (List.range (hist.length + 1)).map (fun i => (valueOf (World.run exEnv w0 (hist.take i)).ms.params p.name).getD p.value),
      (valueOf (loadParameters exEnv (World.run exEnv w0 hist).ms ((World.run exEnv w0 hist).fs exEnv.tgt) f1).ms.params p.name).getD p.value⟩)) ∧
    (let w := World.run exEnv w0 [(.writeInit, none), (.set "a" 9, none)]
     valueOf w.ms.params "a" = some 9 ∧
     valueOf (loadParameters exEnv w.ms (w.fs exEnv.tgt) none).ms.params "a" = some 5) := by
  intro fs0 o w0
  exact ⟨reload_from_this_run exEnv exLaws.1 exParams [("a", 5)] fs0 none f1 hist exLaws.2.1 exCodec exLaws.2.2.1
    exLaws.2.2.2.1 exLaws.2.2.2.2.2 exLaws.2.2.2.2.1 (by decide +kernel), by decide +kernel, by decide +kernel⟩

/-- `save_leaves_current_file` in that scenario: after `writeInitParams` and a change of "a" to 9, the save writes
the file that reads back 9 -/
example :
    let fs0 : FS Nat := fun p => if p = 0 then some [1, 1, 1] else none
    let o := startUp exEnv exParams [("a", 5)] (fs0 exEnv.tgt) none
    let w := World.run exEnv ⟨o.ms, applyEvs fs0 o.evs⟩ [(.writeInit, none), (.set "a" 9, none)]
    let s := act exEnv w.ms (w.fs exEnv.tgt) .save none
    w.ms.writeDict = [] ∧ s.raised = false ∧ s.evs.length = 5 ∧
      loadRaw exEnv.parse (applyEvs w.fs s.evs exEnv.tgt) = exportAll exEnv w.ms.params := by
  refine ⟨by decide +kernel, by decide +kernel, by decide +kernel, ?_⟩
  have h := save_leaves_current_file exEnv exLaws.1 exParams [("a", 5)]
    (fun p => if p = 0 then some [1, 1, 1] else none) none none [(.writeInit, none), (.set "a" 9, none)] exCodec
    (by decide +kernel) (by decide +kernel)
  rcases h with h | h
  · exact h
  · simp [exEnv] at h

/-- … and `reload_restores` / `believed_on_disk_world` applied to them -/
example (held : String → List Nat) (hist : List (Act Nat × Option Fault)) (fs0 : FS Nat) :
    ReloadRestores exEnv.parse exEnv.imp exEnv.wval (some (List.replicate 9 1))
      (exParams.map (fun p => ⟨p.name, p.persistent, p.hasWrite, p.value, held p.name,
        (valueOf (loadParameters exEnv ⟨exParams, [("b", 1)], [], [], []⟩ (some (List.replicate 9 1)) none).ms.params p.name).getD p.value⟩)) ∧
    (let o := startUp exEnv exParams [("a", 5)] (fs0 exEnv.tgt) (some ⟨3, [], [], false⟩)
     let w := World.run exEnv ⟨o.ms, applyEvs fs0 o.evs⟩ hist
     loadRaw exEnv.parse (w.fs exEnv.tgt) = w.ms.believed) :=
  ⟨reload_restores exEnv ⟨exParams, [("b", 1)], [], [], []⟩ _ none held exLaws.2.1 exLaws.2.2.1 exLaws.2.2.2.1,
   believed_on_disk_world exEnv exLaws.1 exParams [("a", 5)] fs0 (some ⟨3, [], [], false⟩) hist exCodec⟩

/-- `auto_save_stays_registered` / `failed_auto_save_retried` on a non-trivial history: "a" is saved automatically.  The
automatic save of a := 9 fails at the rename (operation 3 of 5): the file keeps 5, the exception is swallowed, nobody
calls `saveParameters()`; then a read error of "a" is announced (the callback cannot take it: swallowed as well).  The callback
is still registered, and the next change (a := 11) performs the five operations
again and leaves the file that reads back 11 - obtained from the theorem, whose hypotheses all hold. -/
example :
    let fs0 : FS Nat := fun _ => none
    let o := startUp exEnv exAuto [] (fs0 exEnv.tgt) none
    let w := World.run exEnv ⟨o.ms, applyEvs fs0 o.evs⟩ [(.set "a" 9, some ⟨3, [], [], false⟩), (.seterr "a", none)]
    let s := act exEnv w.ms (w.fs exEnv.tgt) (.set "a" 11) none
    w.ms.writeDict = [] ∧ w.fs 0 = some (List.replicate 5 1) ∧ w.fs 1 = none ∧ valueOf w.ms.params "a" = some 9 ∧
    w.ms.hooks = ["a"] ∧ s.evs.length = 5 ∧ applyEvs w.fs s.evs 0 = some (List.replicate 11 1) ∧
    loadRaw exEnv.parse (applyEvs w.fs s.evs exEnv.tgt) = exportAll exEnv s.ms.params := by
  refine ⟨by decide +kernel, by decide +kernel, by decide +kernel, by decide +kernel, ?_, by decide +kernel,
    by decide +kernel, ?_⟩
  · exact auto_save_stays_registered exEnv exAuto [] (fun _ => none) none [(.set "a" 9, some ⟨3, [], [], false⟩), (.seterr "a", none)]
  · have h := (failed_auto_save_retried exEnv exLaws.1 exAuto [] (fun _ => none) none [(.set "a" 9, some ⟨3, [], [], false⟩), (.seterr "a", none)]
      exAutoCodec ⟨"a", true, true, false, false, false, 5⟩ (by simp [exAuto]) rfl rfl 11 (by decide +kernel)).2
    rcases h with h | h
    · exact h
    · simp [exEnv] at h

/-- a failing write after which the file object, closed on the way out, writes once more what it still holds and fails
again with the rest (`after`: the disk is full): the events are those of `failedWrite`, the target is untouched at every
crash point, the temporary file is gone -/
example :
    let fs : FS Nat := fun p => if p = 0 then some [9] else none
    let r := saveRun (P := Nat) 0 1 [[2, 3], [4]] (some ⟨1, [2], [([2, 3], false), ([], true)], false⟩)
    r.evs.length = 6 ∧ r.raised = true ∧ CrashSafe fs 0 [2, 3, 4] r.evs ∧ FaultSafe fs 0 1 [2, 3, 4] r.evs ∧
    applyEvs fs (r.evs.take 4) 1 = some [2, 2, 3] := by
  refine ⟨by decide +kernel, by decide +kernel, ?_, ?_, by decide +kernel⟩
  · exact crash_atomic 0 1 (by decide) [2, 3, 4] [[2, 3], [4]] rfl _ _
  · exact fault_atomic 0 1 (by decide) [2, 3, 4] [[2, 3], [4]] rfl _ _ (by intro f hf; cases hf; rfl)

/-- `double_fault_target_complete` on a concrete run: the rename fails (operation 4) and so does the remove of the clean-up.
The call raises, the target still holds the previous snapshot, the complete temporary file stays behind - and the next,
undisturbed save puts the new snapshot in place and leaves no temporary file. -/
example :
    let fs : FS Nat := fun p => if p = 0 then some [9] else none
    let r := saveRun (P := Nat) 0 1 [[2, 3], [4]] (some ⟨4, [], [], true⟩)
    let fs1 := applyEvs fs r.evs
    let r2 := saveRun (P := Nat) 0 1 [[2, 3], [4]] none
    r.raised = true ∧ r.evs.length = 6 ∧ fs1 0 = some [9] ∧ fs1 1 = some [2, 3, 4] ∧
    CompleteSnapshot (fs1 0) (fs 0) [2, 3, 4] ∧
    applyEvs fs1 r2.evs 0 = some [2, 3, 4] ∧ applyEvs fs1 r2.evs 1 = none := by
  refine ⟨by decide +kernel, by decide +kernel, by decide +kernel, by decide +kernel, ?_, by decide +kernel, by decide +kernel⟩
  exact double_fault_target_complete 0 1 (by decide) [2, 3, 4] [[2, 3], [4]] rfl _ _

/-! ### where the file lives -/

/-- the file name derivation on concrete ids: a plain id, an id with a subdirectory, superfluous separators -/
example : persistentFile "eq" "m" = ["persistent", "eq.m.json"] ∧
    persistentFile "lab/cryo7" "m" = ["persistent", "lab", "cryo7.m.json"] ∧
    persistentFile "a//b/./c.d" "mod" = ["persistent", "a", "b", "c.d.mod.json"] ∧
    tmpFile (persistentFile "lab/cryo7" "m") = ["persistent", "lab", "cryo7.m.json.tmp"] ∧
    parentDir (persistentFile "lab/cryo7" "m") = ["persistent", "lab"] := by
  decide +kernel

/-- `missing_dir_never_prevents_saving` on a concrete instance: equipment id `lab/cryo7`, only the log directory and
`persistent` exist (what `__init__` leaves at the first start): the save creates `persistent/lab`, performs its five
operations and the snapshot is in place; and `without_directory_nothing_is_saved`: the bare writing part in that tree
raises after a failed `open` and leaves no file -/
example :
    let same : Nat → Nat → Bool := fun a b => a == b
    let ser : Nat → List Bytes := fun d => [[d.toUInt8]]
    let tgt := persistentFile "lab/cryo7" "m"
    let ds : List Path := [[], ["persistent"]]
    let fs : FS Path := fun _ => none
    let o := saveStepAt same ser tgt ds 7 8 none
    let r := saveRunAt ds tgt (tmpFile tgt) (ser 8) none
    o.1.raised = false ∧ o.1.evs.length = 5 ∧ applyEvs fs o.1.evs tgt = some [8] ∧ ["persistent", "lab"] ∈ o.2 ∧
      r.raised = true ∧ r.evs.length = 2 ∧ applyEvs fs r.evs tgt = none := by
  decide +kernel

/-- the tree is removed while the module runs: module `a = 9` believes `{a: 5}` to be on disk, `persistent` is wiped
(file and directory gone), the next `saveParameters()` puts the directory back and `{a: 9}` in place (from
`saved_after_directory_removed`, whose hypotheses hold for this state) -/
example :
    let env := exEnv.placed "lab/cryo7" "m"
    let ms : MState Nat Nat := ⟨[⟨"a", true, true, false, true, true, 9⟩], [], [("a", .num 5)], [("a", 1)], ["a"]⟩
    let w : PWorld Nat Nat := ⟨ms, fun p => if p = env.tgt then some (exEnv.ser [("a", .num 5)]).flatten else none,
      [[], ["persistent"], ["persistent", "lab"]]⟩
    let w1 := (PWorld.step env w (.wipe ["persistent"])).2
    let s := PWorld.step env w1 (.act .save none)
    w1.fs env.tgt = none ∧ w1.dirs = [[]] ∧ s.1.raised = false ∧
      s.2.fs (persistentFile "lab/cryo7" "m") = some (env.ser (exportAll env ms.params)).flatten ∧
      parentDir (persistentFile "lab/cryo7" "m") ∈ s.2.dirs := by
  intro env ms w w1 s
  have hdiff : env.same (exportAll env w.ms.params) w.ms.believed = false := by decide +kernel
  have h := saved_after_directory_removed exEnv "lab/cryo7" "m" w ["persistent"] rfl
  obtain ⟨h1, h2⟩ := h
  obtain ⟨h3, _, h5, _⟩ := h2 hdiff
  refine ⟨?_, ?_, h1, h3, h5⟩
  · decide +kernel
  · decide +kernel

end Frappy.Props.C17
