import FrappyProofs.Lemmas.Persist
/-
C17 — property theorems (nothing but property theorems and their non-vacuity examples).
-/
namespace Frappy.Props.C17
open Frappy.Persist Frappy.Spec.C17

section atomic
variable {P : Type} [DecidableEq P]

/-- For every crash point: whatever prefix of the operations of a save has been performed — with or
without an injected I/O error in it, for every way `new` is cut into `write` chunks, whatever a failing write
still wrote, whatever a stale temporary file held — the target file is the complete previous snapshot
(or still missing, if it was) or the complete new one.  Never partial, never empty. -/
theorem crash_atomic (tgt tmp : P) (htt : tgt ≠ tmp) (new : Bytes) (chunks : List Bytes)
    (hchunks : chunks.flatten = new) (fault : Option Fault) (fs : FS P) :
    CrashSafe fs tgt new (saveRun tgt tmp chunks fault).evs := by
  intro p hp
  subst hchunks
  exact saveRun_prefix htt chunks fault fs p hp

/-- For every single I/O failure (at the open, at any write — with any partial effect —, at the close, the
rename or the remove): when the call returns the target is the complete previous or the complete new
snapshot, and the temporary file is gone. -/
theorem fault_atomic (tgt tmp : P) (htt : tgt ≠ tmp) (new : Bytes) (chunks : List Bytes)
    (hchunks : chunks.flatten = new) (fault : Option Fault) (fs : FS P) :
    FaultSafe fs tgt tmp new (saveRun tgt tmp chunks fault).evs := by
  subst hchunks
  obtain ⟨h1, h2, h3⟩ := saveRun_final htt chunks fault fs
  refine ⟨?_, h1⟩
  cases hr : (saveRun tgt tmp chunks fault).renamed
  · exact Or.inl (h3 hr)
  · exact Or.inr (h2 hr)

/-- A call that returns normally has put the new snapshot in place; one that did not get the snapshot in
place raises (so the caller can never take a failed save for a successful one). -/
theorem save_outcome (tgt tmp : P) (htt : tgt ≠ tmp) (chunks : List Bytes) (fault : Option Fault) (fs : FS P) :
    ((saveRun tgt tmp chunks fault).raised = false →
      applyEvs fs (saveRun tgt tmp chunks fault).evs tgt = some chunks.flatten) ∧
    (applyEvs fs (saveRun tgt tmp chunks fault).evs tgt ≠ some chunks.flatten →
      (saveRun tgt tmp chunks fault).raised = true ∧
      applyEvs fs (saveRun tgt tmp chunks fault).evs tgt = fs tgt) := by
  obtain ⟨_, h2, h3⟩ := saveRun_final htt chunks fault fs
  have hnr := saveRun_not_renamed tgt tmp chunks fault
  cases hr : (saveRun tgt tmp chunks fault).renamed
  · refine ⟨fun h => ?_, fun _ => ⟨hnr hr, h3 hr⟩⟩
    rw [hnr hr] at h; cases h
  · exact ⟨fun _ => h2 hr, fun h => absurd (h2 hr) h⟩

/-- The fault-free call performs exactly `open tmp; write chunk*; close; rename tmp target; remove tmp`. -/
theorem save_ops_exact (tgt tmp : P) (chunks : List Bytes) :
    (saveRun tgt tmp chunks none).evs = (saveOps tgt tmp chunks).map okEv :=
  (saveRun_none tgt tmp chunks).1

/-- A save that failed is attempted again by the next save: if the values `data` differ from what is
believed to be on disk, the first call hits any fault and the second call runs on a healthy file system,
then either the first call had already put the snapshot in place, or the second call performs the complete
operation sequence again; in both cases the snapshot is on disk afterwards. -/
theorem failed_save_retried {D : Type} (same : D → D → Bool) (ser : D → List Bytes) (tgt tmp : P)
    (htt : tgt ≠ tmp) (believed data : D) (fault : Option Fault) (fs : FS P)
    (hrefl : same data data = true) (hdiff : same data believed = false) :
    let o1 := saveStep same ser tgt tmp believed data fault
    let fs1 := applyEvs fs o1.evs
    let o2 := saveStep same ser tgt tmp o1.believed data none
    let fs2 := applyEvs fs1 o2.evs
    Retried (ser data).flatten (fs1 tgt) (fs2 tgt) o2.evs.length ∧
    (fs1 tgt ≠ some (ser data).flatten → o2.evs = (saveOps tgt tmp (ser data)).map okEv) := by
  intro o1 fs1 o2 fs2
  obtain ⟨_, h2, h3⟩ := saveRun_final htt (ser data) fault fs
  have ho1e : o1.evs = (saveRun tgt tmp (ser data) fault).evs := by simp [o1, saveStep, hdiff]
  cases hr : (saveRun tgt tmp (ser data) fault).renamed
  · -- not renamed: believed unchanged, the second call runs
    have hb : o1.believed = believed := by simp [o1, saveStep, hdiff, hr]
    have ho2 : o2.evs = (saveRun tgt tmp (ser data) none).evs := by simp [o2, saveStep, hb, hdiff]
    have hfin := (saveRun_final htt (ser data) none fs1).2.1 (saveRun_none tgt tmp (ser data)).2.1
    refine ⟨⟨fun _ => ?_, ?_⟩, fun _ => ?_⟩
    · rw [ho2]; exact List.length_pos_iff.2 (saveRun_evs_ne_nil tgt tmp (ser data) none)
    · simp only [fs2]; rw [ho2]; exact hfin
    · rw [ho2]; exact (saveRun_none tgt tmp (ser data)).1
  · -- renamed: the snapshot is in place, the second call has nothing to do
    have hb : o1.believed = data := by simp [o1, saveStep, hdiff, hr]
    have ho2 : o2.evs = [] := by simp [o2, saveStep, hb, hrefl]
    have hmid : fs1 tgt = some (ser data).flatten := by simp only [fs1]; rw [ho1e]; exact h2 hr
    refine ⟨⟨fun h => absurd hmid h, ?_⟩, fun h => absurd hmid h⟩
    simp only [fs2]; rw [ho2]; exact hmid

end atomic

/-! ## non-vacuity -/

/-- a concrete save: old snapshot `[1]`, new snapshot `[2,3,4]` written as chunks `[2] [3,4]`; the fault
hits the second write after one byte; the crash comes after 4 operations: the target still holds `[1]`,
the temporary file holds the partial text `[2,3]` -/
example :
    let fs : FS Nat := fun p => if p = 0 then some [1] else none
    let evs := (saveRun (P := Nat) 0 1 [[2], [3, 4]] (some ⟨2, [3]⟩)).evs
    evs.length = 5 ∧ applyEvs fs (evs.take 3) 0 = some [1] ∧ applyEvs fs (evs.take 3) 1 = some [2, 3]
      ∧ applyEvs fs evs 0 = some [1] ∧ applyEvs fs evs 1 = none := by
  decide

/-- the same save without fault: 6 operations, new snapshot in place after the fifth -/
example :
    let fs : FS Nat := fun p => if p = 0 then some [1] else none
    let evs := (saveRun (P := Nat) 0 1 [[2], [3, 4]] none).evs
    evs.length = 6 ∧ applyEvs fs (evs.take 4) 0 = some [1] ∧ applyEvs fs (evs.take 5) 0 = some [2, 3, 4]
      ∧ applyEvs fs evs 1 = none := by
  decide

/-- `failed_save_retried` on a concrete instance: rename fails, next save performs all 5 operations -/
example :
    let same : Nat → Nat → Bool := fun a b => a == b
    let ser : Nat → List Bytes := fun d => [[d.toUInt8]]
    let o1 := saveStep (P := Nat) same ser 0 1 7 8 (some ⟨3, []⟩)
    let o2 := saveStep (P := Nat) same ser 0 1 o1.believed 8 none
    o1.raised = true ∧ o1.believed = 7 ∧ o2.evs.length = 5 ∧ o2.believed = 8 := by
  decide

end Frappy.Props.C17
