import FrappyProofs.Lemmas.Dispatch
import FrappyProofs.Lemmas.CheckChain
import FrappyProofs.Lemmas.Forward
import FrappyModel.Generated.C04
import FrappyProofs.Props.C01
/-
C04 — property theorems (nothing but property theorems and their non-vacuity examples).
All of them hold for every well-formed node, every datatype oracle, every driver / hook oracle,
every request.
-/
namespace Frappy.Props.C04
open Frappy.Node Frappy.Spec.C04 Frappy.Lemmas.Dispatch

variable {J V : Type}

/-- `admitChange` succeeds exactly under the clauses of the statement that concern the parameter itself -/
theorem admitChange_ok_iff (env : Env V) (mod : Module J V) (p : Param J V) (j : J) (v w : V) :
    admitChange env mod p j = .ok (v, w) ↔
      p.readonly = false ∧ p.constant = none ∧ p.dt.accept j (some p.entry.value) = .ok v ∧
      (p.isLimitsPair = true → pairInverted env v = false) ∧
      p.dt.revalidate v = .ok w ∧ ChecksOK env mod p.attr v p.checks := by
  unfold admitChange
  cases hc : p.constant with
  | some c => simp
  | none =>
    cases hr : p.readonly with
    | true => simp
    | false =>
      simp only [Option.isSome_none, Bool.false_eq_true, if_false, true_and]
      cases hacc : p.dt.accept j (some p.entry.value) with
      | error e => simp
      | ok v' =>
        simp only
        by_cases hinv : (p.isLimitsPair && pairInverted env v') = true
        · simp only [hinv, if_true, reduceCtorEq, false_iff]
          rintro ⟨h1, h2, _⟩
          injection h1 with h1; subst h1
          simp only [Bool.and_eq_true] at hinv
          rw [h2 hinv.1] at hinv; exact absurd hinv.2 (by simp)
        · simp only [hinv, Bool.false_eq_true, if_false]
          have hord : p.isLimitsPair = true → pairInverted env v' = false := by
            intro hl; cases hpi : pairInverted env v' with
            | false => rfl
            | true => exact absurd (by simp [hl, hpi]) hinv
          cases hrev : p.dt.revalidate v' with
          | error e =>
            simp only [reduceCtorEq, false_iff]
            rintro ⟨h1, _, h2, _⟩
            injection h1 with h1; subst h1; rw [hrev] at h2; cases h2
          | ok w' =>
            simp only
            cases hrun : runChecks (checkOne env mod p.attr v') p.checks with
            | some e =>
              simp only [reduceCtorEq, false_iff]
              rintro ⟨h1, _, _, h3⟩
              injection h1 with h1; subst h1
              rw [← runChecks_none_iff, hrun] at h3; cases h3
            | none =>
              constructor
              · intro h; injection h with h; injection h with h1 h2; subst h1; subst h2
                exact ⟨rfl, hord, hrev, (runChecks_none_iff ..).1 hrun⟩
              · rintro ⟨h1, _, h2, _⟩
                injection h1 with h1; subst h1; rw [hrev] at h2; injection h2 with h2; subst h2; rfl

/-- **change_calls_iff.**  The driver's `write_` method is called — and then exactly once, with exactly the
validated value — if and only if the module and the parameter exist and are exported, the parameter is
neither read-only nor constant, the payload is accepted by the datatype (merged into the current value),
and the dynamic limits and check hooks are satisfied. -/
theorem change_calls_iff (pre : Predef) (env : Env V) (n : Node J V) (hwf : Node.WF pre n) (spec : Spec) (j : J)
    (m attr : String) (w : V) :
    (handleChange pre env n spec j).calls = [DriverCall.write m attr w] ↔
      ∃ mod p v, Accepted pre env n spec j mod p v w ∧ p.hasWrite = true ∧ mod.name = m ∧ p.attr = attr := by
  constructor
  · intro h
    have hv := handleChange_verdict pre env n hwf spec j
    cases hvd : changeVerdict pre env n spec j with
    | refuse cls => rw [hvd] at hv; simp only at hv; rw [hv] at h; cases h
    | allowDo _ _ _ => rw [hvd] at hv; exact hv.elim
    | allow m0 a0 hw v w0 =>
      rw [hvd] at hv
      obtain ⟨mod, p, hmem, hname, hattr, hhw, ⟨m', a', ht, hlook⟩, hadm, heq⟩ := hv
      rw [heq, finishWrite_calls] at h
      by_cases hpw : p.hasWrite = true
      · rw [if_pos hpw] at h
        injection h with h _; injection h with h1 h2 h3
        have hex := exported_of_lookupParam pre n m' a' mod p hlook
        obtain ⟨h1', h2', h3', ho', h4', h5'⟩ := (admitChange_ok_iff env mod p j v w0).1 hadm
        exact ⟨mod, p, v, ⟨⟨m', a', ht, hex⟩, h1', h2', h3', ho', h3 ▸ h4', h5'⟩, hpw, h1, h2⟩
      · rw [if_neg hpw] at h; cases h
  · rintro ⟨mod, p, v, hacc, hpw, hname, hattr⟩
    obtain ⟨m0, a0, ht, hex⟩ := hacc.addressed
    have hlook := lookupParam_of_exported pre n hwf m0 a0 mod p hex
    have hadm := (admitChange_ok_iff env mod p j v w).2
      ⟨hacc.notReadonly, hacc.notConstant, hacc.payload, hacc.ordered, hacc.revalidated, hacc.checks⟩
    unfold handleChange
    rw [ht]; simp only; rw [hlook]; simp only; rw [hadm]; simp only
    rw [finishWrite_calls, if_pos hpw, hname, hattr]

/-- in every case the driver is called at most once -/
theorem change_calls_le_one (pre : Predef) (env : Env V) (n : Node J V) (hwf : Node.WF pre n) (spec : Spec) (j : J) :
    (handleChange pre env n spec j).calls.length ≤ 1 := by
  have hv := handleChange_verdict pre env n hwf spec j
  cases hvd : changeVerdict pre env n spec j with
  | refuse cls => rw [hvd] at hv; simp only at hv; rw [hv]; simp
  | allowDo _ _ _ => rw [hvd] at hv; exact hv.elim
  | allow m0 a0 hw v w0 =>
    rw [hvd] at hv
    obtain ⟨mod, p, _, _, _, _, _, _, heq⟩ := hv
    rw [heq, finishWrite_calls]; split <;> simp

/-- **rejected_is_inert.**  When the conditions are not all met, the request has no effect whatever:
no driver call, the node (cache included) is unchanged, no update is emitted, and the client gets an
error report whose class is the one the specification's decision list names. -/
theorem rejected_is_inert (pre : Predef) (env : Env V) (n : Node J V) (hwf : Node.WF pre n) (spec : Spec) (j : J)
    (h : ¬ ∃ mod p v w, Accepted pre env n spec j mod p v w) :
    ∃ cls, changeVerdict pre env n spec j = .refuse cls ∧
      handleChange pre env n spec j = ⟨.error cls, [], [], n⟩ := by
  have hv := handleChange_verdict pre env n hwf spec j
  cases hvd : changeVerdict pre env n spec j with
  | refuse cls => rw [hvd] at hv; exact ⟨cls, rfl, hv⟩
  | allowDo _ _ _ => rw [hvd] at hv; exact hv.elim
  | allow m0 a0 hw v w0 =>
    rw [hvd] at hv
    obtain ⟨mod, p, hmem, hname, hattr, hhw, ⟨m', a', ht, hlook⟩, hadm, heq⟩ := hv
    exfalso; apply h
    have hex := exported_of_lookupParam pre n m' a' mod p hlook
    obtain ⟨h1', h2', h3', ho', h4', h5'⟩ := (admitChange_ok_iff env mod p j v w0).1 hadm
    exact ⟨mod, p, v, w0, ⟨⟨m', a', ht, hex⟩, h1', h2', h3', ho', h4', h5'⟩⟩

/-- the only way to be accepted without a driver call: the parameter has no `write_` method (there is no
driver to reach); every request that is not accepted is inert -/
theorem no_call_cases (pre : Predef) (env : Env V) (n : Node J V) (hwf : Node.WF pre n) (spec : Spec) (j : J)
    (h : (handleChange pre env n spec j).calls = []) :
    (∃ cls, handleChange pre env n spec j = ⟨.error cls, [], [], n⟩) ∨
    (∃ mod p v w, Accepted pre env n spec j mod p v w ∧ p.hasWrite = false) := by
  by_cases hacc : ∃ mod p v w, Accepted pre env n spec j mod p v w
  · obtain ⟨mod, p, v, w, ha⟩ := hacc
    right
    refine ⟨mod, p, v, w, ha, ?_⟩
    cases hpw : p.hasWrite with
    | false => rfl
    | true =>
      have := (change_calls_iff pre env n hwf spec j mod.name p.attr w).2 ⟨mod, p, v, ha, hpw, rfl, rfl⟩
      rw [h] at this; cases this
  · obtain ⟨cls, _, heq⟩ := rejected_is_inert pre env n hwf spec j hacc
    exact Or.inl ⟨cls, heq⟩

/-! ### the fitting class, clause by clause -/

theorem fitting_noSuchModule (pre : Predef) (env : Env V) (n : Node J V) (spec : Spec) (j : J) (m a : String)
    (ht : target "target" spec = some (m, a)) (h : ∀ mod ∈ n, mod.name ≠ m) :
    handleChange pre env n spec j = ⟨.error .noSuchModule, [], [], n⟩ := by
  unfold handleChange; rw [ht]; simp only
  have : findModule n m = none := by
    unfold findModule; rw [List.find?_eq_none]; intro x hx; simpa using h x hx
  unfold lookupParam; rw [this]; rfl

theorem fitting_noSuchParameter (pre : Predef) (env : Env V) (n : Node J V) (hwf : Node.WF pre n) (spec : Spec) (j : J)
    (m a : String) (ht : target "target" spec = some (m, a)) (mod : Module J V) (hmem : mod ∈ n) (hname : mod.name = m)
    (h : ∀ p, ¬ ExportedParam pre n m a mod p) :
    handleChange pre env n spec j = ⟨.error .noSuchParameter, [], [], n⟩ := by
  unfold handleChange; rw [ht]; simp only
  cases hl : lookupParam pre n m a with
  | ok mp =>
    have hex := exported_of_lookupParam pre n m a mp.1 mp.2 hl
    have hfm : findModule n m = some mp.1 := by
      rw [← hex.2.1]; exact findModule_of_mem pre n hwf mp.1 hex.1
    have hfm' : findModule n m = some mod := by rw [← hname]; exact findModule_of_mem pre n hwf mod hmem
    rw [hfm] at hfm'; injection hfm' with hfm'
    exact absurd (hfm' ▸ hex) (h mp.2)
  | error e =>
    unfold lookupParam at hl
    have hfm' : findModule n m = some mod := by rw [← hname]; exact findModule_of_mem pre n hwf mod hmem
    rw [hfm'] at hl; simp only at hl
    split at hl
    · injection hl with hl; subst hl; rfl
    · cases hl

theorem fitting_readOnly (pre : Predef) (env : Env V) (n : Node J V) (hwf : Node.WF pre n) (spec : Spec) (j : J)
    (m a : String) (ht : target "target" spec = some (m, a)) (mod : Module J V) (p : Param J V)
    (hex : ExportedParam pre n m a mod p) (h : p.readonly = true ∨ p.constant.isSome = true) :
    handleChange pre env n spec j = ⟨.error .readOnly, [], [], n⟩ := by
  unfold handleChange; rw [ht]; simp only
  rw [lookupParam_of_exported pre n hwf m a mod p hex]; simp only
  unfold admitChange
  rcases h with h | h
  · by_cases hc : p.constant.isSome = true
    · rw [if_pos hc]; rfl
    · rw [if_neg hc, if_pos h]; rfl
  · rw [if_pos h]; rfl

/-- WrongType / RangeError exactly as the datatype classifies the payload -/
theorem fitting_badPayload (pre : Predef) (env : Env V) (n : Node J V) (hwf : Node.WF pre n) (spec : Spec) (j : J)
    (m a : String) (ht : target "target" spec = some (m, a)) (mod : Module J V) (p : Param J V)
    (hex : ExportedParam pre n m a mod p) (hro : p.readonly = false) (hc : p.constant = none) (e : Node.Err)
    (h : p.dt.accept j (some p.entry.value) = .error e) :
    handleChange pre env n spec j = ⟨.error e.cls, [], [], n⟩ := by
  unfold handleChange; rw [ht]; simp only
  rw [lookupParam_of_exported pre n hwf m a mod p hex]; simp only
  unfold admitChange
  simp [hro, hc, h, refuse]

/-- RangeError for a value outside the current dynamic limits (when the limit check is the first of the chain) -/
theorem fitting_limits (pre : Predef) (env : Env V) (n : Node J V) (hwf : Node.WF pre n) (spec : Spec) (j : J)
    (m a : String) (ht : target "target" spec = some (m, a)) (mod : Module J V) (p : Param J V)
    (hex : ExportedParam pre n m a mod p) (hro : p.readonly = false) (hc : p.constant = none) (v w : V)
    (hacc : p.dt.accept j (some p.entry.value) = .ok v) (hord : p.isLimitsPair = false) (hrev : p.dt.revalidate v = .ok w)
    (rest : List Check) (hchk : p.checks = .limits :: rest) (hlim : ¬ LimitsOK env mod p.attr v) :
    handleChange pre env n spec j = ⟨.error .rangeError, [], [], n⟩ := by
  unfold handleChange; rw [ht]; simp only
  rw [lookupParam_of_exported pre n hwf m a mod p hex]; simp only
  unfold admitChange
  simp [hro, hc, hacc, hord, hrev, hchk, runChecks, checkOne, checkLimits_of_not_ok env mod p.attr v hlim, refuse, mkErr]

/-- an inverted `<p>_limits` pair is refused with RangeError, like any other limit violation -/
theorem fitting_invertedPair (pre : Predef) (env : Env V) (n : Node J V) (hwf : Node.WF pre n) (spec : Spec) (j : J)
    (m a : String) (ht : target "target" spec = some (m, a)) (mod : Module J V) (p : Param J V)
    (hex : ExportedParam pre n m a mod p) (hro : p.readonly = false) (hc : p.constant = none) (v : V)
    (hacc : p.dt.accept j (some p.entry.value) = .ok v) (hpair : p.isLimitsPair = true) (hinv : pairInverted env v = true) :
    handleChange pre env n spec j = ⟨.error .rangeError, [], [], n⟩ := by
  unfold handleChange; rw [ht]; simp only
  rw [lookupParam_of_exported pre n hwf m a mod p hex]; simp only
  unfold admitChange
  simp [hro, hc, hacc, hpair, hinv, refuse, mkErr]

/-! ### "exactly the validated value", for the datatypes of the C01 model -/

section exact
open Frappy.Datatypes Frappy.Lemmas.C01
variable {F : Type} [FloatOps F] [LawfulFloatOps F]

/-- **change_exactly_validated.**  When the datatype of the addressed parameter is one the datatype model covers
(`IsC01`: any tree of the ten SECoP kinds, well-formed, scaled grids exactly representable) and the cache holds a value of
the right shape, the value the driver's write method is called with is EXACTLY `acceptWire dt j (some current)`: the
payload imported, validated and — for a partial struct — merged into the current value.  The second `validate` of the
write wrapper changes nothing (C01 `revalidate_unchanged`): the assumption "validate is idempotent" of the general
theorems is discharged here. -/
theorem change_exactly_validated (pre : Predef) (env : Env (PVal F)) (n : Node (JVal F) (PVal F)) (hwf : Node.WF pre n)
    (spec : Spec) (j : JVal F) (m attr : String) (w : PVal F)
    (h : (handleChange pre env n spec j).calls = [DriverCall.write m attr w]) :
    ∃ mod p, (∃ m' a, target "target" spec = some (m', a) ∧ ExportedParam pre n m' a mod p) ∧ mod.name = m ∧ p.attr = attr ∧
      ∀ (dt : DType F) (cls : Frappy.Err → Node.Err), IsC01 p.dt dt cls → dt.WF → GridExact dt →
        Shaped dt p.entry.value → acceptWire dt j (some p.entry.value) = .ok w := by
  obtain ⟨mod, p, v, hacc, _, hname, hattr⟩ := (change_calls_iff pre env n hwf spec j m attr w).1 h
  refine ⟨mod, p, hacc.addressed, hname, hattr, ?_⟩
  intro dt cls hc hdwf hgrid hshape
  have hpay := hacc.payload
  rw [hc.accept] at hpay
  unfold c01Accept at hpay
  cases haw : acceptWire dt j (some p.entry.value) with
  | error e => rw [haw] at hpay; cases hpay
  | ok v' =>
    rw [haw] at hpay
    injection hpay with hpay; subst hpay
    -- the wrapper's second validate returns the value unchanged
    have hval : ∃ v0, validate dt v0 (some p.entry.value) = .ok v' := by
      unfold acceptWire at haw
      split at haw
      · cases haw
      · rename_i v0 _; exact ⟨v0, haw⟩
    obtain ⟨v0, hv0⟩ := hval
    have hidem := (Frappy.Props.C01.revalidate_unchanged dt hdwf hgrid v0 (some p.entry.value)
      (fun q hq => by injection hq with hq; rw [← hq]; exact hshape) v' hv0).1
    have hrev := hacc.revalidated
    rw [hc.revalidate] at hrev
    unfold c01Reval at hrev
    rw [hidem] at hrev
    injection hrev with hrev
    rw [hrev]

end exact

namespace ExactExample
open Frappy.Props.C01 Frappy.Datatypes

def cls : Frappy.Err → Node.Err
  | .range => ⟨.rangeError, ""⟩
  | .wrongType => ⟨.wrongType, ""⟩
  | .other s => ⟨.other s, ""⟩

/-- the datatype object of the parameter IS the datatype model for C01's example tree (struct of an array of scaled
values, a double with tolerance, an enum; member `b` optional) -/
def ops : DtOps (JVal Rat) (PVal Rat) where
  accept := c01Accept exTree cls
  revalidate := c01Reval exTree cls
  convert := fun r => match r with | some v => .ok v | none => .error ⟨.wrongType, "None"⟩
  exportV := fun _ => .null
  datainfo := .null

def par : Param (JVal Rat) (PVal Rat) :=
  { attr := "par", exp := .auto, limitHead := none, isLimitsPair := false, readonly := false, constant := none, dt := ops,
    entry := ⟨exPrev, none⟩, checks := [], hasRead := false, hasWrite := true, props := [] }
def m : Module (JVal Rat) (PVal Rat) := { name := "m", exported := true, accs := [.param par], props := [] }
def node : Node (JVal Rat) (PVal Rat) := [m]
def env : Env (PVal Rat) where
  drv := fun _ => .none
  chk := fun _ _ _ _ => .pass
  le := fun _ _ => true
  lt := fun _ _ => false
  split := fun v => (v, v)

theorem wf : Node.WF [] node := by
  refine ⟨by unfold namesNodup; decide +kernel, ?_, ?_, ?_, ?_⟩
  · intro x hx; simp only [node, List.mem_singleton] at hx; subst hx; unfold Module.attrsNodup; decide +kernel
  · intro x hx; simp only [node, List.mem_singleton] at hx; subst hx; unfold Module.wiresNodup; decide +kernel
  · intro x hx; simp only [node, List.mem_singleton] at hx; subst hx
    intro a ha k hk
    simp only [m, List.mem_cons, List.not_mem_nil, or_false] at ha
    subst ha; revert hk; revert k; decide +kernel
  · intro x hx; simp only [node, List.mem_singleton] at hx; subst hx
    intro a ha p hp hc
    simp only [m, List.mem_cons, List.not_mem_nil, or_false] at ha
    subst ha; injection hp with hp; subst hp; simp [par] at hc

theorem isC01 : IsC01 par.dt exTree cls := ⟨fun _ _ => rfl, fun _ => rfl⟩

end ExactExample

open ExactExample Frappy.Props.C01 Frappy.Datatypes in
/-- non-vacuity of `change_exactly_validated`: `change m:_par {"a":[3,7],"c":"on"}` on a struct whose cached value has
`b = 2`: the driver is called once, with the payload merged into the current value (`b` taken over), and that value is
`acceptWire` of the datatype model -/
example : ∃ w, (handleChange [] env node (.full "m" "_par") exWire).calls = [DriverCall.write "m" "par" w] ∧
    acceptWire exTree exWire (some exPrev) = .ok w ∧ PVal.same w exResult = true := by
  have hb : (match (handleChange [] env node (.full "m" "_par") exWire).calls with
      | [.write "m" "par" w] => PVal.same w exResult
      | _ => false) = true := by decide +kernel
  split at hb
  · rename_i w hcalls
    obtain ⟨mod, p, ⟨m', a, ht, hex⟩, _, _, hall⟩ :=
      change_exactly_validated [] env node wf (.full "m" "_par") exWire "m" "par" w hcalls
    have hp : p = par := by
      obtain ⟨hmem, _, _, hacc, _⟩ := hex
      simp only [node, List.mem_singleton] at hmem; subst hmem
      simp only [m, List.mem_singleton] at hacc; injection hacc
    subst hp
    exact ⟨w, hcalls, hall exTree cls isC01 exTree_wf exTree_gridExact (shaped_of_inSet _ _ exPrev_inSet), hb⟩
  · cases hb

/-! ### commands -/

theorem admitDo_ok_iff (c : Command J V) (data : Option J) (arg : Option V) :
    admitDo c data = .ok arg ↔
      ((∃ ops j v, c.arg = some ops ∧ data = some j ∧ ops.accept j = .ok v ∧ arg = some v)
       ∨ (c.arg.isNone = true ∧ data = none ∧ arg = none)) := by
  unfold admitDo
  cases harg : c.arg with
  | none =>
    cases data with
    | none =>
      simp only [Option.isNone_none, true_and]
      constructor
      · intro h; injection h with h; exact Or.inr (h ▸ rfl)
      · rintro (⟨_, _, _, h, _⟩ | h)
        · cases h
        · rw [h]
    | some j => simp
  | some ops =>
    cases data with
    | none => simp
    | some j =>
      simp only
      cases hacc : ops.accept j with
      | error e =>
        simp only [reduceCtorEq, Option.isNone_some, Bool.false_eq_true, false_and, or_false, false_iff]
        rintro ⟨ops', j', v, h1, h2, h3, _⟩
        injection h1 with h1; injection h2 with h2; subst h1; subst h2; rw [hacc] at h3; cases h3
      | ok v =>
        constructor
        · intro h; injection h with h; exact Or.inl ⟨ops, j, v, rfl, rfl, hacc, h.symm⟩
        · rintro (⟨ops', j', v', h1, h2, h3, h4⟩ | ⟨h, _⟩)
          · injection h1 with h1; injection h2 with h2; subst h1; subst h2
            rw [hacc] at h3; injection h3 with h3; subst h3; rw [h4]
          · cases h

/-- **do_calls_iff.**  The command function is called — exactly once, with exactly the validated argument —
iff module and command exist and are exported and the argument is present and valid (or absent for a
command without argument). -/
theorem do_calls_iff (pre : Predef) (env : Env V) (n : Node J V) (hwf : Node.WF pre n) (spec : Spec) (data : Option J)
    (m attr : String) (arg : Option V) :
    (handleDo pre env n spec data).calls = [DriverCall.cmd m attr arg] ↔
      ∃ mod c, AcceptedDo pre n spec data mod c arg ∧ mod.name = m ∧ c.attr = attr := by
  constructor
  · intro h
    have hv := handleDo_verdict pre env n hwf spec data
    cases hvd : doVerdict pre n spec data with
    | refuse cls => rw [hvd] at hv; simp only at hv; rw [hv] at h; cases h
    | allow _ _ _ _ _ => rw [hvd] at hv; exact hv.elim
    | allowDo m0 a0 arg0 =>
      rw [hvd] at hv
      obtain ⟨mod, c, hmem, hname, hattr, ⟨m', a', ht, hlook⟩, hadm, heq⟩ := hv
      rw [heq, (finishDo_calls env n mod c arg0).1] at h
      injection h with h _; injection h with h1 h2 h3
      have hex := exported_of_lookupCommand pre n m' a' mod c hlook
      exact ⟨mod, c, ⟨⟨m', a', ht, hex⟩, (admitDo_ok_iff c data arg).1 (h3 ▸ hadm)⟩, h1, h2⟩
  · rintro ⟨mod, c, hacc, hname, hattr⟩
    obtain ⟨m0, a0, ht, hex⟩ := hacc.addressed
    have hlook := lookupCommand_of_exported pre n hwf m0 a0 mod c hex
    have hadm := (admitDo_ok_iff c data arg).2 hacc.argument
    unfold handleDo
    rw [ht]; simp only; rw [hlook]; simp only; rw [hadm]; simp only
    rw [(finishDo_calls env n mod c arg).1, hname, hattr]

/-- **do_rejected_is_inert.** -/
theorem do_rejected_is_inert (pre : Predef) (env : Env V) (n : Node J V) (hwf : Node.WF pre n) (spec : Spec)
    (data : Option J) (h : ¬ ∃ mod c arg, AcceptedDo pre n spec data mod c arg) :
    ∃ cls, doVerdict (V := V) pre n spec data = .refuse cls ∧
      handleDo pre env n spec data = ⟨.error cls, [], [], n⟩ := by
  have hv := handleDo_verdict pre env n hwf spec data
  cases hvd : doVerdict pre n spec data with
  | refuse cls => rw [hvd] at hv; exact ⟨cls, rfl, hv⟩
  | allow _ _ _ _ _ => rw [hvd] at hv; exact hv.elim
  | allowDo m0 a0 arg0 =>
    rw [hvd] at hv
    obtain ⟨mod, c, hmem, hname, hattr, ⟨m', a', ht, hlook⟩, hadm, heq⟩ := hv
    exfalso; apply h
    have hex := exported_of_lookupCommand pre n m' a' mod c hlook
    exact ⟨mod, c, arg0, ⟨⟨m', a', ht, hex⟩, (admitDo_ok_iff c data arg0).1 hadm⟩⟩

/-! ### the monitors' property holds of the model, and along every history -/

/-- every request served by the model satisfies the specification that the monitors check on the implementation -/
theorem request_ok (pre : Predef) (env : Env V) (n : Node J V) (hwf : Node.WF pre n) (r : Request J V) :
    RequestOK pre env n r (obsOf n (step pre env n r)) := by
  cases r with
  | change spec j =>
    have hv := handleChange_verdict pre env n hwf spec j
    simp only [RequestOK, step]
    cases hvd : changeVerdict pre env n spec j with
    | refuse cls => rw [hvd] at hv; simp only at hv; rw [hv]; exact ⟨rfl, rfl, rfl, rfl⟩
    | allowDo _ _ _ => rw [hvd] at hv; exact hv.elim
    | allow m0 a0 hw v w0 =>
      rw [hvd] at hv
      obtain ⟨mod, p, _, hname, hattr, hhw, _, _, heq⟩ := hv
      simp only [ExchangeOK, obsOf]
      rw [heq, finishWrite_calls, hname, hattr, hhw]
  | do_ spec data =>
    have hv := handleDo_verdict pre env n hwf spec data
    simp only [RequestOK, step]
    cases hvd : doVerdict pre n spec data with
    | refuse cls => rw [hvd] at hv; simp only at hv; rw [hv]; exact ⟨rfl, rfl, rfl, rfl⟩
    | allow _ _ _ _ _ => rw [hvd] at hv; exact hv.elim
    | allowDo m0 a0 arg0 =>
      rw [hvd] at hv
      obtain ⟨mod, c, _, hname, hattr, _, _, heq⟩ := hv
      simp only [ExchangeOK, obsOf]
      rw [heq, (finishDo_calls env n mod c arg0).1, (finishDo_calls env n mod c arg0).2.1, hname, hattr]
      exact ⟨rfl, rfl⟩
  | read spec hd =>
    simp only [RequestOK, step, obsOf]
    unfold handleRead
    split
    · rfl
    · split
      · rfl
      · split
        · rfl
        · unfold readParam
          split
          · rfl
          · split
            · simp only
              split
              · rfl
              · unfold readFailed; split <;> rfl
              · split
                · unfold readFailed; split <;> rfl
                · rfl
            · rfl
  | assign m attr raw =>
    simp only [RequestOK, step, obsOf]
    unfold handleAssign
    split
    · rfl
    · split
      · split
        · unfold readFailed; split <;> rfl
        · rfl
      · rfl

/-- **histories.**  Along any sequence of requests — including those that move `_min/_max/_limits` —
with the drivers and hooks behaving differently at every step, every request is judged correctly against
the node as the earlier requests left it, and the node stays well-formed. -/
theorem histories (pre : Predef) (n : Node J V) (hwf : Node.WF pre n) (h : List (Env V × Request J V)) :
    HistoryOK pre n h ∧ Node.WF pre (finalNode pre n h) := by
  induction h generalizing n with
  | nil => exact ⟨trivial, hwf⟩
  | cons er rest ih =>
    obtain ⟨env, r⟩ := er
    have hstep := wf_step pre env n hwf r
    exact ⟨⟨request_ok pre env n hwf r, (ih _ hstep).1⟩, (ih _ hstep).2⟩


/-! ### the lock discipline: check and driver call in one critical section -/

section lock
open Frappy.Node.AccessLock

/-- invariant: a remembered passed check belongs to the holder of the lock and still holds; all calls were within the limit -/
def LockInv (s : LState) : Prop :=
  (∀ v, s.passed = some v → s.owner ≠ none ∧ v ≤ s.max) ∧ CallsWithinLimit s

theorem lockInv_step (s s' : LState) (a : Act) (h : LockInv s) (hs : AccessLock.step s a = some s') : LockInv s' := by
  obtain ⟨hp, hc⟩ := h
  cases a with
  | acquire t =>
    simp only [AccessLock.step] at hs; split at hs
    · injection hs with hs; subst hs; exact ⟨(by intro v hv; cases hv), hc⟩
    · cases hs
  | check t v =>
    simp only [AccessLock.step] at hs; split at hs
    · rename_i ho
      injection hs with hs; subst hs
      refine ⟨?_, hc⟩
      intro w hw
      simp only at hw
      split at hw
      · rename_i hle; injection hw with hw; subst hw; exact ⟨(by rw [ho]; simp), hle⟩
      · cases hw
    · cases hs
  | call t v =>
    simp only [AccessLock.step] at hs; split at hs
    · rename_i ho
      injection hs with hs; subst hs
      refine ⟨hp, ?_⟩
      intro c hcm
      simp only [List.mem_append, List.mem_singleton] at hcm
      rcases hcm with hcm | rfl
      · exact hc c hcm
      · exact (hp v ho.2).2
    · cases hs
  | move t m =>
    simp only [AccessLock.step] at hs; split at hs
    · injection hs with hs; subst hs; exact ⟨(by intro v hv; cases hv), hc⟩
    · cases hs
  | release t =>
    simp only [AccessLock.step] at hs; split at hs
    · injection hs with hs; subst hs; exact ⟨(by intro v hv; cases hv), hc⟩
    · cases hs

/-- **calls_within_current_limits.**  Under the lock discipline of the wrappers (check and driver call inside one
`accessLock` section; a limit is only moved by a thread holding the lock) every driver call — in every interleaving of
any number of threads — is made with a value inside the limit in force at the moment of the call: no other thread can
move the limit between the check and the call. -/
theorem calls_within_current_limits (max : Int) (acts : List Act) (s : LState)
    (h : AccessLock.run (AccessLock.init max) acts = some s) : CallsWithinLimit s := by
  have gen : ∀ (acts : List Act) (s0 s : LState), LockInv s0 → AccessLock.run s0 acts = some s → LockInv s := by
    intro acts
    induction acts with
    | nil => intro s0 s h0 hr; injection hr with hr; subst hr; exact h0
    | cons a rest ih =>
      intro s0 s h0 hr
      simp only [AccessLock.run] at hr
      split at hr
      · rename_i s1 hs1; exact ih s1 s (lockInv_step s0 s1 a h0 hs1) hr
      · cases hr
  exact (gen acts _ s ⟨(by intro v hv; cases hv), (by intro c hc; cases hc)⟩ h).2

/-- non-vacuity: the poller lowers the limit between two requests; the second request is refused (no call) -/
example : (AccessLock.run (AccessLock.init 100)
    [.acquire 1, .check 1 60, .call 1 60, .release 1, .acquire 2, .move 2 50, .release 2, .acquire 1, .check 1 60, .release 1]).map
      (·.calls) = some [(60, 100)] := by decide

/-- the interleaving of the seeded mutant (check before the lock is taken) is not a run of the system -/
example : AccessLock.run (AccessLock.init 100) [.check 1 60, .acquire 2, .move 2 50, .release 2, .acquire 1, .call 1 60] = none := by
  decide

end lock

/-! ### the change section: merge into the current value and driver call in one critical section -/

section changeSection
open Frappy.Node.ChangeSection

variable (merge : J → V → Option V)

/-- invariant: a remembered merge belongs to the holder of the lock and is the merge into the value cached NOW; every
call so far was given the payload merged into the value cached at its moment -/
def SectionInv (s : CState J V) : Prop :=
  (∀ j v, s.merged = some (j, v) → s.owner ≠ none ∧ merge j s.cur = some v) ∧ CallsMergeCurrent merge s

theorem sectionInv_step (s s' : CState J V) (a : Act J V) (h : SectionInv merge s)
    (hs : ChangeSection.step merge s a = some s') : SectionInv merge s' := by
  obtain ⟨hm, hc⟩ := h
  cases a with
  | begin t =>
    simp only [ChangeSection.step] at hs; split at hs
    · injection hs with hs; subst hs; exact ⟨hm, hc⟩
    · cases hs
  | finish t =>
    simp only [ChangeSection.step] at hs; split at hs
    · injection hs with hs; subst hs; exact ⟨hm, hc⟩
    · cases hs
  | acquire t =>
    simp only [ChangeSection.step] at hs; split at hs
    · injection hs with hs; subst hs; exact ⟨(by intro j v hv; cases hv), hc⟩
    · cases hs
  | merge t j =>
    simp only [ChangeSection.step] at hs; split at hs
    · rename_i ho
      injection hs with hs; subst hs
      refine ⟨?_, hc⟩
      intro j' v' hv
      simp only [mergeNow] at hv
      split at hv
      · rename_i w hw
        injection hv with hv; injection hv with h1 h2; subst h1; subst h2
        exact ⟨(by rw [ho.1]; simp), hw⟩
      · cases hv
    · cases hs
  | call t =>
    simp only [ChangeSection.step] at hs; split at hs
    · simp only [doCall] at hs
      split at hs
      · rename_i j v hmv
        injection hs with hs; subst hs
        refine ⟨(by intro j' v' hv; cases hv), ?_⟩
        intro c hcm
        simp only [List.mem_append, List.mem_singleton] at hcm
        rcases hcm with hcm | rfl
        · exact hc c hcm
        · exact (hm j v hmv).2
      · cases hs
    · cases hs
  | direct t =>
    simp only [ChangeSection.step] at hs; split at hs
    · injection hs with hs; subst hs; exact ⟨hm, hc⟩
    · cases hs
  | store t v =>
    simp only [ChangeSection.step] at hs; split at hs
    · injection hs with hs; subst hs; exact ⟨(by intro j v hv; cases hv), hc⟩
    · cases hs
  | release t =>
    simp only [ChangeSection.step] at hs; split at hs
    · injection hs with hs; subst hs; exact ⟨(by intro j v hv; cases hv), hc⟩
    · cases hs

/-- **calls_merge_current.**  Under the lock discipline of the change section (the merge of the payload into the cached
value, the driver call and the storing of a new value only by the holder of `accessLock`) every driver call caused by a
request — in every interleaving of any number of threads, whatever the datatype's merge function — is given the payload
merged into the value cached at the moment of the call: no other request, poll or write can slip in between the merge
and the call. -/
theorem calls_merge_current (cur : V) (acts : List (Act J V)) (s : CState J V)
    (h : ChangeSection.run merge (ChangeSection.init cur) acts = some s) : CallsMergeCurrent merge s := by
  have gen : ∀ (acts : List (Act J V)) (s0 s : CState J V), SectionInv merge s0 →
      ChangeSection.run merge s0 acts = some s → SectionInv merge s := by
    intro acts
    induction acts with
    | nil => intro s0 s h0 hr; injection hr with hr; subst hr; exact h0
    | cons a rest ih =>
      intro s0 s h0 hr
      simp only [ChangeSection.run] at hr
      split at hr
      · rename_i s1 hs1; exact ih s1 s (sectionInv_step merge s0 s1 a h0 hs1) hr
      · cases hr
  exact (gen acts _ s ⟨(by intro j v hv; cases hv), (by intro c hc; cases hc)⟩ h).2

/-! the merge clause does not depend on the dispatcher's request lock -/

theorem sectionInv_stepFree (s s' : CState J V) (a : Act J V) (h : SectionInv merge s)
    (hs : ChangeSection.stepFree merge s a = some s') : SectionInv merge s' := by
  obtain ⟨hm, hc⟩ := h
  cases a with
  | begin t => simp only [ChangeSection.stepFree] at hs; injection hs with hs; subst hs; exact ⟨hm, hc⟩
  | finish t => simp only [ChangeSection.stepFree] at hs; injection hs with hs; subst hs; exact ⟨hm, hc⟩
  | merge t j =>
    simp only [ChangeSection.stepFree] at hs; split at hs
    · rename_i ho
      injection hs with hs; subst hs
      refine ⟨?_, hc⟩
      intro j' v' hv
      simp only [mergeNow] at hv
      split at hv
      · rename_i w hw
        injection hv with hv; injection hv with h1 h2; subst h1; subst h2
        exact ⟨(by rw [ho]; simp), hw⟩
      · cases hv
    · cases hs
  | acquire t => exact sectionInv_step merge s s' (.acquire t) ⟨hm, hc⟩ hs
  | call t => exact sectionInv_step merge s s' (.call t) ⟨hm, hc⟩ hs
  | direct t => exact sectionInv_step merge s s' (.direct t) ⟨hm, hc⟩ hs
  | store t v => exact sectionInv_step merge s s' (.store t v) ⟨hm, hc⟩ hs
  | release t => exact sectionInv_step merge s s' (.release t) ⟨hm, hc⟩ hs

/-- **merge_clause_needs_no_request_lock.**  Also when the dispatcher does NOT serialise the requests (`stepFree`: any
number of requests under way at once, the merge guarded by `accessLock` alone — the code after repair 4e36b36 with the
dispatcher lock released before the handler runs), every driver call caused by a request is given the payload merged into
the value cached at the moment of the call.  The clause rests on `accessLock`; what the request lock adds is
`requests_one_at_a_time`, the precondition of the SEQUENTIAL theorems. -/
theorem merge_clause_needs_no_request_lock (cur : V) (acts : List (Act J V)) (s : CState J V)
    (h : ChangeSection.runFree merge (ChangeSection.init cur) acts = some s) : CallsMergeCurrent merge s := by
  have gen : ∀ (acts : List (Act J V)) (s0 s : CState J V), SectionInv merge s0 →
      ChangeSection.runFree merge s0 acts = some s → SectionInv merge s := by
    intro acts
    induction acts with
    | nil => intro s0 s h0 hr; injection hr with hr; subst hr; exact h0
    | cons a rest ih =>
      intro s0 s h0 hr
      simp only [ChangeSection.runFree] at hr
      split at hr
      · rename_i s1 hs1; exact ih s1 s (sectionInv_stepFree merge s0 s1 a h0 hs1) hr
      · cases hr
  exact (gen acts _ s ⟨(by intro j v hv; cases hv), (by intro c hc; cases hc)⟩ h).2

/-- **requests_one_at_a_time.**  In every run of the system the requests are handled strictly one after the other
(no `begin` while another request is being handled, `finish` only by the thread that began): the precondition under
which the sequential theorems (`request_ok`, `histories`) describe a node serving several connections. -/
theorem requests_one_at_a_time (cur : V) (acts : List (Act J V)) (s : CState J V)
    (h : ChangeSection.run merge (ChangeSection.init cur) acts = some s) : OneAtATime none acts := by
  have gen : ∀ (acts : List (Act J V)) (s0 s : CState J V),
      ChangeSection.run merge s0 acts = some s → OneAtATime s0.busy acts := by
    intro acts
    induction acts with
    | nil => intro s0 s _; simp [OneAtATime]
    | cons a rest ih =>
      intro s0 s hr
      simp only [ChangeSection.run] at hr
      split at hr
      · rename_i s1 hs1
        have hrest := ih s1 s hr
        cases a with
        | begin t =>
          simp only [ChangeSection.step] at hs1; split at hs1
          · rename_i hb; injection hs1 with hs1; subst hs1; exact ⟨hb, hrest⟩
          · cases hs1
        | finish t =>
          simp only [ChangeSection.step] at hs1; split at hs1
          · rename_i hb; injection hs1 with hs1; subst hs1; exact ⟨hb, hrest⟩
          · cases hs1
        | acquire t =>
          simp only [ChangeSection.step] at hs1; split at hs1
          · injection hs1 with hs1; subst hs1; exact hrest
          · cases hs1
        | merge t j =>
          simp only [ChangeSection.step] at hs1; split at hs1
          · injection hs1 with hs1; subst hs1; exact hrest
          · cases hs1
        | call t =>
          simp only [ChangeSection.step] at hs1; split at hs1
          · simp only [doCall] at hs1
            split at hs1
            · injection hs1 with hs1; subst hs1; exact hrest
            · cases hs1
          · cases hs1
        | direct t =>
          simp only [ChangeSection.step] at hs1; split at hs1
          · injection hs1 with hs1; subst hs1; exact hrest
          · cases hs1
        | store t v =>
          simp only [ChangeSection.step] at hs1; split at hs1
          · injection hs1 with hs1; subst hs1; exact hrest
          · cases hs1
        | release t =>
          simp only [ChangeSection.step] at hs1; split at hs1
          · injection hs1 with hs1; subst hs1; exact hrest
          · cases hs1
      · cases hr
  exact gen acts _ s h

/-- "exactly once": a merge is used up by the driver call — right after a `call` no second `call` is possible (not
before the next request has merged its own payload) -/
theorem no_second_call (s s' : CState J V) (t t' : Nat) (hs : ChangeSection.step merge s (.call t) = some s') :
    ChangeSection.step merge s' (.call t') = none := by
  simp only [ChangeSection.step] at hs; split at hs
  · simp only [doCall] at hs
    split at hs
    · injection hs with hs; subst hs
      simp only [ChangeSection.step, doCall]
      split <;> rfl
    · cases hs
  · cases hs

/-- … and never without a merge: a `call` is only possible after a `merge` of the same section succeeded -/
theorem call_needs_merge (s s' : CState J V) (t : Nat) (hs : ChangeSection.step merge s (.call t) = some s') :
    ∃ j v, s.merged = some (j, v) ∧ s.owner = some t ∧ s'.calls = s.calls ++ [⟨t, j, s.cur, v⟩] := by
  simp only [ChangeSection.step] at hs; split at hs
  · rename_i ho
    simp only [doCall] at hs
    split at hs
    · rename_i j v hmv; injection hs with hs; subst hs; exact ⟨j, v, hmv, ho, rfl⟩
    · cases hs
  · cases hs

namespace SectionExample
/-- a struct `(p, i)`; a payload sets one member (`none` = keep) -/
def mergePI : (Option Nat × Option Nat) → (Nat × Nat) → Option (Nat × Nat) :=
  fun j cur => some (j.1.getD cur.1, j.2.getD cur.2)
end SectionExample

open SectionExample in
/-- non-vacuity: two clients change different members of a struct, a poll in between; both changes survive and each
driver call is the payload merged into the value of its moment -/
example : (ChangeSection.run mergePI (ChangeSection.init (0, 0))
    [.begin 1, .acquire 1, .merge 1 (some 1, none), .call 1, .store 1 (1, 0), .release 1, .finish 1,
     .acquire 3, .store 3 (1, 5), .release 3,
     .begin 2, .acquire 2, .merge 2 (none, some 2), .call 2, .store 2 (1, 2), .release 2, .finish 2]).map
      (fun s => (s.cur, s.calls.map (fun c => (c.current, c.value)))) = some ((1, 2), [((0, 0), (1, 0)), ((1, 5), (1, 2))]) := by
  decide

open SectionExample in
/-- non-vacuity of `no_second_call` / `call_needs_merge`: the call after a merge is a step, a second one is not -/
example : (ChangeSection.run mergePI (ChangeSection.init (0, 0)) [.begin 1, .acquire 1, .merge 1 (some 1, none), .call 1]).isSome = true ∧
    ChangeSection.run mergePI (ChangeSection.init (0, 0)) [.begin 1, .acquire 1, .merge 1 (some 1, none), .call 1, .call 1] = none ∧
    ChangeSection.run mergePI (ChangeSection.init (0, 0)) [.begin 1, .acquire 1, .call 1] = none := by
  decide

open SectionExample in
/-- non-vacuity of `requests_one_at_a_time`: a run with two requests and a poll; a second `begin` inside a request is not a run -/
example : OneAtATime (J := Option Nat × Option Nat) (V := Nat × Nat) none
    [.begin 1, .acquire 1, .merge 1 (some 1, none), .call 1, .store 1 (1, 0), .release 1, .finish 1,
     .acquire 3, .store 3 (1, 5), .release 3, .begin 2, .finish 2] ∧
    ChangeSection.run mergePI (ChangeSection.init (0, 0)) [.begin 1, .begin 2] = none := by
  refine ⟨by simp [OneAtATime], by decide⟩

open SectionExample in
/-- the interleaving of the seeded mutant (client 2 merges while client 1 is still in the driver, i.e. outside the
critical section) is not a run of the system -/
example : ChangeSection.run mergePI (ChangeSection.init (0, 0))
    [.begin 1, .acquire 1, .merge 1 (some 1, none), .call 1, .begin 2, .merge 2 (none, some 2), .store 1 (1, 0), .release 1,
     .finish 1, .acquire 2, .call 2] = none := by
  decide

end changeSection

open SectionExample in
/-- two requests under way at once (not a run of `step`: the second `begin` is refused) are a run of the system without
the request lock, and both calls got their payload merged into the value cached at their moment -/
example : ChangeSection.run mergePI (ChangeSection.init (0, 0))
      [.begin 1, .begin 2, .acquire 1, .merge 1 (some 1, none), .call 1, .store 1 (1, 0), .release 1,
       .acquire 2, .merge 2 (none, some 2), .call 2, .store 2 (1, 2), .release 2, .finish 2, .finish 1] = none ∧
    ((ChangeSection.runFree mergePI (ChangeSection.init (0, 0))
      [.begin 1, .begin 2, .acquire 1, .merge 1 (some 1, none), .call 1, .store 1 (1, 0), .release 1,
       .acquire 2, .merge 2 (none, some 2), .call 2, .store 2 (1, 2), .release 2, .finish 2, .finish 1]).map
        (fun s => s.calls.map (fun c => (c.current, c.value)))) = some [((0, 0), (1, 0)), ((1, 0), (1, 2))] := by
  decide

/-! ### table facts (re-checked whenever the repository's table changes) -/

/-- `PREDEFINED_ACCESSIBLES` has no duplicate name: the first-match look-up of the model is the dict look-up -/
theorem predefined_nodup : (Frappy.Generated.C04.predefined.map (·.1)).Nodup := by decide +kernel

/-- the classes the dispatcher raises carry eight different SECoP names -/
theorem errorNames_nodup : (Frappy.Generated.C04.errorNames.map (·.2)).Nodup := by decide +kernel

/-! ### non-vacuity: a concrete node (values and wire values are numbers) -/

namespace Example

def pre : Predef := [("value", .parameter), ("target", .parameter), ("stop", .command)]

/-- accepts numbers up to 100, a number above is a RangeError -/
def dt : DtOps Nat Nat where
  accept := fun j _ => if j ≤ 100 then .ok j else .error ⟨.rangeError, "too big"⟩
  revalidate := fun v => .ok v
  convert := fun r => match r with | some v => .ok v | none => .error ⟨.wrongType, "None"⟩
  exportV := fun v => v
  datainfo := 0

def target : Param Nat Nat :=
  { attr := "target", exp := .auto, limitHead := none, isLimitsPair := false, readonly := false, constant := none, dt := dt,
    entry := ⟨1, none⟩, checks := [.hook 1, .limits], hasRead := false, hasWrite := true, props := [] }
def targetMax : Param Nat Nat :=
  { attr := "target_max", exp := .auto, limitHead := some "target", isLimitsPair := false, readonly := false, constant := none, dt := dt,
    entry := ⟨50, none⟩, checks := [], hasRead := false, hasWrite := false, props := [] }
def ro : Param Nat Nat :=
  { attr := "k", exp := .auto, limitHead := none, isLimitsPair := false, readonly := true, constant := some 7, dt := dt,
    entry := ⟨7, none⟩, checks := [], hasRead := false, hasWrite := false, props := [] }
def stop : Command Nat Nat := { attr := "stop", exp := .auto, arg := none, res := none, datainfo := 0, props := [] }
def m : Module Nat Nat := { name := "m", exported := true, accs := [.param target, .param targetMax, .param ro, .command stop], props := [] }
def node : Node Nat Nat := [m]

def env : Env Nat where
  drv := fun _ => .none
  chk := fun _ _ _ v => if v = 13 then .raise ⟨.other "HardwareError", "unlucky"⟩ else .pass
  le := fun a b => decide (a ≤ b)
  lt := fun a b => decide (a < b)
  split := fun v => (v, v)

theorem wf : Node.WF pre node := by
  refine ⟨by unfold namesNodup; decide +kernel, ?_, ?_, ?_, ?_⟩
  · intro x hx; simp only [node, List.mem_singleton] at hx; subst hx; unfold Module.attrsNodup; decide +kernel
  · intro x hx; simp only [node, List.mem_singleton] at hx; subst hx; unfold Module.wiresNodup; decide +kernel
  · intro x hx; simp only [node, List.mem_singleton] at hx; subst hx
    intro a ha k hk
    simp only [m, List.mem_cons, List.not_mem_nil, or_false] at ha
    rcases ha with rfl | rfl | rfl | rfl <;> revert hk <;> revert k <;> decide +kernel
  · intro x hx; simp only [node, List.mem_singleton] at hx; subst hx
    intro a ha p hp hc
    simp only [m, List.mem_cons, List.not_mem_nil, or_false] at ha
    rcases ha with rfl | rfl | rfl | rfl
    · injection hp with hp; subst hp; simp [target] at hc
    · injection hp with hp; subst hp; simp [targetMax] at hc
    · injection hp with hp; subst hp; rfl
    · cases hp

end Example

open Example in
/-- a value inside the limit reaches the driver, exactly once, as validated -/
example : (handleChange pre env node (.full "m" "target") 20).calls = [DriverCall.write "m" "target" 20] := by
  decide +kernel

open Example in
/-- … and `change_calls_iff` then yields the full set of conditions (hypotheses satisfiable, conclusion non-trivial) -/
example : ∃ mod p v, Accepted pre env node (.full "m" "target") 20 mod p v 20 ∧ p.hasWrite = true ∧
    mod.name = "m" ∧ p.attr = "target" :=
  (change_calls_iff pre env node wf (.full "m" "target") 20 "m" "target" 20).1 (by decide +kernel)

open Example in
/-- above the dynamic limit `target_max = 50`: RangeError, nothing happens -/
example : (handleChange pre env node (.full "m" "target") 60).reply = .error .rangeError ∧
    (handleChange pre env node (.full "m" "target") 60).calls = [] := by
  decide +kernel

open Example in
/-- after `change m:target_max 80` (no driver: the value is stored) the same request is accepted -/
example : ((run pre node [(env, .change (.full "m" "target_max") 80), (env, .change (.full "m" "target") 60)]).map (·.calls))
    = [[], [DriverCall.write "m" "target" 60]] := by
  decide +kernel

open Example in
/-- the hook objects to 13 with its own class; the constant is read-only; an unknown module is NoSuchModule;
`do m` is a protocol error; `do m:stop` calls the command once -/
example : (handleChange pre env node (.full "m" "target") 13).reply = .error (.other "HardwareError") ∧
    (handleChange pre env node (.full "m" "_k") 1).reply = .error .readOnly ∧
    (handleChange pre env node (.full "zz" "target") 1).reply = .error .noSuchModule ∧
    (handleDo pre env node (.bare "m") (none : Option Nat)).reply = .error .protocol ∧
    (handleDo pre env node (.full "m" "stop") (none : Option Nat)).calls = [DriverCall.cmd "m" "stop" none] := by
  decide +kernel

open Example in
example : HistoryOK pre node [(env, .change (.full "m" "target_max") 80), (env, .change (.full "m" "target") 60),
    (env, .do_ (.full "m" "stop") none), (env, .read (.full "m" "_k") false)] :=
  (histories pre node wf _).1

/-! ### the class layout decides which checks a parameter is subject to

`Param.checks` is no longer data taken from the finished class: the model computes it from the class layout
(`chainOf`, the transcription of `HasAccessibles.__init_subclass__` 156-172).  The theorems say what that chain means in
terms of the layout alone. -/

section layout
open Frappy.ExtParams (Layer)
open Frappy.Spec.C18 (AutoApplies)

/-- **chain_layout_iff.**  A value passes the chain of check functions `__init_subclass__` builds for the class layout
`ls` if and only if, for the position `stop` of the first programmer's hook that takes the decision over (if any), every
programmer's hook of a class before it passes and — whenever the automatic limit check applies (`AutoApplies`: a class
that defines one of `<p>_min/_max/_limits` first has no `check_<p>` of its own and stands before `stop`) — the value is
inside the current dynamic limits. -/
theorem chain_layout_iff (env : Env V) (mod : Module J V) (attr : String) (v : V) (ls : List Layer) :
    ChecksOK env mod attr v (chainOf ls 0) ↔ LayoutChecksOK env mod attr v ls :=
  ⟨chain_sound env mod attr v ls 0, fun ⟨stop, h⟩ => chain_complete env mod attr v ls 0 stop h⟩

/-- **layout_change_calls_iff.**  `change_calls_iff` for a parameter equipped for the class layout `ls`: the clause
"dynamic limits and check hooks are satisfied" is the one over the layout. -/
theorem layout_change_calls_iff (pre : Predef) (env : Env V) (n : Node J V) (hwf : Node.WF pre n) (spec : Spec) (j : J)
    (m attr : String) (w : V) (ls : List Layer)
    (hlay : ∀ mod ∈ n, ∀ p, Acc.param p ∈ mod.accs → mod.name = m → p.attr = attr → p.checks = chainOf ls 0) :
    (handleChange pre env n spec j).calls = [DriverCall.write m attr w] ↔
      ∃ mod p v, Accepted pre env n spec j mod p v w ∧ LayoutChecksOK env mod attr v ls ∧ p.hasWrite = true ∧
        mod.name = m ∧ p.attr = attr := by
  rw [change_calls_iff pre env n hwf spec j m attr w]
  constructor
  · rintro ⟨mod, p, v, hacc, hw, hm, ha⟩
    obtain ⟨_, _, _, hex⟩ := hacc.addressed
    have hc := hlay mod hex.1 p hex.2.2.2.1 hm ha
    have := hacc.checks
    rw [hc, ha] at this
    exact ⟨mod, p, v, hacc, (chain_layout_iff env mod attr v ls).1 this, hw, hm, ha⟩
  · rintro ⟨mod, p, v, hacc, _, hw, hm, ha⟩
    exact ⟨mod, p, v, hacc, hw, hm, ha⟩

/-- **limits_not_switched_off.**  Whenever the driver is called for a parameter of a class with layout `ls`, the automatic
limit check applies to the layout (`AutoApplies ls none`: e.g. the limits were introduced by a class that merely INHERITS
a `check_<p>`), and no programmer's hook took the decision over, the value handed on is inside the module's current
dynamic limits. -/
theorem limits_not_switched_off (pre : Predef) (env : Env V) (n : Node J V) (hwf : Node.WF pre n) (spec : Spec) (j : J)
    (m attr : String) (w : V) (ls : List Layer)
    (hlay : ∀ mod ∈ n, ∀ p, Acc.param p ∈ mod.accs → mod.name = m → p.attr = attr → p.checks = chainOf ls 0)
    (hauto : AutoApplies ls none)
    (h : (handleChange pre env n spec j).calls = [DriverCall.write m attr w]) :
    ∃ mod p v, Accepted pre env n spec j mod p v w ∧ mod.name = m ∧ p.attr = attr ∧
      ((∀ i, i < ls.length → ownAt ls i = true → env.chk mod.name attr i v ≠ .stop) → LimitsOK env mod attr v) := by
  obtain ⟨mod, p, v, hacc, ⟨stop, hl⟩, _, hm, ha⟩ := (layout_change_calls_iff pre env n hwf spec j m attr w ls hlay).1 h
  refine ⟨mod, p, v, hacc, hm, ha, fun hns => ?_⟩
  cases stop with
  | none => exact hl.limits hauto
  | some s =>
    obtain ⟨h1, h2, h3⟩ := hl.stops s rfl
    have := hns s h1 h2
    rw [Nat.zero_add] at h3
    exact absurd h3 this

/-- **fitting_limits_layout.**  The fitting class for a value outside the current dynamic limits of a parameter whose class
layout makes the automatic check apply, every programmer's hook raising no objection: RangeError — wherever in the
hierarchy the limit parameters were introduced — and nothing else happens. -/
theorem fitting_limits_layout (pre : Predef) (env : Env V) (n : Node J V) (hwf : Node.WF pre n) (spec : Spec) (j : J)
    (m a : String) (ht : target "target" spec = some (m, a)) (mod : Module J V) (p : Param J V)
    (hex : ExportedParam pre n m a mod p) (hro : p.readonly = false) (hc : p.constant = none) (v w : V)
    (hacc : p.dt.accept j (some p.entry.value) = .ok v) (hord : p.isLimitsPair = false) (hrev : p.dt.revalidate v = .ok w)
    (ls : List Layer) (hchk : p.checks = chainOf ls 0) (hauto : AutoApplies ls none)
    (hpass : ∀ i, i < ls.length → ownAt ls i = true → env.chk mod.name p.attr i v = .pass)
    (hlim : ¬ LimitsOK env mod p.attr v) :
    handleChange pre env n spec j = ⟨.error .rangeError, [], [], n⟩ := by
  unfold handleChange; rw [ht]; simp only
  rw [lookupParam_of_exported pre n hwf m a mod p hex]; simp only
  unfold admitChange
  have hrun := chain_refuses_range env mod p.attr v hlim ls 0 hauto (fun i hi ho => by rw [Nat.zero_add]; exact hpass i hi ho)
  simp [hro, hc, hacc, hord, hrev, hchk, hrun, refuse, mkErr]

end layout

/-! ### the layout clause along histories -/

section layoutHistories
open Frappy.ExtParams (Layer)
open Frappy.Spec.C18 (AutoApplies)

/-- every parameter `attr` of a module named `m` is equipped for the class layout `ls` -/
def HasLayout (n : Node J V) (m attr : String) (ls : List Layer) : Prop :=
  ∀ mod ∈ n, ∀ p, Acc.param p ∈ mod.accs → mod.name = m → p.attr = attr → p.checks = chainOf ls 0

/-- the cache moves, the classes do not: storing a value leaves the layout untouched -/
theorem hasLayout_setEntry (n : Node J V) (m attr : String) (ls : List Layer) (h : HasLayout n m attr ls)
    (mod' attr' : String) (e : Entry V) : HasLayout (setEntry n mod' attr' e) m attr ls := by
  intro mod hmod p hp hm ha
  rw [setEntry_eq_map] at hmod
  obtain ⟨mod0, hmod0, rfl⟩ := List.mem_map.1 hmod
  rw [updMod_name] at hm
  obtain ⟨a0, ha0, hEq⟩ := updMod_acc mod' attr' e mod0 _ hp
  rcases hEq with hEq | hEq
  · subst hEq; exact h mod0 hmod0 p ha0 hm ha
  · cases a0 with
    | param p0 =>
      simp only [Acc.setEntry] at hEq
      split at hEq
      · injection hEq with hEq; subst hEq; exact h mod0 hmod0 p0 ha0 hm ha
      · injection hEq with hEq; subst hEq; exact h mod0 hmod0 p ha0 hm ha
    | command c => simp [Acc.setEntry] at hEq

theorem hasLayout_step (pre : Predef) (env : Env V) (n : Node J V) (r : Request J V) (m attr : String) (ls : List Layer)
    (h : HasLayout n m attr ls) : HasLayout (step pre env n r).node m attr ls := by
  rcases step_node pre env n r with hn | ⟨mod, a, e, hn⟩
  · rw [hn]; exact h
  · rw [hn]; exact hasLayout_setEntry n m attr ls h mod a e

/-- what `limits_not_switched_off` says of every `change` of a history, each judged on the node (cache, hence dynamic
limits) left behind by the requests before it -/
def LimitsEnforcedAlong (pre : Predef) (m attr : String) (ls : List Layer) : Node J V → List (Env V × Request J V) → Prop
  | _, [] => True
  | n, (env, r) :: rest =>
    (∀ spec j w, r = .change spec j → (step pre env n r).calls = [DriverCall.write m attr w] →
      ∃ mod p v, Accepted pre env n spec j mod p v w ∧ mod.name = m ∧ p.attr = attr ∧
        ((∀ i, i < ls.length → ownAt ls i = true → env.chk mod.name attr i v ≠ .stop) → LimitsOK env mod attr v))
    ∧ LimitsEnforcedAlong pre m attr ls (step pre env n r).node rest

/-- **layout_histories.**  Along every history (requests that moved the limits included, hooks and drivers behaving
differently at every step) of a node whose parameter `m:attr` belongs to a class hierarchy in which the automatic limit
check applies: every `change` that reaches `write_<attr>` handed on a value inside the limits current at that moment,
unless a programmer's hook took the decision over. -/
theorem layout_histories (pre : Predef) (m attr : String) (ls : List Layer) (hauto : AutoApplies ls none) :
    ∀ (h : List (Env V × Request J V)) (n : Node J V), Node.WF pre n → HasLayout n m attr ls →
      LimitsEnforcedAlong pre m attr ls n h := by
  intro h
  induction h with
  | nil => intro n _ _; trivial
  | cons er rest ih =>
    intro n hwf hlay
    obtain ⟨env, r⟩ := er
    refine ⟨fun spec j w hr hc => ?_, ih _ (wf_step pre env n hwf r) (hasLayout_step pre env n r m attr ls hlay)⟩
    subst hr
    exact limits_not_switched_off pre env n hwf spec j m attr w ls hlay hauto hc

end layoutHistories

/-! non-vacuity: `target_max` is introduced by a class that inherits a `check_target` hook from its base class
(layout: most derived class declares `target_max`, its base defines `check_target`) -/

namespace LayoutExample
open Example Frappy.ExtParams

def ls : List Layer := [{ declMax := true }, { ownCheck := true }]

def targetL : Param Nat Nat := Example.target.withLayout ls
def mL : Module Nat Nat := { name := "m", exported := true, accs := [.param targetL, .param targetMax, .param ro, .command stop], props := [] }
def nodeL : Node Nat Nat := [mL]

theorem wfL : Node.WF pre nodeL := by
  refine ⟨by unfold namesNodup; decide +kernel, ?_, ?_, ?_, ?_⟩
  · intro x hx; simp only [nodeL, List.mem_singleton] at hx; subst hx; unfold Module.attrsNodup; decide +kernel
  · intro x hx; simp only [nodeL, List.mem_singleton] at hx; subst hx; unfold Module.wiresNodup; decide +kernel
  · intro x hx; simp only [nodeL, List.mem_singleton] at hx; subst hx
    intro a ha k hk
    simp only [mL, List.mem_cons, List.not_mem_nil, or_false] at ha
    rcases ha with rfl | rfl | rfl | rfl <;> revert hk <;> revert k <;> decide +kernel
  · intro x hx; simp only [nodeL, List.mem_singleton] at hx; subst hx
    intro a ha p hp hc
    simp only [mL, List.mem_cons, List.not_mem_nil, or_false] at ha
    rcases ha with rfl | rfl | rfl | rfl
    · injection hp with hp; subst hp; simp [targetL, Param.withLayout, Example.target] at hc
    · injection hp with hp; subst hp; simp [targetMax] at hc
    · injection hp with hp; subst hp; rfl
    · cases hp

theorem layL : ∀ mod ∈ nodeL, ∀ p, Acc.param p ∈ mod.accs → mod.name = "m" → p.attr = "target" →
    p.checks = chainOf ls 0 := by
  intro mod hmod p hp _ ha
  simp only [nodeL, List.mem_singleton] at hmod; subst hmod
  simp only [mL, List.mem_cons, List.not_mem_nil, or_false] at hp
  rcases hp with hp | hp | hp | hp
  · injection hp with hp; subst hp; rfl
  · injection hp with hp; subst hp; simp [targetMax] at ha
  · injection hp with hp; subst hp; simp [ro] at ha
  · cases hp

end LayoutExample

open LayoutExample Example in
/-- the chain `__init_subclass__` builds for that layout: the limit check (attached to the class declaring `target_max`),
then the inherited hook -/
example : chainOf ls 0 = [.limits, .hook 1] ∧ Frappy.Spec.C18.AutoApplies ls none := by decide

open LayoutExample Example in
/-- above `target_max = 50`: refused although the class that introduced the limit inherits a hook; inside: the driver is
called, and `limits_not_switched_off` yields `LimitsOK` (hypotheses satisfiable, conclusion non-trivial) -/
example : (handleChange pre env nodeL (.full "m" "target") 60).reply = .error .rangeError ∧
    (handleChange pre env nodeL (.full "m" "target") 60).calls = [] ∧
    (handleChange pre env nodeL (.full "m" "target") 20).calls = [DriverCall.write "m" "target" 20] := by
  decide +kernel

open LayoutExample Example in
example : ∃ mod p v, Accepted pre env nodeL (.full "m" "target") 20 mod p v 20 ∧ mod.name = "m" ∧ p.attr = "target" ∧
    ((∀ i, i < ls.length → ownAt ls i = true → env.chk mod.name "target" i v ≠ .stop) → LimitsOK env mod "target" v) :=
  limits_not_switched_off pre env nodeL wfL (.full "m" "target") 20 "m" "target" 20 ls layL (by decide) (by decide +kernel)

open LayoutExample Example in
/-- `chain_layout_iff` on the concrete module: 20 passes (stop = none), 60 does not -/
example : LayoutChecksOK env mL "target" 20 ls ∧ ¬ LayoutChecksOK env mL "target" 60 ls := by
  have hc : chainOf ls 0 = [.limits, .hook 1] := by decide
  constructor
  · refine (chain_layout_iff env mL "target" 20 ls).1 ?_
    rw [hc]
    refine Or.inr ⟨?_, Or.inr ⟨?_, trivial⟩⟩
    · show LimitsOK env mL "target" 20
      decide +kernel
    · show env.chk mL.name "target" 1 20 = .pass
      decide +kernel
  · intro h
    have := (chain_layout_iff env mL "target" 60 ls).2 h
    rw [hc] at this
    rcases this with h | ⟨h, _⟩
    · exact h
    · have h' : LimitsOK env mL "target" 60 := h
      revert h'
      decide +kernel

open LayoutExample Example in
/-- `layout_histories` on a history that first raises `target_max` (hypotheses satisfiable; the second request reaches the
driver with 60 ≤ 80) -/
example : LimitsEnforcedAlong pre "m" "target" ls nodeL
    [(env, .change (.full "m" "target_max") 80), (env, .change (.full "m" "target") 60)] ∧
    ((run pre nodeL [(env, .change (.full "m" "target_max") 80), (env, .change (.full "m" "target") 60)]).map (·.calls))
      = [[], [DriverCall.write "m" "target" 60]] :=
  ⟨layout_histories pre "m" "target" ls (by decide) _ nodeL wfL layL, by decide +kernel⟩

/-! ### the well-formedness hypothesis is decided for every node the harness builds -/

/-- **wf_of_wfB.**  A node the driver's Boolean test accepts satisfies `Node.WF`: the theorems above speak about it. -/
theorem wf_of_wfB (pre : Predef) (n : Node J V) (h : wfB pre n = true) : Node.WF pre n := by
  simp only [wfB, Bool.and_eq_true, decide_eq_true_eq, List.all_eq_true] at h
  obtain ⟨hnames, hmods⟩ := h
  have hm : ∀ m ∈ n, (m.accs.map Acc.attr).Nodup ∧ (m.accs.filterMap (wireName pre m)).Nodup ∧
      (∀ a ∈ m.accs, accKindOKB pre a = true) ∧ (∀ a ∈ m.accs, accConstROB a = true) := by
    intro m hmem
    have := hmods m hmem
    simp only [moduleWfB, Bool.and_eq_true, decide_eq_true_eq, List.all_eq_true] at this
    exact ⟨this.1.1.1, this.1.1.2, this.1.2, this.2⟩
  refine ⟨hnames, fun m hmem => (hm m hmem).1, fun m hmem => (hm m hmem).2.1, fun m hmem a ha k hk => ?_,
    fun m hmem a ha p hp hc => ?_⟩
  · have := (hm m hmem).2.2.1 a ha
    simp only [accKindOKB, hk, decide_eq_true_eq] at this
    exact this
  · have := (hm m hmem).2.2.2 a ha
    subst hp
    simp only [accConstROB, hc, Bool.not_true, Bool.false_or] at this
    exact this

open Example in
/-- non-vacuity: the example node passes the test (and so does the one with a class layout) -/
example : wfB pre node = true ∧ wfB pre LayoutExample.nodeL = true := by decide +kernel

open LayoutExample Example in
/-- `fitting_limits_layout` on the concrete node (60 > target_max = 50; the inherited hook passes 60) -/
example : handleChange pre env nodeL (.full "m" "target") 60 = ⟨.error .rangeError, [], [], nodeL⟩ :=
  fitting_limits_layout pre env nodeL wfL (.full "m" "target") 60 "m" "target" rfl mL targetL
    ⟨by simp [nodeL], rfl, rfl, by simp [mL], by decide +kernel⟩ rfl rfl 60 60 rfl rfl rfl ls rfl (by decide)
    (fun i _ _ => by simp [env]) (by decide +kernel)

namespace LayoutExample
open Example Frappy.ExtParams
/-- the module class removes the `target_max` its base class declared (`target_max = None`): the automatic check is still
in the chain (attached to the base class), the module has no such parameter -/
def targetR : Param Nat Nat := Example.target.withLayout [{}, { declMax := true }]
def mR : Module Nat Nat := { name := "m", exported := true, accs := [.param targetR, .param ro, .command stop], props := [] }
end LayoutExample

open LayoutExample Example in
/-- a removed limit does not restrict (and does not make the check fail: repo ff071c8): 60 reaches the driver -/
example : chainOf [{}, { declMax := true }] 0 = [.limits] ∧
    (handleChange pre env [mR] (.full "m" "target") 60).calls = [DriverCall.write "m" "target" 60] := by
  decide +kernel

/-! ## write paths that forward (StructParam, FloatEnumParam; seeded change C04-m10)

`Node/Forward.lean`: the write method of a member of a StructParam (struct layout), of the StructParam itself (member
layout), of a FloatEnumParam is generated and calls the WRAPPED write method of another parameter.  The theorems are
about every module, every forwarding structure `body`, every datatype / driver / hook oracle, every operation on values. -/

section forward
open Frappy.Node.Forward Frappy.Lemmas.Forward

/-- **No driver-written write method is reached around the checks of its own parameter** (full strength, any forwarding
structure).  Whatever parameter the request addressed: a driver method `write_<b>` is called only for a parameter `b` on
the write path of the request, only if `b` itself lets the value it is handed through — valid for its datatype, inside
the CURRENT limits of `b`, the `check_<b>` hooks agree (`VisitOK`) — and with exactly the validated value.  For a request
that arrives through a member of a struct, `b` is the struct and the value the member put into the current struct. -/
theorem forward_call_checked (c : Ctx J V) (fuel : Nat) (a : String) (v : V) (call : DriverCall V)
    (h : call ∈ (wrap fuel c a v).calls) :
    ∃ b u p w, Reach c a v b u ∧ c.body b = .driver ∧ VisitOK c b u ∧ paramOf c.mod b = some p ∧
      p.dt.revalidate u = .ok w ∧ call = DriverCall.write c.mod.name b w := by
  obtain ⟨b, u, p, w, hr, hb, he, hc⟩ := wrap_call_checked c fuel a v call h
  have := (enter_ok_iff c b u p w).1 he
  exact ⟨b, u, p, w, hr, hb, enter_visitOK c b u (p, w) he, this.1, this.2.1, hc⟩

/-- nothing is handed on by a driver-written method: the path ends there -/
theorem reach_driver (c : Ctx J V) (s : String) (x : V) (hs : c.body s = .driver) (b : String) (u : V)
    (h : Reach c s x b u) : b = s ∧ u = x := by
  cases h with
  | here => exact ⟨rfl, rfl⟩
  | step hh _ =>
    obtain ⟨p, w, _, _, hm⟩ := hh
    simp [succs, hs] at hm

/-- **The clause seeded change C04-m10 breaks.**  A request addressed to a MEMBER of a struct whose `write_<struct>` is
the driver's: the driver is called only if the member lets the payload through AND the struct lets the merged value
through (limits and `check_<struct>` hooks of the struct, on the member put into the current value of the struct); it
gets exactly that merged value, validated. -/
theorem forward_member_needs_struct_checks (c : Ctx J V) (fuel : Nat) (a s key : String) (v : V) (call : DriverCall V)
    (ha : c.body a = .toStruct s key) (hs : c.body s = .driver) (h : call ∈ (wrap fuel c a v).calls) :
    ∃ p w cur ps ws, paramOf c.mod a = some p ∧ p.dt.revalidate v = .ok w ∧ VisitOK c a v ∧
      attrValue c.mod s = some cur ∧ VisitOK c s (c.ops.set cur key w) ∧ paramOf c.mod s = some ps ∧
      ps.dt.revalidate (c.ops.set cur key w) = .ok ws ∧ call = DriverCall.write c.mod.name s ws := by
  obtain ⟨b, u, pb, wb, hr, hb, hvis, hpb, hrb, hcall⟩ := forward_call_checked c fuel a v call h
  cases hr with
  | here => rw [ha] at hb; cases hb
  | step hh hr' =>
    obtain ⟨p, w, hp, hw, hm⟩ := hh
    simp only [succs, ha] at hm
    cases hcur : attrValue c.mod s with
    | none => simp [hcur] at hm
    | some cur =>
      simp only [hcur, List.mem_singleton, Prod.mk.injEq] at hm
      obtain ⟨rfl, rfl⟩ := hm
      obtain ⟨rfl, rfl⟩ := reach_driver c _ _ hs b u hr'
      have hva : VisitOK c a v := by
        cases fuel with
        | zero => simp [wrap] at h
        | succ f =>
          cases he : enter c a v with
          | error e => simp [wrap, he] at h
          | ok pw => exact enter_visitOK c a v pw he
      exact ⟨p, w, cur, pb, wb, hp, hw, hva, rfl, hvis, hpb, hrb, hcall⟩

/-- **All or nothing, for classes without a StructParam in member layout** (`Linear`): if a driver is called, EVERY
parameter of the write path let its value through — the addressed one and everyone the value is handed to -/
theorem forward_calls_only_if_path_ok (c : Ctx J V) (hl : Linear c) (fuel : Nat) (a : String) (v : V)
    (hex : (wrap fuel c a v).exhausted = false) (h : (wrap fuel c a v).calls ≠ []) : PathOK c a v :=
  wrap_path_ok c hl fuel a v hex (.inl h)

/-- … and when some parameter of the path objects, no driver is called and the request ends with an exception -/
theorem forward_rejected_is_inert (c : Ctx J V) (hl : Linear c) (fuel : Nat) (a : String) (v : V)
    (hex : (wrap fuel c a v).exhausted = false) (h : ¬ PathOK c a v) :
    (wrap fuel c a v).calls = [] ∧ (wrap fuel c a v).err ≠ none := by
  constructor
  · apply Classical.byContradiction
    intro hc
    exact h (wrap_path_ok c hl fuel a v hex (.inl hc))
  · intro hn
    exact h (wrap_path_ok c hl fuel a v hex (.inr hn))

/-- … and the driver is invoked at most once -/
theorem forward_calls_le_one (c : Ctx J V) (hl : Linear c) (fuel : Nat) (a : String) (v : V) :
    (wrap fuel c a v).calls.length ≤ 1 := wrap_calls_le_one c hl fuel a v

/-- the same for a whole `change` request: a driver-written write method is called only for an existing exported
parameter that is neither read-only nor constant, with a payload its datatype accepts (merged into the cached value), and
then only as `forward_call_checked` says -/
theorem change_forward_call_checked (pre : Predef) (fuel : Nat) (env : Env V) (ops : ValOps V)
    (body : String → String → Body) (n : Node J V) (spec : Spec) (j : J) (call : DriverCall V)
    (h : call ∈ (handleChangeFwd pre fuel env ops body n spec j).calls) :
    ∃ m a mod p v, target "target" spec = some (m, a) ∧ lookupParam pre n m a = .ok (mod, p) ∧
      p.readonly = false ∧ p.constant = none ∧ p.dt.accept j (some p.entry.value) = .ok v ∧
      ∃ b u q w, Reach ⟨env, ops, mod, body mod.name⟩ p.attr v b u ∧ body mod.name b = .driver ∧
        VisitOK ⟨env, ops, mod, body mod.name⟩ b u ∧ paramOf mod b = some q ∧ q.dt.revalidate u = .ok w ∧
        call = DriverCall.write mod.name b w := by
  unfold handleChangeFwd at h
  cases ht : target "target" spec with
  | none => simp [ht] at h
  | some ma =>
    obtain ⟨m, a⟩ := ma
    simp only [ht] at h
    cases hl : lookupParam pre n m a with
    | error e => simp [hl] at h
    | ok mp =>
      obtain ⟨mod, p⟩ := mp
      simp only [hl] at h
      cases had : admitChange env mod { p with checks := [] } j with
      | error e => simp [had] at h
      | ok vw =>
        obtain ⟨v, w⟩ := vw
        simp only [had] at h
        obtain ⟨hro, hc, hacc, _, _, _⟩ := (admitChange_ok_iff env mod { p with checks := [] } j v w).1 had
        obtain ⟨b, u, q, w', hr, hb, hv, hq, hw', hcall⟩ :=
          forward_call_checked ⟨env, ops, mod, body mod.name⟩ fuel p.attr v call h
        exact ⟨m, a, mod, p, v, rfl, hl, hro, hc, hacc, b, u, q, w', hr, hb, hv, hq, hw', hcall⟩

/-- the monitor refuses only what the statement refuses: a `refuse` of the decision list `pathVerdict` (any depth bound)
means that some parameter of the write path does object (`¬ PathOK`) -/
theorem pathVerdict_refuse_sound (c : Ctx J V) (fuel : Nat) (a : String) (v : V) (cls : ErrCls)
    (h : pathVerdict fuel c a v = .refuse cls) : ¬ PathOK c a v := by
  intro hp
  unfold pathVerdict at h
  cases hf : (pathList fuel c a v).findSome? (fun av => visitVerdict c av.1 av.2) with
  | none => simp [hf] at h
  | some cls' =>
    obtain ⟨av, hav, hv⟩ := List.exists_of_findSome?_eq_some hf
    have hok := (visitVerdict_none_iff c av.1 av.2).2 (hp _ _ (mem_pathList_reach c fuel a v av hav))
    rw [hok] at hv; cases hv

/-- the all-or-nothing reading for EVERY forwarding structure (StructParam in member layout included): does NOT hold
for the code as it is (`forward_members_counterexample`); `forward_calls_only_if_path_ok` is the part that holds
(hypothesis `Linear`), `forward_call_checked` what holds without it (each driver method behind its own checks) -/
def forward_all_or_nothing_statement : Prop :=
  ∀ (c : Ctx Nat Nat) (fuel : Nat) (a : String) (v : Nat),
    (wrap fuel c a v).exhausted = false → (wrap fuel c a v).calls ≠ [] → PathOK c a v

theorem forward_all_or_nothing_partial (c : Ctx Nat Nat) (hl : Linear c) (fuel : Nat) (a : String) (v : Nat)
    (hex : (wrap fuel c a v).exhausted = false) (h : (wrap fuel c a v).calls ≠ []) : PathOK c a v :=
  forward_calls_only_if_path_ok c hl fuel a v hex h

namespace ForwardExample
/-- a struct {p, i} as the number 100·p + i -/
def ops : ValOps Nat where
  get := fun v k => if k = "p" then some (v / 100) else if k = "i" then some (v % 100) else none
  set := fun v k x => if k = "p" then x * 100 + v % 100 else (v / 100) * 100 + x
  closest := fun _ _ v => v

def dtAny : DtOps Nat Nat where
  accept := fun j _ => .ok j
  revalidate := fun v => .ok v
  convert := fun r => match r with | some v => .ok v | none => .error ⟨.wrongType, "None"⟩
  exportV := fun v => v
  datainfo := 0

def par (attr : String) (value : Nat) (checks : List Check) : Param Nat Nat :=
  { attr, exp := .auto, limitHead := none, isLimitsPair := false, readonly := false, constant := none, dt := dtAny,
    entry := ⟨value, none⟩, checks, hasRead := false, hasWrite := true, props := [] }

/-- ctrl = {p: 0, i: 9}, `check_ctrl` refuses p·i > 100, `pid_i_max` = 10 -/
def m : Module Nat Nat :=
  { name := "m", exported := true, props := [],
    accs := [.param (par "ctrl" 9 [.hook 0]), .param (par "pid_p" 0 []), .param (par "pid_i" 9 [.limits]),
             .param (par "pid_i_max" 10 [])] }

def env : Env Nat where
  drv := fun _ => .none
  chk := fun _ attr _ v => if attr = "ctrl" ∧ (v / 100) * (v % 100) > 100 then .raise ⟨.rangeError, "p*i"⟩ else .pass
  le := fun a b => decide (a ≤ b)
  lt := fun a b => decide (a < b)
  split := fun v => (v, v)

/-- struct layout: `write_ctrl` is the driver's, `write_pid_p` / `write_pid_i` are generated -/
def bodyA : String → Body := fun a =>
  if a = "ctrl" then .driver else if a = "pid_p" then .toStruct "ctrl" "p" else if a = "pid_i" then .toStruct "ctrl" "i" else .absent
/-- member layout: `write_pid_p` / `write_pid_i` are the driver's, `write_ctrl` is generated -/
def bodyB : String → Body := fun a =>
  if a = "ctrl" then .toMembers [("p", "pid_p"), ("i", "pid_i")] else if a = "pid_p" ∨ a = "pid_i" then .driver else .absent

/-- the wrapper let the value through -/
def okB {ε α : Type} : Except ε α → Bool
  | .ok _ => true
  | .error _ => false

def cA : Ctx Nat Nat := ⟨env, ops, m, bodyA⟩
def cB : Ctx Nat Nat := ⟨env, ops, m, bodyB⟩

theorem linearA : Linear cA := by
  intro a ms h
  simp only [cA, bodyA] at h
  split at h
  · cases h
  · split at h
    · cases h
    · split at h <;> cases h
end ForwardExample

open ForwardExample in
/-- non-vacuity: `change m:pid_p 5` reaches `write_ctrl` once, with the member put into the cached struct {p:0, i:9} -/
example : (wrap 4 cA "pid_p" 5).calls = [DriverCall.write "m" "ctrl" 509] ∧ (wrap 4 cA "pid_p" 5).exhausted = false := by
  decide +kernel

open ForwardExample in
/-- the situation of the seeded change: p = 50 with the current i = 9 is refused by `check_ctrl`: no driver call, RangeError -/
example : (wrap 4 cA "pid_p" 50).calls = [] ∧ (wrap 4 cA "pid_p" 50).err = some ⟨.rangeError, "p*i"⟩ := by
  decide +kernel

open ForwardExample in
/-- `forward_member_needs_struct_checks` applies to the accepted request (hypotheses satisfiable, conclusion non-trivial) -/
example : ∃ cur, attrValue cA.mod "ctrl" = some cur ∧ VisitOK cA "ctrl" (cA.ops.set cur "p" 5) := by
  obtain ⟨p, w, cur, ps, ws, hp, hw, _, hcur, hv, _⟩ :=
    forward_member_needs_struct_checks cA 4 "pid_p" "ctrl" "p" 5 (DriverCall.write "m" "ctrl" 509) rfl rfl
      (by decide +kernel)
  have : w = 5 := by
    have hp' : paramOf cA.mod "pid_p" = some (par "pid_p" 0 []) := rfl
    rw [hp'] at hp; cases hp
    exact (Except.ok.inj hw).symm
  subst this
  exact ⟨cur, hcur, hv⟩

open ForwardExample in
/-- `pathVerdict_refuse_sound` is not vacuous: the monitor refuses the seeded situation with RangeError -/
example : pathVerdict 4 cA "pid_p" 50 = .refuse .rangeError := by decide +kernel

open ForwardExample in
/-- `forward_rejected_is_inert` on the refused request: the path is not OK, so nothing is called -/
example : (wrap 4 cA "pid_p" 50).calls = [] :=
  (forward_rejected_is_inert cA linearA 4 "pid_p" 50 (by decide +kernel) (by
    intro hp
    have hr : Reach cA "pid_p" 50 "ctrl" 5009 :=
      .step ⟨par "pid_p" 0 [], 50, rfl, rfl, by decide +kernel⟩ (.here _ _)
    obtain ⟨pw, he⟩ := visitOK_enter cA "ctrl" 5009 (hp _ _ hr)
    have : okB (enter cA "ctrl" 5009) = false := by decide +kernel
    rw [he] at this; cases this)).1

open ForwardExample in
/-- **Finding (recorded, `known_findings/C04.json`)**: member layout, `change m:ctrl {p: 3, i: 30}` with `pid_i_max` = 10:
`write_pid_p(3)` reaches the driver, then the request is refused with RangeError by the limit of `pid_i` -/
theorem forward_members_counterexample : ¬ forward_all_or_nothing_statement := by
  intro hst
  have hcalls : (wrap 4 cB "ctrl" 330).calls = [DriverCall.write "m" "pid_p" 3] ∧
      (wrap 4 cB "ctrl" 330).err = some ⟨.rangeError, ""⟩ ∧ (wrap 4 cB "ctrl" 330).exhausted = false := by
    decide +kernel
  have hp := hst cB 4 "ctrl" 330 hcalls.2.2 (by rw [hcalls.1]; simp)
  have hr : Reach cB "ctrl" 330 "pid_i" 30 :=
    .step ⟨par "ctrl" 9 [.hook 0], 330, rfl, rfl, by decide +kernel⟩ (.here _ _)
  obtain ⟨pw, he⟩ := visitOK_enter cB "pid_i" 30 (hp _ _ hr)
  have : okB (enter cB "pid_i" 30) = false := by decide +kernel
  rw [he] at this; cases this

end forward

end Frappy.Props.C04
