import FrappyProofs.Lemmas.Update
import FrappyProofs.Lemmas.UpdateSys
import FrappyProofs.Lemmas.UpdateAct
import FrappyProofs.Lemmas.UpdateCanon
import FrappyProofs.Lemmas.Transport
import FrappyModel.Generated.C05
/-
C05 — property theorems (nothing but property theorems and their non-vacuity examples).
-/
set_option linter.unusedSectionVars false
namespace Frappy.Props.C05
open Frappy.Update Frappy.Spec.C05

/-- (for the examples) values and errors are numbers, `!=` is inequality, every conversion succeeds -/
def exO' : Oracle Nat Nat := ⟨fun a b => a == b, fun v => .ok v, fun v => .ok v⟩

section sequential
variable {V E X : Type} [DecidableEq E]

/-- Replaying the emitted messages over the initial value-or-error gives the cached value-or-error —
for every entry, every history of calls and clock readings, every oracle and export function `ex` such that
values Python's `!=` does not tell apart have the same exported form. -/
theorem replay_eq_cache (o : Oracle V E) (ex : V → X) (h : ExportExact o ex) (e : Entry V E) (evs : List (TEv V E)) :
    replay (e.ve.map ex) ((run o e evs).msgs.map (fun m => m.ve.map ex)) = (run o e evs).entry.ve.map ex :=
  replay_runR o ex h e _

/-- … and this holds after every prefix of the history (the client never diverges from the cache). -/
theorem reconstructs (o : Oracle V E) (ex : V → X) (h : ExportExact o ex) (e : Entry V E) (evs : List (TEv V E)) :
    Reconstructs (e.ve.map ex) ((trace o e evs).map (obsOf ex)) := by
  unfold trace
  generalize evs.map (TEv.resolve o) = xs
  induction xs generalizing e with
  | nil => simp [traceR, Reconstructs]
  | cons x xs ih =>
    simp only [traceR, List.map_cons, Reconstructs, obsOf, replay_toList]
    have hk := announceR_ve o ex h e x.now x.r
    constructor
    · rw [hk]
    · have := ih (announceR o e x.now x.r).entry
      rw [hk] at this
      exact this

/-- `replay_eq_cache` and `reconstructs` under the hypothesis the harness tests on EVERY case instead of assuming it: the
comparison only has to be exact (`!=` false ⇒ same exported form) on CANONICAL values — results of the datatype's
conversion / validation —, because nothing else ever reaches the cache: the entry starts with a canonical value, the
conversion yields canonical values, and a value announced with `validate=False` is canonical (what the docstring of
`announceUpdate` demands and the wrappers do).  Raw values that break the law (`-0.0`/`0.0`, `1`/`True`, list/tuple) do
not matter. -/
theorem replay_eq_cache_canonical (o : Oracle V E) (ex : V → X) (canon : V → Bool) (h : CanonExact o ex canon)
    (e : Entry V E) (evs : List (TEv V E)) (he : canon e.value = true)
    (hconv : ∀ v v', o.conv v = .ok v' → canon v' = true)
    (hraw : ∀ x ∈ evs, ∀ v, x.ev = .value v false → canon v = true) :
    replay (e.ve.map ex) ((run o e evs).msgs.map (fun m => m.ve.map ex)) = (run o e evs).entry.ve.map ex ∧
    Reconstructs (e.ve.map ex) ((trace o e evs).map (obsOf ex)) := by
  have hx := canonEvs_resolve o canon evs hconv hraw
  have hres : evs.map (TEv.resolve (restrictO o canon)) = evs.map (TEv.resolve o) := rfl
  constructor
  · have := replay_eq_cache (restrictO o canon) ex (restrictO_exact o ex canon h) e evs
    unfold run at this ⊢
    rwa [hres, runR_restrict o canon e _ he hx] at this
  · have := reconstructs (restrictO o canon) ex (restrictO_exact o ex canon h) e evs
    unfold trace at this ⊢
    rwa [hres, traceR_restrict o canon e _ he hx] at this

/-- Every emitted message equals the entry's value-or-error (and time stamp) at its emission. -/
theorem never_phantom (o : Oracle V E) (ex : V → X) (e : Entry V E) (evs : List (TEv V E)) :
    NeverPhantom ((trace o e evs).map (obsOf ex)) ∧
    ∀ out ∈ trace o e evs, ∀ m, out.msg = some m → m = mkMsg out.entry := by
  unfold trace
  generalize evs.map (TEv.resolve o) = xs
  induction xs generalizing e with
  | nil => simp [traceR, NeverPhantom]
  | cons x xs ih =>
    have ih' := ih (announceR o e x.now x.r).entry
    constructor
    · intro ob hob m hm
      simp only [traceR, List.map_cons, List.mem_cons] at hob
      rcases hob with rfl | hob
      · simp only [obsOf, List.mem_map, Option.mem_toList] at hm
        obtain ⟨m', hm', rfl⟩ := hm
        have := (announceR_msg o e x.now x.r m' hm').1
        rw [this]; rfl
      · exact ih'.1 ob hob m hm
    · intro out hout m hm
      simp only [traceR, List.mem_cons] at hout
      rcases hout with rfl | hout
      · exact (announceR_msg o e x.now x.r m hm).1
      · exact ih'.2 out hout m hm

/-- The message list is the subsequence of cache changes, in order: it contains every change of the cache
and is itself a subsequence of the states the cache went through. -/
theorem order_preserved [DecidableEq X] (o : Oracle V E) (ex : V → X) (h : ExportExact o ex) (e : Entry V E)
    (evs : List (TEv V E)) : OrderPreserved (e.ve.map ex) ((trace o e evs).map (obsOf ex)) := by
  unfold trace
  generalize evs.map (TEv.resolve o) = xs
  induction xs generalizing e with
  | nil => simp [traceR, OrderPreserved, states, allMsgs, changes]
  | cons x xs ih =>
    have ih' := ih (announceR o e x.now x.r).entry
    have hk := announceR_ve o ex h e x.now x.r
    simp only [OrderPreserved, traceR, List.map_cons, states, allMsgs, List.flatMap_cons, obsOf, changes] at ih' ⊢
    cases hm : (announceR o e x.now x.r).msg with
    | none =>
      rw [hm] at hk
      simp only [pick] at hk
      simp only [hk, if_true, Option.toList_none, List.map_nil, List.nil_append]
      rw [hk] at ih'
      exact ⟨ih'.1, List.Sublist.cons _ ih'.2⟩
    | some m =>
      rw [hm] at hk
      simp only [pick] at hk
      simp only [Option.toList_some, List.map_cons, List.map_nil, List.singleton_append]
      rw [← hk]
      constructor
      · split
        · rename_i heq
          rw [← heq]
          exact List.Sublist.cons _ ih'.1
        · exact List.Sublist.cons_cons _ ih'.1
      · exact List.Sublist.cons_cons _ ih'.2

/-- An entry in error announces every successful update, even if the value equals the cached one
and the omit window is still open. -/
theorem recovery_announced (o : Oracle V E) (e : Entry V E) (now : Int) (ev : Ev V E) (v : V)
    (herr : e.readerror ≠ none) (hok : resolve o ev = .val v) :
    ∃ m, (announce o e now ev).msg = some m ∧ m.ve = .val v := by
  obtain ⟨x, hx⟩ := Option.ne_none_iff_exists'.1 herr
  unfold announce announceR
  rw [hok, emits_recovery o e now v x hx]
  simp [mkMsg]

/-- the same over whole histories, in the words of the specification -/
theorem recovery_announced_trace (o : Oracle V E) (ex : V → X) (h : ExportExact o ex) (isErr : VE X E → Bool)
    (e : Entry V E) (evs : List (TEv V E)) :
    RecoveryAnnounced isErr (e.ve.map ex) ((trace o e evs).map (obsOf ex)) := by
  unfold trace
  generalize evs.map (TEv.resolve o) = xs
  induction xs generalizing e with
  | nil => simp [traceR, RecoveryAnnounced]
  | cons x xs ih =>
    simp only [traceR, List.map_cons, RecoveryAnnounced]
    refine ⟨?_, ih _⟩
    intro h1 h2
    have hk := announceR_ve o ex h e x.now x.r
    simp only [obsOf] at h2 ⊢
    cases hm : (announceR o e x.now x.r).msg with
    | some m => simp
    | none =>
      rw [hm] at hk
      simp only [pick] at hk
      rw [hk, h1] at h2
      exact absurd h2 (by simp)

/-- A change of the value (as Python compares it) and a new or different error are always announced. -/
theorem change_announced (o : Oracle V E) (e : Entry V E) (now : Int) :
    (∀ v, o.veq e.value v = false → (announceR o e now (.val v)).msg ≠ none) ∧
    (∀ x, e.readerror ≠ some x → (announceR o e now (.err x)).msg ≠ none) := by
  constructor
  · intro v hv; unfold announceR; rw [emits_changed o e now v hv]; simp
  · intro x hx; unfold announceR; rw [emits_error o e now x hx]; simp

/-- successive values, each of which the comparison of the funnel (`veq`) does not tell apart from the one before -/
def Drift (o : Oracle V E) : V → List V → Prop
  | _, [] => True
  | a, b :: rest => o.veq a b = true ∧ Drift o b rest

/-- the last value of a history of values (the start value if it is empty) -/
def lastOr : V → List V → V
  | a, [] => a
  | _, b :: rest => lastOr b rest

/-- Why the comparison in the funnel has to be EXACT (`ExportExact`): with ANY comparison, a drift — values of which each
is "unchanged" relative to the one before, e.g. closer than some resolution — arriving inside the window (or for ever
with `update_unchanged = never`) is stored value by value without a single message: the cache ends at the last value of
the drift, however far from the last announced one. -/
theorem tolerant_compare_drifts (o : Oracle V E) (e : Entry V E) (vs : List V) (now : Int)
    (hne : e.readerror = none) (hwin : now < e.timestamp + e.window) (hd : Drift o e.value vs) :
    (runR o e (vs.map (fun v => ⟨now, .val v⟩))).msgs = [] ∧
    (runR o e (vs.map (fun v => ⟨now, .val v⟩))).entry = { e with value := lastOr e.value vs } := by
  induction vs generalizing e with
  | nil => simp [runR, lastOr]
  | cons v rest ih =>
    obtain ⟨h1, h2⟩ := hd
    have hem : emits o e now (.val v) = false := by
      simp [emits, changed, h1, hne, hwin]
    have hout : announceR o e now (.val v) = ⟨{ e with value := v }, none⟩ := by
      unfold announceR; rw [hem]; rfl
    have := ih { e with value := v } hne hwin h2
    simp only [List.map_cons, runR, hout, Option.toList, List.nil_append]
    exact ⟨this.1, by rw [this.2]; rfl⟩

/-- … so with such a comparison the statement is false as soon as the ends of a drift have different exported forms. -/
theorem tolerant_compare_breaks (o : Oracle V E) (ex : V → X) (e : Entry V E) (vs : List V) (now : Int)
    (hne : e.readerror = none) (hwin : now < e.timestamp + e.window) (hd : Drift o e.value vs)
    (hfar : ex (lastOr e.value vs) ≠ ex e.value) :
    replay (e.ve.map ex) ((runR o e (vs.map (fun v => ⟨now, .val v⟩))).msgs.map (fun m => m.ve.map ex)) ≠
      (runR o e (vs.map (fun v => ⟨now, .val v⟩))).entry.ve.map ex := by
  obtain ⟨h1, h2⟩ := tolerant_compare_drifts o e vs now hne hwin hd
  rw [h1, h2]
  simp only [List.map_nil, replay, List.foldl_nil, Entry.ve, hne, VE.map]
  intro h
  exact hfar (by injection h with h; exact h.symm)

/-- A `write_<p>` (called directly, or by a `change` request) that takes the value over — assigns the parameter — and
fails afterwards: nothing is announced by the wrapper, but every assignment was a complete call of the funnel, so the
history of the parameter is exactly these calls (and `replay_eq_cache` / `change_announced` apply to it). -/
theorem failed_write_announces_assignments (o : Oracle V E) (raw : V) (inner : List V)
    (hc : writeCalled o raw true .raises = true) :
    writeEvs o raw true inner .raises = inner.map assignEv := by
  unfold writeEvs writeInner
  rw [hc]
  unfold writeEv
  cases hv : o.valid raw with
  | error x => simp [writeCalled, hv] at hc
  | ok nv => simp [innerEvs]

/-- The calls of the funnel a `change` request makes do not depend on which connection sent it (the connection is not
even an argument of `changeEvs`), and whatever they are the stream reconstructs the cache after them. -/
theorem change_request_replay (o : Oracle V E) (ex : V → X) (h : ExportExact o ex) (e : Entry V E) (now : Int)
    (rq : ChangeReq V) (ck : Bool) (inner : List V) (w : WriteRes V) :
    let evs := (changeEvs o rq ck inner w).map (fun ev => (⟨now, ev⟩ : TEv V E))
    replay (e.ve.map ex) ((run o e evs).msgs.map (fun m => m.ve.map ex)) = (run o e evs).entry.ve.map ex :=
  replay_eq_cache o ex h e _

/-- A parameter that is not exported never produces a message (and its cache entry evolves as that of any other);
for an exported one `announceX` is the funnel. -/
theorem unexported_silent (o : Oracle V E) (e : Entry V E) (now : Int) (r : VE V E) :
    (announceX false o e now r).msg = none ∧ (announceX false o e now r).entry = (announceR o e now r).entry ∧
    announceX true o e now r = announceR o e now r := by
  simp [announceX]

example : (announceX false exO' ⟨5, none, 100, 0⟩ 101 (.val 6)).entry.value = 6 ∧
    (announceR exO' ⟨5, none, 100, 0⟩ 101 (.val 6)).msg ≠ none := by decide

/-! ### parameter callbacks -/

/-- The `except` clause around the call of a parameter callback (regenerated from the source on every run) catches
every outcome: a callback that returns, one that raises `TypeError`, one that raises any other `Exception`.  The
callbacks run after the stores into the entry and before the dispatcher is told. -/
theorem callbacks_all_caught :
    (∀ oc, catches Frappy.Generated.C05.callbackCaught oc = true) ∧
    Frappy.Generated.C05.callbacksAfterStores = true ∧ Frappy.Generated.C05.callbacksBeforeNotify = true := by
  refine ⟨fun oc => ?_, by decide, by decide⟩
  cases oc <;> decide

/-- Replay reproduces the cache for ALL outcomes of ALL callbacks registered for the parameter, as long as the
`except` clause catches every outcome (`callbacks_all_caught`). -/
theorem replay_eq_cache_callbacks (o : Oracle V E) (ex : V → X) (h : ExportExact o ex) (caught : CbOutcome → Bool)
    (hc : ∀ oc, caught oc = true) (e : Entry V E) (evs : List (CEv V E)) :
    replay (e.ve.map ex) ((runC o caught e evs).msgs.map (fun m => m.ve.map ex)) = (runC o caught e evs).entry.ve.map ex := by
  rw [runC_eq o caught hc]
  exact replay_runR o ex h e _

/-- A recovery from an error is announced whatever the callbacks do (under `callbacks_all_caught`). -/
theorem recovery_announced_callbacks (o : Oracle V E) (caught : CbOutcome → Bool) (hc : ∀ oc, caught oc = true)
    (e : Entry V E) (now : Int) (v : V) (cbs : List CbOutcome) (herr : e.readerror ≠ none) :
    ∃ m, (announceC o caught e now (.val v) cbs).msg = some m ∧ m.ve = .val v := by
  obtain ⟨x, hx⟩ := Option.ne_none_iff_exists'.1 herr
  rw [announceC_eq o caught hc]
  unfold announceR
  rw [emits_recovery o e now v x hx]
  simp [mkMsg]

/-- Callbacks that call the funnel of OTHER parameters (a following module's `update_<param>` assigning its own
parameter, or `autoupdate`): for every history of top-level calls, every tree of such callbacks (depth 1), every outcome
of every callback, and EVERY parameter `q` — source or follower — replaying the messages of `q` in the stream gives
what the cache holds for `q`. -/
theorem replay_eq_cache_reentrant (o : Oracle V E) (ex : V → X) (h : ExportExact o ex) (caught : CbOutcome → Bool)
    (hc : ∀ oc, caught oc = true) (es : Nat → Entry V E) (xs : List (MEv V E)) (q : Nat) :
    replay ((es q).ve.map ex) ((projM q (runM o caught es xs).msgs).map (fun m => m.ve.map ex)) =
      ((runM o caught es xs).es q).ve.map ex := by
  obtain ⟨evs, h1, h2⟩ := runM_proj o caught hc q es xs
  rw [h1, h2]
  exact replay_runR o ex h (es q) evs

/-- The hypothesis is needed: if one outcome is not caught (e.g. only `TypeError` is), a callback ending that way
makes the funnel store the new state without a message — a lost value and a lost recovery. -/
theorem callback_escape_breaks (caught : CbOutcome → Bool) (oc : CbOutcome) (hesc : caught oc = false) :
    (∃ (e : Entry Nat Nat) (evs : List (CEv Nat Nat)),
      replay e.ve ((runC ⟨fun a b => a == b, .ok, .ok⟩ caught e evs).msgs.map (·.ve)) ≠
        (runC ⟨fun a b => a == b, .ok, .ok⟩ caught e evs).entry.ve) ∧
    (∃ (e : Entry Nat Nat), e.readerror ≠ none ∧
      (announceC ⟨fun a b => a == b, .ok, .ok⟩ caught e 7 (.val e.value) [oc]).msg = none) := by
  refine ⟨⟨⟨5, none, 1, 0⟩, [⟨7, .val 6, [oc]⟩], ?_⟩, ⟨⟨5, some 1, 1, 0⟩, by simp, ?_⟩⟩
  · simp [runC, announceC, emits, changed, runCallbacks, hesc, replay, commit, storeValue, storeError, stamp, Entry.ve]
  · simp [announceC, emits, changed, runCallbacks, hesc]

/-- and catching `TypeError` only (the seeded change C05-m3) does leave `other` uncaught -/
example : catches ["TypeError"] .other = false ∧ catches ["TypeError"] .typeError = true := by decide

/-! ### activation: the client knows nothing before its snapshot -/

/-- The snapshot covers every parameter the connection subscribes to: replaying it — starting from NOTHING — leaves the
client with a state for each of these parameters, and it is the cached value-or-error; every snapshot message is built
from the cache entry (state and time stamp). -/
theorem snapshot_covers (ex : V → X) (es : Nat → Entry V E) (ps : List Nat) :
    (∀ p ∈ ps, replayO none ((projM p (snapshot es ps)).map (fun m => m.ve.map ex)) = some ((es p).ve.map ex)) ∧
    (∀ m ∈ snapshot es ps, m.2 = mkMsg (es m.1)) ∧
    (∀ p, p ∉ ps → projM p (snapshot es ps) = []) := by
  refine ⟨fun p hp => ?_, ?_, fun p hp => ?_⟩
  · apply replayO_all
    · intro hnil
      have hmem : (p, mkMsg (es p)) ∈ snapshot es ps := List.mem_map.2 ⟨p, hp, rfl⟩
      have hin : mkMsg (es p) ∈ projM p (snapshot es ps) := by
        simp only [projM, List.mem_map, List.mem_filter]
        exact ⟨(p, mkMsg (es p)), ⟨hmem, by simp⟩, rfl⟩
      rw [List.map_eq_nil_iff] at hnil
      rw [hnil] at hin
      cases hin
    · intro m hm
      rw [List.mem_map] at hm
      obtain ⟨m', hm', rfl⟩ := hm
      simp only [projM, List.mem_map, List.mem_filter] at hm'
      obtain ⟨pm, ⟨hpm, hq⟩, rfl⟩ := hm'
      simp only [snapshot, List.mem_map] at hpm
      obtain ⟨q, _, rfl⟩ := hpm
      simp only [beq_iff_eq] at hq
      subst hq; rfl
  · intro m hm
    simp only [snapshot, List.mem_map] at hm
    obtain ⟨q, _, rfl⟩ := hm
    rfl
  · simp only [projM, snapshot, List.map_eq_nil_iff, List.filter_eq_nil_iff, List.mem_map]
    rintro m ⟨q, hq, rfl⟩
    simp only [beq_iff_eq]
    intro h; exact hp (h ▸ hq)

/-- A connection that activates when the entry is `e` and then sees any history of calls: after the activation and
after every later call, replaying what it received — starting from nothing — gives the cached value-or-error. -/
theorem activate_then_history (o : Oracle V E) (ex : V → X) (h : ExportExact o ex) (e : Entry V E) (evs : List (TEv V E)) :
    ReconstructsO none (⟨[(mkMsg e).ve.map ex], e.ve.map ex⟩ :: (trace o e evs).map (obsOf ex)) := by
  simp only [ReconstructsO]
  refine ⟨rfl, ?_⟩
  have : replayO (none : Option (VE X E)) [(mkMsg e).ve.map ex] = some (e.ve.map ex) := rfl
  rw [this, reconstructsO_some]
  exact reconstructs o ex h e evs

/-- … and the same for the whole stream at once: snapshot followed by the messages of the history. -/
theorem activate_replay_eq_cache (o : Oracle V E) (ex : V → X) (h : ExportExact o ex) (e : Entry V E)
    (evs : List (TEv V E)) :
    replayO none (((mkMsg e) :: (run o e evs).msgs).map (fun m => m.ve.map ex)) = some ((run o e evs).entry.ve.map ex) := by
  have := replay_eq_cache o ex h e evs
  simp only [List.map_cons]
  show replayO (some ((mkMsg e).ve.map ex)) _ = _
  rw [replayO_some]
  exact congrArg some this

/-- Facts about `Dispatcher.handle_activate` the model relies on (regenerated from the source on every run): every
`send_reply` of the snapshot stands inside a `with <module>.updateLock` block, and the connection is registered as a
listener before the first such block is entered. -/
theorem activate_shape :
    Frappy.Generated.C05.snapshotSentUnderUpdateLock = true ∧ Frappy.Generated.C05.registeredBeforeSnapshot = true := by
  decide

end sequential


section concurrent
open Frappy.UpdateSys
variable {V E X : Type} [DecidableEq E]

/-- Mutual exclusion: at most one thread is between `acquire` and `release` of the module's update lock — be it
inside the funnel or sending the snapshot of an activation. -/
theorem one_thread_inside (c : Cfg V E) (init : Pid → Entry V E) (progs : Tid → List (Op V E)) (clock : Int)
    (s : Sys V E) (hn : c.conns.Nodup) (hr : Reach c (Sys.init init progs clock c.act0) s) (t t' : Tid)
    (ht : inU (s.thr t).pc = true) (ht' : inU (s.thr t').pc = true) : t = t' := by
  have hi := inv_reach hn hr
  have h1 := owner_of_busy hi t ht
  have h2 := owner_of_busy hi t' ht'
  rw [h1] at h2
  exact Option.some.inj h2

/-- Lock order: a thread that notifies (`broadcast_event`) holds the subscription lock AND the module's update lock;
the subscription lock has one holder, and a thread registering a connection under it is not inside the update lock
(it takes the update lock only after releasing the subscription lock). -/
theorem sub_lock_nested (c : Cfg V E) (init : Pid → Entry V E) (progs : Tid → List (Op V E)) (clock : Int)
    (s : Sys V E) (hn : c.conns.Nodup) (hr : Reach c (Sys.init init progs clock c.act0) s) (t : Tid)
    (h : holdsS (s.thr t).pc = true) :
    s.slock = some t ∧ (inU (s.thr t).pc = true → s.lock = some t) ∧
    (∀ t', holdsS (s.thr t').pc = true → t' = t) := by
  have hi := inv_reach hn hr
  refine ⟨hi.slHeld t h, hi.owner t, fun t' h' => ?_⟩
  have h1 := hi.slHeld t h
  have h2 := hi.slHeld t' h'
  rw [h1] at h2
  exact (Option.some.inj h2).symm

/-- For every schedule of any number of threads — funnel calls AND activation requests — in every reachable state,
what a connection that was activated before the run (and not re-activated: `Stat`) has received for a parameter is the
message list of a sequential run of the funnel on that parameter: the run of the calls completed so far (`s.hist p`,
in the order the lock was released), followed by the call in flight if this connection has already been notified of it. -/
theorem interleaving_atomic (c : Cfg V E) (init : Pid → Entry V E) (progs : Tid → List (Op V E)) (clock : Int)
    (s : Sys V E) (hn : c.conns.Nodup) (hr : Reach c (Sys.init init progs clock c.act0) s)
    (k : Cid) (p : Pid) (hk : Stat c s p k) :
    ∃ evs : List (REv V E), plog s k p = (runR c.o (init p) evs).msgs ∧
      (evs = s.hist p ∨ ∃ x, evs = s.hist p ++ [x]) := by
  have hi := inv_reach hn hr
  have clean : Clean c init s p → ∃ evs : List (REv V E), plog s k p = (runR c.o (init p) evs).msgs ∧
      (evs = s.hist p ∨ ∃ x, evs = s.hist p ++ [x]) := fun h => ⟨s.hist p, h.2 k hk, Or.inl rfl⟩
  cases hl : s.lock with
  | none => exact clean (hi.unlocked hl p)
  | some t =>
    obtain ⟨_, hcl, hmid⟩ := hi.locked t hl
    by_cases hpp : pcPid (s.thr t).pc = some p
    · have hmid := hmid p hpp
      have same : plog s k p = (seqRun c init s p).msgs → ∃ evs : List (REv V E),
          plog s k p = (runR c.o (init p) evs).msgs ∧ (evs = s.hist p ∨ ∃ x, evs = s.hist p ++ [x]) :=
        fun h => ⟨s.hist p, h, Or.inl rfl⟩
      cases hpc : (s.thr t).pc with
      | idle => rw [hpc] at hpp; cases hpp
      | actD _ _ => rw [hpc] at hpp; cases hpp
      | actS _ _ => rw [hpc] at hpp; cases hpp
      | actR _ _ => rw [hpc] at hpp; cases hpp
      | snap _ _ => rw [hpc] at hpp; cases hpp
      | actE => rw [hpc] at hpp; cases hpp
      | locked _ _ _ => rw [hpc] at hmid; exact same (hmid.2 k hk)
      | timed _ _ _ => rw [hpc] at hmid; exact same (hmid.2 k hk)
      | compared _ _ _ _ => rw [hpc] at hmid; exact same (hmid.2.2 k hk)
      | stored _ _ _ _ => rw [hpc] at hmid; exact same (hmid.2.2 k hk)
      | go _ _ _ => rw [hpc] at hmid; exact same (hmid.2.2 k hk)
      | stamped _ _ _ => rw [hpc] at hmid; exact same (hmid.2.2 k hk)
      | errset _ _ _ => rw [hpc] at hmid; exact same (hmid.2.2 k hk)
      | built _ _ _ _ => rw [hpc] at hmid; exact same (hmid.2.2.2 k hk)
      | sending p' now r m rest =>
        rw [hpc] at hmid hpp
        simp only [pcPid, Option.some.injEq] at hpp
        subst hpp
        obtain ⟨h1, h2, h3, done, _, hall, h5, h6⟩ := hmid
        have hkm := hall k hk
        rw [List.mem_append] at hkm
        rcases hkm with hkm | hkm
        · refine ⟨s.hist p' ++ [⟨now, r⟩], ?_, Or.inr ⟨_, rfl⟩⟩
          have h2' : emits c.o (runR c.o (init p') (s.hist p')).entry now r = true := h2
          simp only [runR_snoc, announceR_go _ _ _ _ h2']
          have := h5 k hkm hk
          simp only at this
          rw [this, h3, h1]; rfl
        · exact same (h6 k hkm hk)
      | leaving p' now r =>
        rw [hpc] at hmid hpp
        simp only [pcPid, Option.some.injEq] at hpp
        subst hpp
        refine ⟨s.hist p' ++ [⟨now, r⟩], ?_, Or.inr ⟨_, rfl⟩⟩
        rw [runR_snoc]
        exact hmid.2 k hk
    · exact clean (hcl p hpp)

/-- The sequential run the logs are compared with is made of exactly the threads' calls: the global history of
completed calls (`ghist`, in the order the update lock was released) is an interleaving of the threads' programs —
its projection onto thread `t` is the beginning of the calls `t`'s program makes, in program order (all of them once
`t` has finished), and its projection onto parameter `p` is `hist p`. -/
theorem hist_is_interleaving (c : Cfg V E) (init : Pid → Entry V E) (progs : Tid → List (Op V E)) (clock : Int)
    (s : Sys V E) (hr : Reach c (Sys.init init progs clock c.act0) s) :
    (∀ t, ∃ rest, annR c.o (progs t) = doneBy t s.ghist ++ rest) ∧
    (∀ t, finished s t = true → doneBy t s.ghist = annR c.o (progs t)) ∧
    (∀ p, s.hist p = onParam p s.ghist) := by
  have h := shuf_reach hr
  refine ⟨fun t => ⟨_, (h.thread t).symm⟩, fun t hf => ?_, h.proj⟩
  have ht := h.thread t
  unfold finished at hf
  split at hf
  · rename_i hpc hprog
    rw [hpc, hprog] at ht
    simpa [inflight, annR] using ht
  · cases hf

/-- When the update lock is free, cache and logs of every parameter are exactly those of the sequential run of
the completed calls (logs: of the connections activated before the run and not re-activated). -/
theorem quiescent_is_sequential (c : Cfg V E) (init : Pid → Entry V E) (progs : Tid → List (Op V E)) (clock : Int)
    (s : Sys V E) (hn : c.conns.Nodup) (hr : Reach c (Sys.init init progs clock c.act0) s) (hq : s.lock = none)
    (p : Pid) :
    s.entries p = (runR c.o (init p) (s.hist p)).entry ∧
    ∀ k, Stat c s p k → plog s k p = (runR c.o (init p) (s.hist p)).msgs :=
  (inv_reach hn hr).unlocked hq p

/-- the connections that receive exactly the updates of `p`: subscribed before the run, no snapshot since -/
def statConns (c : Cfg V E) (s : Sys V E) (p : Pid) : List Cid :=
  c.conns.filter (fun k => c.act0 k p && !s.snapped k p)

/-- The statement for any number of threads and any schedule: at quiescence, replaying what a connection
received reproduces the cache; every message was delivered while the cache held the state it carries; all
connections activated all along received the same sequence. -/
theorem conc_ok (c : Cfg V E) (ex : V → X) (h : ExportExact c.o ex) (init : Pid → Entry V E)
    (progs : Tid → List (Op V E)) (clock : Int) (s : Sys V E) (hn : c.conns.Nodup)
    (hr : Reach c (Sys.init init progs clock c.act0) s) (hq : s.lock = none) (p : Pid) :
    ConcOk (S := VE X E) ⟨(init p).ve.map ex,
      (statConns c s p).map (fun k => (s.logs k p).map (fun d => ⟨d.msg.ve.map ex, d.seen.map ex⟩)),
      (s.entries p).ve.map ex⟩ := by
  have hi := inv_reach hn hr
  obtain ⟨he, hlg⟩ := quiescent_is_sequential c init progs clock s hn hr hq p
  have hmap : ∀ k, ((s.logs k p).map (fun d => (⟨d.msg.ve.map ex, d.seen.map ex⟩ : Delivered (VE X E)))).map (·.msg) =
      (plog s k p).map (fun m => m.ve.map ex) := by
    intro k; simp [plog, List.map_map, Function.comp_def]
  have hst : ∀ k, k ∈ statConns c s p → Stat c s p k := by
    intro k hk
    simp only [statConns, List.mem_filter, Bool.and_eq_true, Bool.not_eq_eq_eq_not, Bool.not_true] at hk
    exact ⟨hk.1, hk.2.1, hk.2.2⟩
  refine ⟨?_, ?_, ?_⟩
  · intro l hl
    simp only [List.mem_map] at hl
    obtain ⟨k, hk, rfl⟩ := hl
    rw [hmap, hlg k (hst k hk), he]
    exact replay_runR c.o ex h (init p) (s.hist p)
  · intro l hl d hd
    simp only [List.mem_map] at hl
    obtain ⟨k, _, rfl⟩ := hl
    simp only [List.mem_map] at hd
    obtain ⟨d', hd', rfl⟩ := hd
    rw [hi.seenOk k p d' hd']
  · intro l hl l' hl'
    simp only [List.mem_map] at hl hl'
    obtain ⟨k, hk, rfl⟩ := hl
    obtain ⟨k', hk', rfl⟩ := hl'
    rw [hmap, hmap, hlg k (hst k hk), hlg k' (hst k' hk')]

/-! ### connections activated while the funnel is in use -/

/-- For every schedule of funnel calls and activation requests, in EVERY reachable state: a connection that is entitled
to the state of parameter `p` — subscribed before the run, or sent the snapshot of `p` during it — knows exactly what the
cache holds for `p` (newest message wins, starting from what it knew at the start: the cache if it was subscribed,
NOTHING otherwise), whenever no call of `p`'s funnel is in flight.  Other parameters may be in the middle of a call,
other connections in the middle of their activation. -/
theorem activation_coherent (c : Cfg V E) (ex : V → X) (h : ExportExact c.o ex) (init : Pid → Entry V E)
    (progs : Tid → List (Op V E)) (clock : Int) (s : Sys V E) (hn : c.conns.Nodup)
    (hr : Reach c (Sys.init init progs clock c.act0) s) (k : Cid) (p : Pid) (hk : Sub c s k p)
    (hfree : ∀ t, pcPid (s.thr t).pc ≠ some p) :
    replayO (known0 c ex init k p) ((plog s k p).map (fun m => m.ve.map ex)) = some ((s.entries p).ve.map ex) := by
  obtain ⟨hi, hc⟩ := coh_reach h hn hr
  have hkn := hc.know k p hk
  unfold knowsAfter at hkn
  rw [hkn]
  cases hl : s.lock with
  | none => rw [expectS_free p k hl, (hi.unlocked hl p).1]
  | some t => rw [expectS_other k hl (hfree t), ((hi.locked t hl).2.1 p (hfree t)).1]

/-- A snapshot is only ever sent to a connection that `broadcast_event` already selects for that parameter (so no
update can fall between registration and snapshot), and every message of every log — snapshot or update — was
delivered while the cache held the state it carries. -/
theorem snapshot_after_registration (c : Cfg V E) (ex : V → X) (h : ExportExact c.o ex) (init : Pid → Entry V E)
    (progs : Tid → List (Op V E)) (clock : Int) (s : Sys V E) (hn : c.conns.Nodup)
    (hr : Reach c (Sys.init init progs clock c.act0) s) :
    (∀ k p, s.snapped k p = true → s.act k p = true) ∧ (∀ k p, ∀ d ∈ s.logs k p, d.msg.ve = d.seen) := by
  obtain ⟨hi, hc⟩ := coh_reach h hn hr
  exact ⟨hc.subAct, hi.seenOk⟩

/-- The statement at quiescence with connections activated before AND during the run (`ConcOkA`): every activated
connection has a state for the parameter and it is the cached one; every delivery happened while the cache held the
delivered state; the connections activated all along received the same sequence. -/
theorem conc_ok_activation (c : Cfg V E) (ex : V → X) (h : ExportExact c.o ex) (init : Pid → Entry V E)
    (progs : Tid → List (Op V E)) (clock : Int) (s : Sys V E) (hn : c.conns.Nodup)
    (hr : Reach c (Sys.init init progs clock c.act0) s) (hq : s.lock = none) (p : Pid) :
    ConcOkA (S := VE X E) ⟨c.conns.map (fun k => ⟨known0 c ex init k p, c.act0 k p || s.snapped k p,
        c.act0 k p && !s.snapped k p, (s.logs k p).map (fun d => ⟨d.msg.ve.map ex, d.seen.map ex⟩)⟩),
      (s.entries p).ve.map ex⟩ := by
  obtain ⟨hi, _⟩ := coh_reach h hn hr
  have hmap : ∀ k, ((s.logs k p).map (fun d => (⟨d.msg.ve.map ex, d.seen.map ex⟩ : Delivered (VE X E)))).map (·.msg) =
      (plog s k p).map (fun m => m.ve.map ex) := by
    intro k; simp [plog, List.map_map, Function.comp_def]
  have hfree : ∀ t, pcPid (s.thr t).pc ≠ some p := by
    intro t hp
    have := hi.owner t (inU_of_pcPid hp)
    rw [hq] at this; cases this
  refine ⟨?_, ?_, ?_⟩
  · intro cl hcl hact
    simp only [List.mem_map] at hcl
    obtain ⟨k, hk, rfl⟩ := hcl
    simp only [Bool.or_eq_true] at hact
    simp only [hmap]
    exact activation_coherent c ex h init progs clock s hn hr k p ⟨hk, hact⟩ hfree
  · intro cl hcl d hd
    simp only [List.mem_map] at hcl
    obtain ⟨k, _, rfl⟩ := hcl
    simp only [List.mem_map] at hd
    obtain ⟨d', hd', rfl⟩ := hd
    rw [hi.seenOk k p d' hd']
  · intro cl hcl cl' hcl' hf hf'
    simp only [List.mem_map] at hcl hcl'
    obtain ⟨k, hk, rfl⟩ := hcl
    obtain ⟨k', hk', rfl⟩ := hcl'
    simp only [Bool.and_eq_true, Bool.not_eq_eq_eq_not, Bool.not_true] at hf hf'
    have hlg := (hi.unlocked hq p).2
    simp only [hmap]
    rw [hlg k ⟨hk, hf.1, hf.2⟩, hlg k' ⟨hk', hf'.1, hf'.2⟩]

/-! ### requests that come through the dispatcher -/

/-- A `change` request of connection `k` on parameter `p`, handled by thread `t` while any other threads do anything
(funnel calls, activations, other requests): in every reachable state
* the calls of the funnel the request has completed are the beginning of `changeEvs` (all of them once the request is
  finished) and they are part of the history `hist p` the sequential run is made of;
* the requesting connection itself — if it is entitled to the state of `p` (subscribed before the run or sent the
  snapshot) — knows exactly the cache of `p` whenever no call on `p` is in flight: it is a listener like any other, the
  update caused by its own request, an assignment made by a failing `write_<p>`, and an update made by another thread
  while the request is under way are all delivered to it. -/
theorem change_request_coherent (c : Cfg V E) (ex : V → X) (h : ExportExact c.o ex) (init : Pid → Entry V E)
    (progs : Tid → List (Op V E)) (clock : Int) (s : Sys V E) (hn : c.conns.Nodup)
    (hr : Reach c (Sys.init init progs clock c.act0) s)
    (t : Tid) (k : Cid) (p : Pid) (rq : ChangeReq V) (ck : Bool) (inner : List V) (w : WriteRes V)
    (hprog : progs t = changeOps c.o k p rq ck inner w) :
    (∃ rest, (changeEvs c.o rq ck inner w).map (fun ev => (p, resolve c.o ev)) = doneBy t s.ghist ++ rest) ∧
    (finished s t = true → doneBy t s.ghist = (changeEvs c.o rq ck inner w).map (fun ev => (p, resolve c.o ev))) ∧
    s.hist p = onParam p s.ghist ∧
    (Sub c s k p → (∀ t', pcPid (s.thr t').pc ≠ some p) →
      replayO (known0 c ex init k p) ((plog s k p).map (fun m => m.ve.map ex)) = some ((s.entries p).ve.map ex)) := by
  obtain ⟨h1, h2, h3⟩ := hist_is_interleaving c init progs clock s hr
  have ha := annR_changeOps c.o k p rq ck inner w
  refine ⟨?_, ?_, h3 p, fun hs hfree => activation_coherent c ex h init progs clock s hn hr k p hs hfree⟩
  · obtain ⟨rest, hrest⟩ := h1 t
    exact ⟨rest, by rw [← ha, ← hprog]; exact hrest⟩
  · intro hf
    rw [h2 t hf, hprog, ha]

/-- the same for a `read` request -/
theorem read_request_coherent (c : Cfg V E) (ex : V → X) (h : ExportExact c.o ex) (init : Pid → Entry V E)
    (progs : Tid → List (Op V E)) (clock : Int) (s : Sys V E) (hn : c.conns.Nodup)
    (hr : Reach c (Sys.init init progs clock c.act0) s)
    (t : Tid) (k : Cid) (p : Pid) (inner : List V) (res : ReadRes V E)
    (hprog : progs t = readReqOps c.o k p inner res) :
    (finished s t = true → doneBy t s.ghist = (readEvs c.o inner res).map (fun ev => (p, resolve c.o ev))) ∧
    s.hist p = onParam p s.ghist ∧
    (Sub c s k p → (∀ t', pcPid (s.thr t').pc ≠ some p) →
      replayO (known0 c ex init k p) ((plog s k p).map (fun m => m.ve.map ex)) = some ((s.entries p).ve.map ex)) := by
  obtain ⟨_, h2, h3⟩ := hist_is_interleaving c init progs clock s hr
  refine ⟨fun hf => ?_, h3 p, fun hs hfree => activation_coherent c ex h init progs clock s hn hr k p hs hfree⟩
  rw [h2 t hf, hprog, annR_readReqOps]

/-- the same for a `do` request whose command assigns the parameter -/
theorem do_request_coherent (c : Cfg V E) (ex : V → X) (h : ExportExact c.o ex) (init : Pid → Entry V E)
    (progs : Tid → List (Op V E)) (clock : Int) (s : Sys V E) (hn : c.conns.Nodup)
    (hr : Reach c (Sys.init init progs clock c.act0) s)
    (t : Tid) (k : Cid) (p : Pid) (inner : List V) (hprog : progs t = doOps k p inner) :
    (finished s t = true → doneBy t s.ghist = (innerEvs inner).map (fun ev => (p, resolve c.o ev))) ∧
    s.hist p = onParam p s.ghist ∧
    (Sub c s k p → (∀ t', pcPid (s.thr t').pc ≠ some p) →
      replayO (known0 c ex init k p) ((plog s k p).map (fun m => m.ve.map ex)) = some ((s.entries p).ve.map ex)) := by
  obtain ⟨_, h2, h3⟩ := hist_is_interleaving c init progs clock s hr
  refine ⟨fun hf => ?_, h3 p, fun hs hfree => activation_coherent c ex h init progs clock s hn hr k p hs hfree⟩
  rw [h2 t hf, hprog, annR_doOps]

/-! ### the same under the hypothesis that is tested on every case

`ExportExact` (ALL values `!=` does not tell apart export identically) is false for raw values of several datatypes
(`-0.0`/`0.0`, `1`/`True`).  Only canonical values — results of the datatype — ever reach the cache or the comparison
(`CanonSys`, an invariant of the small-step system), so the system with the comparison restricted to canonical values
makes exactly the same steps (`reach_restrict`) and the law is needed on canonical values only. -/

theorem activation_coherent_canonical (c : Cfg V E) (ex : V → X) (canon : V → Bool) (h : CanonExact c.o ex canon)
    (init : Pid → Entry V E) (progs : Tid → List (Op V E)) (clock : Int) (s : Sys V E) (hn : c.conns.Nodup)
    (hi : ∀ p, canon (init p).value = true) (hp : ∀ t, progCanon c.o canon (progs t))
    (hr : Reach c (Sys.init init progs clock c.act0) s) (k : Cid) (p : Pid) (hk : Sub c s k p)
    (hfree : ∀ t, pcPid (s.thr t).pc ≠ some p) :
    replayO (known0 c ex init k p) ((plog s k p).map (fun m => m.ve.map ex)) = some ((s.entries p).ve.map ex) := by
  obtain ⟨hr', _⟩ := reach_restrict (canon := canon) (canon_init c.o canon init progs clock c.act0 hi hp) hr
  exact activation_coherent (restrictC c canon) ex (restrictO_exact c.o ex canon h) init progs clock s hn hr' k p hk hfree

theorem conc_ok_activation_canonical (c : Cfg V E) (ex : V → X) (canon : V → Bool) (h : CanonExact c.o ex canon)
    (init : Pid → Entry V E) (progs : Tid → List (Op V E)) (clock : Int) (s : Sys V E) (hn : c.conns.Nodup)
    (hi : ∀ p, canon (init p).value = true) (hp : ∀ t, progCanon c.o canon (progs t))
    (hr : Reach c (Sys.init init progs clock c.act0) s) (hq : s.lock = none) (p : Pid) :
    ConcOkA (S := VE X E) ⟨c.conns.map (fun k => ⟨known0 c ex init k p, c.act0 k p || s.snapped k p,
        c.act0 k p && !s.snapped k p, (s.logs k p).map (fun d => ⟨d.msg.ve.map ex, d.seen.map ex⟩)⟩),
      (s.entries p).ve.map ex⟩ := by
  obtain ⟨hr', _⟩ := reach_restrict (canon := canon) (canon_init c.o canon init progs clock c.act0 hi hp) hr
  exact conc_ok_activation (restrictC c canon) ex (restrictO_exact c.o ex canon h) init progs clock s hn hr' hq p

theorem conc_ok_canonical (c : Cfg V E) (ex : V → X) (canon : V → Bool) (h : CanonExact c.o ex canon)
    (init : Pid → Entry V E) (progs : Tid → List (Op V E)) (clock : Int) (s : Sys V E) (hn : c.conns.Nodup)
    (hi : ∀ p, canon (init p).value = true) (hp : ∀ t, progCanon c.o canon (progs t))
    (hr : Reach c (Sys.init init progs clock c.act0) s) (hq : s.lock = none) (p : Pid) :
    ConcOk (S := VE X E) ⟨(init p).ve.map ex,
      (statConns c s p).map (fun k => (s.logs k p).map (fun d => ⟨d.msg.ve.map ex, d.seen.map ex⟩)),
      (s.entries p).ve.map ex⟩ := by
  obtain ⟨hr', _⟩ := reach_restrict (canon := canon) (canon_init c.o canon init progs clock c.act0 hi hp) hr
  exact conc_ok (restrictC c canon) ex (restrictO_exact c.o ex canon h) init progs clock s hn hr' hq p

theorem change_request_coherent_canonical (c : Cfg V E) (ex : V → X) (canon : V → Bool) (h : CanonExact c.o ex canon)
    (init : Pid → Entry V E) (progs : Tid → List (Op V E)) (clock : Int) (s : Sys V E) (hn : c.conns.Nodup)
    (hi : ∀ p, canon (init p).value = true) (hp : ∀ t, progCanon c.o canon (progs t))
    (hr : Reach c (Sys.init init progs clock c.act0) s)
    (t : Tid) (k : Cid) (p : Pid) (rq : ChangeReq V) (ck : Bool) (inner : List V) (w : WriteRes V)
    (hprog : progs t = changeOps c.o k p rq ck inner w) :
    (∃ rest, (changeEvs c.o rq ck inner w).map (fun ev => (p, resolve c.o ev)) = doneBy t s.ghist ++ rest) ∧
    (finished s t = true → doneBy t s.ghist = (changeEvs c.o rq ck inner w).map (fun ev => (p, resolve c.o ev))) ∧
    s.hist p = onParam p s.ghist ∧
    (Sub c s k p → (∀ t', pcPid (s.thr t').pc ≠ some p) →
      replayO (known0 c ex init k p) ((plog s k p).map (fun m => m.ve.map ex)) = some ((s.entries p).ve.map ex)) := by
  obtain ⟨hr', _⟩ := reach_restrict (canon := canon) (canon_init c.o canon init progs clock c.act0 hi hp) hr
  exact change_request_coherent (restrictC c canon) ex (restrictO_exact c.o ex canon h) init progs clock s hn hr' t k p rq ck
    inner w hprog

/-- and the cache never holds anything but canonical values -/
theorem cache_canonical (c : Cfg V E) (canon : V → Bool) (init : Pid → Entry V E) (progs : Tid → List (Op V E))
    (clock : Int) (s : Sys V E) (hi : ∀ p, canon (init p).value = true) (hp : ∀ t, progCanon c.o canon (progs t))
    (hr : Reach c (Sys.init init progs clock c.act0) s) (p : Pid) : canon (s.entries p).value = true :=
  (reach_restrict (canon := canon) (canon_init c.o canon init progs clock c.act0 hi hp) hr).2.ent p

end concurrent

/-- Facts about the constants of the source the model relies on (regenerated from the repository on every
run): the marker "use the default window" is not a window, `always` is the empty window, the class defaults
of a fresh entry are "no time stamp, no window". -/
theorem window_markers :
    Frappy.Generated.C05.updateUnchangedDefault < 0 ∧ Frappy.Generated.C05.updateUnchangedAlways = 0 ∧
    0 < Frappy.Generated.C05.updateUnchangedNever ∧
    Frappy.Generated.C05.updateUnchangedPropertyDefault = Frappy.Generated.C05.updateUnchangedDefault ∧
    Frappy.Generated.C05.entryDefaultTimestamp = 0 ∧ Frappy.Generated.C05.entryDefaultWindow = 0 ∧
    Frappy.Generated.C05.eventReply = "update" ∧ Frappy.Generated.C05.errorEventReply = "error_update" := by
  decide

/-- The comparison and the two early returns the model of the funnel transcribes (`changed`, `emits`), as they stand in
the source of `Module.announceUpdate` (regenerated on every run): the value is compared with Python's `!=` and nothing
else — no tolerance (see `tolerant_compare_breaks`) —, an error with `==` of the SECoP errors; a call returns early only
for a repeated error and for an unchanged value inside the window. -/
theorem funnel_shape :
    Frappy.Generated.C05.changedExprs = ["pobj.value != value or pobj.readerror"] ∧
    Frappy.Generated.C05.earlyReturnTests = ["secop_error(err) == pobj.readerror",
      "not changed and timestamp < (pobj.timestamp or 0) + pobj.omit_unchanged_within"] := by
  decide

/-- The fan-out as it stands in the source of `Dispatcher.broadcast_event` and of the handlers of `change` / `read`
requests: every selected listener is sent the message by the one statement of the loop (no condition on who it is);
which connections are selected depends on the subscription tables only; the handlers do not look at the connection that
sent the request and store nothing in the dispatcher — what `Op.reqAcquire k` (no step reads `k`) and `listeners` model. -/
theorem fanout_shape :
    Frappy.Generated.C05.fanoutUnconditional = true ∧
    Frappy.Generated.C05.fanoutReads.all
      (fun a => ["_active_connections", "_connections", "_subscription_lock", "_subscriptions"].contains a) = true ∧
    Frappy.Generated.C05.requestHandlersUsingConn = [] ∧ Frappy.Generated.C05.requestHandlersStores = [] := by
  decide

/-! ## non-vacuity -/
section examples
open Frappy.UpdateSys

/-- values and errors are numbers, `!=` is inequality, every conversion succeeds -/
def exO : Oracle Nat Nat := ⟨fun a b => a == b, fun v => .ok v, fun v => .ok v⟩

theorem exO_exact : EqExact exO := by intro a b h; simpa [exO] using h

def exE : Entry Nat Nat := ⟨5, none, 100, 10⟩

/-- read 5 inside the window (suppressed), error 1, error 1 again (suppressed), recovery with the same value 5
inside the window (announced), 6 (announced), 6 outside the window (announced) -/
def exHist : List (TEv Nat Nat) :=
  [⟨101, .value 5 false⟩, ⟨102, .error 1⟩, ⟨103, .error 1⟩, ⟨104, .value 5 true⟩, ⟨105, .value 6 false⟩,
   ⟨120, .value 6 false⟩]

example : (run exO exE exHist).msgs.map (·.ve) = [.err 1, .val 5, .val 6, .val 6] := by decide
example : (run exO exE exHist).entry.ve = .val 6 := by decide
example : exE.readerror = none ∧ (announce exO exE 101 (.error 1)).entry.readerror ≠ none := by decide

/-- without `EqExact` the statement fails: if `!=` does not tell 5 and 7 apart, a read of 7 inside the window
replaces the cached 5 silently -/
theorem replay_eq_cache_needs_exact :
    ∃ (o : Oracle Nat Nat) (e : Entry Nat Nat) (evs : List (TEv Nat Nat)),
      replay e.ve ((run o e evs).msgs.map (·.ve)) ≠ (run o e evs).entry.ve ∧ ¬ EqExact o :=
  ⟨⟨fun _ _ => true, fun v => .ok v, fun v => .ok v⟩, exE, [⟨101, .value 7 false⟩], by decide,
    fun h => absurd (h 0 1 rfl) (by decide)⟩

/-- A store into the cache that does not go through the funnel (as `PersistentMixin.loadParameters` and the simulated
extra parameters did before their repair) breaks the statement — the cache changes, or leaves the error state, and no
message says so. -/
theorem load_parameters_fails :
    (∃ (e : Entry Nat Nat) (v : Nat), ¬ Reconstructs e.ve [⟨[], (poke e v).ve⟩]) ∧
    (∃ (e : Entry Nat Nat) (v : Nat), ¬ RecoveryAnnounced (fun s => s matches .err _) e.ve [⟨[], (poke e v).ve⟩]) :=
  ⟨⟨exE, 7, by simp [Reconstructs, replay, poke, Entry.ve, exE]⟩,
   ⟨⟨5, some 1, 100, 10⟩, 5, by simp [RecoveryAnnounced, poke, Entry.ve]⟩⟩

/-- source parameter 0 with two followers: the first assigns parameter 1 and then raises, the second hands the value
to parameter 2; the messages come in the order follower 1, follower 2, source -/
example : (announceM exO (catches Frappy.Generated.C05.callbackCaught) (fun _ => exE) 0 101 (.val 6)
      [⟨some ⟨1, 101, .val 6, []⟩, .other⟩, ⟨some ⟨2, 101, .val 7, [.typeError]⟩, .ok⟩]).msgs.map (fun m => (m.1, m.2.ve)) =
    [(1, .val 6), (2, .val 7), (0, .val 6)] := by decide

def exCfg : Cfg Nat Nat := ⟨exO, [1, 2], 1, fun _ _ => true⟩
def exProgs : Tid → List (Op Nat Nat)
  | 0 => [.accAcquire, .announce 0 (.value 6 false) .absent, .accRelease]
  | 1 => [.announce 0 (.error 1) (.ticks 0)]
  | _ => []
def exInit : Pid → Entry Nat Nat := fun _ => exE
def exS0 : Sys Nat Nat := Sys.init exInit exProgs 101 exCfg.act0

/-- thread 0 takes the access lock and the update lock, thread 1 is blocked at `acquire` (its step is not
enabled) until thread 0 has notified both connections and released -/
def exSched : List Tid := List.replicate 14 0 ++ List.replicate 11 1 ++ [0]

example : (runSched exCfg exS0 exSched).map (fun s => ((s.logs 1 0).map (·.msg.ve), (s.logs 2 0).map (·.msg.ve),
    (s.entries 0).ve, s.lock)) = some ([.val 6, .err 1], [.val 6, .err 1], .err 1, none) := by decide
example : (runSched exCfg exS0 [0, 0, 1]).isNone = true := by decide
example : (runSched exCfg exS0 exSched).map (fun s => (doneBy 0 s.ghist, doneBy 1 s.ghist, s.ghist.map (·.tid))) =
    some ([(0, .val 6)], [(0, .err 1)], [0, 1]) := by decide

/-- the hypotheses of the concurrent theorems are satisfiable by a state with a non-trivial log -/
example : ∃ s, Reach exCfg exS0 s ∧ s.lock = none ∧ (s.logs 1 0).map (·.msg.ve) = [.val 6, .err 1] := by
  have hd : (runSched exCfg exS0 exSched).map (fun s => (s.lock, (s.logs 1 0).map (·.msg.ve))) =
      some (none, [.val 6, .err 1]) := by decide
  cases h : runSched exCfg exS0 exSched with
  | none => rw [h] at hd; cases hd
  | some s =>
    rw [h] at hd
    simp only [Option.map_some, Option.some.injEq, Prod.mk.injEq] at hd
    exact ⟨s, reach_of_runSched _ _ _ _ .start _ h, hd.1, hd.2⟩

/-! activation -/

/-- snapshot of parameters 0 and 2 where parameter 2 is in error: one message each, the error as `error_update` -/
example : (snapshot (fun p => if p = 2 then (⟨5, some 9, 0, 10⟩ : Entry Nat Nat) else exE) [0, 2]).map (fun m => (m.1, m.2.ve, m.2.t)) =
    [(0, .val 5, 100), (2, .err 9, 0)] := by decide

/-- a client activating on `exE` and then seeing `exHist` ends with the cached 6, starting from nothing -/
example : replayO none (((mkMsg exE) :: (run exO exE exHist).msgs).map (·.ve)) = some (.val 6) := by decide

/-- a client that is sent nothing knows nothing: the monitor names the clause -/
example : judgeO (S := VE Nat Nat) (fun s => s matches .err _) (.err 1) [⟨[], .err 1⟩] =
    some (0, "no-state-after-activation") := by decide

example : judgeO (S := VE Nat Nat) (fun s => s matches .err _) (.err 1) [⟨[.err 1], .err 1⟩, ⟨[.val 5], .val 5⟩] = none := by
  decide

/-- connections 1 and 2 are activated before the run, connection 3 activates during it -/
def exCfgA : Cfg Nat Nat := ⟨exO, [1, 2, 3], 1, fun k _ => k != 3⟩
def exProgsA : Tid → List (Op Nat Nat)
  | 0 => [.announce 0 (.value 6 false) .absent]
  | 1 => [.activate 3 [0]]
  | _ => []
def exSA : Sys Nat Nat := Sys.init exInit exProgsA 101 exCfgA.act0

/-- thread 1 registers connection 3, thread 0 makes its call (connection 3 is already a listener: it gets the update),
then thread 1 sends the snapshot: connection 3 received `6, 6`, connections 1 and 2 `6` -/
def exSchedA : List Tid := [1, 1, 1] ++ List.replicate 14 0 ++ [1, 1, 1, 1]

/-- thread 0 gets as far as the built message (8 steps), then connection 3 is registered, then the notification:
connection 3 is among the listeners -/
def exSchedB : List Tid := List.replicate 8 0 ++ [1, 1, 1] ++ List.replicate 6 0 ++ [1, 1, 1, 1]

/-- the whole activation first: snapshot `5`, then the update `6` -/
def exSchedC : List Tid := List.replicate 7 1 ++ List.replicate 14 0

example : (runSched exCfgA exSA exSchedA).map (fun s => ((s.logs 3 0).map (·.msg.ve), (s.logs 1 0).map (·.msg.ve),
    s.lock)) = some ([.val 6, .val 6], [.val 6], none) := by decide
example : (runSched exCfgA exSA exSchedA).map (fun s => (s.snapped 3 0, s.act 3 0, s.dlock)) =
    some (true, true, none) := by decide
example : (runSched exCfgA exSA exSchedB).map (fun s => ((s.logs 3 0).map (·.msg.ve), (s.logs 2 0).map (·.msg.ve))) =
    some ([.val 6, .val 6], [.val 6]) := by decide
example : (runSched exCfgA exSA exSchedC).map (fun s => ((s.logs 3 0).map (·.msg.ve), (s.entries 0).ve)) =
    some ([.val 5, .val 6], .val 6) := by decide
/-- the snapshot waits for the update lock: thread 1 is blocked at `acquire` while thread 0 is inside the funnel -/
example : (runSched exCfgA exSA [1, 1, 1, 0, 1]).isNone = true := by decide

/-- the hypotheses of `activation_coherent` / `conc_ok_activation` are satisfiable by a state in which a connection
activated during the run has a non-trivial log -/
example : ∃ s, Reach exCfgA exSA s ∧ s.lock = none ∧ Sub exCfgA s 3 0 ∧ known0 exCfgA (fun v => v) exInit 3 0 = none ∧
    (s.logs 3 0).map (·.msg.ve) = [.val 5, .val 6] := by
  have hd : (runSched exCfgA exSA exSchedC).map (fun s => (s.lock, s.snapped 3 0, (s.logs 3 0).map (·.msg.ve))) =
      some (none, true, [.val 5, .val 6]) := by decide
  cases h : runSched exCfgA exSA exSchedC with
  | none => rw [h] at hd; cases hd
  | some s =>
    rw [h] at hd
    simp only [Option.map_some, Option.some.injEq, Prod.mk.injEq] at hd
    exact ⟨s, reach_of_runSched _ _ _ _ .start _ h, hd.1, ⟨by decide, Or.inr hd.2.1⟩, by decide, hd.2.2⟩

/-! ### exactness on canonical values only -/

/-- even numbers are canonical, the conversion rounds down to an even number, `!=` does not tell `2n` and `2n+1` apart -/
def exCanon : Nat → Bool := fun v => v % 2 == 0
def exOC : Oracle Nat Nat := ⟨fun a b => a / 2 == b / 2, fun v => .ok (v - v % 2), fun v => .ok (v - v % 2)⟩

example : ¬ ExportExact exOC (fun v => v) := fun h => absurd (h 4 5 rfl) (by decide)
theorem exOC_canonExact : CanonExact exOC (fun v => v) exCanon := by
  intro a b ha hb hab
  simp only [exCanon, exOC, beq_iff_eq] at ha hb hab
  show a = b
  omega
example : ∀ v v', exOC.conv v = .ok v' → exCanon v' = true := by
  intro v v' h
  simp only [exOC, Except.ok.injEq] at h
  subst h
  simp only [exCanon, beq_iff_eq]
  omega
/-- assignments of 5 (stored as 4), 7 (stored as 6) and a read result 6 announced with `validate=False` -/
def exHistC : List (TEv Nat Nat) := [⟨101, assignEv 5⟩, ⟨102, assignEv 7⟩, ⟨103, .value 6 false⟩]
example : exCanon (⟨4, none, 100, 10⟩ : Entry Nat Nat).value = true ∧
    (∀ x ∈ exHistC, ∀ v, x.ev = .value v false → exCanon v = true) := by
  refine ⟨rfl, ?_⟩
  intro x hx v hv
  simp only [exHistC, List.mem_cons, List.mem_nil_iff, or_false] at hx
  rcases hx with rfl | rfl | rfl <;> simp [assignEv] at hv
  subst hv; rfl
example : (run exOC ⟨4, none, 100, 10⟩ exHistC).msgs.map (·.ve) = [.val 6] ∧
    (run exOC ⟨4, none, 100, 10⟩ exHistC).entry.ve = .val 6 := by decide

/-- two threads assign 5 and 7 (stored as 4 and 6) over the oracle that is exact on canonical values only -/
def exCfgC : Cfg Nat Nat := ⟨exOC, [1, 2], 1, fun _ _ => true⟩
def exProgsC : Tid → List (Op Nat Nat)
  | 0 => [.announce 0 (assignEv 5) .absent]
  | 1 => [.announce 0 (assignEv 7) .absent]
  | _ => []
def exInitC : Pid → Entry Nat Nat := fun _ => ⟨4, none, 100, 10⟩
example : (∀ p, exCanon (exInitC p).value = true) ∧ (∀ t, progCanon exOC exCanon (exProgsC t)) := by
  refine ⟨fun _ => by simp [exInitC, exCanon], fun t p ev ts hm => ?_⟩
  match t with
  | 0 => simp only [exProgsC, List.mem_singleton, Op.announce.injEq] at hm; obtain ⟨_, rfl, _⟩ := hm; exact rfl
  | 1 => simp only [exProgsC, List.mem_singleton, Op.announce.injEq] at hm; obtain ⟨_, rfl, _⟩ := hm; exact rfl
  | _ + 2 => simp [exProgsC] at hm
/-- the first assignment (5, stored as 4 = the cached value) is suppressed inside the window, the second announced -/
example : (runSched exCfgC (Sys.init exInitC exProgsC 101 exCfgC.act0)
    (List.replicate 6 0 ++ List.replicate 13 1)).map (fun s => ((s.logs 1 0).map (·.msg.ve), (s.entries 0).ve)) =
    some ([.val 6], .val 6) := by decide

/-! ### a comparison with a tolerance; requests through the dispatcher -/

/-- `!=` replaced by "differs by more than 1" (a resolution) -/
def exTol : Oracle Nat Nat := ⟨fun a b => decide (a ≤ b + 1) && decide (b ≤ a + 1), fun v => .ok v, fun v => .ok v⟩

example : Drift exTol exE.value [6, 7, 8] := ⟨by decide, by decide, by decide, trivial⟩
example : exE.readerror = none ∧ (101 : Int) < exE.timestamp + exE.window ∧ lastOr exE.value [6, 7, 8] ≠ exE.value := by decide
/-- the drift 5 → 6 → 7 → 8 inside the window: no message, the cache holds 8, the client still 5 -/
example : (runR exTol exE ([6, 7, 8].map (fun v => ⟨101, .val v⟩))).msgs = [] ∧
    (runR exTol exE ([6, 7, 8].map (fun v => ⟨101, .val v⟩))).entry.ve = .val 8 := by decide
/-- with the exact comparison every step of the same drift is announced -/
example : (runR exO exE ([6, 7, 8].map (fun v => ⟨101, .val v⟩))).msgs.map (·.ve) = [.val 6, .val 7, .val 8] := by decide

/-- `write_p(7)` assigns 7 and raises: one call of the funnel, announced -/
example : writeCalled exO 7 true .raises = true ∧
    (run exO exE ((writeEvs exO 7 true [7] .raises).map (fun ev => ⟨101, ev⟩))).msgs.map (·.ve) = [.val 7] := by decide
/-- a `change` request for a read-only parameter, or with a datum `import_value` refuses, makes no call -/
example : changeEvs exO ⟨true, some 7⟩ true [7] .none = ([] : List (Ev Nat Nat)) ∧
    changeEvs exO ⟨false, none⟩ true [7] .none = ([] : List (Ev Nat Nat)) ∧
    changeEvs exO ⟨false, some 7⟩ true [8] (.returns 9) = [assignEv 8, .value 9 false] := by decide

/-- connection 1 (activated, like connection 2) sends `change p 7`; `write_p` assigns 7 and raises; thread 1 (a poller)
assigns 9 while the request holds the dispatcher lock and the access lock -/
def exProgsR : Tid → List (Op Nat Nat)
  | 0 => changeOps exO 1 0 ⟨false, some 7⟩ true [7] .raises
  | 1 => [.announce 0 (assignEv 9) .absent]
  | _ => []

def exSR : Sys Nat Nat := Sys.init exInit exProgsR 101 exCfg.act0

/-- the request takes its three locks, the poller's update goes through, then the request goes on -/
def exSchedR : List Tid := [0, 0, 0] ++ List.replicate 13 1 ++ List.replicate 16 0

example : exProgsR 0 = [.reqAcquire 1, .accAcquire, .accAcquire, .announce 0 (assignEv 7) .absent, .accRelease, .accRelease,
    .reqRelease] := rfl
/-- the requesting connection receives the poller's 9 and its own 7, like the other connection; the cache holds 7 -/
example : (runSched exCfg exSR exSchedR).map (fun s => ((s.logs 1 0).map (·.msg.ve), (s.logs 2 0).map (·.msg.ve),
    (s.entries 0).ve)) = some ([.val 9, .val 7], [.val 9, .val 7], .val 7) := by decide
example : (runSched exCfg exSR exSchedR).map (fun s => (s.dlock, s.alock, s.adepth, finished s 0)) =
    some (none, none, 0, true) := by decide
/-- while the request holds the access lock twice, another wrapper is blocked, an assignment is not -/
example : (runSched exCfg exSR [0, 0, 0]).map (fun s => (s.dlock, s.alock, s.adepth)) = some (some 0, some 0, 2) := by decide
example : (runSched (V := Nat) (E := Nat) exCfg (Sys.init exInit (fun t => if t = 0 then exProgsR 0 else [.accAcquire]) 101 exCfg.act0)
    [0, 0, 0, 1]).isNone = true := by decide

/-- connection 2 sends `do cmd`; the command assigns 8 and then 9 -/
example : (doOps 2 0 [8, 9] : List (Op Nat Nat)) =
    [.reqAcquire 2, .announce 0 (assignEv 8) .absent, .announce 0 (assignEv 9) .absent, .reqRelease] := rfl
example : (runSched exCfg (Sys.init exInit (fun t => if t = 0 then doOps 2 0 [8, 9] else []) 101 exCfg.act0)
    (List.replicate 28 0)).map (fun s => ((s.logs 2 0).map (·.msg.ve), (s.entries 0).ve, finished s 0)) =
    some ([.val 8, .val 9], .val 9, true) := by decide

end examples

/-! ## the transport of the stream: "the update and error-update messages it RECEIVED"

Everything above is about the messages handed to `connection.send_reply`.  For a TCP connection that is
`TCPRequestHandler.send_reply` (model `Node/Transport.lean`): the socket is a parameter — every `sendall` succeeds or raises
(time-out of a peer that does not read, broken pipe, …) after any part of the frame. -/
section transport
open Frappy.Transport Frappy.UpdateSys
variable {F : Type}

/-- For every sequence of `send_reply` calls — from any thread — and rounds of the handler loop, with any behaviour of the
socket: the peer never sees a garbled line; a connection that is still running has received EVERY frame handed to it and
is known to the dispatcher and open; one that is not has received a strict prefix of them and is closed and forgotten by the
next round of its handler loop; the dispatcher never forgets a connection that stays open, nor keeps one that is closed. -/
theorem transport_all_or_closed (ops : List (TOp F)) :
    garbled (runT Conn.fresh ops) = 0 ∧
    ((runT Conn.fresh ops).running = true →
      received (runT Conn.fresh ops) = handed ops ∧ (runT Conn.fresh ops).listed = true ∧ (runT Conn.fresh ops).closed = false) ∧
    ((runT Conn.fresh ops).running = false →
      (∃ n, n < (handed ops).length ∧ received (runT Conn.fresh ops) = (handed ops).take n) ∧
      (loopRound (runT Conn.fresh ops)).listed = false ∧ (loopRound (runT Conn.fresh ops)).closed = true) ∧
    ((runT Conn.fresh ops).listed = !(runT Conn.fresh ops).closed) := by
  have hinv := inv_runT ops Conn.fresh [] inv_fresh
  simp only [List.nil_append] at hinv
  obtain ⟨hg, hr, hn⟩ := inv_received _ _ hinv
  refine ⟨hg, fun h => ⟨hr h, (hinv.1 h).2⟩, fun h => ⟨hn h, ?_, ?_⟩, hinv.2.2⟩ <;> simp [loopRound, h]

/-- At a quiescent point (the handler loop has made its round): a connection the dispatcher still lists has received every
frame; otherwise it is closed. -/
theorem served_receives_all (ops : List (TOp F)) :
    ((runT Conn.fresh (ops ++ [TOp.round])).listed = true →
      received (runT Conn.fresh (ops ++ [TOp.round])) = handed ops ∧ (runT Conn.fresh (ops ++ [TOp.round])).closed = false) ∧
    ((runT Conn.fresh (ops ++ [TOp.round])).listed = false → (runT Conn.fresh (ops ++ [TOp.round])).closed = true) := by
  have hinv := inv_runT ops Conn.fresh [] inv_fresh
  simp only [List.nil_append] at hinv
  rw [runT_append]
  simp only [runT, List.foldl_cons, List.foldl_nil, TOp.apply]
  cases hr : (List.foldl TOp.apply Conn.fresh ops).running with
  | true =>
    have h1 := hinv.1 hr
    have h2 := (inv_received _ _ hinv).2.1 hr
    simp only [runT] at h1 h2
    simp [loopRound, hr, h1, h2]
  | false => simp [loopRound, hr]

/-- The funnel and the transport together: the snapshot of an activation followed by the messages of ANY history of funnel
calls, handed to a TCP connection whose socket behaves in ANY way (`ops`: these frames, any outcomes, rounds of the handler
loop anywhere): when the handler loop has made its round and the dispatcher still lists the connection, replaying what the
peer RECEIVED — it knew nothing before — gives exactly the cached value-or-error. -/
theorem transport_activate_replay_eq_cache {V E X : Type} [DecidableEq E] (o : Oracle V E) (ex : V → X) (h : ExportExact o ex)
    (e : Entry V E) (evs : List (TEv V E)) (ops : List (TOp (Msg V E))) (hh : handed ops = mkMsg e :: (run o e evs).msgs) :
    (runT Conn.fresh (ops ++ [TOp.round])).listed = true →
      replayO none ((received (runT Conn.fresh (ops ++ [TOp.round]))).map (fun m => m.ve.map ex)) =
        some ((run o e evs).entry.ve.map ex) := by
  intro hl
  rw [((served_receives_all ops).1 hl).1, hh]
  exact activate_replay_eq_cache o ex h e evs

/-- The same for the concurrent system: in EVERY reachable state of every schedule of funnel calls, requests and activations,
for a connection `k` entitled to parameter `p` with no call of `p`'s funnel in flight: if the frames handed to `k`'s TCP
handler so far (messages of ALL parameters, interleaved in any way; `ops`: any socket behaviour, rounds anywhere) contain for
`p` exactly `k`'s log, then — after a round of the handler loop, if the dispatcher still lists `k` — replaying the messages
for `p` among what the peer RECEIVED gives the cached value-or-error of `p`. -/
theorem transport_activation_coherent {V E X : Type} [DecidableEq E] (c : Cfg V E) (ex : V → X) (h : ExportExact c.o ex)
    (init : Pid → Entry V E) (progs : Tid → List (Op V E)) (clock : Int) (s : Sys V E) (hn : c.conns.Nodup)
    (hr : Reach c (Sys.init init progs clock c.act0) s) (k : Cid) (p : Pid) (hk : Sub c s k p)
    (hfree : ∀ t, pcPid (s.thr t).pc ≠ some p)
    (ops : List (TOp (Pid × Msg V E))) (hh : ((handed ops).filter (fun f => f.1 == p)).map (·.2) = plog s k p) :
    (runT Conn.fresh (ops ++ [TOp.round])).listed = true →
      replayO (known0 c ex init k p)
        ((((received (runT Conn.fresh (ops ++ [TOp.round]))).filter (fun f => f.1 == p)).map (·.2)).map (fun m => m.ve.map ex)) =
        some ((s.entries p).ve.map ex) := by
  intro hl
  rw [((served_receives_all ops).1 hl).1, hh]
  exact activation_coherent c ex h init progs clock s hn hr k p hk hfree

/-- … and for the whole statement, observation point by observation point: a stream that satisfies the statement where it
is handed to `send_reply` (`TraceOkO`: no phantom, recovery and change announced, replay = cache after every operation)
satisfies it at the peer (`TraceOkT`: the same for as long as the connection is served; the first point at which it is not
finds it closed and forgotten) — whatever the socket does with every single frame. -/
theorem transport_preserves_statement {S : Type} [DecidableEq S] (isErr : S → Bool) (k : Option S) (prev : S)
    (pts : List (Obs S × List SendRes)) (h : TraceOkO isErr k prev (pts.map (·.1))) :
    TraceOkT isErr k prev (through Conn.fresh pts) :=
  through_ok isErr pts k prev Conn.fresh [] inv_fresh rfl h

/-- Closing the connection on a failed send is NECESSARY: with a transport that skips the frame and goes on
(`sendReplySkip`; the class of "a slow client is not thrown out because of an event") a connection stays open, listed and
running although replaying what it received differs from replaying what it was sent (= the cache); with part of the frame
written the next message is garbled as well. -/
theorem skip_on_failure_breaks {S : Type} (init a b : S) (hab : a ≠ b) :
    ∃ ops : List (TOp S), (runSkip Conn.fresh ops).listed = true ∧ (runSkip Conn.fresh ops).closed = false ∧
      (runSkip Conn.fresh ops).running = true ∧
      replay init (received (runSkip Conn.fresh ops)) ≠ replay init (handed ops) :=
  ⟨[.send a .ok, .send b (.fails 0), .round], rfl, rfl, rfl, by simpa [runSkip, TOp.applySkip, sendReplySkip, Conn.fresh, loopRound, received, decode, handed, replay] using hab⟩

theorem skip_on_failure_garbles {S : Type} (a b : S) :
    garbled (runSkip Conn.fresh [.send a (.fails 3), .send b .ok, .round]) = 1 ∧
    received (runSkip Conn.fresh [.send a (.fails 3), .send b .ok, .round]) = [] := by
  simp [runSkip, TOp.applySkip, sendReplySkip, Conn.fresh, loopRound, received, garbled, decode]

/-- Facts about the source the transport model relies on (regenerated on every run): every handler of the `try` around
`sendall` in `TCPRequestHandler.send_reply` sets `self.running = False` unconditionally and `Exception` is among the classes
caught (a time-out is an `OSError`); `sendall` is only called under `if self.running` inside the send lock; both loops of
`RequestHandler.handle` test `self.running`; `finish` is called in a `finally`, tells the dispatcher `remove_connection(self)`
and (TCP) closes the socket; `remove_connection` takes the connection out of `_connections`, `_active_connections` and every
subscription. -/
theorem send_shape :
    Generated.C05.sendFailureStops = true ∧ "Exception" ∈ Generated.C05.sendCaught ∧
    Generated.C05.sendGuardedByRunning = true ∧ Generated.C05.handleLoopsTestRunning = true ∧
    Generated.C05.finishAlwaysCalled = true ∧ Generated.C05.finishRemovesConnection = true ∧
    Generated.C05.tcpFinishClosesSocket = true ∧ Generated.C05.removeConnectionForgets = true := by decide

/-! non-vacuity -/
/-- three frames, the second `sendall` times out after 4 bytes: the third is never sent, the round closes and forgets -/
def exOps : List (TOp Nat) := [.send 10 .ok, .round, .send 11 (.fails 4), .send 12 .ok, .round]
example : received (runT Conn.fresh exOps) = [10] ∧ garbled (runT Conn.fresh exOps) = 0 ∧
    (runT Conn.fresh exOps).listed = false ∧ (runT Conn.fresh exOps).closed = true ∧ handed exOps = [10, 11, 12] := by decide
example : received (runT Conn.fresh [TOp.send 10 .ok, .round, .send 11 .ok]) = [10, 11] ∧
    (runT Conn.fresh [TOp.send 10 .ok, .round, .send 11 .ok]).listed = true := by decide
/-- between the failed send and the round the connection is still listed but silent (at most one receive time-out) -/
example : (runT Conn.fresh [TOp.send 10 (.fails 0), .send 11 .ok]).listed = true ∧
    received (runT Conn.fresh [TOp.send 10 (.fails 0), .send 11 .ok]) = [] := by decide
/-- `transport_preserves_statement` on a stream of three points (snapshot 5; change to 6; unchanged), the peer stops
reading at the second point -/
example : through Conn.fresh [((⟨[5], 5⟩ : Obs Nat), []), (⟨[6], 6⟩, [.fails 2]), (⟨[], 6⟩, [])] =
    [⟨⟨[5], 5⟩, 0, true, true⟩, ⟨⟨[], 6⟩, 0, false, false⟩, ⟨⟨[], 6⟩, 0, false, false⟩] := by rfl
example : TraceOkT (fun _ : Nat => false) none 5
    (through Conn.fresh [((⟨[5], 5⟩ : Obs Nat), []), (⟨[6], 6⟩, [.fails 2]), (⟨[], 6⟩, [])]) :=
  transport_preserves_statement _ none 5 _ ((Frappy.Update.judgeO_none_iff (fun _ : Nat => false) 5 [⟨[5], 5⟩, ⟨[6], 6⟩, ⟨[], 6⟩]).1 (by decide))
example : judgeT (fun _ : Nat => false) 5 [⟨⟨[5], 5⟩, 0, true, true⟩, ⟨⟨[], 6⟩, 0, true, true⟩] = some (1, "change-not-announced") := by
  decide
example : judgeT (fun _ : Nat => false) 5 [⟨⟨[5], 5⟩, 0, true, true⟩, ⟨⟨[], 6⟩, 0, false, true⟩] =
    some (1, "closed-but-still-listed") := by decide
example : judgeT (fun _ : Nat => false) 5 [⟨⟨[5], 5⟩, 0, true, true⟩, ⟨⟨[], 6⟩, 0, false, false⟩, ⟨⟨[], 7⟩, 0, false, false⟩] = none := by
  decide

end transport

end Frappy.Props.C05
