import FrappyProofs.Lemmas.Update
import FrappyProofs.Lemmas.UpdateSys
import FrappyModel.Generated.C05
/-
C05 — property theorems (nothing but property theorems and their non-vacuity examples).
-/
set_option linter.unusedSectionVars false
namespace Frappy.Props.C05
open Frappy.Update Frappy.Spec.C05

section sequential
variable {V E X : Type} [DecidableEq E]

/-- Replaying the emitted messages over the initial value-or-error gives the cached value-or-error —
for every entry, every history of calls and clock readings, every oracle and export function `ex` such that
values Python's `!=` does not tell apart have the same exported form. -/
theorem replay_eq_cache (o : Oracle V E) (ex : V → X) (h : ExportExact o ex) (e : Entry V E) (evs : List (TEv V E)) :
    replay (e.ve.map ex) ((run o e evs).msgs.map (fun m => m.ve.map ex)) = (run o e evs).entry.ve.map ex :=
  replay_runR o ex h e _

/-- … and this holds after every prefix of the history (the client never diverges from the cache). -/
theorem reconstructs (o : Oracle V E) (ex : V → X) (h : ExportExact o ex) (e : Entry V E) (evs : List (TEv V E)) :
    Reconstructs (e.ve.map ex) ((trace o e evs).map (obsOf ex)) := by
  unfold trace
  generalize evs.map (TEv.resolve o) = xs
  induction xs generalizing e with
  | nil => simp [traceR, Reconstructs]
  | cons x xs ih =>
    simp only [traceR, List.map_cons, Reconstructs, obsOf, replay_toList]
    have hk := announceR_ve o ex h e x.now x.r
    constructor
    · rw [hk]
    · have := ih (announceR o e x.now x.r).entry
      rw [hk] at this
      exact this

/-- Every emitted message equals the entry's value-or-error (and time stamp) at its emission. -/
theorem never_phantom (o : Oracle V E) (ex : V → X) (e : Entry V E) (evs : List (TEv V E)) :
    NeverPhantom ((trace o e evs).map (obsOf ex)) ∧
    ∀ out ∈ trace o e evs, ∀ m, out.msg = some m → m = mkMsg out.entry := by
  unfold trace
  generalize evs.map (TEv.resolve o) = xs
  induction xs generalizing e with
  | nil => simp [traceR, NeverPhantom]
  | cons x xs ih =>
    have ih' := ih (announceR o e x.now x.r).entry
    constructor
    · intro ob hob m hm
      simp only [traceR, List.map_cons, List.mem_cons] at hob
      rcases hob with rfl | hob
      · simp only [obsOf, List.mem_map, Option.mem_toList] at hm
        obtain ⟨m', hm', rfl⟩ := hm
        have := (announceR_msg o e x.now x.r m' hm').1
        rw [this]; rfl
      · exact ih'.1 ob hob m hm
    · intro out hout m hm
      simp only [traceR, List.mem_cons] at hout
      rcases hout with rfl | hout
      · exact (announceR_msg o e x.now x.r m hm).1
      · exact ih'.2 out hout m hm

/-- The message list is the subsequence of cache changes, in order: it contains every change of the cache
and is itself a subsequence of the states the cache went through. -/
theorem order_preserved [DecidableEq X] (o : Oracle V E) (ex : V → X) (h : ExportExact o ex) (e : Entry V E)
    (evs : List (TEv V E)) : OrderPreserved (e.ve.map ex) ((trace o e evs).map (obsOf ex)) := by
  unfold trace
  generalize evs.map (TEv.resolve o) = xs
  induction xs generalizing e with
  | nil => simp [traceR, OrderPreserved, states, allMsgs, changes]
  | cons x xs ih =>
    have ih' := ih (announceR o e x.now x.r).entry
    have hk := announceR_ve o ex h e x.now x.r
    simp only [OrderPreserved, traceR, List.map_cons, states, allMsgs, List.flatMap_cons, obsOf, changes] at ih' ⊢
    cases hm : (announceR o e x.now x.r).msg with
    | none =>
      rw [hm] at hk
      simp only [pick] at hk
      simp only [hk, if_true, Option.toList_none, List.map_nil, List.nil_append]
      rw [hk] at ih'
      exact ⟨ih'.1, List.Sublist.cons _ ih'.2⟩
    | some m =>
      rw [hm] at hk
      simp only [pick] at hk
      simp only [Option.toList_some, List.map_cons, List.map_nil, List.singleton_append]
      rw [← hk]
      constructor
      · split
        · rename_i heq
          rw [← heq]
          exact List.Sublist.cons _ ih'.1
        · exact List.Sublist.cons_cons _ ih'.1
      · exact List.Sublist.cons_cons _ ih'.2

/-- An entry in error announces every successful update, even if the value equals the cached one
and the omit window is still open. -/
theorem recovery_announced (o : Oracle V E) (e : Entry V E) (now : Int) (ev : Ev V E) (v : V)
    (herr : e.readerror ≠ none) (hok : resolve o ev = .val v) :
    ∃ m, (announce o e now ev).msg = some m ∧ m.ve = .val v := by
  obtain ⟨x, hx⟩ := Option.ne_none_iff_exists'.1 herr
  unfold announce announceR
  rw [hok, emits_recovery o e now v x hx]
  simp [mkMsg]

/-- the same over whole histories, in the words of the specification -/
theorem recovery_announced_trace (o : Oracle V E) (ex : V → X) (h : ExportExact o ex) (isErr : VE X E → Bool)
    (e : Entry V E) (evs : List (TEv V E)) :
    RecoveryAnnounced isErr (e.ve.map ex) ((trace o e evs).map (obsOf ex)) := by
  unfold trace
  generalize evs.map (TEv.resolve o) = xs
  induction xs generalizing e with
  | nil => simp [traceR, RecoveryAnnounced]
  | cons x xs ih =>
    simp only [traceR, List.map_cons, RecoveryAnnounced]
    refine ⟨?_, ih _⟩
    intro h1 h2
    have hk := announceR_ve o ex h e x.now x.r
    simp only [obsOf] at h2 ⊢
    cases hm : (announceR o e x.now x.r).msg with
    | some m => simp
    | none =>
      rw [hm] at hk
      simp only [pick] at hk
      rw [hk, h1] at h2
      exact absurd h2 (by simp)

/-- A change of the value (as Python compares it) and a new or different error are always announced. -/
theorem change_announced (o : Oracle V E) (e : Entry V E) (now : Int) :
    (∀ v, o.veq e.value v = false → (announceR o e now (.val v)).msg ≠ none) ∧
    (∀ x, e.readerror ≠ some x → (announceR o e now (.err x)).msg ≠ none) := by
  constructor
  · intro v hv; unfold announceR; rw [emits_changed o e now v hv]; simp
  · intro x hx; unfold announceR; rw [emits_error o e now x hx]; simp

/-! ### parameter callbacks -/

/-- The `except` clause around the call of a parameter callback (regenerated from the source on every run) catches
every outcome: a callback that returns, one that raises `TypeError`, one that raises any other `Exception`.  The
callbacks run after the stores into the entry and before the dispatcher is told. -/
theorem callbacks_all_caught :
    (∀ oc, catches Frappy.Generated.C05.callbackCaught oc = true) ∧
    Frappy.Generated.C05.callbacksAfterStores = true ∧ Frappy.Generated.C05.callbacksBeforeNotify = true := by
  refine ⟨fun oc => ?_, by decide, by decide⟩
  cases oc <;> decide

/-- Replay reproduces the cache for ALL outcomes of ALL callbacks registered for the parameter, as long as the
`except` clause catches every outcome (`callbacks_all_caught`). -/
theorem replay_eq_cache_callbacks (o : Oracle V E) (ex : V → X) (h : ExportExact o ex) (caught : CbOutcome → Bool)
    (hc : ∀ oc, caught oc = true) (e : Entry V E) (evs : List (CEv V E)) :
    replay (e.ve.map ex) ((runC o caught e evs).msgs.map (fun m => m.ve.map ex)) = (runC o caught e evs).entry.ve.map ex := by
  rw [runC_eq o caught hc]
  exact replay_runR o ex h e _

/-- A recovery from an error is announced whatever the callbacks do (under `callbacks_all_caught`). -/
theorem recovery_announced_callbacks (o : Oracle V E) (caught : CbOutcome → Bool) (hc : ∀ oc, caught oc = true)
    (e : Entry V E) (now : Int) (v : V) (cbs : List CbOutcome) (herr : e.readerror ≠ none) :
    ∃ m, (announceC o caught e now (.val v) cbs).msg = some m ∧ m.ve = .val v := by
  obtain ⟨x, hx⟩ := Option.ne_none_iff_exists'.1 herr
  rw [announceC_eq o caught hc]
  unfold announceR
  rw [emits_recovery o e now v x hx]
  simp [mkMsg]

/-- Callbacks that call the funnel of OTHER parameters (a following module's `update_<param>` assigning its own
parameter, or `autoupdate`): for every history of top-level calls, every tree of such callbacks (depth 1), every outcome
of every callback, and EVERY parameter `q` — source or follower — replaying the messages of `q` in the stream gives
what the cache holds for `q`. -/
theorem replay_eq_cache_reentrant (o : Oracle V E) (ex : V → X) (h : ExportExact o ex) (caught : CbOutcome → Bool)
    (hc : ∀ oc, caught oc = true) (es : Nat → Entry V E) (xs : List (MEv V E)) (q : Nat) :
    replay ((es q).ve.map ex) ((projM q (runM o caught es xs).msgs).map (fun m => m.ve.map ex)) =
      ((runM o caught es xs).es q).ve.map ex := by
  obtain ⟨evs, h1, h2⟩ := runM_proj o caught hc q es xs
  rw [h1, h2]
  exact replay_runR o ex h (es q) evs

/-- The hypothesis is needed: if one outcome is not caught (e.g. only `TypeError` is), a callback ending that way
makes the funnel store the new state without a message — a lost value and a lost recovery. -/
theorem callback_escape_breaks (caught : CbOutcome → Bool) (oc : CbOutcome) (hesc : caught oc = false) :
    (∃ (e : Entry Nat Nat) (evs : List (CEv Nat Nat)),
      replay e.ve ((runC ⟨fun a b => a == b, .ok, .ok⟩ caught e evs).msgs.map (·.ve)) ≠
        (runC ⟨fun a b => a == b, .ok, .ok⟩ caught e evs).entry.ve) ∧
    (∃ (e : Entry Nat Nat), e.readerror ≠ none ∧
      (announceC ⟨fun a b => a == b, .ok, .ok⟩ caught e 7 (.val e.value) [oc]).msg = none) := by
  refine ⟨⟨⟨5, none, 1, 0⟩, [⟨7, .val 6, [oc]⟩], ?_⟩, ⟨⟨5, some 1, 1, 0⟩, by simp, ?_⟩⟩
  · simp [runC, announceC, emits, changed, runCallbacks, hesc, replay, commit, storeValue, storeError, stamp, Entry.ve]
  · simp [announceC, emits, changed, runCallbacks, hesc]

/-- and catching `TypeError` only (the seeded change C05-m3) does leave `other` uncaught -/
example : catches ["TypeError"] .other = false ∧ catches ["TypeError"] .typeError = true := by decide

end sequential


section concurrent
open Frappy.UpdateSys
variable {V E X : Type} [DecidableEq E]

/-- Mutual exclusion: at most one thread is between `acquire` and `release` of the module's update lock. -/
theorem one_thread_inside (c : Cfg V E) (init : Pid → Entry V E) (progs : Tid → List (Op V E)) (clock : Int)
    (s : Sys V E) (hn : c.conns.Nodup) (hr : Reach c (Sys.init init progs clock) s) (t t' : Tid)
    (ht : (s.thr t).pc ≠ .idle) (ht' : (s.thr t').pc ≠ .idle) : t = t' := by
  have hi := inv_reach hn hr
  have h1 := owner_of_busy hi t ht
  have h2 := owner_of_busy hi t' ht'
  rw [h1] at h2
  exact Option.some.inj h2

/-- Lock order: whoever holds the dispatcher's subscription lock holds the module's update lock (it is only taken
around the notifications, inside the critical section). -/
theorem sub_lock_nested (c : Cfg V E) (init : Pid → Entry V E) (progs : Tid → List (Op V E)) (clock : Int)
    (s : Sys V E) (hn : c.conns.Nodup) (hr : Reach c (Sys.init init progs clock) s) (t : Tid)
    (h : s.slock = some t) : s.lock = some t := by
  have hi := inv_reach hn hr
  cases hl : s.lock with
  | none => have := hi.slFree hl; rw [this] at h; cases h
  | some t0 =>
    have := hi.slOwner t0 hl
    rw [this] at h
    split at h
    · cases h; rfl
    · cases h

/-- For every schedule of any number of threads, in every reachable state, what an activated connection has
received for a parameter is the message list of a sequential run of the funnel on that parameter: the run of
the calls completed so far (`s.hist p`, in the order the lock was released), followed by the call in flight
if this connection has already been notified of it. -/
theorem interleaving_atomic (c : Cfg V E) (init : Pid → Entry V E) (progs : Tid → List (Op V E)) (clock : Int)
    (s : Sys V E) (hn : c.conns.Nodup) (hr : Reach c (Sys.init init progs clock) s)
    (k : Cid) (hk : k ∈ c.conns) (p : Pid) :
    ∃ evs : List (REv V E), plog s k p = (runR c.o (init p) evs).msgs ∧
      (evs = s.hist p ∨ ∃ x, evs = s.hist p ++ [x]) := by
  have hi := inv_reach hn hr
  have clean : Clean c init s p → ∃ evs : List (REv V E), plog s k p = (runR c.o (init p) evs).msgs ∧
      (evs = s.hist p ∨ ∃ x, evs = s.hist p ++ [x]) := fun h => ⟨s.hist p, h.2 k hk, Or.inl rfl⟩
  cases hl : s.lock with
  | none => exact clean ((hi.unlocked hl).2 p)
  | some t =>
    obtain ⟨_, p', hp', hcl, hmid⟩ := hi.locked t hl
    by_cases hpp : p = p'
    · subst hpp
      have same : plog s k p = (seqRun c init s p).msgs → ∃ evs : List (REv V E),
          plog s k p = (runR c.o (init p) evs).msgs ∧ (evs = s.hist p ∨ ∃ x, evs = s.hist p ++ [x]) :=
        fun h => ⟨s.hist p, h, Or.inl rfl⟩
      cases hpc : (s.thr t).pc with
      | idle => rw [hpc] at hp'; cases hp'
      | locked _ _ _ => rw [hpc] at hmid; exact same (hmid.2 k hk)
      | timed _ _ _ => rw [hpc] at hmid; exact same (hmid.2 k hk)
      | compared _ _ _ _ => rw [hpc] at hmid; exact same (hmid.2.2 k hk)
      | stored _ _ _ _ => rw [hpc] at hmid; exact same (hmid.2.2 k hk)
      | go _ _ _ => rw [hpc] at hmid; exact same (hmid.2.2 k hk)
      | stamped _ _ _ => rw [hpc] at hmid; exact same (hmid.2.2 k hk)
      | errset _ _ _ => rw [hpc] at hmid; exact same (hmid.2.2 k hk)
      | built _ _ _ _ => rw [hpc] at hmid; exact same (hmid.2.2.2 k hk)
      | sending _ now r m rest =>
        rw [hpc] at hmid
        obtain ⟨h1, h2, h3, done, h4, h5, h6⟩ := hmid
        rw [h4, List.mem_append] at hk
        rcases hk with hk | hk
        · refine ⟨s.hist p ++ [⟨now, r⟩], ?_, Or.inr ⟨_, rfl⟩⟩
          have h2' : emits c.o (runR c.o (init p) (s.hist p)).entry now r = true := h2
          simp only [runR_snoc, announceR_go _ _ _ _ h2']
          have := h5 k hk
          simp only at this
          rw [this, h3, h1]; rfl
        · exact same (h6 k hk)
      | leaving _ now r =>
        rw [hpc] at hmid
        refine ⟨s.hist p ++ [⟨now, r⟩], ?_, Or.inr ⟨_, rfl⟩⟩
        rw [runR_snoc]
        exact hmid.2 k hk
    · exact clean (hcl p hpp)

/-- The sequential run the logs are compared with is made of exactly the threads' calls: the global history of
completed calls (`ghist`, in the order the update lock was released) is an interleaving of the threads' programs —
its projection onto thread `t` is the beginning of the calls `t`'s program makes, in program order (all of them once
`t` has finished), and its projection onto parameter `p` is `hist p`. -/
theorem hist_is_interleaving (c : Cfg V E) (init : Pid → Entry V E) (progs : Tid → List (Op V E)) (clock : Int)
    (s : Sys V E) (hr : Reach c (Sys.init init progs clock) s) :
    (∀ t, ∃ rest, annR c.o (progs t) = doneBy t s.ghist ++ rest) ∧
    (∀ t, finished s t = true → doneBy t s.ghist = annR c.o (progs t)) ∧
    (∀ p, s.hist p = onParam p s.ghist) := by
  have h := shuf_reach hr
  refine ⟨fun t => ⟨_, (h.thread t).symm⟩, fun t hf => ?_, h.proj⟩
  have ht := h.thread t
  unfold finished at hf
  split at hf
  · rename_i hpc hprog
    rw [hpc, hprog] at ht
    simpa [inflight, annR] using ht
  · cases hf

/-- When no call is in flight, cache and logs of every parameter are exactly those of the sequential run of
the completed calls. -/
theorem quiescent_is_sequential (c : Cfg V E) (init : Pid → Entry V E) (progs : Tid → List (Op V E)) (clock : Int)
    (s : Sys V E) (hn : c.conns.Nodup) (hr : Reach c (Sys.init init progs clock) s) (hq : s.lock = none) (p : Pid) :
    s.entries p = (runR c.o (init p) (s.hist p)).entry ∧
    ∀ k ∈ c.conns, plog s k p = (runR c.o (init p) (s.hist p)).msgs :=
  ((inv_reach hn hr).unlocked hq).2 p

/-- The statement for any number of threads and any schedule: at quiescence, replaying what a connection
received reproduces the cache; every message was delivered while the cache held the state it carries; all
activated connections received the same sequence. -/
theorem conc_ok (c : Cfg V E) (ex : V → X) (h : ExportExact c.o ex) (init : Pid → Entry V E)
    (progs : Tid → List (Op V E)) (clock : Int) (s : Sys V E) (hn : c.conns.Nodup)
    (hr : Reach c (Sys.init init progs clock) s) (hq : s.lock = none) (p : Pid) :
    ConcOk (S := VE X E) ⟨(init p).ve.map ex,
      c.conns.map (fun k => (s.logs k p).map (fun d => ⟨d.msg.ve.map ex, d.seen.map ex⟩)),
      (s.entries p).ve.map ex⟩ := by
  have hi := inv_reach hn hr
  obtain ⟨he, hlg⟩ := quiescent_is_sequential c init progs clock s hn hr hq p
  have hmap : ∀ k, ((s.logs k p).map (fun d => (⟨d.msg.ve.map ex, d.seen.map ex⟩ : Delivered (VE X E)))).map (·.msg) =
      (plog s k p).map (fun m => m.ve.map ex) := by
    intro k; simp [plog, List.map_map, Function.comp_def]
  refine ⟨?_, ?_, ?_⟩
  · intro l hl
    simp only [List.mem_map] at hl
    obtain ⟨k, hk, rfl⟩ := hl
    rw [hmap, hlg k hk, he]
    exact replay_runR c.o ex h (init p) (s.hist p)
  · intro l hl d hd
    simp only [List.mem_map] at hl
    obtain ⟨k, _, rfl⟩ := hl
    simp only [List.mem_map] at hd
    obtain ⟨d', hd', rfl⟩ := hd
    rw [hi.seenOk k p d' hd']
  · intro l hl l' hl'
    simp only [List.mem_map] at hl hl'
    obtain ⟨k, hk, rfl⟩ := hl
    obtain ⟨k', hk', rfl⟩ := hl'
    rw [hmap, hmap, hlg k hk, hlg k' hk']

end concurrent

/-- Facts about the constants of the source the model relies on (regenerated from the repository on every
run): the marker "use the default window" is not a window, `always` is the empty window, the class defaults
of a fresh entry are "no time stamp, no window". -/
theorem window_markers :
    Frappy.Generated.C05.updateUnchangedDefault < 0 ∧ Frappy.Generated.C05.updateUnchangedAlways = 0 ∧
    0 < Frappy.Generated.C05.updateUnchangedNever ∧
    Frappy.Generated.C05.updateUnchangedPropertyDefault = Frappy.Generated.C05.updateUnchangedDefault ∧
    Frappy.Generated.C05.entryDefaultTimestamp = 0 ∧ Frappy.Generated.C05.entryDefaultWindow = 0 ∧
    Frappy.Generated.C05.eventReply = "update" ∧ Frappy.Generated.C05.errorEventReply = "error_update" := by
  decide

/-! ## non-vacuity -/
section examples
open Frappy.UpdateSys

/-- values and errors are numbers, `!=` is inequality, every conversion succeeds -/
def exO : Oracle Nat Nat := ⟨fun a b => a == b, fun v => .ok v, fun v => .ok v⟩

theorem exO_exact : EqExact exO := by intro a b h; simpa [exO] using h

def exE : Entry Nat Nat := ⟨5, none, 100, 10⟩

/-- read 5 inside the window (suppressed), error 1, error 1 again (suppressed), recovery with the same value 5
inside the window (announced), 6 (announced), 6 outside the window (announced) -/
def exHist : List (TEv Nat Nat) :=
  [⟨101, .value 5 false⟩, ⟨102, .error 1⟩, ⟨103, .error 1⟩, ⟨104, .value 5 true⟩, ⟨105, .value 6 false⟩,
   ⟨120, .value 6 false⟩]

example : (run exO exE exHist).msgs.map (·.ve) = [.err 1, .val 5, .val 6, .val 6] := by decide
example : (run exO exE exHist).entry.ve = .val 6 := by decide
example : exE.readerror = none ∧ (announce exO exE 101 (.error 1)).entry.readerror ≠ none := by decide

/-- without `EqExact` the statement fails: if `!=` does not tell 5 and 7 apart, a read of 7 inside the window
replaces the cached 5 silently -/
theorem replay_eq_cache_needs_exact :
    ∃ (o : Oracle Nat Nat) (e : Entry Nat Nat) (evs : List (TEv Nat Nat)),
      replay e.ve ((run o e evs).msgs.map (·.ve)) ≠ (run o e evs).entry.ve ∧ ¬ EqExact o :=
  ⟨⟨fun _ _ => true, fun v => .ok v, fun v => .ok v⟩, exE, [⟨101, .value 7 false⟩], by decide,
    fun h => absurd (h 0 1 rfl) (by decide)⟩

/-- A store into the cache that does not go through the funnel (as `PersistentMixin.loadParameters` and the simulated
extra parameters did before their repair) breaks the statement — the cache changes, or leaves the error state, and no
message says so. -/
theorem load_parameters_fails :
    (∃ (e : Entry Nat Nat) (v : Nat), ¬ Reconstructs e.ve [⟨[], (poke e v).ve⟩]) ∧
    (∃ (e : Entry Nat Nat) (v : Nat), ¬ RecoveryAnnounced (fun s => s matches .err _) e.ve [⟨[], (poke e v).ve⟩]) :=
  ⟨⟨exE, 7, by simp [Reconstructs, replay, poke, Entry.ve, exE]⟩,
   ⟨⟨5, some 1, 100, 10⟩, 5, by simp [RecoveryAnnounced, poke, Entry.ve]⟩⟩

/-- source parameter 0 with two followers: the first assigns parameter 1 and then raises, the second hands the value
to parameter 2; the messages come in the order follower 1, follower 2, source -/
example : (announceM exO (catches Frappy.Generated.C05.callbackCaught) (fun _ => exE) 0 101 (.val 6)
      [⟨some ⟨1, 101, .val 6, []⟩, .other⟩, ⟨some ⟨2, 101, .val 7, [.typeError]⟩, .ok⟩]).msgs.map (fun m => (m.1, m.2.ve)) =
    [(1, .val 6), (2, .val 7), (0, .val 6)] := by decide

def exCfg : Cfg Nat Nat := ⟨exO, [1, 2], 1⟩
def exProgs : Tid → List (Op Nat Nat)
  | 0 => [.accAcquire, .announce 0 (.value 6 false) .absent, .accRelease]
  | 1 => [.announce 0 (.error 1) (.ticks 0)]
  | _ => []
def exInit : Pid → Entry Nat Nat := fun _ => exE
def exS0 : Sys Nat Nat := Sys.init exInit exProgs 101

/-- thread 0 takes the access lock and the update lock, thread 1 is blocked at `acquire` (its step is not
enabled) until thread 0 has notified both connections and released -/
def exSched : List Tid := List.replicate 14 0 ++ List.replicate 11 1 ++ [0]

example : (runSched exCfg exS0 exSched).map (fun s => ((s.logs 1 0).map (·.msg.ve), (s.logs 2 0).map (·.msg.ve),
    (s.entries 0).ve, s.lock)) = some ([.val 6, .err 1], [.val 6, .err 1], .err 1, none) := by decide
example : (runSched exCfg exS0 [0, 0, 1]).isNone = true := by decide
example : (runSched exCfg exS0 exSched).map (fun s => (doneBy 0 s.ghist, doneBy 1 s.ghist, s.ghist.map (·.tid))) =
    some ([(0, .val 6)], [(0, .err 1)], [0, 1]) := by decide

/-- the hypotheses of the concurrent theorems are satisfiable by a state with a non-trivial log -/
example : ∃ s, Reach exCfg exS0 s ∧ s.lock = none ∧ (s.logs 1 0).map (·.msg.ve) = [.val 6, .err 1] := by
  have hd : (runSched exCfg exS0 exSched).map (fun s => (s.lock, (s.logs 1 0).map (·.msg.ve))) =
      some (none, [.val 6, .err 1]) := by decide
  cases h : runSched exCfg exS0 exSched with
  | none => rw [h] at hd; cases hd
  | some s =>
    rw [h] at hd
    simp only [Option.map_some, Option.some.injEq, Prod.mk.injEq] at hd
    exact ⟨s, reach_of_runSched _ _ _ _ .start _ h, hd.1, hd.2⟩

end examples

end Frappy.Props.C05
