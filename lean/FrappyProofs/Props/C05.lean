import FrappyProofs.Lemmas.Update
/-
C05 — property theorems (nothing but property theorems and their non-vacuity examples).
-/
set_option linter.unusedSectionVars false
namespace Frappy.Props.C05
open Frappy.Update Frappy.Spec.C05

section sequential
variable {V E : Type} [DecidableEq E]

/-- Replaying the emitted messages over the initial value-or-error gives the cached value-or-error —
for every entry, every oracle under `EqExact`, every history of calls and clock readings. -/
theorem replay_eq_cache (o : Oracle V E) (h : EqExact o) (e : Entry V E) (evs : List (TEv V E)) :
    replay e.ve ((run o e evs).msgs.map (·.ve)) = (run o e evs).entry.ve := by
  unfold run
  generalize evs.map (TEv.resolve o) = xs
  induction xs generalizing e with
  | nil => simp [runR, replay]
  | cons x xs ih =>
    simp only [runR, List.map_append, replay_append, replay_toList]
    rw [← ih]
    congr 1
    rw [announceR_ve o h]

/-- … and this holds after every prefix of the history (the client never diverges from the cache). -/
theorem reconstructs (o : Oracle V E) (h : EqExact o) (e : Entry V E) (evs : List (TEv V E)) :
    Reconstructs e.ve ((trace o e evs).map obsOf) := by
  unfold trace
  generalize evs.map (TEv.resolve o) = xs
  induction xs generalizing e with
  | nil => simp [traceR, Reconstructs]
  | cons x xs ih =>
    simp only [traceR, List.map_cons, Reconstructs, obsOf, replay_toList]
    have hk := announceR_ve o h e x.now x.r
    constructor
    · rw [hk]
    · have := ih (announceR o e x.now x.r).entry
      rw [hk] at this
      exact this

/-- Every emitted message equals the entry's value-or-error (and time stamp) at its emission. -/
theorem never_phantom (o : Oracle V E) (e : Entry V E) (evs : List (TEv V E)) :
    NeverPhantom ((trace o e evs).map obsOf) ∧
    ∀ out ∈ trace o e evs, ∀ m, out.msg = some m → m = mkMsg out.entry := by
  unfold trace
  generalize evs.map (TEv.resolve o) = xs
  induction xs generalizing e with
  | nil => simp [traceR, NeverPhantom]
  | cons x xs ih =>
    have ih' := ih (announceR o e x.now x.r).entry
    constructor
    · intro ob hob m hm
      simp only [traceR, List.map_cons, List.mem_cons] at hob
      rcases hob with rfl | hob
      · simp only [obsOf, List.mem_map, Option.mem_toList] at hm
        obtain ⟨m', hm', rfl⟩ := hm
        have := (announceR_msg o e x.now x.r m' hm').1
        rw [this]; rfl
      · exact ih'.1 ob hob m hm
    · intro out hout m hm
      simp only [traceR, List.mem_cons] at hout
      rcases hout with rfl | hout
      · exact (announceR_msg o e x.now x.r m hm).1
      · exact ih'.2 out hout m hm

/-- The message list is the subsequence of cache changes, in order: it contains every change of the cache
and is itself a subsequence of the states the cache went through. -/
theorem order_preserved [DecidableEq V] (o : Oracle V E) (h : EqExact o) (e : Entry V E) (evs : List (TEv V E)) :
    OrderPreserved e.ve ((trace o e evs).map obsOf) := by
  unfold trace
  generalize evs.map (TEv.resolve o) = xs
  induction xs generalizing e with
  | nil => simp [traceR, OrderPreserved, states, allMsgs, changes]
  | cons x xs ih =>
    have ih' := ih (announceR o e x.now x.r).entry
    have hk := announceR_ve o h e x.now x.r
    simp only [OrderPreserved, traceR, List.map_cons, states, allMsgs, List.flatMap_cons, obsOf, changes] at ih' ⊢
    cases hm : (announceR o e x.now x.r).msg with
    | none =>
      rw [hm] at hk
      simp only [hk, if_true, Option.toList_none, List.map_nil, List.nil_append]
      rw [hk] at ih'
      exact ⟨ih'.1, List.Sublist.cons _ ih'.2⟩
    | some m =>
      rw [hm] at hk
      simp only at hk
      simp only [Option.toList_some, List.map_cons, List.map_nil, List.singleton_append]
      rw [← hk]
      constructor
      · split
        · rename_i heq
          rw [← heq]
          exact List.Sublist.cons _ ih'.1
        · exact List.Sublist.cons_cons _ ih'.1
      · exact List.Sublist.cons_cons _ ih'.2

/-- An entry in error announces every successful update, even if the value equals the cached one
and the omit window is still open. -/
theorem recovery_announced (o : Oracle V E) (e : Entry V E) (now : Int) (ev : Ev V E) (v : V)
    (herr : e.readerror ≠ none) (hok : resolve o ev = .val v) :
    ∃ m, (announce o e now ev).msg = some m ∧ m.ve = .val v := by
  obtain ⟨x, hx⟩ := Option.ne_none_iff_exists'.1 herr
  unfold announce announceR
  rw [hok, decide_recovery o e now v x hx]
  simp [mkMsg]

/-- the same over whole histories, in the words of the specification -/
theorem recovery_announced_trace (o : Oracle V E) (h : EqExact o) (isErr : VE V E → Bool)
    (e : Entry V E) (evs : List (TEv V E)) :
    RecoveryAnnounced isErr e.ve ((trace o e evs).map obsOf) := by
  unfold trace
  generalize evs.map (TEv.resolve o) = xs
  induction xs generalizing e with
  | nil => simp [traceR, RecoveryAnnounced]
  | cons x xs ih =>
    simp only [traceR, List.map_cons, RecoveryAnnounced]
    refine ⟨?_, ih _⟩
    intro h1 h2
    have hk := announceR_ve o h e x.now x.r
    simp only [obsOf] at h2 ⊢
    cases hm : (announceR o e x.now x.r).msg with
    | some m => simp
    | none =>
      rw [hm] at hk
      simp only at hk
      rw [hk, h1] at h2
      exact absurd h2 (by simp)

/-- A change of the value (as Python compares it) and a new or different error are always announced. -/
theorem change_announced (o : Oracle V E) (e : Entry V E) (now : Int) :
    (∀ v, o.veq e.value v = false → (announceR o e now (.val v)).msg ≠ none) ∧
    (∀ x, e.readerror ≠ some x → (announceR o e now (.err x)).msg ≠ none) := by
  constructor
  · intro v hv; unfold announceR; rw [decide_changed o e now v hv]; simp
  · intro x hx; unfold announceR; rw [decide_error o e now x hx]; simp

end sequential

end Frappy.Props.C05
