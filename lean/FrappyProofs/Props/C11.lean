import FrappyProofs.Lemmas.Match
import FrappyProofs.Lemmas.MatchAcc
import FrappyProofs.Lemmas.Timed
import FrappyProofs.Lemmas.Shutdown
import FrappyProofs.Lemmas.Conn
import FrappyProofs.Lemmas.ReconnectInv
import FrappyProofs.Lemmas.ReconnectQuiet
import FrappyModel.Generated.C11
/-
C11 — property theorems (nothing but property theorems and their non-vacuity examples).

`Reachable tbl true s`  : `s` is a state of the model of the repaired client (request lock respected) after any
                          sequence of thread / peer actions — any number of callers, any requests, any reply order,
                          any interleaving, disconnects at any point.
`Reachable tbl false s` : the same without the lock (the client before the repair).
-/
namespace Frappy.Props.C11
open Frappy.Client.Match Frappy.Spec.C11 Frappy.Generated.C11

/-! ## Table facts (re-checked against the generated table on every run) -/

/-- `REQUEST2REPLY` is injective: an `error_<request>` line and a reply action map back to exactly one request action -/
theorem table_injective : TableInj request2reply :=
  tableInj_of_nodup (by decide +kernel)

/-- no reply action starts with `error_`: the first look-up of the rx thread (`(action, ident)` as it stands) can never
hit for an error line, which is how the model treats error lines -/
theorem table_no_error_reply : request2reply.all (fun p => !p.2.startsWith errorPrefix) = true := by
  decide +kernel

/-- the replies the rx thread also feeds to the cache are replies of the table or `update`-class messages -/
theorem table_update_messages :
    updateMessages.all (fun m => m == eventReply || m.startsWith errorPrefix
      || (request2reply.map (·.2)).contains m) = true := by
  decide +kernel

/-! ## reply_matches -/

section
variable {α : Type} [DecidableEq α]

/-- The full statement: every caller whose event is set with a reply got the reply that answers its own request
(known action: same specifier and the reply action / `error_` + request action; unknown action: the line the peer sent
in response to it). -/
def reply_matches_statement (tbl : List (α × α)) : Prop :=
  TableInj tbl → ∀ s : St α, Reachable tbl true s → ReplyMatches tbl s

/-- Proved part: for requests of actions the client knows, in every reachable state, for every injective table.
Missing: requests of unknown actions (key `None`), see `reply_matches_fails`. -/
theorem reply_matches_partial (tbl : List (α × α)) (hinj : TableInj tbl) (s : St α)
    (h : Reachable tbl true s) : ReplyMatchesKnown tbl s :=
  (reachable_inv hinj h).ans

/-- … and no received line is handed to two callers, each handed line was sent by the peer. -/
theorem no_double_delivery (tbl : List (α × α)) (hinj : TableInj tbl) (s : St α)
    (h : Reachable tbl true s) :
    NoDoubleDelivery s ∧ ∀ p ∈ s.delivered, p.2.seq < s.nextSeq := by
  have hs := (reachable_inv hinj h).seqs
  constructor
  · unfold NoDoubleDelivery
    rw [List.nodup_iff_count]
    intro n
    have := (hs n).1
    simp only [seqList, List.count_append] at this
    omega
  · intro p hp
    have h2 := (hs p.2.seq).2
    have hc : 0 < (seqList s).count p.2.seq := by
      apply List.count_pos_iff.2
      simp only [seqList, List.mem_append, List.mem_map]
      exact Or.inl ⟨p, hp, rfl⟩
    cases Nat.lt_or_ge p.2.seq s.nextSeq with
    | inl h => exact h
    | inr h => have := h2 h; omega

/-- A request is never left parked with its key free (repaired client). -/
theorem no_parking (tbl : List (α × α)) (hinj : TableInj tbl) (s : St α) (h : Reachable tbl true s) :
    NoParking tbl s :=
  (reachable_inv hinj h).park

end

/-- `reply_matches` for the table of the repository -/
theorem reply_matches_frappy (s : St String) (h : Reachable request2reply true s) :
    ReplyMatchesKnown request2reply s :=
  reply_matches_partial _ table_injective s h

theorem no_parking_frappy (s : St String) (h : Reachable request2reply true s) : NoParking request2reply s :=
  no_parking _ table_injective s h

/-- **no spurious wake-up** (every table, with or without the request lock, every interleaving): in every reachable
state, as long as no shutdown / loss of the connection has begun, no caller's event has been set without a reply and no
entry is held for that - so no caller can leave `get_reply` with "connection closed before reply" on a healthy
connection.  The model gives every entry a wake-up of its own (`rxSetEvent` delivers to the popped entry, `closeSet i` /
`selfRelease i` name the entry); an implementation that shares an event between two entries of one thread is not a
refinement of it, and the monitor (`judgeCaller`: `spuriousConnError`, judged at the state in which the caller
returned) reports the run. -/
theorem no_spurious_release {α : Type} [DecidableEq α] (tbl : List (α × α)) (locked : Bool) (s : St α)
    (h : Reachable tbl locked s) : NoSpuriousRelease s :=
  reachable_noSpur h

/-! ### counter-traces (proved on the model with the repository's table) -/

def rd (sp : String) : Req String := ⟨"read", some sp⟩

/-- F21: an unknown-action request `xyz m:p` is transmitted; an `update x:y` for a parameter the client does not know
arrives; the rx thread tries it on key `None` and hands it to the caller. -/
def traceF21 : List (Label String) :=
  [.put ⟨"xyz", some "m:p"⟩, .txGet, .txTest false, .txApply, .txSend,
   .peerEmit false "update" (some "x:y") false none, .rxRead, .rxMatch (some 0) [], .rxSetEvent]

theorem reply_matches_fails : ¬ reply_matches_statement request2reply := by
  intro h
  have hc : checkRun request2reply true traceF21 (fun s => !replyMatchesB request2reply s) = true := by
    decide +kernel
  obtain ⟨s, hr, hp⟩ := checkRun_spec hc
  have := (replyMatchesB_iff request2reply s).2 (h table_injective s hr)
  simp [this] at hp

/-- a reply is handed over only after the request it answers was transmitted: false, and no client of this protocol
can guarantee it (replies carry no request id): the entry is filed before the frame is sent, and a line that was
already on its way is indistinguishable from the answer. -/
def reply_fresh_statement (tbl : List (String × String)) : Prop :=
  ∀ s : St String, Reachable tbl true s → ReplyFresh s

def traceStale : List (Label String) :=
  [.put (rd "m:p"), .txGet, .txTest false, .txApply,
   .peerEmit false "reply" (some "m:p") false none, .rxRead, .rxMatch (some 0) [], .rxSetEvent]

theorem reply_fresh_fails : ¬ reply_fresh_statement request2reply := by
  intro h
  have hc : checkRun request2reply true traceStale (fun s => !decide (ReplyFresh s)) = true := by
    decide +kernel
  obtain ⟨s, hr, hp⟩ := checkRun_spec hc
  have := h s hr
  simp [this] at hp

/-- F19, the client before the repair (`locked := false`): the tx thread tests the key of the second request (busy),
the rx thread handles the reply of the first one (pop, requeue nothing), then the tx thread parks the second request —
parked with its key free. -/
def traceF19 : List (Label String) :=
  [.put (rd "m:p"), .put (rd "m:p"), .txGet, .txTest false, .txApply, .txSend, .txGet, .txTest true,
   .peerEmit false "reply" (some "m:p") false (some 0), .rxRead, .rxMatch (some 0) [], .rxSetEvent, .txApply]

theorem no_parking_unlocked_fails :
    ∃ s : St String, Reachable request2reply false s ∧ ¬ NoParking request2reply s := by
  have hc : checkRun request2reply false traceF19 (fun s => !noParkingB request2reply s) = true := by
    decide +kernel
  obtain ⟨s, hr, hp⟩ := checkRun_spec hc
  refine ⟨s, hr, fun h => ?_⟩
  have := (noParkingB_iff request2reply s).2 h
  simp [this] at hp

/-- the repaired client cannot take that path: `rxMatch` is not enabled while the tx thread holds the lock -/
theorem traceF19_refused : refusedAt request2reply true traceF19 = some 10 := by
  decide +kernel

/-! ## no_lost_request -/

section
variable {α : Type} [DecidableEq α]

/-- No request is lost, and `active_requests` never holds two entries under one key: in every reachable state of the
repaired client every request a caller has queued is still queued, held by the tx thread, parked, filed, popped by the
rx thread (about to be delivered or requeued) or taken by a `disconnect` — or its caller has been answered, released
or has run into its time-out.  In particular the clean-up of a timed-out request removes that request only (the
rx thread searches `active_requests` by identity), never the request of another caller filed under the same key.
Any table, any number of callers, any interleaving. -/
theorem no_lost_request (tbl : List (α × α)) (s : St α) (h : Reachable tbl true s) :
    NoLostRequest s ∧ (s.active.map (·.1)).Nodup :=
  ⟨(reachable_acc h).acc, (reachable_acc h).nodup⟩

end

/-- non-vacuity: request 0 is filed and never answered, request 1 (same key) is parked behind it; 0 times out, the
clean-up removes 0 — and only 0 — and requeues 1, which is then transmitted -/
example : checkRun request2reply true
    [.put (rd "m:p"), .put (rd "m:p"), .txGet, .txTest false, .txApply, .txSend, .txGet, .txTest true, .txApply,
     .timeout 0, .rxCleanPop, .rxCleanup (some 0) [1], .rxRequeue, .txGet, .txTest false, .txApply, .txSend]
    (fun s => noLostB s && s.nextId == 2 && s.active.map (·.2.id) == [1] && s.timedOut == [0]
      && s.wireOut.map (·.id) == [0, 1]) = true := by
  decide +kernel

/-- what the monitor sees when a clean-up goes by key instead of by identity: request 0 times out, its late reply is
still handed over, request 1 (same key) is filed, and then the clean-up of 0 pops the entry of 1.  The model refuses
that label (index 16), and in the observed state after it request 1 is lost: nowhere in the client, its caller still
waiting. -/
def traceCleanupByKey : List (Label String) :=
  [.put (rd "m:p"), .txGet, .txTest false, .txApply, .txSend, .timeout 0,
   .peerEmit false "reply" (some "m:p") false (some 0), .rxRead, .rxMatch (some 0) [], .rxSetEvent,
   .put (rd "m:p"), .txGet, .txTest false, .txApply, .txSend, .rxCleanPop, .rxCleanup (some 1) []]

example : refusedAt request2reply true traceCleanupByKey = some 16
    ∧ firstLost (observe request2reply {} traceCleanupByKey) 0 = some 17 := by
  decide +kernel

/-! ## disconnect_releases_all -/

section
variable {α : Type} [DecidableEq α]

/-- From every reachable state in which the tx thread does not hold the request lock and no other `disconnect` is half
way, a `disconnect()` that runs alone (`drainLabels`: flag, drain `txq`, pop every item of `active_requests`, drain
`pending`, set every event) can run to its end — every one of its actions is enabled in turn — and afterwards nothing
is queued, filed or parked and every request that was has its event set.  Interleavings of several concurrent
`disconnect`s with running workers are covered by the monitors (`notReleased`), not by this theorem. -/
theorem disconnect_releases_all (tbl : List (α × α)) (s : St α) (_h : Reachable tbl true s)
    (ht : s.txTest = none) (hr : s.relHold = []) :
    ∃ s', run tbl true s (drainLabels s) 0 = .ok s' ∧
      AllReleased s' ((s.txq ++ s.active.map (·.2) ++ s.pending).map (·.id)) :=
  drain_all s ht hr

end

section
variable {α : Type} [DecidableEq α]

/-- … and then nobody is left waiting: with `no_lost_request`, after that `disconnect()` *every* request ever queued —
not only those found in the three containers — has its caller answered, released or timed out.  (Hypotheses: the
workers hold nothing at that moment — no entry between `txq` and filing, none between `active_requests` and its
event, none between `pending` and `txq`; what they hold otherwise is released by `disconnect()`'s final drain, which
the shutdown model covers.) -/
theorem disconnect_leaves_nobody_waiting (tbl : List (α × α)) (s : St α) (h : Reachable tbl true s)
    (ht : s.txTest = none) (hr : s.relHold = []) (h1 : s.txHold = none) (h2 : s.rxSet = none) (h3 : s.rxHold = []) :
    ∃ s', run tbl true s (drainLabels s) 0 = .ok s' ∧
      ∀ i, i < s'.nextId → i ∈ s'.delivered.map (·.1.id) ∨ i ∈ s'.released ∨ i ∈ s'.timedOut := by
  obtain ⟨s', hrun, hall⟩ := drain_all (tbl := tbl) (locked := true) s ht hr
  refine ⟨s', hrun, ?_⟩
  have hreach := reachable_of_run (drainLabels s) s s' 0 h hrun
  have hacc := (reachable_acc hreach).acc
  have hk := run_close_kept (drainLabels s) s s' 0 (drainLabels_close s) hrun
  obtain ⟨ha, hp, hq, hrel, _⟩ := hall
  intro i hi
  have := hacc i hi
  simp only [whereabouts, ha, hp, hq, hrel, hk.txHold, hk.rxSet, hk.rxHold, h1, h2, h3, List.map_nil,
    Option.toList_none, List.nil_append, List.mem_append] at this
  exact this

end

/-- non-vacuity of `disconnect_leaves_nobody_waiting`: its hypotheses hold in a state with a filed (and timed-out), a
parked and a queued request, and afterwards all three callers are accounted for -/
example : checkRun request2reply true
    [.put (rd "m:p"), .put (rd "m:p"), .put (rd "m:q"), .txGet, .txTest false, .txApply, .txSend, .txGet, .txTest true,
     .txApply, .timeout 0]
    (fun s => s.txTest.isNone && s.relHold.isEmpty && s.txHold.isNone && s.rxSet.isNone && s.rxHold.isEmpty
      && s.nextId == 3 && s.active.length == 1 && s.pending.length == 1 && s.txq.length == 1 &&
      match run request2reply true s (drainLabels s) 0 with
      | .ok s' => [0, 1, 2].all (fun i => s'.released.contains i || s'.timedOut.contains i)
      | .error _ => false) = true := by
  decide +kernel

/-- non-vacuity: a concrete reachable state with one request filed and transmitted, one parked, one queued -/
example : checkRun request2reply true
    [.put (rd "m:p"), .put (rd "m:p"), .put (rd "m:q"), .txGet, .txTest false, .txApply, .txSend, .txGet, .txTest true, .txApply]
    (fun s => match run request2reply true s (drainLabels s) 0 with
      | .ok s' => s'.active.isEmpty && s'.pending.isEmpty && s'.txq.isEmpty && s'.relHold.isEmpty
                    && [0, 1, 2].all (fun i => s'.released.contains i) && s.active.length == 1 && s.pending.length == 1
      | .error _ => false) = true := by
  decide +kernel

/-! ## wait_bounded -/

section
open Frappy.Client.Timed
variable {α : Type} [DecidableEq α]

/-- No caller waits longer than its time-out.  In every reachable state of the timed model — any callers, any
requests, any behaviour of the tx / rx / disconnecting threads and of the peer, any time steps that respect the
callers' own timers (`tick` is not enabled past the deadline of a blocked caller: the fairness assumption, on the
callers only) — every caller has returned or raised by `t_put + put time-out + reply time-out`, and a caller still
inside `request()` is within that bound. -/
theorem wait_bounded (cfg : Cfg) (tbl : List (α × α)) (s : TSt α) (h : TReachable cfg tbl s) :
    WaitBounded cfg s := by
  intro c hc
  have hg := treachable_inv h c hc
  unfold good at hg
  cases hp : c.phase <;> simp only [hp] at hg ⊢ <;> omega

/-- the untimed theorems hold along every timed run -/
theorem timed_run_matches (cfg : Cfg) (tbl : List (α × α)) (hinj : TableInj tbl) (s : TSt α)
    (h : TReachable cfg tbl s) :
    ReplyMatchesKnown tbl s.base ∧ NoDoubleDelivery s.base ∧ NoParking tbl s.base :=
  ⟨reply_matches_partial tbl hinj _ (treachable_base h), (no_double_delivery tbl hinj _ (treachable_base h)).1,
   no_parking tbl hinj _ (treachable_base h)⟩

end

/-- the time-outs and the queue size of the repository -/
def frappyCfg : Frappy.Client.Timed.Cfg := ⟨putTimeoutMs, waitTimeoutMs, queueSizes.headD 0⟩

/-- the configured time-outs add up to 13 s -/
theorem frappy_timeouts : frappyCfg.putMs + frappyCfg.waitMs = 13000 := by
  have h1 : frappyCfg.putMs = 3000 := rfl
  have h2 : frappyCfg.waitMs = 10000 := rfl
  omega

/-- every caller of the real configuration returns within 13 s of its call -/
theorem wait_bounded_frappy (s : Frappy.Client.Timed.TSt String)
    (h : Frappy.Client.Timed.TReachable frappyCfg request2reply s) :
    ∀ c ∈ s.callers, match c.phase with
      | .done tEnd _ => tEnd ≤ c.tPut + 13000
      | _ => s.now ≤ c.tPut + 13000 := by
  intro c hc
  have hb := wait_bounded frappyCfg request2reply s h c hc
  have h13 := frappy_timeouts
  cases hp : c.phase <;> simp only [hp] at hb ⊢ <;> omega

open Frappy.Client.Timed in
/-- non-vacuity: caller 0 is answered after 200 ms; caller 1 (same key, parked) is never answered and times out
exactly 10 s after its put; the clock cannot be advanced past that deadline while it is still waiting. -/
example :
    (match trun frappyCfg request2reply {} [
        .begin 0 (rd "m:p"), .put 0, .tick 5, .begin 1 (rd "m:p"), .put 1,
        .base .txGet, .base (.txTest false), .base .txApply, .base .txSend,
        .base .txGet, .base (.txTest true), .base .txApply,
        .tick 200, .base (.peerEmit false "reply" (some "m:p") false (some 0)), .base .rxRead,
        .base (.rxMatch (some 0) [1]), .base .rxSetEvent, .wake 0, .base .rxRequeue,
        .tick 9800] with
      | some s => (s.callers.map (fun c => (c.cid, c.phase)) == [(1, .waiting 1 5), (0, .done 205 true)])
                  && (tstep frappyCfg request2reply s (.tick 1)).isNone
                  && (match tstep frappyCfg request2reply s (.timeout 1) with
                      | some s' => s'.callers.map (fun c => (c.cid, c.phase)) == [(1, .done 10005 false), (0, .done 205 true)]
                      | none => false)
      | none => false) = true := by
  decide +kernel

/-! ## shutdown_terminates -/

section
open Frappy.Client.Shutdown

/-- The join order is safe: in no reachable state of the shutdown protocol does the tx thread wait for the rx thread
while the rx thread waits for the tx thread, and no worker ever waits for itself — any number of user threads calling
`disconnect()`, the peer dropping the connection, failing sends, callers queueing requests, in any interleaving. -/
theorem no_join_cycle (s : Sh) (h : Frappy.Client.Shutdown.Reachable s) : ¬ JoinCycle s ∧ ¬ SelfJoin s := by
  have inv := Frappy.Client.Shutdown.reachable_inv h
  constructor
  · intro hc; exact inv.d ⟨Or.inl hc.1, Or.inr (Or.inl hc.2)⟩
  · intro hc
    rcases hc with hc | hc
    · exact inv.c1.2.1 hc
    · exact inv.c2.1 hc

/-- The shutdown completes: from every reachable state in which a shutdown has been requested — by a user, by the
peer (the rx thread sees the closed connection), by a failing send, or by several of them at once — some worker or
disconnecting thread can take a step as long as not all of them have finished; there is no join cycle; and no step can
raise, because every `join` / `shutdown` / `disconnect` is applied to the reference read at `d3` / `d7` / `d2`
(the model has no other way to take these steps).
Scope: the tx thread, the rx thread and the threads inside `disconnect()`; the reconnect thread and `connect()` are not
part of this model (they are exercised by the harness only). -/
theorem shutdown_terminates (s : Sh) (h : Frappy.Client.Shutdown.Reachable s) :
    ShutdownProgress s ∧ ¬ JoinCycle s ∧ ¬ SelfJoin s :=
  ⟨fun hr hnd => Frappy.Client.Shutdown.progress (Frappy.Client.Shutdown.reachable_inv h) hr hnd, (no_join_cycle s h).1, (no_join_cycle s h).2⟩

/-- non-vacuity, user-initiated: a request is queued, a user calls `disconnect()`; the threads run to the end -/
example : (Frappy.Client.Shutdown.run {} [.put, .tx false, .tx false, .userBegin]).map
    (fun s => allDone (runGreedy 200 s) && !allDone s && !s.running) = some true := by
  decide +kernel

/-- peer-initiated: the peer drops the connection, the rx thread notices it and tears the client down -/
example : (Frappy.Client.Shutdown.run {} [.put, .rx false, .drop, .rx true]).map
    (fun s => allDone (runGreedy 200 s) && !allDone s && s.running) = some true := by
  decide +kernel

/-- both at once, plus a second user thread: while the rx thread (peer drop) is inside its `disconnect(False)` two
users call `disconnect()` -/
example : (Frappy.Client.Shutdown.run {} [.rx false, .drop, .rx true, .rx false, .rx false, .userBegin, .user .d1, .userBegin,
      .rx false, .user .d2, .user .d3, .user .d4]).map
    (fun s => allDone (runGreedy 300 s) && !allDone s) = some true := by
  decide +kernel

end

/-! ## the connection object -/

section
open Frappy.Client.Conn

/-- What the client relies on holds for the model of `AsynTcp`, for every order of calls by the client's threads and
every behaviour of the peer (lines, orderly close, reset — at any point): `shutdown()` and `disconnect()` never raise;
`readline()` raises nothing but `ConnectionClosed`, that only on an ended connection, returns only the next unread line
the peer sent, and on a dead connection does raise `ConnectionClosed`; `send()` after `shutdown()` fails.
(The tie of this model to the code is the replay of real `AsynTcp` objects on loopback sockets, and of the scripted
`FakeConn` the scheduler runs use, on `Conn.run`.) -/
theorem conn_contract (evs : List Ev) (s : St) (h : Frappy.Client.Conn.run {} evs 0 = .ok s) : ConnContract evs :=
  contract_of_run evs {} s {} 0 rel_init h

/-- non-vacuity: the peer sends a line and resets the connection; the line is still read, then `ConnectionClosed`;
`shutdown()` on the dead socket returns, sending fails, `disconnect()` and a second `shutdown()` return -/
example : (match Frappy.Client.Conn.run {} [.peerSend, .peerRst, .call .readline (.line 0), .call .readline .closed,
      .call .shutdown .ok, .call .send .connErr, .call .disconnect .ok, .call .shutdown .ok] 0 with
    | .ok s => s.gone && s.eof && s.read == 1
    | .error _ => false) = true := by
  decide

/-- the monitor is sensitive to what it is there for: a `shutdown()` that raises on a reset connection is not a trace
of the model and breaks the contract at that call -/
example : (match Frappy.Client.Conn.run {} [.peerRst, .call .readline .closed, .call .shutdown (.otherErr "OSError")] 0 with
      | .error i => i == 2
      | .ok _ => false) = true
    ∧ connFirstBad {} [.peerRst, .call .readline .closed, .call .shutdown (.otherErr "OSError")] 0 = some 2 := by
  decide

/-- **no line is lost, garbled or reordered by the framing**: along every trace of the connection model - the peer's
lines arriving whole or in segments (`peerPart`) with `readline` calls returning `None` in between, i.e. with pauses
longer than the inter-byte time-out - the lines `readline` hands out are exactly the first `read` lines the peer sent,
in order, and never more than were sent. -/
theorem lines_in_order (evs : List Ev) (s : St) (h : Frappy.Client.Conn.run {} evs 0 = .ok s) :
    linesOf evs = List.range s.read ∧ s.read ≤ s.sent := by
  have h1 := (Frappy.Client.Conn.lines_in_order_from evs {} s 0 h).2
  refine ⟨by simpa [List.range_eq_range'] using h1, ?_⟩
  obtain ⟨_, hr⟩ := Frappy.Client.Conn.rel_of_run evs {} s {} 0 Frappy.Client.Conn.rel_init h
  exact hr.le

/-- non-vacuity: a line arrives in two segments with an idle `readline` in between (the pause exceeds the inter-byte
time-out), then a second line in three segments; both are handed out whole and in order -/
example : (match Frappy.Client.Conn.run {} [.peerPart, .call .readline .nothing, .call .readline .nothing, .peerSend,
      .call .readline (.line 0), .peerPart, .call .readline .nothing, .peerPart, .peerSend, .call .readline (.line 1),
      .call .readline .nothing] 0 with
    | .ok s => s.read == 2 && s.sent == 2 && !s.part
    | .error _ => false) = true
    ∧ connFirstBad {} [.peerPart, .call .readline .nothing, .peerSend, .call .readline (.line 0)] 0 = none := by
  decide

/-- sensitivity: a `readline` that forgets the first segment hands out the tail as a line the peer never sent - refused by
the model and a breach of the contract at that call; one that swallows the whole line and goes on returning `None`
is refused and flagged as well (a complete line is waiting) -/
example :
    connFirstBad {} [.peerPart, .call .readline .nothing, .peerSend, .call .readline (.otherErr "unknown line")] 0 = some 3
    ∧ (match Frappy.Client.Conn.run {} [.peerPart, .call .readline .nothing, .peerSend,
          .call .readline (.otherErr "unknown line")] 0 with | .error i => i == 3 | .ok _ => false) = true
    ∧ connFirstBad {} [.peerPart, .call .readline .nothing, .peerSend, .call .readline .nothing] 0 = some 3
    ∧ (match Frappy.Client.Conn.run {} [.peerPart, .call .readline .nothing, .peerSend, .call .readline .nothing] 0 with
        | .error i => i == 3 | .ok _ => false) = true := by
  decide

end

/-! ## the life cycle across connections: connect(), reconnect threads, disconnect() -/

section
open Frappy.Client.Reconnect

/-- The full statement for the shutdown clauses on the life-cycle model: while the shutdown request of a user's
`disconnect()` that has returned stands, the client is not connected, nobody is about to connect, and no worker thread is
left in its loop. -/
def shutdown_final_statement (cfg : Cfg) : Prop :=
  ∀ s : St, Reachable cfg s → StaysShutDown s ∧ WorkersRunOut cfg s

/-- Proved part (repaired client: `disconnect(True)` waits for every registered reconnect thread): in every reachable
state — any number of user threads calling `disconnect()` and `request()`, any number of connections made, refused and
lost, any number of reconnect threads, any interleaving — while the shutdown request of a returned user `disconnect()`
stands, `self.io` is `None` and no thread is past the test of the flag inside `connect()`: no connection exists and none
can come into being until a user asks for one.
Missing for the full statement: `WorkersRunOut` and the termination of `disconnect()` itself — liveness properties of the
threads that are still on their way out (`marker_eaten_hangs` shows what they rule out); the invariant one would like
instead, "no worker in its loop once the `disconnect()` has returned", is false (`no_worker_in_loop_fails`). -/
theorem shutdown_final_partial (cfg : Cfg) (hj : cfg.joinAll = true) (s : St) (h : Reachable cfg s) :
    StaysShutDown s := by
  intro u U hU _ hpc hs
  have inv := reachable_inv hj h
  refine ⟨(inv.io u U hU hs).2 (by simp [hpc, isP2]), fun i t ht => ?_⟩
  cases hw : inWindow t
  · rfl
  · have := covered_isJ (inv.win u U i t hU hs ht hw).2
    simp [hpc, isJ] at this

/-- Why the worker clause is about what happens *after* the return: connection 0 is lost, a request (thread 3) connects
anew and has assigned `self.io` when a user calls `disconnect()` (thread 4), which finds no worker registered, clears
`self.io` and returns — its request stands; the request's `connect()` then registers and releases its workers. -/
theorem no_worker_in_loop_fails : ∃ s : St, Reachable {} s ∧ StaysShutDown s ∧ ¬ NoWorkerInLoop s := by
  have hc : (exec {} {} [.act (.drop 0), .act (.th 1 1), .to 1 .d5, .to 0 .done, .to 1 .done, .act .newReq, .to 3 .c8,
        .act .newDisc, .to 4 .s4, .to 2 .done, .to 4 .done, .to 3 .c12]).map (fun s =>
      (s.th[4]?.map (fun U => U.kind == .userDisc && U.pc == .done && standing s U)) == some true
        && (s.th[5]?.map inLoop) == some true) = some true := by decide +kernel
  cases he : exec {} {} [.act (.drop 0), .act (.th 1 1), .to 1 .d5, .to 0 .done, .to 1 .done, .act .newReq, .to 3 .c8,
        .act .newDisc, .to 4 .s4, .to 2 .done, .to 4 .done, .to 3 .c12] with
  | none => rw [he] at hc; cases hc
  | some s =>
    rw [he] at hc
    have hr := exec_reachable Reachable.init he
    refine ⟨s, hr, shutdown_final_partial {} rfl s hr, fun hn => ?_⟩
    simp only [Option.map_some, Option.some.injEq, Bool.and_eq_true, beq_iff_eq] at hc
    cases hU : s.th[4]? with
    | none => rw [hU] at hc; simp at hc
    | some U =>
      cases hT : s.th[5]? with
      | none => rw [hT] at hc; simp at hc
      | some T =>
        rw [hU, hT] at hc
        simp only [Option.map_some, Option.some.injEq, Bool.and_eq_true, beq_iff_eq] at hc
        have := hn 4 U hU hc.1.1.1 hc.1.1.2 hc.1.2 5 T hT
        rw [this] at hc
        simp at hc

/-- The reconnect threads never revoke a shutdown request (any configuration, any reachable state). -/
theorem reconnect_never_revokes (cfg : Cfg) (hj : cfg.joinAll = true) (s : St) (h : Reachable cfg s) :
    ReconnectKeepsFlag s := by
  intro i t ht hk hpc
  have := ((reachable_inv hj h).reg i t ht hk).2 (by simp [hpc, regPc, cPc])
  simpa using this

/-- The client before `9008084` (`joinAll := false`: `disconnect(True)` cancels and joins the latest reconnect thread
only).  Connection 0 breaks: reconnect thread 2.  A request connects anew (connection 1), that breaks too: reconnect
thread 6, now `_connthread`.  Thread 2 enters `connect()` and passes the test of the flag.  A user calls `disconnect()`:
it sets the flag, cancels and joins thread 6 and returns — its request stands.  Thread 2 then establishes connection 2. -/
def cfgLatestOnly : Cfg := { joinAll := false }

def traceOlderReconnect : List Cmd := [
  .act (.drop 0), .act (.th 1 1), .to 1 .d5, .to 0 .done, .to 1 .done,
  .act .newReq, .to 3 .done,
  .act (.drop 1), .to 4 .rread, .act (.th 4 1), .to 4 .d5, .to 5 .done, .to 4 .done,
  .to 2 .c6,
  .act .newDisc, .to 7 .s4, .to 6 .done, .to 7 .done,
  .to 2 .done ]

theorem older_reconnect_connects_after_shutdown :
    ∃ s : St, Reachable cfgLatestOnly s ∧ ¬ StaysShutDown s := by
  have hc : (exec cfgLatestOnly {} traceOlderReconnect).map (fun s =>
      (s.th[7]?.map (fun U => U.kind == .userDisc && U.pc == .done && standing s U)) == some true && s.io == some 2)
      = some true := by decide +kernel
  cases he : exec cfgLatestOnly {} traceOlderReconnect with
  | none => rw [he] at hc; cases hc
  | some s =>
    rw [he] at hc
    refine ⟨s, exec_reachable Reachable.init he, fun hst => ?_⟩
    simp only [Option.map_some, Option.some.injEq, Bool.and_eq_true, beq_iff_eq] at hc
    cases hU : s.th[7]? with
    | none => rw [hU] at hc; simp at hc
    | some U =>
      rw [hU] at hc
      simp only [Option.map_some, Option.some.injEq, Bool.and_eq_true, beq_iff_eq] at hc
      have := (hst 7 U hU hc.1.1.1 hc.1.1.2 hc.1.2).1
      rw [this] at hc
      simp at hc

/-- the repaired client in the same situation: the user's `disconnect()` also waits for thread 2, which connects
(connection 2, workers 8 and 9); the `disconnect()` then tears that connection down; in the end nothing is left -/
example : (exec {} {} (traceOlderReconnect.take 15 ++
      [.to 7 .s4, .to 6 .done, .to 7 .s8, .to 2 .done, .to 7 .d5, .to 9 .d8, .to 8 .done, .to 9 .done,
       .to 7 .done])).map
    (fun s => s.io == none && workersAlive s == [] && (s.th[7]?.map (fun U => U.pc == .done && standing s U)) == some true)
    = some true := by
  decide +kernel

/-- The client before `a051020` (`keepMarker := false`: the final drain of `disconnect()` swallows a shutdown marker).
A send fails: the tx thread 0 runs `disconnect(False)` and waits for the rx thread.  A user (thread 3) calls
`disconnect()` and gets as far as shutting down connection 0.  The rx thread ends and clears `self.io`.  The tx thread
goes on to just before its final drain.  A request (thread 4) connects anew: queue 1, connection 1, rx 5, tx 6; tx 6
serves the two requests and blocks in `txq.get()`.  The user's `disconnect()` reads `_txthread` = 6, puts its marker into
queue 1 and waits for thread 6.  The old tx thread's final drain takes queue 1 and swallows the marker. -/
def cfgSwallow : Cfg := { keepMarker := false, activate := false }

def traceMarkerEaten : List Cmd := [
  .act .newReq, .to 2 .done, .to 0 .tsend, .act (.th 0 1), .to 0 .d8,
  .act .newDisc, .to 3 .d3,
  .act (.th 1 1), .to 1 .done,
  .to 0 .d10p,
  .act .newReq, .to 4 .done,
  .to 6 .tproc, .to 6 .tget, .to 6 .tproc, .to 6 .tget, .to 5 .rread,
  .to 3 .d5,
  .to 0 .done ]

/-- … the user's `disconnect()` (thread 3) hangs: it waits in `txthread.join()` for a tx thread that sits on an empty queue
of a healthy connection, all other threads have finished except the rx thread, which polls — and whatever the threads do
from there on (any number of their own steps in any order, heartbeats included, without a fault of the environment), the
`disconnect()` is still waiting. -/
theorem marker_eaten_hangs :
    ∃ s : St, Reachable cfgSwallow s ∧ txJoinHangs s = true
      ∧ (∃ U, s.th[3]? = some U ∧ U.kind = .userDisc ∧ U.pc = .d5)
      ∧ ∀ (acts : List Act) (s' : St), (∀ a ∈ acts, internal a) → run cfgSwallow s acts = some s' →
          ∃ U', s'.th[3]? = some U' ∧ U'.pc = .d5 := by
  have hc : (exec cfgSwallow {} traceMarkerEaten).map (fun s => txJoinHangs s && quietB s
      && (s.th[3]?.map (fun U => U.kind == .userDisc && U.pc == .d5)) == some true) = some true := by decide +kernel
  cases he : exec cfgSwallow {} traceMarkerEaten with
  | none => rw [he] at hc; cases hc
  | some s =>
    rw [he] at hc
    simp only [Option.map_some, Option.some.injEq, Bool.and_eq_true, beq_iff_eq] at hc
    obtain ⟨⟨h1, h2⟩, h3⟩ := hc
    cases hU : s.th[3]? with
    | none => rw [hU] at h3; simp at h3
    | some U =>
      rw [hU] at h3
      simp only [Option.map_some, Option.some.injEq, Bool.and_eq_true, beq_iff_eq] at h3
      refine ⟨s, exec_reachable Reachable.init he, h1, ⟨U, hU, h3.1, h3.2⟩, fun acts s' hi hr => ?_⟩
      exact (quiet_forever (quiet_of_quietB h2) hi hr).2 3 U hU h3.2

/-- the repaired client, same schedule: the drain puts the marker back, the new tx thread ends, everything terminates -/
example : (exec { activate := false } {} traceMarkerEaten).map
    (fun s => !txJoinHangs s && (let s' := runGreedy { activate := false } 300 s
                                 s'.th.all (fun t => t.pc == .done) && s'.io == none)) = some true := by
  decide +kernel

/-- non-vacuity of `shutdown_final_partial` / `reconnect_never_revokes`: in the run above of the repaired client the
user's request stands at the end, and a reconnect thread passes `c2` while registered -/
example : (exec {} {} [.act (.drop 0), .act (.th 1 1), .to 1 .d5, .to 0 .done, .to 1 .done, .to 2 .c2]).map
    (fun s => (s.th[2]?.map (fun t => t.kind == .recon && t.pc == .c2)) == some true && s.registered.contains 2)
    = some true := by
  decide +kernel

end

/-! ### non-vacuity: a run with two equal-key requests, a parked one, an error reply and an update in between -/

def traceGood : List (Label String) :=
  [.put (rd "m:p"), .put (rd "m:p"), .put ⟨"change", some "m:q"⟩, .txGet, .txTest false, .txApply, .txSend,
   .txGet, .txTest true, .txApply, .txGet, .txTest false, .txApply, .txSend,
   .peerEmit false "update" (some "m:p") true none, .peerEmit true "change" (some "m:q") false (some 2),
   .peerEmit false "reply" (some "m:p") false (some 0),
   .rxRead, .rxMatch none [], .rxRead, .rxMatch (some 2) [1], .rxSetEvent, .rxRequeue,
   .rxRead, .rxMatch (some 0) [], .rxSetEvent,
   .txGet, .txTest false, .txApply, .txSend,
   .peerEmit false "reply" (some "m:p") false (some 1), .rxRead, .rxMatch (some 1) [], .rxSetEvent]

example : checkRun request2reply true traceGood
    (fun s => s.delivered.length == 3 && replyMatchesB request2reply s && noDoubleDeliveryB s
      && noParkingB request2reply s && s.pending.isEmpty && s.active.isEmpty) = true := by
  decide +kernel

/-- non-vacuity of `no_spurious_release`: the good trace (three requests, one parked and requeued) reaches a state that is not closing and in which
three callers have been woken - all with a reply; after a `disconnect` has begun and released a queued request the
premise is false and `released` is not empty -/
example : checkRun request2reply true traceGood
    (fun s => !s.closing && s.delivered.length == 3 && s.released.isEmpty && s.relHold.isEmpty) = true
    ∧ checkRun request2reply true [.put (rd "m:p"), .closeBegin, .closeTxq, .closeSet 0]
        (fun s => s.closing && s.released == [0]) = true := by
  decide +kernel

end Frappy.Props.C11
