import FrappyDrive.Util
import FrappyModel.Spec.C07
import FrappyModel.Wire.Dispatch
import FrappyModel.Wire.ErrText
import FrappyModel.Generated.C07
/- line-protocol glue for C07 (not part of any theorem) -/
namespace Frappy.Drive.C07
open Lean Frappy.Drive Frappy.Wire Frappy.Spec.C07

def tables : Tables where
  request2reply := Generated.C07.request2reply
  identRequest := Generated.C07.identRequest
  identReply := Generated.C07.identReply
  errorPrefix := Generated.C07.errorPrefix
  helpRequest := Generated.C07.helpRequest
  helpReply := Generated.C07.helpReply
  eventReply := Generated.C07.eventReply
  logEvent := Generated.C07.logEvent
  describeRequest := Generated.C07.describeRequest
  helpLineCount := Generated.C07.helpLineCount
  helpLineAction := Generated.C07.helpLineAction
  handlerErrorClass := Generated.C07.handlerErrorClass
  errorClasses := Generated.C07.errorClasses
  asyncActions := Generated.C07.asyncActions
  stateActions := Generated.C07.stateActions

def dtables : DTables where
  readRequest := Generated.C07.readRequest
  writeRequest := Generated.C07.writeRequest
  commandRequest := Generated.C07.commandRequest
  pingRequest := Generated.C07.pingRequest
  activateRequest := Generated.C07.activateRequest
  deactivateRequest := Generated.C07.deactivateRequest
  loggingRequest := Generated.C07.loggingRequest
  protocolError := Generated.C07.protocolError
  valueName := Generated.C07.valueName
  targetName := Generated.C07.targetName

/-! hex transport of byte strings -/
def hexVal (c : Char) : Option Nat :=
  if '0' ≤ c ∧ c ≤ '9' then some (c.toNat - 48)
  else if 'a' ≤ c ∧ c ≤ 'f' then some (c.toNat - 87)
  else none

def unhexL : List Char → R Bytes
  | [] => pure []
  | a :: b :: r => do
    match hexVal a, hexVal b with
    | some x, some y => return (16 * x + y) :: (← unhexL r)
    | _, _ => throw "bad hex digit"
  | _ => throw "odd hex length"

def unhex (s : String) : R Bytes := unhexL s.toList

def hexDigit (n : Nat) : Char := if n < 10 then Char.ofNat (48 + n) else Char.ofNat (87 + n)
def hex (b : Bytes) : String := String.ofList (b.flatMap (fun x => [hexDigit (x / 16 % 16), hexDigit (x % 16)]))
def jhex (b : Bytes) : Json := Json.str (hex b)
def fldHex (j : Json) (k : String) : R Bytes := do unhex (← fldStr j k)
def optHex (j : Json) : R (Option Bytes) := if j.isNull then pure none else some <$> (do unhex (← j.getStr?))

/-- the library, with `utf8ok` and `loads` answered by the real Python functions (oracle tables
computed by the harness on exactly the arguments the model passes); JSON values are carried as
their text -/
def lib (utf8 : List (Bytes × Bool)) (json : List (Bytes × Bool)) : Lib Bytes where
  utf8ok := fun s => (utf8.lookup s).getD false
  loads := fun d => if (json.lookup d).getD false then some d else none
  dumps := id
  errReport := fun c => [91, 34] ++ c ++ [34, 93]
  helpText := fun _ => [34, 34]

def parseTriple (j : Json) : R (Triple Bytes) := do
  return ⟨← fldHex j "a", ← optHex (← fld j "s"), ← optHex (← fld j "d")⟩

def parseResult (j : Json) : R (DispOut Bytes) := do
  let asy ← (← fldArr j "async").mapM parseTriple
  match ← fldStr j "r" with
  | "ok" => return ⟨asy, .ok (← parseTriple j)⟩
  | "secop" => return ⟨asy, .secop (← fldHex j "cls")⟩
  | "exc" => return ⟨asy, .exc⟩
  | "garbage" => return ⟨asy, .garbage⟩
  | r => throw s!"bad result kind {r}"

/-- scripted dispatcher: state = number of calls so far; records nothing (the calls are recomputed) -/
def scripted (script : List (DispOut Bytes)) : Disp Nat Bytes :=
  fun n _ => ((script[n]?).getD ⟨[], .exc⟩, n + 1)

def kindStr : Kind → String
  | .reply => "reply" | .help => "help" | .async => "async"

def outJson (L : Lib Bytes) (o : Out Bytes) : Json :=
  let frame := encodeFrame L o.msg
  let p := outParts frame
  Json.mkObj [("k", Json.str (kindStr o.kind)), ("a", jhex p.action), ("s", jhex p.spec),
    ("c", jopt jhex (classOf p.data)), ("d", Json.bool (p.data != []))]

/-- the requests the dispatcher is called with while `lines` are processed -/
def callsOf (T : Tables) (L : Lib Bytes) (lines : List Bytes) : List (Triple Bytes) :=
  lines.filterMap (fun l => match nextMessage T L l with
    | .msg t => if t.action = T.helpRequest then none else some t
    | .bad _ => none)

/-- per request line: the number of the dispatcher call it leads to, or null (help, blank, undecodable) -/
def callIdx (T : Tables) (L : Lib Bytes) : Nat → List Bytes → List Json
  | _, [] => []
  | n, l :: ls =>
    match nextMessage T L l with
    | .msg t => if t.action = T.helpRequest then Json.null :: callIdx T L n ls else jnat n :: callIdx T L (n + 1) ls
    | .bad _ => Json.null :: callIdx T L n ls

def tripleJson (t : Triple Bytes) : Json :=
  Json.mkObj [("a", jhex t.action), ("s", jopt jhex t.spec), ("d", jopt jhex t.data)]

def verdictJson : Verdict → Json
  | .ok => Json.null
  | .split i => Json.mkObj [("clause", Json.str "lines_whole"), ("i", jnat i)]
  | .count n m => Json.mkObj [("clause", Json.str "one_reply_per_line"), ("requests", jnat n), ("replies", jnat m)]
  | .misfit k => Json.mkObj [("clause", Json.str "reply_fits"), ("k", jnat k)]
  | .notUtf8 i => Json.mkObj [("clause", Json.str "valid_utf8"), ("i", jnat i)]
  | .notStrict i => Json.mkObj [("clause", Json.str "strict_json"), ("i", jnat i)]

def parseOracle (j : Json) (k : String) : R (List (Bytes × Bool)) := do
  (← fldArr j k).mapM (fun e => do
    match ← arr e with
    | [h, b] => return (← unhex (← h.getStr?), ← b.getBool?)
    | _ => throw "bad oracle entry")

/-- outcome of a module / node function as the harness recorded it: `{"r": "ok", "d": hex}`, `{"r": "secop", "cls": hex}`, `{"r": "exc"}` -/
def parseMod (j : Json) : R (ModResult Bytes) := do
  match ← fldStr j "r" with
  | "ok" => return .ok ((← optHex (← fld j "d")).getD [])
  | "secop" => return .secop (← fldHex j "cls")
  | _ => return .exc

def modUnit : ModResult Bytes → ModResult Unit
  | .ok _ => .ok ()
  | .secop c => .secop c
  | .exc => .exc

/-- the node behind the dispatcher for ONE call: the functions of the request alone (`describe`, the checks of
`activate` and `logging`) are tables computed by the harness on a fresh node; `mod` is what the module did in
this call (used only if the model decides that the request reaches a module); JSON values are carried as text -/
def nodeIf (descr : List (Bytes × ModResult Bytes)) (act : List (Bytes × Option Bytes))
    (logg : List ((Option Bytes × Option Bytes) × ModResult Bytes)) (truthy : List (Bytes × Bool))
    (mod : ModResult Bytes) : NodeIf Unit Unit Bytes where
  describe := fun s => (descr.lookup s).getD .exc
  activateCheck := fun s => (act.lookup s).getD none
  logging := fun s d => modUnit ((logg.lookup (s, d)).getD .exc)
  truthy := fun d => (truthy.lookup d).getD false
  pong := [112]
  read := fun nu _ _ => (mod, nu)
  change := fun nu _ _ _ => (mod, nu)
  exec := fun nu _ _ _ => (mod, nu)
  events := fun _ _ _ => []
  book := fun k _ => k

def dispResultJson : DispResult Bytes → Json
  | .ok r => Json.mkObj [("r", Json.str "ok"), ("a", jhex r.action), ("s", jopt jhex r.spec), ("d", jopt jhex r.data)]
  | .secop c => Json.mkObj [("r", Json.str "secop"), ("cls", jhex c)]
  | .exc => Json.mkObj [("r", Json.str "exc")]
  | .garbage => Json.mkObj [("r", Json.str "garbage")]

def handle (j : Json) : R Json := do
  let k ← fldStr j "k"
  match k with
  | "split" =>
    -- the arguments the model will pass to `utf8ok` and `loads` for this stream
    let stream ← fldHex j "stream"
    let ls := (feed [] stream).lines
    return Json.mkObj [("lines", jarr (ls.map (fun l =>
      Json.mkObj [("s", jhex (strip l)), ("d", jhex (parts (strip l)).data)])))]
  | "serve" =>
    let chunks ← (← fldArr j "chunks").mapM (fun c => do unhex (← c.getStr?))
    let L := lib (← parseOracle j "utf8") (← parseOracle j "json")
    let script ← (← fldArr j "script").mapM parseResult
    let gone ← fld j "fail_after"
    if !gone.isNull then
      -- a socket on which only the first `n` calls of sendall succeed
      let n ← gone.getNat?
      let r := serveF tables L (scripted script) ⟨n, true⟩ [] 0 chunks
      let one := serveF tables L (scripted script) ⟨n, true⟩ [] 0 [chunks.flatten]
      return Json.mkObj [("outs", jarr (r.outs.map (outJson L))), ("ncalls", jnat r.st), ("done", jnat r.done),
        ("torn", jopt (outJson L) r.torn), ("running", Json.bool r.sock.running),
        ("callidx", jarr (callIdx tables L 0 ((feedAll [] chunks).lines.take r.done))),
        ("calls", jarr ((callsOf tables L ((feedAll [] chunks).lines.take r.done)).map tripleJson)),
        ("same_as_unsegmented", Json.bool ((wire L r.outs == wire L one.outs) && r.done == one.done && r.st == one.st
          && r.torn == one.torn))]
    let r := serve tables L (scripted script) [] 0 chunks
    let one := serve tables L (scripted script) [] 0 [chunks.flatten]
    return Json.mkObj [("outs", jarr (r.outs.map (outJson L))), ("rest", jhex r.buf), ("ncalls", jnat r.st),
      ("callidx", jarr (callIdx tables L 0 (feedAll [] chunks).lines)),
      ("calls", jarr ((callsOf tables L (feedAll [] chunks).lines).map tripleJson)),
      ("same_as_unsegmented", Json.bool ((wire L r.outs == wire L one.outs) && r.buf == one.buf))]
  | "judge" =>
    let stream ← fldHex j "stream"
    let outs ← (← fldArr j "outs").mapM (fun c => do unhex (← c.getStr?))
    let flags ← (← fldArr j "flags").mapM (fun e => do
      match ← arr e with
      | [a, b] => return (← a.getBool?, ← b.getBool?)
      | _ => throw "bad flag entry")
    return Json.mkObj [("bad", verdictJson (judgeAll tables stream outs flags))]
  | "judge_gone" =>
    let stream ← fldHex j "stream"
    let outs ← (← fldArr j "outs").mapM (fun c => do unhex (← c.getStr?))
    return Json.mkObj [("bad", verdictJson (judgeGone tables stream outs))]
  | "judge_received" =>
    -- what the peer has received (all bytes that went out, in order), cut at its newlines in Lean
    let stream ← fldHex j "stream"
    let received ← fldHex j "received"
    let flags ← (← fldArr j "flags").mapM (fun e => do
      match ← arr e with
      | [a, b] => return (← a.getBool?, ← b.getBool?)
      | _ => throw "bad flag entry")
    let got := splitLines received
    if flags.length != got.lines.length then throw "judge_received: one pair of flags per complete line expected"
    return Json.mkObj [("bad", verdictJson (judgeReceived tables stream received flags)),
      ("lines", jnat got.lines.length), ("rest", jhex got.rest)]
  | "errtext" =>
    -- the text of error reports: `str(err)` for errors as driver code raises them
    let errs ← (← fldArr j "errors").mapM (fun e => do
      let args ← (← fldArr e "args").mapM (fun a => do return (⟨← fldHex a "s", ← fldHex a "r"⟩ : ErrArg))
      let methods ← (← fldArr e "methods").mapM (fun m => do unhex (← m.getStr?))
      return (⟨← fldBool e "registered", ← fldHex e "tname", methods, args⟩ : ErrInfo))
    return Json.mkObj [("texts", jarr (errs.map (fun e => jhex (errText e))))]
  | "judge_events" =>
    let outs ← (← fldArr j "outs").mapM (fun c => do unhex (← c.getStr?))
    let subs ← (← fldArr j "subscribed").mapM (fun c => do unhex (← c.getStr?))
    return Json.mkObj [("bad", jopt jnat (judgeEvents tables subs outs))]
  | "dispatch" =>
    -- the dispatcher model on the requests the real dispatcher was called with, one at a time
    let descr ← (← fldArr j "describe").mapM (fun e => do return (← fldHex e "s", ← parseMod e))
    let act ← (← fldArr j "activate").mapM (fun e => do return (← fldHex e "s", ← optHex (← fld e "cls")))
    let logg ← (← fldArr j "logging").mapM (fun e => do
      return ((← optHex (← fld e "s"), ← optHex (← fld e "lv")), ← parseMod e))
    let truthy ← parseOracle j "truthy"
    let calls ← (← fldArr j "calls").mapM (fun c => do
      return (← parseTriple c, ← parseMod (← fld c "mod")))
    return Json.mkObj [("results", jarr (calls.map (fun c =>
      dispResultJson (dispatch tables dtables (nodeIf descr act logg truthy c.2) ((), ()) c.1).1.res)))]
  | "neutral" =>
    -- which request lines of the stream may be left out without any effect on other answers
    let stream ← fldHex j "stream"
    let L := lib (← parseOracle j "utf8") (← parseOracle j "json")
    return Json.mkObj [("neutral", jarr ((splitLines stream).lines.map (fun l => Json.bool (Removable tables L l))))]
  | "judge_indep" =>
    -- per connection: the stream, the marks (true = the line stays), what was emitted for all lines / for the kept lines
    let conns ← fldArr j "conns"
    let mut bad := Json.null
    let mut ci := 0
    for c in conns do
      let stream ← fldHex c "stream"
      let keep ← (← fldArr c "keep").mapM (fun b => b.getBool?)
      let oa ← (← fldArr c "all").mapM (fun x => do unhex (← x.getStr?))
      let ok ← (← fldArr c "kept").mapM (fun x => do unhex (← x.getStr?))
      let lines := (splitLines stream).lines
      let L := lib (← parseOracle c "utf8") (← parseOracle c "json")
      if keep.length != lines.length then throw "judge_indep: one mark per request line expected"
      match judgeIndep tables L (lines.zip keep) oa ok with
      | .ok => pure ()
      | .notNeutral k =>
        if bad.isNull then bad := Json.mkObj [("clause", Json.str "case_drops_state_request"), ("conn", jnat ci), ("k", jnat k)]
      | .changed k =>
        if bad.isNull then bad := Json.mkObj [("clause", Json.str "answer_changed"), ("conn", jnat ci), ("k", jnat k)]
      ci := ci + 1
    return Json.mkObj [("bad", bad)]
  | _ => throw s!"C07: unknown verb {k}"

end Frappy.Drive.C07
