import FrappyDrive.Util
import FrappyModel.Spec.C10
import FrappyModel.Klass.ConfigDT
import FrappyModel.Generated.C10
/- line-protocol glue for C10 (not part of any theorem) -/
namespace Frappy.Drive.C10
open Lean Frappy.Drive Frappy.Config Frappy.ConfigDT Frappy.Spec.C10

partial def parseVal (j : Json) : R CVal :=
  match j with
  | .null => pure .none
  | .bool b => pure (.bool b)
  | .obj _ =>
    match j.getObjVal? "n", j.getObjVal? "s", j.getObjVal? "l" with
    | .ok n, _, _ => do return .num (← n.getInt?)
    | _, .ok s, _ => do return .str (← s.getStr?)
    | _, _, .ok l => do return .list (← (← arr l).mapM parseVal)
    | _, _, _ => pure .other
  | _ => throw s!"bad value {j.compress}"

partial def valJson : CVal → Json
  | .none => Json.null
  | .bool b => Json.bool b
  | .num q => Json.mkObj [("n", jint q)]
  | .str s => Json.mkObj [("s", Json.str s)]
  | .list l => Json.mkObj [("l", jarr (l.map valJson))]
  | .other => Json.mkObj [("x", Json.null)]

def optInt (j : Json) : R (Option Int) := if j.isNull then pure none else some <$> j.getInt?

partial def parseDT (j : Json) : R CDT := do
  let t ← fldStr j "t"
  match t with
  | "double" => return .double (← optInt (← fld j "min")) (← optInt (← fld j "max")) (← fldStr j "unit")
  | "int" => return .int (← fldInt j "min") (← fldInt j "max")
  | "string" => return .string (← fldNat j "minchars") (← fldNat j "maxchars") (← fldBool j "utf8")
  | "bool" => return .bool
  | "enum" =>
    let ms ← (← fldArr j "members").mapM fun m => do
      match ← arr m with
      | [n, v] => return ((← n.getStr?), (← v.getInt?))
      | _ => throw "bad enum member"
    return .enum ms
  | "array" => return .array (← fldNat j "minlen") (← fldNat j "maxlen") (← parseDT (← fld j "members"))
  | "tuple" => return .tuple (← (← fldArr j "members").mapM parseDT)
  | _ => throw s!"bad datatype {t}"

partial def dtJson : CDT → Json
  | .double lo hi u => Json.mkObj [("t", "double"), ("min", jopt jint lo), ("max", jopt jint hi), ("unit", Json.str u)]
  | .int lo hi => Json.mkObj [("t", "int"), ("min", jint lo), ("max", jint hi)]
  | .string lo hi u => Json.mkObj [("t", "string"), ("minchars", jnat lo), ("maxchars", jnat hi), ("utf8", Json.bool u)]
  | .bool => Json.mkObj [("t", "bool")]
  | .enum ms => Json.mkObj [("t", "enum"), ("members", jarr (ms.map fun m => jarr [Json.str m.1, jint m.2]))]
  | .array lo hi m => Json.mkObj [("t", "array"), ("minlen", jnat lo), ("maxlen", jnat hi), ("members", dtJson m)]
  | .tuple ms => Json.mkObj [("t", "tuple"), ("members", jarr (ms.map dtJson))]

def optVal (j : Json) : R (Option CVal) := if j.isNull then pure none else some <$> parseVal j
def optDT (j : Json) : R (Option CDT) := if j.isNull then pure none else some <$> parseDT j

/-- optional values travel wrapped, so that Python `None` as a VALUE (`{"v": null}`) differs from "absent" (`null`) -/
def wrapped (j : Json) : R (Option CVal) :=
  if j.isNull then pure none else do return some (← parseVal (← fld j "v"))

def parsePairs (j : Json) : R (List (String × CVal)) := do
  (← arr j).mapM fun kv => do
    match ← arr kv with
    | [k, v] => return ((← k.getStr?), (← parseVal v))
    | _ => throw "bad pair"

def pairsJson (l : List (String × CVal)) : Json := jarr (l.map fun kv => jarr [Json.str kv.1, valJson kv.2])

def parseLimit (j : Json) : R (Option LimitKind) :=
  match j with
  | .null => pure none
  | .str "min" => pure (some .min)
  | .str "max" => pure (some .max)
  | .str "limits" => pure (some .limits)
  | _ => throw "bad limit kind"

def parseModProp (j : Json) : R (ModPropDesc CVal) := do
  let dt ← optDT (← fld j "dt")
  let v : CVal → Option CVal := match dt with
    | some d => validate d
    | none => some
  return ⟨← fldStr j "name", v, ← fldBool j "mandatory", ← wrapped (← fld j "classValue")⟩

def parseParam (j : Json) : R (ParamDesc CDT CVal) := do
  return { name := ← fldStr j "name", dt := ← optDT (← fld j "dt"), limit := ← parseLimit (← fld j "limit"),
           base := ← fldStr j "base", value := ← wrapped (← fld j "value"), default := ← wrapped (← fld j "default"),
           needscfg := ← fldBool j "needscfg", hasWrite := ← fldBool j "write", own := ← parsePairs (← fld j "own") }

/-- one entry of the class attribute `accessibles`; an optional (declared, not implemented) one carries its name only -/
def parseDecl (j : Json) : R (AccDecl CDT CVal) := do
  let opt := match j.getObjVal? "optional" with
    | .ok (.bool b) => b
    | _ => false
  if opt then
    return ⟨{ name := ← fldStr j "name", dt := none, limit := none, base := "", value := none, default := none,
              needscfg := false, hasWrite := false, own := [] }, true⟩
  else return ⟨← parseParam j, false⟩

def parseClass (j : Json) : R (ClassDesc CDT CVal) := do
  let decls ← (← fldArr j "params").mapM parseDecl
  return ⟨← (← fldArr j "modprops").mapM parseModProp, implemented decls, ← fldStrs j "other"⟩

def parseEntry (j : Json) : R (Entry CVal) := do
  match j.getObjVal? "acc" with
  | .ok items => return .acc (← parsePairs items)
  | .error _ =>
    match j.getObjVal? "bare" with
    | .ok v => return .prop (.bare (← parseVal v))
    | .error _ => return .prop (.dict (← wrapped (← fld j "dict")))

def parseCfg (j : Json) : R (Cfg CVal) := do
  (← arr j).mapM fun kv => do
    match ← arr kv with
    | [k, e] => return ((← k.getStr?), (← parseEntry e))
    | _ => throw "bad cfg item"

def parseDslArg (j : Json) : R (DslArg CVal) := do
  match j.getObjVal? "bare" with
  | .ok v => return .bare (← parseVal v)
  | .error _ =>
    match j.getObjVal? "group" with
    | .ok ms => return .group (← (← arr ms).mapM (·.getStr?))
    | .error _ =>
      let p ← fld j "param"
      return .param (← wrapped (← fld p "value")) (← parsePairs (← fld p "kw"))

structure Written where
  descr : CVal
  args : List (String × DslArg CVal)
  extra : Cfg CVal            -- entries added after the DSL (`original_id` of a merged-in module)

def parseWritten (j : Json) : R Written := do
  let args ← (← fldArr j "args").mapM fun kv => do
    match ← arr kv with
    | [k, a] => return ((← k.getStr?), (← parseDslArg a))
    | _ => throw "bad dsl arg"
  return ⟨← parseVal (← fld j "descr"), args, ← parseCfg (← fld j "extra")⟩

/-- the configuration of a request: a raw dict (array), or a module as WRITTEN in a config file (object).  `spec`: read
by the specification (`specCfg`), else produced by the model of `Mod.__init__` (`modDict`; `none`: the file does not load) -/
def parseCfgAny (spec : Bool) (j : Json) : R (Option (Cfg CVal)) := do
  match j with
  | .arr _ => return some (← parseCfg j)
  | _ =>
    let w ← parseWritten j
    if spec then return some (specCfg CVal.str w.descr w.args ++ w.extra)
    else return (modDict CVal.str w.descr w.args).map (· ++ w.extra)

def entryJson : Entry CVal → Json
  | .prop (.bare v) => Json.mkObj [("bare", valJson v)]
  | .prop (.dict v) => Json.mkObj [("dict", jopt valJson v)]
  | .acc items => Json.mkObj [("acc", pairsJson items)]

def cfgJson (c : Cfg CVal) : Json := jarr (c.map fun kv => jarr [Json.str kv.1, entryJson kv.2])

def errJson : CfgErr → Json
  | .badModProp k => Json.mkObj [("k", "badModProp"), ("key", Json.str k)]
  | .badValue p k => Json.mkObj [("k", "badValue"), ("param", Json.str p), ("key", Json.str k)]
  | .limitNoBase p => Json.mkObj [("k", "limitNoBase"), ("param", Json.str p)]
  | .noDatatype p => Json.mkObj [("k", "noDatatype"), ("param", Json.str p)]
  | .needsCfg p => Json.mkObj [("k", "needsCfg"), ("param", Json.str p)]
  | .unknownNames ks => Json.mkObj [("k", "unknownNames"), ("keys", jstrs ks)]
  | .unknownProp n k => Json.mkObj [("k", "unknownProp"), ("name", Json.str n), ("key", Json.str k)]
  | .mandatory k => Json.mkObj [("k", "mandatory"), ("key", Json.str k)]
  | .badDatatype p => Json.mkObj [("k", "badDatatype"), ("param", Json.str p)]
  | .raised => Json.mkObj [("k", "raised")]

def parseErr (j : Json) : R CfgErr := do
  match ← fldStr j "k" with
  | "badModProp" => return .badModProp (← fldStr j "key")
  | "badValue" => return .badValue (← fldStr j "param") (← fldStr j "key")
  | "limitNoBase" => return .limitNoBase (← fldStr j "param")
  | "noDatatype" => return .noDatatype (← fldStr j "param")
  | "needsCfg" => return .needsCfg (← fldStr j "param")
  | "unknownNames" => return .unknownNames (← fldStrs j "keys")
  | "unknownProp" => return .unknownProp (← fldStr j "name") (← fldStr j "key")
  | "mandatory" => return .mandatory (← fldStr j "key")
  | "badDatatype" => return .badDatatype (← fldStr j "param")
  | "raised" => return .raised
  | k => throw s!"bad error kind {k}"

def evJson : Ev CVal → Json
  | .write p v also => jarr [Json.str "write", Json.str p, valJson v, pairsJson also]
  | .firstPoll => jarr [Json.str "firstPoll"]

def parseEv (j : Json) : R (Ev CVal) := do
  match ← arr j with
  | [.str "write", p, v, also] => return .write (← p.getStr?) (← parseVal v) (← parsePairs also)
  | [.str "firstPoll"] => return .firstPoll
  | _ => throw "bad event"

def exportName (predefined : List String) (name : String) : Option CVal → Option String
  | some (.bool true) => some (if predefined.contains name then name else "_" ++ name)
  | some (.str s) => if s.isEmpty then none else some s      -- `if accessible.export:` — '' is falsy
  | some (.bool false) => none
  | none => some (if predefined.contains name then name else "_" ++ name)      -- class default True
  | _ => none

def glue : Glue CDT CVal := ⟨(· == ·), (· == ·), exportName Generated.C10.predefinedParams⟩

/-- the write oracle of a generated class: `consumes` lists, per parameter, the siblings its write method takes from
`writeDict` (common write handler / hand-written method); the outer wrapper validates first, a refused value reaches no handler -/
def consumesOf (groups : List (String × List String)) (i : Instance CDT CVal) : WriteOracle CVal :=
  fun p v _ =>
    match i.params.find? (fun q => q.name == p) with
    | some q =>
      (match q.dt with
       | some dt => if (validate dt v).isSome then (lookup p groups).getD [] else []
       | none => [])
    | none => []

def parseGroups (cls : Json) : R (List (String × List String)) := do
  (← fldArr cls "params").mapM fun pj => do
    let cs ← match pj.getObjVal? "consumes" with
      | .ok c => (do (← arr c).mapM (·.getStr?))
      | .error _ => pure []
    return ((← fldStr pj "name"), cs)

def instJson (groups : List (String × List String)) (i : Instance CDT CVal) : Json :=
  Json.mkObj [
    ("modprops", pairsJson i.modProps),
    ("params", jarr (i.params.map fun p => Json.mkObj [
      ("name", Json.str p.name), ("dt", jopt dtJson p.dt), ("own", pairsJson p.own),
      ("value", jopt valJson p.value), ("default", jopt valJson p.default),
      ("notInit", Json.bool p.notInit), ("given", Json.bool p.given),
      ("export", jopt Json.str (glue.exportName p.name (lookup "export" p.own)))])),
    ("writeDict", pairsJson i.writeDict),
    ("events", jarr ((prologue (consumesOf groups i) i).map evJson))]

def parseObsParam (j : Json) : R (ObsParam CDT CVal) := do
  let probes ← (← fldArr j "probes").mapM fun p => do
    match ← arr p with
    | [v, b] => return ((← parseVal v), (← b.getBool?))
    | _ => throw "bad probe"
  return { name := ← fldStr j "name", value := ← wrapped (← fld j "value"), datainfo := ← optDT (← fld j "datainfo"),
           described := ← optStr (← fld j "described"), reach := ← fldStrs j "reach",
           own := ← parsePairs (← fld j "own"), probes := probes }

def parseObs (j : Json) : R (ObsModule CDT CVal) := do
  return { registered := ← fldBool j "registered", errors := ← (← fldArr j "errors").mapM parseErr,
           params := ← (← fldArr j "params").mapM parseObsParam, modProps := ← parsePairs (← fld j "modprops"),
           events := ← (← fldArr j "events").mapM parseEv, driver := ← parsePairs (← fld j "driver") }

def parseFile (j : Json) : R (CfgFile String) := do
  let mods ← (← fldArr j "modules").mapM fun kv => do
    match ← arr kv with
    | [k, v] => return ((← k.getStr?), (← v.getStr?))
    | _ => throw "bad module"
  return ⟨← fldStr j "eq", mods⟩

def mergedJson (m : Merged String) : Json :=
  Json.mkObj [("modules", jarr (m.modules.map fun e => jarr [Json.str e.1, Json.str e.2.1, jopt Json.str e.2.2])),
              ("ambiguous", jstrs m.ambiguous)]

def parseMerged (j : Json) : R (Merged String) := do
  let mods ← (← fldArr j "modules").mapM fun e => do
    match ← arr e with
    | [k, d, o] => return ((← k.getStr?), (← d.getStr?), (← optStr o))
    | _ => throw "bad merged module"
  return ⟨mods, ← fldStrs j "ambiguous"⟩

/-- a property value read as a module name: the empty string is "not attached" -/
def nameOf : CVal → Option String
  | .str s => if s.isEmpty then none else some s
  | _ => none

def initErrJson : InitErr → Json
  | .noSuchModule p t => Json.mkObj [("k", "noSuchModule"), ("prop", Json.str p), ("target", Json.str t)]
  | .doesNotExist p t => Json.mkObj [("k", "doesNotExist"), ("prop", Json.str p), ("target", Json.str t)]
  | .wrongKind p t => Json.mkObj [("k", "wrongKind"), ("prop", Json.str p), ("target", Json.str t)]
  | .targetFailed p t => Json.mkObj [("k", "targetFailed"), ("prop", Json.str p), ("target", Json.str t)]
  | .cyclic p t => Json.mkObj [("k", "cyclic"), ("prop", Json.str p), ("target", Json.str t)]
  | .fuel => Json.mkObj [("k", "fuel")]

/-- one module of a node: `{name, cls: {…, kinds: [...], attached: [[prop, base], …]}, cfg}`; `spec`: the cfg as the
specification reads it (a module as written), else as the model of the DSL builds it -/
def parseModDeclWith (spec : Bool) (m : Json) : R (ModDecl CDT CVal) := do
  let cj ← fld m "cls"
  let some cfg ← parseCfgAny spec (← fld m "cfg") | throw "node: a file does not load"
  let kinds ← match cj.getObjVal? "kinds" with
    | .ok k => (do (← arr k).mapM (·.getStr?))
    | .error _ => pure []
  let att ← match cj.getObjVal? "attached" with
    | .ok a => (do (← arr a).mapM fun e => do
        match ← arr e with
        | [p, b] => return (⟨← p.getStr?, ← b.getStr?⟩ : AttDecl)
        | _ => throw "bad attached declaration")
    | .error _ => pure []
  return ⟨← fldStr m "name", ← parseClass cj, cfg, kinds, att⟩

def parseModDecl (m : Json) : R (ModDecl CDT CVal) := parseModDeclWith false m

/-- a file as (directory, file name); a file given by its full path has directory "" -/
def parseFileRef (j : Json) : R (String × String) := do
  match ← arr j with
  | [d, f] => return ((← d.getStr?), (← f.getStr?))
  | _ => throw "bad file reference"

def filesJson (fs : List (String × String)) : Json := jarr (fs.map fun f => jarr [Json.str f.1, Json.str f.2])

/-- `files`: what exists, `dirs`: the configuration directories in order, `refs`: `{"name": n}` or `{"path": p}` -/
def parseLookup (j : Json) : R ((String → String → Bool) × List String × List CfgRef) := do
  let files ← (← fldArr j "files").mapM parseFileRef
  let refs ← (← fldArr j "refs").mapM fun r => do
    match r.getObjVal? "path" with
    | .ok p => return CfgRef.path (← p.getStr?)
    | .error _ => return CfgRef.name (← fldStr r "name")
  return ((fun d f => files.contains (d, f)), ← fldStrs j "dirs", refs)

def handle (j : Json) : R Json := do
  let k ← fldStr j "k"
  match k with
  | "dsl" =>      -- the dict `Mod(...)` builds, per the model of config.py
    let w ← parseWritten (← fld j "cfg")
    match modDict CVal.str w.descr w.args with
    | some d => return Json.mkObj [("loads", Json.bool true), ("cfg", cfgJson d)]
    | none => return Json.mkObj [("loads", Json.bool false), ("cfg", Json.null)]
  | "apply" =>
    let c ← parseClass (← fld j "cls")
    let some cfg ← parseCfgAny false (← fld j "cfg")
      | return Json.mkObj [("ok", Json.bool false), ("errors", jarr []), ("inst", Json.null), ("loads", Json.bool false)]
    match applyConfigU ops unitOps c cfg with
    | .ok i => return Json.mkObj [("ok", Json.bool true), ("errors", jarr []),
                                  ("inst", instJson (← parseGroups (← fld j "cls")) i)]
    | .error es => return Json.mkObj [("ok", Json.bool false), ("errors", jarr (es.map errJson)), ("inst", Json.null)]
  | "judge" =>
    let c ← parseClass (← fld j "cls"); let o ← parseObs (← fld j "obs")
    let some cfg ← parseCfgAny true (← fld j "cfg") | throw "judge: no cfg"
    -- the hypotheses of the theorems, checked on what the harness read off the real class / wrote into the file
    let wok ← match (← fld j "cfg") with
      | .arr _ => pure true
      | w => do pure (writtenOkB (← parseWritten w).args)
    return Json.mkObj [("offending", Json.bool (offendingB ops c cfg)),
                       ("hyp", Json.bool (wellFormedB c && wok && valueTypedB ops c cfg)),
                       ("applied", Json.bool (appliedB ops unitOps glue c cfg o)),
                       ("mainunit", jopt Json.str (mainUnit ops unitOps c cfg)),
                       ("modprops", Json.bool (modPropsB glue c cfg o)),
                       ("writes", Json.bool (writesB ops glue c cfg o)),
                       ("rejected", Json.bool (rejectedB ops c cfg o)),
                       ("accepted", Json.bool (acceptedB ops c cfg o)),
                       ("whole", Json.bool (wholeB o))]
  | "node" =>
    let mods ← (← fldArr j "mods").mapM parseModDecl
    let n := startNode ops nameOf mods
    return Json.mkObj [("registered", jstrs (n.node.modules.map (·.1))),
                       ("errors", jarr (n.node.errors.map fun e => jarr [Json.str e.1, jarr (e.2.map errJson)])),
                       ("init", jarr (n.init.errors.map fun e => jarr [Json.str e.1, initErrJson e.2])),
                       ("recreated", jstrs n.init.recreated),
                       ("attached", jarr (n.init.attached.map fun e => jarr [Json.str e.1, Json.str e.2.1, Json.str e.2.2])),
                       ("starts", Json.bool n.starts)]
  | "judge_node" =>
    let att ← match j.getObjVal? "attached" with
      | .ok a => (do (← arr a).mapM fun e => do
          match ← arr e with
          | [m, p, t] => return ((← m.getStr?), (← p.getStr?), (← optStr t))
          | _ => throw "bad attached observation")
      | .error _ => pure []
    let initRep ← match j.getObjVal? "initReported" with
      | .ok a => (do (← arr a).mapM (·.getStr?))
      | .error _ => pure []
    let n : ObsNode := ⟨← fldStrs j "configured", ← fldStrs j "registered", ← fldStrs j "reported", ← fldBool j "starts",
                        initRep, att⟩
    match j.getObjVal? "mods" with
    | .ok ms =>
      -- the node as configured (the modules AS WRITTEN where they come from a file): attachments judged, too
      let mods ← (← arr ms).mapM (parseModDeclWith true)
      let hyp := decide ((mods.map (·.name)).Nodup) && mods.all fun m => wellFormedB m.cls
      return Json.mkObj [("ok", Json.bool (nodeB n && attachedB nameOf mods n && attCleanB nameOf mods n)),
                         ("node", Json.bool (nodeB n)), ("attached", Json.bool (attachedB nameOf mods n)),
                         ("clean", Json.bool (attCleanB nameOf mods n)), ("hyp", Json.bool hyp),
                         ("bad", jstrs ((mods.filter fun m => m.attached.any fun d =>
                            match attGiven nameOf m d with | some t => !targetOk mods d t | none => false).map (·.name)))]
    | .error _ => return Json.mkObj [("ok", Json.bool (nodeB n))]
  | "merge" =>
    let files ← (← fldArr j "files").mapM parseFile
    let files := files.map fun f => { f with modules := fileDict f.modules }
    return mergedJson (loadConfig files)
  | "judge_merge" =>
    let files ← (← fldArr j "files").mapM parseFile       -- per-file dicts as `process_file` produced them
    let m ← parseMerged (← fld j "merged")
    return Json.mkObj [("ok", Json.bool (mergeB (· == ·) files m))]
  | "lookup" =>          -- which files a list of configuration references stands for, per the model of to_config_path
    let (isFile, dirs, refs) ← parseLookup j
    return Json.mkObj [("loaded", jopt filesJson (resolveAll isFile dirs refs))]
  | "judge_lookup" =>
    let (isFile, dirs, refs) ← parseLookup j
    let lj ← fld j "loaded"
    let loaded ← if lj.isNull then pure none else some <$> (do (← arr lj).mapM parseFileRef)
    return Json.mkObj [("ok", Json.bool (lookupB isFile dirs refs loaded)),
                       ("expected", jarr (refs.map fun r => jopt (fun f => jarr [Json.str f.1, Json.str f.2]) (fileFor isFile dirs r)))]
  | _ => throw s!"C10: unknown verb {k}"

end Frappy.Drive.C10
