import FrappyDrive.Util
import FrappyModel.Spec.C15
import FrappyModel.Klass.MultiEvent
/- line-protocol glue for C15 (not part of any theorem) -/
namespace Frappy.Drive.C15
open Lean Frappy.Drive Frappy.Lifecycle Frappy.Spec.C15

def parseCls (s : String) : R Cls :=
  match s with
  | "L" => pure .plain
  | "IO" => pure .comm
  | "HIO" => pure .hasio
  | "PIN" => pure .pinata
  | _ => throw s!"bad cls {s}"

def parseAtt (j : Json) : R Att := do
  match (← arr j) with
  | [a, t, m, k] => return { name := ← a.getStr?, target := ← optStr t, mandatory := ← m.getBool?, kind := ← k.getNat? }
  | _ => throw "bad att"

def parsePair (j : Json) : R (String × String) := do
  match (← (← arr j).mapM (·.getStr?)) with
  | [a, b] => pure (a, b)
  | _ => throw "bad pair"

/-- optional field (absent in cases recorded before the fault injection existed): list of pairs -/
def optPairs (j : Json) (k : String) : R (List (String × String)) :=
  match j.getObjVal? k with
  | .ok v => do (← arr v).mapM parsePair
  | .error _ => pure []

/-- optional field: a string or null / absent -/
def optStrFld (j : Json) (k : String) : R (Option String) :=
  match j.getObjVal? k with
  | .ok v => optStr v
  | .error _ => pure none

def optInt (j : Json) : R (Option Int) := if j.isNull then pure none else some <$> j.getInt?

/-- `[name, has write method, declared default, declared value, configured default, configured value]`, optionally
followed by `needscfg, the configured value is not of the datatype` -/
def parseParam (j : Json) : R PCfg := do
  match (← arr j) with
  | [n, w, d, v, cd, cv] =>
    return { name := ← n.getStr?, hasWrite := ← w.getBool?, clsDefault := ← optInt d, clsValue := ← optInt v,
             cfgDefault := ← optInt cd, cfgValue := ← optInt cv }
  | [n, w, d, v, cd, cv, nc, bad] =>
    return { name := ← n.getStr?, hasWrite := ← w.getBool?, clsDefault := ← optInt d, clsValue := ← optInt v,
             cfgDefault := ← optInt cd, cfgValue := ← optInt cv, needscfg := ← nc.getBool?, cfgBad := ← bad.getBool? }
  | _ => throw "bad param"

/-- the parameters of a module description; cases recorded before parameters were part of a case list only the names
of the parameters with a configured value (write method, declared default 0, value 1 in the configuration) -/
def parseParams (j : Json) : R (List PCfg) :=
  match j.getObjVal? "params" with
  | .ok v => do (← arr v).mapM parseParam
  | .error _ => do return (← fldStrs j "writes").map wp

def parseMod (j : Json) : R ModCfg := do
  return { name := ← fldStr j "name", cls := ← parseCls (← fldStr j "cls"), exported := ← fldBool j "export",
           poll := ← fldBool j "poll", params := ← parseParams j, atts := ← (← fldArr j "atts").mapM parseAtt,
           touchEarly := ← fldStrs j "te", touchInit := ← fldStrs j "ti", failEarly := ← fldBool j "fe",
           failInit := ← fldBool j "fi", uri := ← optStr (← fld j "uri"), scan := ← fldStrs j "scan",
           delay := ← fldNat j "delay", writeFail := ← optPairs j "wfail",
           readsFail := ← optStrFld j "rfail", pollFail := ← optStrFld j "pfail" }

def parseCfg (j : Json) : R Cfg := do
  let mods ← (← fldArr j "mods").mapM parseMod
  let dyn ← (← fldArr j "dyn").mapM parseMod
  return { mods := mods, dyn := dyn }

def evJson : Ev → Json
  | .early m => jstrs ["early", m]
  | .init m => jstrs ["init", m]
  | .get u a d => jstrs ["get", u, a, d]
  | .start m => jstrs ["start", m]
  | .thread t => jstrs ["thread", t]
  | .write m p => jstrs ["write", m, p]
  | .firstpoll m => jstrs ["firstpoll", m]
  | .rounddone t => jstrs ["rounddone", t]
  | .initread m => jstrs ["initread", m]
  | .comfail m => jstrs ["comfail", m]
  | .deadline => jstrs ["deadline"]
  | .timeout t => jstrs ["timeout", t]
  | .ready => jstrs ["ready"]
  | .exit => jstrs ["exit"]
  | .shutdownbegin => jstrs ["shutdownbegin"]
  | .stopPoll m => jstrs ["stopPoll", m]
  | .shutdown m => jstrs ["shutdown", m]
  | .latepoll m => jstrs ["latepoll", m]
  | .alive t => jstrs ["alive", t]

def parseEv (j : Json) : R Ev := do
  let a ← (← arr j).mapM (·.getStr?)
  match a with
  | ["early", m] => pure (.early m)
  | ["init", m] => pure (.init m)
  | ["get", u, a, d] => pure (.get u a d)
  | ["start", m] => pure (.start m)
  | ["thread", t] => pure (.thread t)
  | ["write", m, p] => pure (.write m p)
  | ["firstpoll", m] => pure (.firstpoll m)
  | ["rounddone", t] => pure (.rounddone t)
  | ["initread", m] => pure (.initread m)
  | ["comfail", m] => pure (.comfail m)
  | ["deadline"] => pure .deadline
  | ["timeout", t] => pure (.timeout t)
  | ["ready"] => pure .ready
  | ["exit"] => pure .exit
  | ["shutdownbegin"] => pure .shutdownbegin
  | ["stopPoll", m] => pure (.stopPoll m)
  | ["shutdown", m] => pure (.shutdown m)
  | ["latepoll", m] => pure (.latepoll m)
  | ["alive", t] => pure (.alive t)
  | _ => throw s!"bad event {j.compress}"

def errJson (e : Err) : Json := jstrs [e.phase, e.mod, e.cls]

def parseErr (j : Json) : R Err := do
  match (← (← arr j).mapM (·.getStr?)) with
  | [p, m, c] => pure ⟨p, m, c⟩
  | _ => throw "bad err"

def pairJson (p : String × String) : Json := jstrs [p.1, p.2]

def parseWritten (j : Json) : R (String × String × Int) := do
  match (← arr j) with
  | [m, p, v] => return (← m.getStr?, ← p.getStr?, ← v.getInt?)
  | _ => throw "bad written"

def writtenJson (w : String × String × Int) : Json := jarr [Json.str w.1, Json.str w.2.1, jint w.2.2]

def parseObs (j : Json) : R Obs := do
  let written ← match j.getObjVal? "written" with
    | .ok v => (← arr v).mapM parseWritten
    | .error _ => pure []
  let unready ← match j.getObjVal? "unready" with
    | .ok v => (← arr v).mapM (fun t => do
        match (← (← arr t).mapM (·.getStr?)) with
        | [u, a, d] => pure (u, a, d)
        | _ => throw "bad unready")
    | .error _ => pure []
  return { modules := ← fldStrs j "modules", errors := ← (← fldArr j "errors").mapM parseErr,
           log := ← (← fldArr j "log").mapM parseEv, ioDict := ← (← fldArr j "ioDict").mapM parsePair,
           written := written, unready := unready }

/-- the schedule the implementation followed, read off its log: one action per thread event -/
def schedOf (st : St) (log : List Ev) : List Act :=
  let owner (m : String) : String := ((st.groups.find? (fun g => g.2 == m)).map (·.1)).getD m
  log.filterMap (fun e =>
    match e with
    | .start _ => some .main
    | .thread _ => some .main
    | .write m _ => some (.step (owner m))
    | .firstpoll m => some (.step (owner m))
    | .initread m => some (.step (owner m))
    | .comfail m => some (.step (owner m))
    | .rounddone t => some (.step t)
    | .deadline => some .expire
    | .ready => some .wake
    | _ => none)

def sameMembers (a b : List String) : Bool := a.all b.contains && b.all a.contains && a.length == b.length

/-- is there a choice function for `unmarked.pop()` under which the model returns exactly `target`? -/
def admits (att : String → List String) (fuel : Nat) : Nat → Dfs → List String → Bool
  | 0, _, _ => false
  | n + 1, s, target =>
    if s.unmarked.isEmpty then s.l.reverse == target
    else s.unmarked.any (fun r =>
      match go att fuel r { s with unmarked := s.unmarked.erase r } with
      | (s', true) => s'.l.isPrefixOf target.reverse && admits att fuel n s' target
      | (s', false) =>
        -- cyclic fallback: `list(visited) + list(unmarked)` are sets in arbitrary order
        let k := s'.l.length
        target.take k == s'.l.reverse && sameMembers (target.drop k) (s'.visited ++ s'.unmarked))

def parseLbl (j : Json) : R (String × Frappy.MultiEvent.Lbl) := do
  match (← arr j) with
  | [.str T, .str "fire", .str t] => pure (T, .fire t)
  | [.str T, .str "register", .str t] => pure (T, .register t)
  | [.str T, .str "lock"] => pure (T, .lock)
  | [.str T, .str "unlock"] => pure (T, .unlock)
  | [.str T, .str "evset"] => pure (T, .evset)
  | [.str T, .str "evclear"] => pure (T, .evclear)
  | [.str T, .str "wait", _] => pure (T, .wait)
  | [.str T, .str "waitdone", .bool ok] => pure (T, .waitdone ok)
  | _ => throw s!"bad label {j.compress}"

def handle (j : Json) : R Json := do
  let k ← fldStr j "k"
  if k == "me_follow" then
    let tr ← (← fldArr j "trace").mapM parseLbl
    return Json.mkObj [("stuck", jopt jnat (Frappy.MultiEvent.firstStuck {} 0 tr))]
  let cfg ← parseCfg (← fld j "cfg")
  match k with
  | "run" =>
    -- round number of a restarted node (0 / absent: the first start): the model's configuration of that round
    let round ← match j.getObjVal? "round" with
      | .ok v => v.getNat?
      | .error _ => pure 0
    let cfg := roundCfg cfg round
    let implLog ← (← fldArr j "log").mapM parseEv
    let implShutdown ← fldStrs j "shutdown"
    let fuel := fuelFor cfg
    let st := startup cfg fuel
    let sched := schedOf st implLog
    let att := attOf st.edges
    let ok := admits att (st.modules.length + 1) (st.modules.length + 1) ⟨st.modules, [], [], []⟩ implShutdown
    let sorted := if ok then implShutdown else getSortedModules st.modules att (fun _ => 0)
    let log := if st.errors.isEmpty then
        st.log ++ waitPhase st sched ++ [Ev.shutdownbegin] ++ st.modules.map Ev.stopPoll ++
          (st.modules.filter (threadsOf st).contains).map Ev.stopPoll ++ sorted.map Ev.shutdown
      else st.log
    return Json.mkObj [("modules", jstrs st.modules), ("errors", jarr (st.errors.map errJson)),
      ("ioDict", jarr (st.ioDict.map pairJson)), ("edges", jarr (st.edges.map pairJson)),
      ("log", jarr (log.map evJson)), ("written", jarr ((writtenOf st log).map writtenJson)),
      ("oof", Json.bool st.oof), ("shutdown_admitted", Json.bool ok)]
  | "judge" =>
    let o ← parseObs j
    return Json.mkObj [("failed", jstrs (judge cfg o)),
      ("clean", Json.bool (cleanB cfg o.ioDict)), ("bad", Json.bool (badAttachmentB cfg o.ioDict))]
  | _ => throw s!"C15: unknown verb {k}"

end Frappy.Drive.C15
