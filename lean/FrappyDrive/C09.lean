import FrappyDrive.Util
import FrappyModel.Spec.C09
import FrappyModel.Generated.C09
/- line-protocol glue for C09 (not part of any theorem) -/
namespace Frappy.Drive.C09
open Lean Frappy.Drive Frappy.Klass Frappy.Spec.C09

def tables : Tables :=
  ⟨Generated.C09.paramProps, Generated.C09.dtypeProps, Generated.C09.predefOrder, Generated.C09.paramExport,
   Generated.C09.cmdExport⟩

def parseProps (j : Json) : R PropMap := do
  (← arr j).mapM (fun kv => do
    match ← arr kv with
    | [k, v] => return (← k.getStr?, ← v.getStr?)
    | _ => throw "bad property pair")

partial def parseTree (j : Json) : R DTree := do
  match ← arr j with
  | [k, p, c, m] =>
    let ms ← if m.isNull then pure [] else (← arr m).mapM (fun kv => do
      match ← arr kv with
      | [a, b] => return (← a.getStr?, ← b.getInt?)
      | _ => throw "bad member")
    return .node (← k.getStr?) (← parseProps p) (← (← arr c).mapM parseTree) ms
  | _ => throw "bad tree"

def optTree (j : Json) : R (Option DTree) := if j.isNull then pure none else some <$> parseTree j
def optS (j : Json) : R (Option String) := if j.isNull then pure none else some <$> j.getStr?

def parseCodes (j : Json) : R (List (String × Int)) := do
  (← arr j).mapM (fun kv => do
    match ← arr kv with
    | [a, b] => return (← a.getStr?, ← b.getInt?)
    | _ => throw "bad code")

/-- the datatype of a parameter declaration: a tree read off the declared object - with the datatype properties given as
keywords next to it applied (`Parameter.__init__`: `self.init(kwds)` → `datatype.setProperty`) -, or a status datatype
still to be worked out from the class it extends -/
def parseDeclTree (j : Json) : R (Option DTree) := do
  match j.getObjVal? "status" with
  | .ok sj =>
    let parent ← optS (← fld sj "parent")
    return some (pendingStatus parent (stdCodes Generated.C09.statusCodes (← fldStrs sj "std") ++ (← parseCodes (← fld sj "custom"))))
  | .error _ =>
    let kw ← match j.getObjVal? "dtkw" with
      | .ok kj => parseProps kj
      | .error _ => pure []
    return (← optTree (← fld j "dt")).map (fun t => applyDtProps tables t kw)

def parseStruct (j : Json) : R StructDecl := do
  let members ← (← fldArr j "members").mapM (fun m => do
    match ← arr m with
    | [n, d, t] => return (← n.getStr?, ← d.getStr?, ← parseTree t)
    | _ => throw "bad struct member")
  return ⟨← optS (← fld j "desc"), ← fldStr j "prefix", ← fldStr j "readonly", ← parseTree (← fld j "dt"), members⟩

def parseDecl (j : Json) : R Decl := do
  match ← fldStr j "k" with
  | "param" => return .param (← optS (← fld j "desc")) (← parseDeclTree j) (← parseProps (← fld j "props")) (← fldBool j "inherit")
  | "cmd" => return .cmd (← optS (← fld j "desc")) (← optTree (← fld j "arg")) (← parseProps (← fld j "props"))
  | "value" => return .value (← fldStr j "v") false none
  | "method" => return .value "null" true (← optS (← fld j "optional"))
  | "none" => return .none
  | "prop" => return .prop ⟨← optS (← fld j "value"), ← fldStr j "default", ← fldStr j "extname", ← fldStr j "export"⟩
  | k => throw s!"bad decl {k}"

def parseEntries (j : Json) : R (List (String × EntrySpec)) := do
  (← arr j).mapM (fun nd => do
    match ← arr nd with
    | [n, d] =>
      match d.getObjVal? "new" with
      | .ok pj => return (← n.getStr?, EntrySpec.new (← parseProps pj))
      | .error _ =>
        match ← fldStrs d "shared" with
        | [sec, key] => return (← n.getStr?, EntrySpec.shared sec key)
        | _ => throw "bad shared entry"
    | _ => throw "bad cfg entry")

def parseGroups (j : Json) : R (List (String × List String)) := do
  (← arr j).mapM (fun g => do
    match ← arr g with
    | [n, ms] => return (← n.getStr?, ← (← arr ms).mapM (·.getStr?))
    | _ => throw "bad group")

/-- one operation of the harness = the session operations it amounts to, each with "was carried out" -/
def parseOp (j : Json) : R (List (Bool × SOp)) := do
  let ok ← fldBool j "ok"
  match ← fldStr j "op" with
  | "class" =>
    let decls ← (← fldArr j "decls").mapM (fun nd => do
      match ← arr nd with
      | [n, d] =>
        if (← fldStr d "k") == "struct" then return (← n.getStr?, Sum.inr (← parseStruct d))
        else return (← n.getStr?, Sum.inl (← parseDecl d))
      | _ => throw "bad decl pair")
    return [(ok, .define ⟨← fldStr j "name", ← fldStrs j "mro", ← fldBool j "module", expandStructs decls⟩ (← fldStrs j "bases"))]
  | "load" => return [(ok, .load (← fldStr j "name") (← parseEntries (← fld j "entries")) (← parseGroups (← fld j "groups")))]
  | "inst" =>
    let sec ← fldStr j "section"
    let ld ← fld j "load"
    let pre ← if ld.isNull then pure [] else do pure [(true, SOp.load sec (← parseEntries ld) (← parseGroups (← fld j "groups")))]
    return pre ++ [(ok, .create (← fldStr j "name") (← fldStr j "cls") sec)]
  | "setprop" =>
    let path ← match j.getObjVal? "path" with
      | .ok pj => (← arr pj).mapM (fun x => x.getNat?)
      | .error _ => pure []
    return [(ok, .setprop (← fldStr j "inst") (← fldStr j "par") path (← fldStr j "key") (← fldStr j "val"))]
  | "enum" => return [(ok, .addEnum (← fldStr j "inst") (← fldStr j "par") (← fldStr j "member"))]
  | "register" =>
    let i ← fldStr j "inst"
    let m ← fldStr j "member"
    return [(true, if ok then .register i m else .registerFailed i m)]
  | k => throw s!"bad op {k}"

def sortBy {α : Type} (lt : α → α → Bool) (l : List α) : List α := (l.toArray.qsort lt).toList

def jprops (p : PropMap) : Json :=
  jarr ((sortBy (fun a b => a.1 < b.1) p).map (fun kv => jarr [Json.str kv.1, Json.str kv.2]))

partial def jtree : DTree → Json
  | .node k p c m =>
    jarr [Json.str k, jprops p, jarr (c.map jtree),
          if k == "enum" then jarr ((sortBy (fun a b => a.2 < b.2 || (a.2 == b.2 && a.1 < b.1)) m).map
            (fun kv => jarr [Json.str kv.1, jint kv.2])) else Json.null]

def jview (nv : String × Option AccView) : Json :=
  match nv.2 with
  | none => jarr [Json.str nv.1, Json.null]
  | some v =>
    let shown := v.tree.map DTree.exported
    let dinfo := if v.isCmd then jarr [Json.str "command", jarr [], jarr [jopt jtree shown, Json.null], Json.null]
                 else jopt jtree shown
    jarr [Json.str nv.1, Json.mkObj [("cmd", Json.bool v.isCmd), ("props", jprops (exportView tables v)),
      ("datainfo", dinfo), ("export", Json.str ((v.props.get? "export").getD "true"))]]

def jmview (isInst : Bool) (nv : String × MView) : Json :=
  match nv.2.prop with
  | none => jarr [Json.str nv.1, Json.null]
  | some p =>
    if isInst then jarr [Json.str nv.1, Json.str (nv.2.value.getD p.dflt)]
    else jarr [Json.str nv.1, jopt Json.str p.value, Json.str p.dflt, Json.str p.extname, Json.str p.exported]

def isInstOwner : Owner → Bool
  | .inst _ => true
  | _ => false

def ownerKey : Owner → String
  | .cls n => "cls:" ++ n
  | .inst n => "inst:" ++ n

def owners (w : World) : List Owner :=
  w.classes.map (fun c => Owner.cls c.pure.decl.name) ++ w.insts.map (fun i => Owner.inst i.name)

/-- (identity inside the datatype object, path where the harness sees it): the one member of a `LimitsType` is
seen at `/0` and at `/1` -/
partial def treePaths (ident pfx : String) : DTree → List (String × String)
  | .node k _ c _ =>
    (ident, pfx) :: (if k == "enum" then [(ident ++ "/enum", pfx ++ "/enum")]
      else if k == "limits" then
        (c.take 1).flatMap (fun ch => treePaths (ident ++ "/0") (pfx ++ "/0") ch ++ treePaths (ident ++ "/0") (pfx ++ "/1") ch)
      else
      (c.zipIdx.flatMap (fun ci => treePaths (ident ++ "/" ++ toString ci.2) (pfx ++ "/" ++ toString ci.2) ci.1)))

/-- (object identity, where it is seen) for everything the harness takes the `id()` of -/
def propIdentities (w : World) : List ((Nat × String) × String) :=
  w.classes.flatMap (fun c => c.propDict.map (fun nr => ((nr.2, ""), "cls:" ++ c.pure.decl.name ++ ":@prop/" ++ nr.1)))

def identities (w : World) : List ((Nat × String) × String) :=
  propIdentities w ++ (owners w).flatMap (fun o => (w.accessiblesOf o).flatMap (fun nr =>
    let here := ownerKey o ++ ":" ++ nr.1
    ((nr.2, ""), here) :: match w.heap.accAt nr.2 with
      | some a => match a.dtype with
        | some rd => match w.heap.dtAt rd with
          | some t => (treePaths "" "" t).map (fun p => ((rd, p.1), here ++ "/dt" ++ p.2))
          | none => []
        | none => []
      | none => []))

def partitionOf (w : World) : Json :=
  let ids := identities w
  let keys := (ids.map (·.1)).eraseDups
  let groups := keys.filterMap (fun k =>
    let g := sortBy (· < ·) ((ids.filter (fun e => e.1 == k)).map (·.2))
    if g.length > 1 then some g else none)
  jarr ((sortBy (fun a b => a.head! < b.head!) groups).map jstrs)

def snapshotW (w : World) : List (String × Json) :=
  [("dumps", Json.mkObj ((owners w).map (fun o => (ownerKey o, jarr ((describeH w o).map jview))))),
   ("mdumps", Json.mkObj ((owners w).map (fun o => (ownerKey o, jarr ((describeM w o).map (jmview (isInstOwner o))))))),
   ("mexport", Json.mkObj ((owners w).map (fun o => (ownerKey o, jprops ((describeM w o).filterMap exportM))))),
   ("part", partitionOf w)]

def jcall (c : String × String × String) : Json := jarr [Json.str c.1, Json.str c.2.1, Json.str c.2.2]

/-- calls as a sorted list (the harness records a set of calls) -/
def jcalls (l : List (String × String × String)) : Json :=
  jarr ((sortBy (fun a b => a.1 < b.1 || (a.1 == b.1 && (a.2.1 < b.2.1 || (a.2.1 == b.2.1 && a.2.2 < b.2.2)))) l).map jcall)

def sortMembers (m : List (String × Int)) : List (String × Int) :=
  sortBy (fun a b => a.2 < b.2 || (a.2 == b.2 && a.1 < b.1)) m

/-- the control behaviour of an instance whose class has `HasControlledBy` in its MRO and which has `controlled_by` -/
def jctrl (s : Session) (i : InstRec) : Option (String × Json) :=
  if (mroOf s.world i.cls).contains "HasControlledBy" && ahas i.accessibles "controlled_by" then
    let probes := match controlMembers s i.name with
      | some ms => (sortMembers ms).flatMap (fun m =>
          [jarr [Json.str m.1, Json.str "self_controlled", jcalls (selfControlledCalls s i.name (ms.map (·.2)) m.2)],
           jarr [Json.str m.1, Json.str "update_target", jcalls (updateTargetCalls s i.name m.2)]])
      | none => []
    some ("inst:" ++ i.name, Json.mkObj [("inputs", jstrs (sortBy (· < ·) (inputsOf s i.name))), ("probes", jarr probes)])
  else none

def snapshot (s : Session) : Json :=
  Json.mkObj (snapshotW s.world ++
    [("cfgs", Json.mkObj (s.sections.map (fun c => ("cfg:" ++ c.name,
        jarr ((describeCfg s c.name).map (fun kp => jarr [Json.str kp.1, jarr (kp.2.map (fun kv => jarr [Json.str kv.1, Json.str kv.2]))])))))),
     ("auto", Json.mkObj (s.autos.map (fun a => ("inst:" ++ a.inst,
        Json.mkObj [("features", jstrs a.features), ("interface_classes", jstrs a.interface)])))),
     ("ctrl", Json.mkObj (s.world.insts.filterMap (jctrl s)))])

def parseDumps (j : Json) : R (List (String × String)) := do
  let o ← j.getObj?
  o.toList.mapM (fun kv => do return (kv.1, ← kv.2.getStr?))

/-- a class is defined with its status datatype worked out in the world as it is then -/
def elabOp (s : Session) : SOp → SOp
  | .define d bases => .define (elabClass s.world d) bases
  | op => op

def handle (j : Json) : R Json := do
  let k ← fldStr j "k"
  match k with
  | "run" =>
    let T : STables := ⟨tables, ← fldStrs j "secop_base"⟩
    let pre ← (← fldArr j "prelude").mapM parseOp
    let ops ← (← fldArr j "ops").mapM parseOp
    let s0 := (pre.flatten).foldl (fun s o => sstep T s (elabOp s o.2)) {}
    let (_, outs) := ops.foldl (fun (st : Session × List Json) op =>
      let s' := op.foldl (fun s o => if o.1 then sstep T s (elabOp s o.2) else s) st.1
      (s', st.2 ++ [snapshot s'])) (s0, [])
    return Json.mkObj [("init", snapshot s0), ("steps", jarr outs)]
  | "judge_run" =>
    let init ← parseDumps (← fld j "init")
    let steps ← (← fldArr j "steps").mapM (fun s => do
      return (← optS (← fld s "target"), ← parseDumps (← fld s "after")))
    match judgeRun init steps with
    | none => return Json.mkObj [("bad", Json.null)]
    | some (i, os) => return Json.mkObj [("bad", jarr [jnat i, jstrs os])]
  | "judge_order" =>
    return Json.mkObj [("bad", jstrs (orderOffenders (← parseDumps (← fld j "a")) (← parseDumps (← fld j "b"))))]
  | "judge_later" =>
    return Json.mkObj [("ok", Json.bool (laterFreshB (← fldStr j "first") (← fldStr j "later")))]
  | "judge_write" =>
    let pairs ← (← fldArr j "pairs").mapM (fun p => do
      match ← arr p with
      | [a, b] => return (← a.getStr?, ← b.getStr?)
      | _ => throw "bad pair")
    return Json.mkObj [("ok", Json.bool (writesOwnB pairs))]
  | "ctx_model" =>
    -- what module `y` shows (members, struct) after `y.<m> = v`, on its own or inside a struct access of module `x`
    let shown ← (← fldArr j "probes").mapM (fun pj => do
      let y ← fldStr pj "y"
      let x ← optS (← fld pj "x")
      let w : StructRW.Mods String := [(y, ⟨0, ← parseProps (← fld pj "struct"), ← parseProps (← fld pj "members")⟩)] ++
        (match x with | some xn => [(xn, ⟨0, [], []⟩)] | none => [])
      let m ← fldStr pj "m"
      let v ← fldStr pj "v"
      let w' := match x with
        | some xn => StructRW.leave (StructRW.memberUpdate (StructRW.enter w xn) y m v) xn
        | none => StructRW.memberUpdate w y m v
      let pairs := fun (l : List (String × String)) => jarr (l.map (fun kv => jarr [Json.str kv.1, Json.str kv.2]))
      match aget? w' y with
      | some sp => return jarr [pairs sp.members, pairs sp.struct]
      | none => throw "ctx_model: module lost")
    return Json.mkObj [("shown", jarr shown)]
  | "judge_ctx" =>
    let pairs ← (← fldArr j "pairs").mapM (fun p => do
      match ← arr p with
      | [a, b] => return (← a.getStr?, ← b.getStr?)
      | _ => throw "bad pair")
    return Json.mkObj [("bad", jstrs (contextOffenders pairs))]
  | "judge_val" =>
    let pairs ← (← fldArr j "pairs").mapM (fun p => do
      match ← arr p with
      | [a, b] => return (← a.getStr?, ← b.getStr?)
      | _ => throw "bad pair")
    return Json.mkObj [("ok", Json.bool (valFunctionalB pairs))]
  | _ => throw s!"C09: unknown verb {k}"

end Frappy.Drive.C09
