import FrappyDrive.C04
import FrappyDrive.C03
import FrappyModel.Spec.C06
import FrappyModel.Node.DescribeDT
import FrappyModel.Node.Retype
import FrappyModel.Node.CreateModules
import FrappyModel.Generated.C06
/- line-protocol glue for C06 (node parser, oracle tables and observation parsers are those of C04) -/
namespace Frappy.Drive.C06
open Lean Frappy.Drive Frappy.Node Frappy.Spec.C04 Frappy.Spec.C06 Frappy.Drive.C04

def propsJson (l : List (String × JJ)) : Json := jarr (l.map (fun kv => jarr [Json.str kv.1, Json.str kv.2]))

def accDescJson (ad : AccDesc JJ) : Json :=
  Json.mkObj [("name", Json.str ad.name),
              ("kind", Json.str (match ad.kind with | .parameter => "param" | .command => "command")),
              ("datainfo", Json.str ad.datainfo), ("readonly", jopt Json.bool ad.readonly),
              ("constant", jopt Json.str ad.constant), ("props", propsJson ad.props),
              ("argument", jopt Json.bool ad.argument)]

def modDescJson (md : ModDesc JJ) : Json :=
  Json.mkObj [("name", Json.str md.name), ("accs", jarr (md.accs.map accDescJson)), ("props", propsJson md.props)]

def parsePropsArr (j : Json) : R (List (String × JJ)) := do
  (← arr j).mapM (fun row => do
    match ← arr row with
    | [.str k, .str v] => return (k, v)
    | _ => throw "bad prop")

/-- does a described command datainfo (the JSON text of the report) have an `argument` member? -/
def argumentOf (datainfo : JJ) : Option Bool :=
  match Json.parse datainfo with
  | .ok j => match j.getObjVal? "argument" with
    | .ok v => some (!v.isNull)
    | .error _ => some false
  | .error _ => none

def parseAccDesc (j : Json) : R (AccDesc JJ) := do
  let kind ← fldStr j "kind"
  let ro ← fld j "readonly"
  let datainfo ← fldStr j "datainfo"
  return ⟨← fldStr j "name", if kind == "param" then .parameter else .command, datainfo,
          ← (if ro.isNull then pure none else some <$> ro.getBool?), ← optStr (← fld j "constant"),
          ← parsePropsArr (← fld j "props"), if kind == "param" then none else argumentOf datainfo⟩

/-- a property value as the harness sends it: the canonical form of the Python value (`canon`: equality of Python values)
and its serialisation (`canonj` of the exported value) -/
abbrev PP := String × String

/-- validated strings / lists of strings (a validated `ArrayOf` value is a tuple) in these two forms -/
def enc : PropEnc PP where
  str := fun s => ("s:" ++ (Json.str s).compress, (Json.str s).compress)
  strs := fun l => ("t[" ++ ",".intercalate (l.map (fun s => "s:" ++ (Json.str s).compress)) ++ "]",
                    "[" ++ ", ".intercalate (l.map (fun s => (Json.str s).compress)) ++ "]")

def parsePVals (j : Json) : R (List (String × PP)) := do
  (← arr j).mapM (fun row => do
    match ← arr row with
    | [.str k, .str c, .str v] => return (k, (c, v))
    | _ => throw "bad property value")

/-- `init` of a module in the node JSON: declared properties, class-level values, configuration, class name -/
def parseInit (m : Json) (mro : List ClassInfo) : R (Option (ModInit PP)) := do
  match m.getObjVal? "init" with
  | .error _ => return none
  | .ok i =>
    if i.isNull then return none
    let decls ← (← fldArr i "decls").mapM (fun row => do
      match ← arr row with
      | [.str n, .str e, .bool x, .bool a, .str c, .str d] => return (PropDecl.mk n e x a (c, d) : PropDecl PP)
      | _ => throw "bad property declaration")
    return some ⟨decls, ← parsePVals (← fld i "preset"), ← parsePVals (← fld i "cfg"), ← fldStr i "impl", mro⟩

/-- `pinit` of a parameter in the node JSON: readonly / constant of the class-level object and of the configuration -/
def parsePInit (a : Json) : R (Option (ParamInit VV)) := do
  match a.getObjVal? "pinit" with
  | .error _ => return none
  | .ok i =>
    if i.isNull then return none
    let cr ← fld i "cfgReadonly"
    return some ⟨← fldBool i "clsReadonly", ← optStr (← fld i "clsConstant"),
                 ← (if cr.isNull then pure none else some <$> cr.getBool?), ← optStr (← fld i "cfgConstant")⟩

/-- readonly / constant of every parameter DERIVED from class + configuration + finish (where `pinit` is given) -/
def applyPInits (mod : Module JJ VV) (mj : Json) : R (Module JJ VV) := do
  let accsJ ← fldArr mj "accs"
  let mut out : List (Acc JJ VV) := []
  for (a, aj) in mod.accs.zip accsJ do
    match a with
    | .param p =>
      match ← parsePInit aj with
      | some i => out := out ++ [.param (p.withInit i)]
      | none => out := out ++ [a]
    | .command _ => out := out ++ [a]
  return { mod with accs := out }

/-- the node with the property part of every module DERIVED from class + configuration (where `init` is given) -/
def parseNodeInit (t : Tables) (j : Json) : R (Node JJ VV × List (String × ModInit PP)) := do
  let n ← parseNode t j
  let ms ← fldArr j "modules"
  let mut out : Node JJ VV := []
  let mut inits : List (String × ModInit PP) := []
  for (mod0, mj) in n.zip ms do
    let mod ← applyPInits mod0 mj
    match ← parseInit mj mod.mro with
    | none => out := out ++ [mod]
    | some i =>
      out := out ++ [{ mod with props := moduleProps (·.2) enc Generated.C06.secopBaseClasses i }]
      inits := inits ++ [(mod.name, i)]
  return (out, inits)

def parseReport (j : Json) : R (List (ModDesc JJ)) := do
  (← arr j).mapM (fun m => do
    return ⟨← fldStr m "name", ← (← fldArr m "accs").mapM parseAccDesc, ← parsePropsArr (← fld m "props")⟩)

/-- the accessible a request is aimed at (`change m` means `m:target`, `read m` means `m:value`) -/
def aim (r : Request JJ VV) : Option (ProbeKind × String × String) :=
  match r with
  | .change spec _ => (target "target" spec).map (fun ma => (.change, ma.1, ma.2))
  | .read spec hd => if hd then none else (target "value" spec).map (fun ma => (.read, ma.1, ma.2))
  | .do_ spec _ => (targetDo spec).map (fun ma => (.do_, ma.1, ma.2))
  | .assign .. => none

/-- the outcome class of a datatype answer (`"ok"`, `"RangeError"`, `"WrongTypeError"`, or the Python class) -/
def resClass : Frappy.Res Float → String
  | .ok _ => "ok"
  | .error .range => "RangeError"
  | .error .wrongType => "WrongTypeError"
  | .error (.other c) => c

def parseModCfg (j : Json) : R Create.ModCfg := do
  return ⟨← fldStr j "name", ← fldBool j "exported", ← fldBool j "pinata", ← fldStrs j "attached", ← fldStrs j "scan"⟩

def parseLimits (j : Json) : R (List (LimitKey × PVal Float)) := do
  (← arr j).mapM (fun row => do
    match ← arr row with
    | [.str "min", v] => return (LimitKey.min, ← pvalOfJson v)
    | [.str "max", v] => return (LimitKey.max, ← pvalOfJson v)
    | _ => throw "bad limit entry")

/-- the datatype operations of parameter `attr` of module `m` in a node -/
def dtOfParam (n : Node JJ VV) (m attr : String) : Option (DtOps JJ VV) :=
  match findModule n m with
  | none => none
  | some mod => mod.accs.findSome? (fun a => match a with
      | .param p => if p.attr == attr then some p.dt else none
      | .command _ => none)

/-- one parameter of the `datatypes` verb: the datatype of the class, the limits the configuration sets, the datatype
object of the instance, the described datainfo and payloads — everything derived by the model (`Node/DescribeDT`) -/
def datatypeCase (p : Json) : R Json := do
  let D := Frappy.Drive.C03.consts
  let inst ← Frappy.Drive.C03.dinfoOfJson (← fld p "inst")
  -- class + configuration -> instance datatype
  let derived ← match p.getObjVal? "cls" with
    | .ok .null => pure Json.null
    | .error _ => pure Json.null
    | .ok c => do
      let cls ← Frappy.Drive.C03.dinfoOfJson c
      let cfg ← parseLimits (← fld p "cfg")
      -- ... and the limits the module set on the live object at run time (one `set_properties` call each)
      let live ← match p.getObjVal? "live" with
        | .ok (.arr a) => a.toList.mapM parseLimits
        | _ => pure []
      pure (Frappy.Drive.C03.exToJson Frappy.Drive.C03.dinfoToJson (liveDatatype D cls cfg live))
  -- instance datatype -> described datainfo
  let datainfo := Frappy.Drive.C03.exToJson jvalToJson (Frappy.Datatypes.exportDatatype D inst)
  -- payloads: the node's own datatype, and the client datatype rebuilt from the DESCRIBED datainfo
  let described ← jvalOfJson (← fld p "described")
  let probes ← (← fldArr p "probes").mapM (fun w => do
    let j ← jvalOfJson w
    return jarr [Json.str (resClass (Frappy.Datatypes.acceptWire inst.erase j none)), Json.str (resClass (clientAccept D described j none))])
  return Json.mkObj [("inst", derived), ("datainfo", datainfo), ("probes", jarr probes),
                     ("exportable", .bool inst.exportableB), ("wf", .bool inst.erase.wfB)]

def handle (j : Json) : R Json := do
  let k ← fldStr j "k"
  match k with
  | "datatypes" =>
    return Json.mkObj [("params", jarr (← (← fldArr j "params").mapM datatypeCase))]
  | "create" =>
    -- `create_modules`: the configuration in its order + what the Pinatas yield -> module objects, registration
    let cfg ← (← fldArr j "cfg").mapM parseModCfg
    let pool ← (← fldArr j "pool").mapM parseModCfg
    let k := cfg.length + pool.length + 1
    let s := Create.createModules pool cfg k k
    return Json.mkObj [("created", jarr (s.created.map (fun x => jarr [Json.str x.1, Json.bool x.2]))),
                       ("export", jstrs s.registered), ("inited", jstrs s.inited), ("errors", jnat s.errors)]
  | "describe" =>
    let t ← parseTables (← fld j "oracle")
    let (nk, inits) ← parseNodeInit t (← fld j "node")
    -- a later phase of a node whose modules changed datatypes of live parameters: the node is DERIVED from the node of
    -- the phase before (`prev`) by `setDt` for the touched parameters - nothing else of the report may have changed
    let n ← match j.getObjVal? "prev" with
      | .ok pj =>
        if pj.isNull then pure nk else do
        let (n0, _) ← parseNodeInit t pj
        let mut n := n0
        for row in ← fldArr j "touched" do
          match ← arr row with
          | [.str m, .str attr] =>
            match dtOfParam nk m attr with
            | some dt => n := setDt n m attr dt
            | none => throw "touched parameter not found"
          | _ => throw "bad touched entry"
        pure n
      | .error _ => pure nk
    let classes := (n.filter (·.exported)).map (fun m => Json.mkObj [("m", Json.str m.name),
      ("ic", jstrs (interfaceClassesOf Generated.C06.secopBaseClasses m.mro)), ("features", jstrs (featuresOf m.mro)),
      ("impl", jopt Json.str ((inits.find? (·.1 == m.name)).map (·.2.impl)))])
    -- the model's answer to every request of the sweep (same stepping as C04's `history`), for the exchange correspondence
    let steps ← match j.getObjVal? "steps" with
      | .error _ => pure []
      | .ok a => (← arr a).mapM (fun s => do
          return (mkEnv t (← parseDrv (← fld s "drv")), ← parseReq (← fld s "req")))
    return Json.mkObj [("report", jarr ((describe predef n).map modDescJson)), ("classes", jarr classes),
                       ("outs", jarr ((runSteps nk steps).map outJson))]
  | "judge" =>
    let t ← parseTables (← fld j "oracle")
    let (n, inits) ← parseNodeInit t (← fld j "node")
    let r1 ← parseReport (← fld j "report1")
    let r2 ← parseReport (← fld j "report2")
    -- "is strict JSON": the text the node would send must parse as JSON (NaN / Infinity tokens do not)
    match j.getObjVal? "text" with
    | .error _ => pure ()
    | .ok t =>
      let strict := match t with
        | .str s => (Json.parse s).isOk
        | _ => false
      if !strict then return Json.mkObj [("bad", jarr [Json.str "report-not-strict-json", jnat 0, Json.str ""])]
    if !(stableB r1 r2) then return Json.mkObj [("bad", jarr [Json.str "unstable", jnat 0, Json.str ""])]
    -- the report of the phase before, and the parameters whose datatype module code changed since then
    match j.getObjVal? "report0" with
    | .ok r0j =>
      if !r0j.isNull then
        let r0 ← parseReport r0j
        let touched ← (← fldArr j "touchedWire").mapM (fun row => do
          match ← arr row with
          | [.str m, .str a] => return (m, a)
          | _ => throw "bad touched entry")
        if !(stableExceptB touched r0 r1) then
          return Json.mkObj [("bad", jarr [Json.str "unstable-untouched", jnat 0, Json.str ""])]
    | .error _ => pure ()
    -- registration: the module objects of the node (with their export flag) against the list the report is made from
    -- (reported together with what the sweep finds: a module that is not registered is not described, yet reachable)
    let mut pre : List Json := []
    match j.getObjVal? "registry" with
    | .ok rj =>
      if !rj.isNull then
        let created ← (← fldArr rj "created").mapM (fun row => do
          match ← arr row with
          | [.str m, .bool e] => return (m, e)
          | _ => throw "bad registry entry")
        let registered ← fldStrs rj "export"
        if !(allRegisteredB created registered) then
          pre := pre ++ [jarr [Json.str "unregistered-module", jnat 0, Json.str (",".intercalate (unregistered created registered))]]
        else if !(reportFollowsB (registeredExported created registered) r1) then
          pre := pre ++ [jarr [Json.str "lists", jnat 0, Json.str ""]]
    | .error _ => pure ()
    if pre.isEmpty && !(listsExactlyB predef n r1) then pre := pre ++ [jarr [Json.str "lists", jnat 0, Json.str ""]]
    -- interface class and features against the class chain of the implementing class
    for c in ← fldArr j "classes" do
      let m ← fldStr c "m"
      match findModule n m with
      | none => return Json.mkObj [("bad", jarr [Json.str "class-props", jnat 0, Json.str m])]
      | some mod =>
        if !(classPropsB Generated.C06.secopBaseClasses mod.mro (← fldStrs c "ic") (← fldStrs c "features")) then
          return Json.mkObj [("bad", jarr [Json.str "class-props", jnat 0, Json.str m])]
        match inits.find? (·.1 == m) with
        | none => pure ()
        | some (_, i) =>
          if !(implementationB i.impl (← optStr (← fld c "impl"))) then
            return Json.mkObj [("bad", jarr [Json.str "class-props", jnat 0, Json.str m])]
    let env := mkEnv t .none
    let mut i := 0
    -- (the datatype trees of the parameters, field "trees", were used until the repair of `ScaledInteger.validate` to
    -- attribute a disagreement at a scaled limit off the grid to the recorded finding `scaled-limit-off-grid`; the
    -- finding is fixed: such a disagreement is a violation like any other)
    -- every failing item is reported (one finding must not hide another kind of failure in the same node)
    let mut bads : List Json := pre
    -- requests: report against behaviour
    for s in ← fldArr j "steps" do
      let req ← parseReq (← fld s "req")
      let o ← fld s "obs"
      match aim req with
      | none => pure ()
      | some (kind, m, a) =>
        let nb := withCache n (← parseCacheRows (← fld o "before"))
        let allowed := match req with
          | .change spec p => match changeVerdict predef env nb spec p with
            | .allow .. => true
            | _ => false
          | _ => false
        let hasData := match req with
          | .do_ _ d => d.isSome
          | _ => false
        -- the verdict of the client datatype rebuilt from the described datainfo (do: of the argument; change: of the
        -- parameter); a change for which the harness has no verdict (not aimed at a described parameter) demands nothing
        let client := match s.getObjVal? "client" with
          | .ok (.bool b) => b
          | _ => kind == .change
        let pr : Probe JJ VV := ⟨kind, m, a, ← parseReply (← fld o "reply"), ← (← fldArr o "calls").mapM parseCall,
          false, allowed, hasData, client⟩
        if !(probeOKB r1 pr) then
          let what := match findDesc r1 m a with
            | none => "undescribed-reachable"
            | some _ => match kind with
              | .change =>
                -- which clause failed: the flag, or the described datainfo (a payload it excludes was taken)
                if probeOKB r1 { pr with clientAccepts := true } then
                  "datainfo-not-honoured"
                else "flag-not-honoured"
              | .read => "constant-not-read"
              | .do_ => "command-datainfo-not-honoured"
              | _ => "other"
          bads := bads ++ [jarr [Json.str what, jnat i, Json.str s!"{m}:{a}"]]
      i := i + 1
    -- activate requests
    i := 0
    for s in ← fldArr j "activates" do
      let m ← fldStr s "m"
      let a ← fldStr s "a"
      let pr : Probe JJ VV := ⟨.activate, m, a, ← parseReply (← fld s "reply"), [], ← fldBool s "subsChanged", false, false, false⟩
      if !(probeOKB r1 pr) then
        bads := bads ++ [jarr [Json.str "undescribed-subscribed", jnat i, Json.str s!"{m}:{a}"]]
      i := i + 1
    -- described datainfo against the runtime datatype; emitted values against the described datainfo
    i := 0
    for s in ← fldArr j "dichecks" do
      let c : DatainfoCheck := ⟨← fldStr s "m", ← fldStr s "a", ← fldBool s "client", ← fldBool s "node"⟩
      if !(datainfoAgreeB c) then
        bads := bads ++ [jarr [Json.str "datainfo-disagrees", jnat i, Json.str s!"{c.m}:{c.a}"]]
      i := i + 1
    i := 0
    for s in ← fldArr j "imports" do
      if !(← fldBool s "ok") then
        bads := bads ++ [jarr [Json.str "emitted-not-importable", jnat i,
          Json.str s!"{← fldStr s "m"}:{← fldStr s "a"}"]]
      i := i + 1
    return Json.mkObj [("bad", bads.head?.getD Json.null), ("bads", jarr (bads.take 200))]
  | _ => throw s!"C06: unknown verb {k}"

end Frappy.Drive.C06
