import FrappyDrive.DTypes
import FrappyModel.Datatypes.Datainfo
import FrappyModel.Datatypes.Compat
import FrappyModel.Datatypes.Variants
import FrappyModel.Datatypes.CompatUsers
import FrappyModel.Datatypes.CopyHeap
import FrappyModel.Datatypes.Import
import FrappyModel.Datatypes.CommandInfo
import FrappyModel.Datatypes.History
import FrappyModel.Spec.C03
import FrappyModel.Generated.C03
/-
Line-protocol glue for C03.  Annotated trees (`DInfo`) are the trees of `DTypes.lean` plus
`"unit"`, `"fmt"` on `double` / `scaled` and `"name"` on `enum`.

  {"k":"rebuild","di":T,"impl":{"built":b,"datainfo":J|null,"datainfo2":J|null,"tree2":T|null,"probes":[{"o":O,"d":O},..]}}
      → {"model":{"datainfo":J|err,"tree2":T|err,"datainfo2":J|err,"classes":S},"judge":[..]}
      (S = the classes of the rebuilt / copied tree: "leaf"|"text"|"status"|{"array":S}|{"tuple":[S..]}|{"limits":S}|{"struct":[[k,S]..]})
  {"k":"get","json":J}                          → {"model": T | "bad"}                       (malformed datainfo stream)
  {"k":"copy","di":T,"impl":{…as rebuild…,"shared":[kinds],"before":J,"after":J,"mprobes":[{"o":O,"d":O},..]}}
      → {"model":{"tree2":T|err,"shared":[..]},"judge":[..]}
  {"k":"compat","a":T,"b":T,"impl":{"verdict":"pass"|"bad"|{"other":c},"witnesses":[{"v":V,"acc":b},..]}}
      → {"model":"pass"|"bad","nested":b,"wf":b,"judge":[..]}
      (trees of a pair may carry "cls":"text" on a string node, "cls":"limits" | "status" on a tuple node: `CType`)
  {"k":"probe","di":T,"mode":"wire"|"py","cand":V}  → {"model":O}       (model outcome of import_value / validate)
  {"k":"proxy","params":[{"name":s,"export":b,"readonly":b,"dt":T,"remote":null|{"dt":T,"readonly":b}},..],
               "commands":[{"name":s,"dt":C,"remote":null|C},..]}         (C = {"arg":T|null,"res":T|null})
      → {"model":{"params":[[name,[warning,..]],..],"commands":[[name,[warning,..]],..]}}   (ProxyModule._check_descriptive_data)
  {"k":"cmdcompat","a":C,"b":C,"impl":{"verdict":…,"wa":[{"v":V,"acc":b},..],"wr":[..]}} → {"model":"pass"|"bad","nested":b,"judge":[..]}
  a parameter of "proxy" may carry "obs":{"incompatible":b,"notfully":b,"to_remote":[{"v":V,"acc":b},..],"to_proxy":[..]}
      → additionally "judge":["<clause>@<name>",..]   (judgeProxyParam: the verdict in the direction the values flow)
  {"k":"history","di":T,"steps":[{"op":"export","path":[n..]}|{"op":"unit","path":[n..],"unit":s}|{"op":"set","path":[n..],"props":[[key,P],..]},..],
               "final":"rebuild"|"copy","impl":{…as rebuild…,"twin":J|null}}      (P = {"f":bits} | integer | string | bool)
      → {"model":{"tree":T|err,"exports":[J|err,..],"datainfo":J|err,"tree2":T|err},"judge":[..]}   (one object through a history)
  {"k":"writable","value":T,"target":T} → {"model":"ok"|"ConfigError"|"ProgrammingError"}   (Writable.__init__; the
      datatypes are those declared: the check sees their copies, `copyC`)
-/
namespace Frappy.Drive.C03
open Lean Frappy.Drive Frappy Frappy.Datatypes Frappy.Spec.C03
open Frappy.Spec.C01 (Outcome)

def consts : Consts Float :=
  { zero := Float.ofBits Generated.C03.zeroBits.toUInt64
    relRes := Float.ofBits Generated.C03.relResBits.toUInt64
    minScale := Float.ofBits Generated.C03.minScaleBits.toUInt64 }

partial def dinfoOfJson (j : Json) : R (DInfo Float) := do
  let t ← fldStr j "t"
  let ff (k : String) : R Float := do floatOfJson (← fld j k)
  match t with
  | "double" => return .double (← ff "min") (← ff "max") (← ff "ar") (← ff "rr") (← fldStr j "unit") (← fldStr j "fmt")
  | "int" => return .int (← fldInt j "min") (← fldInt j "max")
  | "scaled" => return .scaled (← ff "scale") (← ff "min") (← ff "max") (← ff "ar") (← ff "rr") (← fldStr j "unit") (← fldStr j "fmt")
  | "bool" => return .bool
  | "enum" =>
    let ms ← (← fldArr j "members").mapM (fun kv => do
      match ← arr kv with
      | [k, v] => return ((← k.getStr?), (← v.getInt?))
      | _ => throw "bad enum member")
    return .enum (← fldStr j "name") ms
  | "string" => return .string (← fldNat j "min") (← fldNat j "max") (← fldBool j "utf8")
  | "blob" => return .blob (← fldNat j "min") (← fldNat j "max")
  | "array" => return .array (← dinfoOfJson (← fld j "elem")) (← fldNat j "min") (← fldNat j "max")
  | "tuple" => return .tuple (← (← fldArr j "elems").mapM dinfoOfJson)
  | "struct" =>
    let ms ← (← fldArr j "members").mapM (fun kv => do
      match ← arr kv with
      | [k, v] => return ((← k.getStr?), (← dinfoOfJson v))
      | _ => throw "bad struct member")
    return .struct ms (← fldStrs j "optional") (← fldBool j "client")
  | _ => throw s!"unknown datatype kind {t}"

partial def dinfoToJson : DInfo Float → Json
  | .double mn mx ar rr u f => Json.mkObj [("t", "double"), ("min", floatToJson mn), ("max", floatToJson mx),
      ("ar", floatToJson ar), ("rr", floatToJson rr), ("unit", .str u), ("fmt", .str f)]
  | .int mn mx => Json.mkObj [("t", "int"), ("min", jint mn), ("max", jint mx)]
  | .scaled s mn mx ar rr u f => Json.mkObj [("t", "scaled"), ("scale", floatToJson s), ("min", floatToJson mn),
      ("max", floatToJson mx), ("ar", floatToJson ar), ("rr", floatToJson rr), ("unit", .str u), ("fmt", .str f)]
  | .bool => Json.mkObj [("t", "bool")]
  | .enum n ms => Json.mkObj [("t", "enum"), ("name", .str n), ("members", jarr (ms.map (fun (k, v) => jarr [.str k, jint v])))]
  | .string mn mx u => Json.mkObj [("t", "string"), ("min", jnat mn), ("max", jnat mx), ("utf8", .bool u)]
  | .blob mn mx => Json.mkObj [("t", "blob"), ("min", jnat mn), ("max", jnat mx)]
  | .array e mn mx => Json.mkObj [("t", "array"), ("elem", dinfoToJson e), ("min", jnat mn), ("max", jnat mx)]
  | .tuple es => Json.mkObj [("t", "tuple"), ("elems", jarr (es.map dinfoToJson))]
  | .struct ms opt c => Json.mkObj [("t", "struct"),
      ("members", jarr (ms.map (fun (k, v) => jarr [.str k, dinfoToJson v]))),
      ("optional", jstrs opt), ("client", .bool c)]

/-- a tree with class marks: `"cls":"text"` on a string node (`min` 0, not UTF-8), `"cls":"limits"` on a tuple node with
two identical members, `"cls":"status"` on a tuple node (enum, unlimited string) -/
partial def ctypeOfJson (j : Json) : R (CType Float) := do
  let t ← fldStr j "t"
  let cls : String := match j.getObjVal? "cls" with
    | .ok (.str c) => c
    | _ => ""
  match t, cls with
  | "string", "text" =>
    if (← fldNat j "min") != 0 || (← fldBool j "utf8") then throw "TextType has minchars 0 and is not UTF-8"
    return .text (← fldNat j "max")
  | "tuple", "limits" =>
    match ← fldArr j "elems" with
    | [x, y] =>
      if x.compress != y.compress then throw "LimitsType has two identical members"
      return .limits (← ctypeOfJson x)
    | _ => throw "LimitsType has two members"
  | "tuple", "status" =>
    match ← fldArr j "elems" with
    | [x, y] =>
      match ← dtypeOfJson x, ← dtypeOfJson y with
      | .enum ms, .string 0 mx false =>
        if mx != unlimitedChars then throw "StatusType has an unlimited string"
        return .status ms
      | _, _ => throw "StatusType is (enum, string)"
    | _ => throw "StatusType has two members"
  | "array", "" => return .array (← ctypeOfJson (← fld j "elem")) (← fldNat j "min") (← fldNat j "max")
  | "tuple", "" => return .tuple (← (← fldArr j "elems").mapM ctypeOfJson)
  | "struct", "" =>
    let ms ← (← fldArr j "members").mapM (fun kv => do
      match ← arr kv with
      | [k, v] => return ((← k.getStr?), (← ctypeOfJson v))
      | _ => throw "bad struct member")
    return .struct ms (← fldStrs j "optional") (← fldBool j "client")
  | _, "" => return .leaf (← dtypeOfJson j)
  | _, c => throw s!"class mark {c} on a node of kind {t}"

partial def skelToJson : Skel → Json
  | .leaf => .str "leaf"
  | .text => .str "text"
  | .status => .str "status"
  | .array e => Json.mkObj [("array", skelToJson e)]
  | .tuple es => Json.mkObj [("tuple", jarr (es.map skelToJson))]
  | .limits m => Json.mkObj [("limits", skelToJson m)]
  | .struct ms => Json.mkObj [("struct", jarr (ms.map (fun (k, v) => jarr [.str k, skelToJson v])))]

def cmdOfJson (j : Json) : R (CmdType Float) := do
  let opt (key : String) : R (Option (CType Float)) := do
    match j.getObjVal? key with
    | .ok .null => pure none
    | .ok t => some <$> ctypeOfJson t
    | .error _ => pure none
  return { argument := ← opt "arg", result := ← opt "res" }

def errToJson : Err → Json
  | .other c => Json.mkObj [("other", .str c)]
  | _ => .str "bad"

def exToJson {α : Type} (f : α → Json) : Except Err α → Json
  | .ok a => f a
  | .error e => errToJson e

def outcomeOfJson (j : Json) : R (Outcome Float) :=
  match j with
  | .str "bad" => pure .bad
  | _ =>
    match j.getObjVal? "ok", j.getObjVal? "other" with
    | .ok v, _ => do return .ok (← pvalOfJson v)
    | _, .ok c => do return .other (← c.getStr?)
    | _, _ => throw s!"bad outcome {j.compress}"

def outcomeToJson : Outcome Float → Json
  | .ok v => Json.mkObj [("ok", pvalToJson v)]
  | .bad => .str "bad"
  | .other c => Json.mkObj [("other", .str c)]

def outcomeOfRes : Res Float → Outcome Float
  | .ok v => .ok v
  | .error (.other c) => .other c
  | .error _ => .bad

def probesOfJson (j : Json) (key : String) : R (List (Probe Float)) := do
  match j.getObjVal? key with
  | .ok ps => (← arr ps).mapM (fun p => do
      return { original := ← outcomeOfJson (← fld p "o"), derived := ← outcomeOfJson (← fld p "d") })
  | .error _ => pure []

def optJVal (j : Json) (key : String) : R (Option (JVal Float)) := do
  match j.getObjVal? key with
  | .ok .null => pure none
  | .ok x => some <$> jvalOfJson x
  | .error _ => pure none

def derivedOfJson (impl : Json) : R (Derived Float) := do
  let di ← optJVal impl "datainfo"
  return { built := ← fldBool impl "built"
           datainfo := di.getD .null
           datainfo' := ← optJVal impl "datainfo2"
           probes := ← probesOfJson impl "probes" }

def verdictOfJson (j : Json) : R Verdict :=
  match j with
  | .str "pass" => pure .pass
  | .str "bad" => pure .bad
  | _ => do return .other (← fldStr j "other")

/-- the laws of `CompatLaws` (Base/NumCompat.lean) and the hypothesis `GridStable` of `rebuild_snaps` / `copy_snaps`,
instantiated with `Float` on given doubles / integers: a *test* of the trusted base on the region the generators draw
(names of the laws that fail).  `m` a limit, `s` a scale, `x ≤ y` values, `rr` / `ar` resolutions, `lo ≤ i ≤ hi` integers. -/
def compatLawFailures (m s x y rr ar : Float) (lo i hi : Int) : List String :=
  let imp (a b : Bool) : Bool := !a || b
  let F := Float
  let fin (v : F) : Bool := FloatOps.isFinite v
  let M : F := FloatOps.maxFinite
  let tol (v : F) : F := DType.tolerance rr ar v
  let resOK : Bool := fin rr && DType.nonneg rr && DType.resLeOne rr && fin ar && DType.nonneg ar
  let gridOK : Bool := fin m && fin s && DType.positive s
  let checks : List (String × Bool) := [
    ("feq_canon", imp (FloatOps.feq x y && FloatOps.same (FloatOps.addZero x) x && FloatOps.same (FloatOps.addZero y) y)
      (FloatOps.same x y)),
    ("lt_notNaN", imp (FloatOps.lt x y) (!FloatOps.isNaN x && !FloatOps.isNaN y)),
    ("addZero_isNaN", FloatOps.isNaN (FloatOps.addZero x) == FloatOps.isNaN x),
    ("addZero_le_left", FloatOps.le (FloatOps.addZero x) y == FloatOps.le x y),
    ("addZero_le_right", FloatOps.le x (FloatOps.addZero y) == FloatOps.le x y),
    ("finite_between", imp (fin m && fin y && FloatOps.le m x && FloatOps.le x y) (fin x)),
    ("finite_bounds", imp (fin x) (FloatOps.le (FloatOps.neg M) x && FloatOps.le x M)),
    ("bounds_finite", imp (FloatOps.le (FloatOps.neg M) x && FloatOps.le x M) (fin x)),
    ("ofInt_between", imp ((FloatOps.ofInt (F := F) lo).isSome && (FloatOps.ofInt (F := F) hi).isSome &&
      decide (lo ≤ i) && decide (i ≤ hi)) (FloatOps.ofInt (F := F) i).isSome),
    ("ofInt_finite", match (FloatOps.ofInt i : Option F) with
      | some w => imp (decide (-DType.intLimit ≤ i) && decide (i ≤ DType.intLimit)) (fin w)
      | none => true),
    ("round_between", imp ((FloatOps.round m).isSome && (FloatOps.round y).isSome && FloatOps.le m x && FloatOps.le x y)
      (FloatOps.round x).isSome),
    ("tol_nonneg", imp (fin rr && DType.nonneg rr && fin ar && DType.nonneg ar && fin x)
      (!FloatOps.isNaN (tol x) && DType.nonneg (tol x))),
    ("band_lo_mono", imp (fin m && resOK && fin x && fin y && FloatOps.le x y && FloatOps.le (FloatOps.sub m (tol x)) x)
      (FloatOps.le (FloatOps.sub m (tol y)) y)),
    ("band_hi_mono", imp (fin m && resOK && fin x && fin y && FloatOps.le x y && FloatOps.le y (FloatOps.add m (tol y)))
      (FloatOps.le x (FloatOps.add m (tol x)))),
    ("grid_ge_lt", match FloatOps.round (FloatOps.div x s) with
      | some k => (match (FloatOps.ofInt k : Option F) with
        | some w => imp (gridOK && FloatOps.le m (FloatOps.mul w s)) (FloatOps.lt (FloatOps.sub m s) x)
        | none => true)
      | none => true),
    ("grid_le_lt", match FloatOps.round (FloatOps.div x s) with
      | some k => (match (FloatOps.ofInt k : Option F) with
        | some w => imp (gridOK && FloatOps.le (FloatOps.mul w s) m) (FloatOps.lt x (FloatOps.add m s))
        | none => true)
      | none => true),
    -- not a law of the class: the hypothesis `GridStable` of `rebuild_snaps` / `copy_snaps`
    ("hypothesis:GridStable", match DType.gridIndex s x with
      | some k => (match (FloatOps.ofInt k : Option F) with
        | some w => imp (fin s && DType.positive s && fin (FloatOps.mul w s)) (DType.gridIndex s (FloatOps.mul w s) == some k)
        | none => true)
      | none => true)]
  (checks.filter (fun c => !c.2)).map (·.1)

def witsOfJson (j : Json) (key : String) : R (List (Witness Float)) := do
  match j.getObjVal? key with
  | .ok ws => (← arr ws).mapM (fun w => do
      return ({ value := ← pvalOfJson (← fld w "v"), accepted := ← fldBool w "acc" } : Witness Float))
  | .error _ => pure []

def propValOfJson (j : Json) : R (PropVal Float) :=
  match j with
  | .str s => pure (.str s)
  | .bool b => pure (.bool b)
  | .num _ => do return .int (← j.getInt?)
  | _ => do return .num (← floatOfJson j)

def stepOfJson (j : Json) : R (Step Float) := do
  let path ← fldNats j "path"
  match ← fldStr j "op" with
  | "export" => return .export path
  | "unit" => return .mainUnit path (← fldStr j "unit")
  | "set" =>
    let props ← (← fldArr j "props").mapM (fun kv => do
      match ← arr kv with
      | [k, v] => return ((← k.getStr?), (← propValOfJson v))
      | _ => throw "bad property item")
    return .setProps path props
  | op => throw s!"unknown step {op}"

def handle (j : Json) : R Json := do
  let k ← fldStr j "k"
  match k with
  | "laws" =>
    let tuples ← (← fldArr j "tuples").mapM (fun t => do
      match ← arr t with
      | [m, s, x, y, rr, ar, lo, i, hi] =>
        let f (v : Json) : R Float := do return Float.ofBits (← v.getNat?).toUInt64
        return compatLawFailures (← f m) (← f s) (← f x) (← f y) (← f rr) (← f ar) (← lo.getInt?) (← i.getInt?) (← hi.getInt?)
      | _ => throw "bad law tuple")
    return Json.mkObj [("fail", jarr (tuples.map jstrs))]
  | "echo" =>
    let t ← dinfoOfJson (← fld j "di")
    return Json.mkObj [("di", dinfoToJson t), ("erased", dtypeToJson t.erase), ("wf", .bool t.erase.wfB)]
  | "rebuild" =>
    let t ← dinfoOfJson (← fld j "di")
    let impl ← fld j "impl"
    let ex := exportDatatype consts t
    let rebuilt : Except Err (DInfo Float) := match ex with
      | .ok d => getDatatype consts d
      | .error e => .error e
    let ex2 : Except Err (JVal Float) := match rebuilt with
      | .ok t' => exportDatatype consts t'
      | .error e => .error e
    let c ← ctypeOfJson (← fld j "di")
    return Json.mkObj [
      ("model", Json.mkObj [("datainfo", exToJson jvalToJson ex), ("tree2", exToJson dinfoToJson rebuilt),
        ("datainfo2", exToJson jvalToJson ex2), ("classes", skelToJson (rebuildC c).skel)]),
      ("wf", .bool t.erase.wfB), ("aligned", .bool t.exportableB), ("snappable", .bool (DInfo.snapLimits t).isSome),
      ("judge", jstrs (judgeRebuilt t (← derivedOfJson impl)))]
  | "get" =>
    let d ← jvalOfJson (← fld j "json")
    return Json.mkObj [("model", exToJson dinfoToJson (getDatatype consts d))]
  | "copy" =>
    let t ← dinfoOfJson (← fld j "di")
    let impl ← fld j "impl"
    let c := copy consts t
    let m : Mutation Float := {
      shared := ← fldStrs impl "shared"
      before := (← optJVal impl "before").getD .null
      after := (← optJVal impl "after").getD .null
      probes := ← probesOfJson impl "mprobes" }
    let ct ← ctypeOfJson (← fld j "di")
    return Json.mkObj [
      ("model", Json.mkObj [("tree2", exToJson dinfoToJson c), ("shared", jstrs (Heap.sharedKinds consts t)),
        ("classes", skelToJson (copyC ct).skel)]),
      ("wf", .bool t.erase.wfB), ("aligned", .bool t.exportableB), ("snappable", .bool (DInfo.snapLimits t).isSome),
      ("judge", jstrs (judgeRebuilt t (← derivedOfJson impl) ++ judgeMutation m))]
  | "compat" =>
    let a ← ctypeOfJson (← fld j "a")
    let b ← ctypeOfJson (← fld j "b")
    let impl ← fld j "impl"
    let verdict ← verdictOfJson (← fld impl "verdict")
    let ws ← (← fldArr impl "witnesses").mapM (fun w => do
      return ({ value := ← pvalOfJson (← fld w "v"), accepted := ← fldBool w "acc" } : Witness Float))
    let m : Json := match compatibleC a b with
      | .ok _ => .str "pass"
      | .error e => errToJson e
    -- the model of the second type's `validate` on every witness (correspondence of `cvalidate`)
    let macc := ws.map (fun w => match cvalidate b w.value none with
      | .ok _ => true
      | .error _ => false)
    return Json.mkObj [("model", m), ("nested", .bool (nestedCB a b)), ("wf", .bool (a.wfB && b.wfB)),
      ("macc", Json.arr (macc.map Json.bool).toArray), ("inset", Json.arr (ws.map (fun w => Json.bool (inSetCB a w.value))).toArray),
      ("judge", jstrs (judgeCompatC a b verdict ws))]
  | "probe" =>
    let t ← dinfoOfJson (← fld j "di")
    let mode ← fldStr j "mode"
    if mode == "wire" then
      let cand ← jvalOfJson (← fld j "cand")
      return Json.mkObj [("model", outcomeToJson (outcomeOfRes (importValue t.erase cand)))]
    else
      let cand ← pvalOfJson (← fld j "cand")
      return Json.mkObj [("model", outcomeToJson (outcomeOfRes (validate t.erase cand none)))]
  | "proxy" =>
    let out ← (← fldArr j "params").mapM (fun p => do
      let name ← fldStr p "name"
      let dt ← ctypeOfJson (← fld p "dt")
      let remote : Option (RemoteParam Float) ← match p.getObjVal? "remote" with
        | .ok .null => pure none
        | .ok r => do pure (some { datatype := ← ctypeOfJson (← fld r "dt"), readonly := ← fldBool r "readonly" })
        | .error _ => pure none
      let ws := proxyParam name (← fldBool p "export") (← fldBool p "readonly") dt remote
      return jarr [.str name, jstrs (ws.map ProxyWarning.name)])
    let judged ← (← fldArr j "params").mapM (fun p => do
      match p.getObjVal? "obs", p.getObjVal? "remote" with
      | .ok o, .ok r =>
        if o.isNull || r.isNull then return []
        let name ← fldStr p "name"
        let obs : ProxyObs Float := { incompatible := ← fldBool o "incompatible", notFully := ← fldBool o "notfully",
                                      toRemote := ← witsOfJson o "to_remote", toProxy := ← witsOfJson o "to_proxy" }
        let cl := judgeProxyParam (!(← fldBool p "readonly")) (← ctypeOfJson (← fld p "dt")) (← ctypeOfJson (← fld r "dt")) obs
        return cl.map (· ++ "@" ++ name)
      | _, _ => return [])
    let cmds : List Json := match j.getObjVal? "commands" with
      | .ok (.arr xs) => xs.toList
      | _ => []
    let cout ← cmds.mapM (fun c => do
      let name ← fldStr c "name"
      let dt ← cmdOfJson (← fld c "dt")
      let remote : Option (CmdType Float) ← match c.getObjVal? "remote" with
        | .ok .null => pure none
        | .ok r => do pure (some (← cmdOfJson r))
        | .error _ => pure none
      return jarr [.str name, jstrs ((proxyCommand dt remote).map ProxyCmdWarning.name)])
    return Json.mkObj [("model", Json.mkObj [("params", jarr out), ("commands", jarr cout)]), ("judge", jstrs judged.flatten)]
  | "cmdcompat" =>
    let a ← cmdOfJson (← fld j "a")
    let b ← cmdOfJson (← fld j "b")
    let impl ← fld j "impl"
    let verdict ← verdictOfJson (← fld impl "verdict")
    let wits (key : String) : R (List (Witness Float)) := do
      (← fldArr impl key).mapM (fun w => do
        return ({ value := ← pvalOfJson (← fld w "v"), accepted := ← fldBool w "acc" } : Witness Float))
    let m : Json := match compatibleCmd a b with
      | .ok _ => .str "pass"
      | .error e => errToJson e
    return Json.mkObj [("model", m), ("nested", .bool (decide (NestedCmd a b))),
      ("judge", jstrs (judgeCmd a b verdict (← wits "wa") (← wits "wr")))]
  | "cmdrebuild" =>
    let opt (key : String) : R (Option (DInfo Float)) := do
      match j.getObjVal? key with
      | .ok .null => pure none
      | .ok t => some <$> dinfoOfJson t
      | .error _ => pure none
    let c : CmdInfo Float := { argument := ← opt "arg", result := ← opt "res" }
    let impl ← fld j "impl"
    let obs (key : String) : R (CmdDerived Float) := do
      let o ← fld impl key
      let ps (k2 : String) : R (Option (List (Probe Float))) := do
        match o.getObjVal? k2 with
        | .ok .null => pure none
        | .ok _ => some <$> probesOfJson o k2
        | .error _ => pure none
      return { built := ← fldBool o "built", datainfo := (← optJVal o "datainfo").getD .null,
               datainfo' := ← optJVal o "datainfo2", argument := ← ps "argp", result := ← ps "resp",
               shared := ← fldStrs o "shared" }
    let ex := exportCommand consts c
    let showCmd (r : Except Err (CmdInfo Float)) : Json := match r with
      | .ok c' => Json.mkObj [("arg", (c'.argument.map dinfoToJson).getD .null), ("res", (c'.result.map dinfoToJson).getD .null)]
      | .error e => errToJson e
    let rebuilt : Except Err (CmdInfo Float) := match ex with
      | .ok d => getCommand consts d
      | .error e => .error e
    return Json.mkObj [
      ("model", Json.mkObj [("datainfo", exToJson jvalToJson ex), ("rebuild", showCmd rebuilt), ("copy", showCmd (copyCommand consts c))]),
      ("aligned", .bool ((c.argument.map DInfo.exportableB).getD true && (c.result.map DInfo.exportableB).getD true)),
      ("snappable", .bool ((c.argument.map (fun t => (DInfo.snapLimits t).isSome)).getD true &&
        (c.result.map (fun t => (DInfo.snapLimits t).isSome)).getD true)),
      ("judge", jstrs ((judgeCmdDerived c (← obs "rebuild")).map ("rebuild:" ++ ·) ++ (judgeCmdDerived c (← obs "copy")).map ("copy:" ++ ·)))]
  | "getcmd" =>
    let d ← jvalOfJson (← fld j "json")
    let showCmd (r : Except Err (CmdInfo Float)) : Json := match r with
      | .ok c' => Json.mkObj [("arg", (c'.argument.map dinfoToJson).getD .null), ("res", (c'.result.map dinfoToJson).getD .null)]
      | .error e => errToJson e
    return Json.mkObj [("model", showCmd (getCommand consts d))]
  | "history" =>
    let t ← dinfoOfJson (← fld j "di")
    let steps ← (← fldArr j "steps").mapM stepOfJson
    let impl ← fld j "impl"
    match run consts t steps with
    | .error e =>
      -- the model refuses a step; an implementation that went on is still judged, on the state read off its object
      let judged : List String ← match impl.getObjVal? "refused", impl.getObjVal? "tree" with
        | .ok (.str _), _ => pure []
        | _, .ok tj => if tj.isNull then pure [] else do
            pure (judgeHistory (← dinfoOfJson tj) { derived := ← derivedOfJson impl, twin := ← optJVal impl "twin" })
        | _, _ => pure []
      return Json.mkObj [("model", Json.mkObj [("tree", errToJson e)]), ("judge", jstrs judged)]
    | .ok (t', outs) =>
      let ex := exportDatatype consts t'
      let derived : Except Err (DInfo Float) :=
        if (← fldStr j "final") == "copy" then copy consts t'
        else match ex with
          | .ok d => getDatatype consts d
          | .error e => .error e
      let judged : List String ← match impl.getObjVal? "refused" with
        | .ok (.str _) => pure []
        | _ => do pure (judgeHistory t' { derived := ← derivedOfJson impl, twin := ← optJVal impl "twin" })
      return Json.mkObj [
        ("model", Json.mkObj [("tree", dinfoToJson t'), ("exports", jarr (outs.map (exToJson jvalToJson))),
          ("datainfo", exToJson jvalToJson ex), ("tree2", exToJson dinfoToJson derived)]),
        ("snappable", .bool (DInfo.snapLimits t').isSome),
        ("judge", jstrs judged)]
  | "writable" =>
    let v ← ctypeOfJson (← fld j "value")
    let t ← ctypeOfJson (← fld j "target")
    return Json.mkObj [("model", .str (writableCheck (copyC v) (copyC t)).name)]
  | _ => throw s!"C03: unknown verb {k}"

end Frappy.Drive.C03
